(* Codec.v — executable models of src/odfdo/datatype.py (Boolean, Date, DateTime, Duration, Unit)
   and src/odfdo/utils/color.py (hex2rgb, rgb2hex, hexa_color).  Definitions only; proofs are in Codec*proof.v.
   Characters are Unicode code points (N); a string is a list of code points. *)
From Coq Require Import List ZArith NArith Bool Arith DecimalN DecimalFacts.
Import ListNotations.

Notation str := (list N).

(* ------------------------------------------------------------------ characters *)
Definition c_hash := 35%N.  Definition c_plus := 43%N.  Definition c_minus := 45%N. Definition c_dot := 46%N.
Definition c_colon := 58%N. Definition c_D := 68%N. Definition c_H := 72%N. Definition c_M := 77%N.
Definition c_P := 80%N. Definition c_S := 83%N. Definition c_T := 84%N. Definition c_Z := 90%N.
Definition c_0 := 48%N.

Fixpoint str_eqb (a b : str) : bool :=
  match a, b with
  | [], [] => true
  | x :: a', y :: b' => N.eqb x y && str_eqb a' b'
  | _, _ => false
  end.

(* ------------------------------------------------------------------ decimal text on the standard library's Decimal.uint *)
Fixpoint uint_chars (u : Decimal.uint) : str :=
  match u with
  | Decimal.Nil => []
  | Decimal.D0 r => 48%N :: uint_chars r | Decimal.D1 r => 49%N :: uint_chars r
  | Decimal.D2 r => 50%N :: uint_chars r | Decimal.D3 r => 51%N :: uint_chars r
  | Decimal.D4 r => 52%N :: uint_chars r | Decimal.D5 r => 53%N :: uint_chars r
  | Decimal.D6 r => 54%N :: uint_chars r | Decimal.D7 r => 55%N :: uint_chars r
  | Decimal.D8 r => 56%N :: uint_chars r | Decimal.D9 r => 57%N :: uint_chars r
  end.
(* ASCII digit: what re's \d under re.ASCII, and the repaired tests, accept *)
Definition is_digit (c : N) : bool := (48 <=? c)%N && (c <=? 57)%N.
Definition push_digit (c : N) (u : Decimal.uint) : Decimal.uint :=
  match (c - 48)%N with
  | 0%N => Decimal.D0 u | 1%N => Decimal.D1 u | 2%N => Decimal.D2 u | 3%N => Decimal.D3 u | 4%N => Decimal.D4 u
  | 5%N => Decimal.D5 u | 6%N => Decimal.D6 u | 7%N => Decimal.D7 u | 8%N => Decimal.D8 u | _ => Decimal.D9 u
  end.
(* greedy reader: the longest digit prefix *)
Fixpoint read_digits (s : str) : str * str :=
  match s with
  | c :: r => if is_digit c then let '(d, rest) := read_digits r in (c :: d, rest) else ([], s)
  | [] => ([], [])
  end.
Fixpoint chars_uint (d : str) : Decimal.uint :=
  match d with [] => Decimal.Nil | c :: r => push_digit c (chars_uint r) end.
(* int(text) of a non-empty all-digit text *)
Definition digits_val (d : str) : N := N.of_uint (chars_uint d).
Definition read_N (s : str) : option (N * str) :=
  let '(d, rest) := read_digits s in
  match d with [] => None | _ => Some (digits_val d, rest) end.
(* str(n), "%d" % n *)
Definition print_N (n : N) : str := uint_chars (N.to_uint n).
(* "%02d" % n  (pads, never truncates) *)
Definition print_N2 (n : N) : str := if (n <? 10)%N then 48%N :: print_N n else print_N n.
Definition print_Z (z : Z) : str := if (z <? 0)%Z then c_minus :: print_N (Z.to_N (- z)) else print_N (Z.to_N z).
Definition starts_digit (s : str) : bool := match s with c :: _ => is_digit c | [] => false end.

(* fixed-width fields: "%0kd" % n for n < 10^k, and the k-digit reader of fromisoformat *)
Fixpoint print_fixed (k : nat) (n : N) : str :=
  match k with O => [] | S k' => (48 + (n / 10 ^ N.of_nat k') mod 10)%N :: print_fixed k' n end.
Fixpoint read_fixed_acc (k : nat) (acc : N) (s : str) : option (N * str) :=
  match k with
  | O => Some (acc, s)
  | S k' => match s with
            | c :: r => if is_digit c then read_fixed_acc k' (10 * acc + (c - 48))%N r else None
            | [] => None
            end
  end.
Definition read_fixed (k : nat) (s : str) : option (N * str) := read_fixed_acc k 0%N s.

(* ------------------------------------------------------------------ Boolean *)
Definition s_true : str := [116;114;117;101]%N.
Definition s_false : str := [102;97;108;115;101]%N.
Definition bool_encode (b : bool) : str := if b then s_true else s_false.
(* Boolean.encode on its whole signature: value is True / False, or str(value).lower() is "true" / "false" (bytes, ints ... -> TypeError).
   str.lower is modelled on ASCII: no non-ASCII character lower-cases to a letter of "true" or "false". *)
Inductive binput := BBool (b : bool) | BStr (s : str) | BOther.
Definition lower_str (s : str) : str := map (fun c => if (65 <=? c)%N && (c <=? 90)%N then (c + 32)%N else c) s.
Definition bool_encode_any (i : binput) : option str :=
  match i with
  | BBool b => Some (bool_encode b)
  | BStr s => if str_eqb (lower_str s) s_true then Some s_true else if str_eqb (lower_str s) s_false then Some s_false else None
  | BOther => None
  end.
Definition bool_decode (t : str) : option bool :=
  if str_eqb t s_true then Some true else if str_eqb t s_false then Some false else None.
Definition bool_lexical (t : str) : bool := str_eqb t s_true || str_eqb t s_false.

(* ------------------------------------------------------------------ Duration
   A timedelta is its total number of microseconds (Z).  Duration.encode:
     days < 0  <->  total < 0 (timedelta is normalised), microseconds := |total|,
     hours = microseconds / 3600e6 (true division, then %02d truncates: see CodecFloat.v), microseconds %= 3600e6, ...
   This is the REPAIRED encoder (fixes/F71); [dur_encode_pinned] below is the pinned one. *)
Definition dur_encode (us : Z) : str :=
  let a := Z.to_N (Z.abs us) in
  let hours := (a / 3600000000)%N in
  let a1 := (a mod 3600000000)%N in
  let minutes := (a1 / 60000000)%N in
  let a2 := (a1 mod 60000000)%N in
  let seconds := (a2 / 1000000)%N in
  let frac := (a2 mod 1000000)%N in                 (* fixes/F71: the sub-second part is kept as ".%06d" *)
  (if (us <? 0)%Z then [c_minus] else []) ++
  c_P :: c_T :: print_N2 hours ++ c_H :: print_N2 minutes ++ c_M :: print_N2 seconds ++
  (if (frac =? 0)%N then [] else c_dot :: print_fixed 6 frac) ++ [c_S].
(* pinned Duration.encode: the fraction is dropped *)
Definition dur_encode_pinned (us : Z) : str :=
  let a := Z.to_N (Z.abs us) in
  let a1 := (a mod 3600000000)%N in
  let a2 := (a1 mod 60000000)%N in
  (if (us <? 0)%Z then [c_minus] else []) ++
  c_P :: c_T :: print_N2 (a / 3600000000) ++ c_H :: print_N2 (a1 / 60000000) ++ c_M :: print_N2 (a2 / 1000000) ++ [c_S].
Definition dur_encode_s (s : Z) : str := dur_encode (s * 1000000).

(* repaired Duration.decode (fixes/F23): fullmatch of
      (-?)P(?:(\d+)D)?(?:T(?:(\d+)H)?(?:(\d+)M)?(?:(\d+)(?:\.(\d+))?S)?)?     (re.ASCII)
   and the last character is not P or T (at least one component; T is followed by a component).
   microseconds = int((fraction + "000000")[:6]).  Result in microseconds. *)
Definition opt_part (c : N) (s : str) : option (N * str) :=
  match read_N s with
  | Some (n, c' :: rest) => if (c' =? c)%N then Some (n, rest) else None
  | _ => None
  end.
Definition part_or_zero (c : N) (s : str) : N * str * bool :=
  match opt_part c s with Some (n, rest) => (n, rest, true) | None => (0%N, s, false) end.
Definition frac6 (d : str) : N :=
  match read_fixed 6 (firstn 6 (d ++ [48;48;48;48;48;48]%N)) with Some (n, _) => n | None => 0%N end.
(* seconds with optional fraction:  (\d+)(?:\.(\d+))?S   -> (seconds, microseconds, rest) *)
Definition opt_seconds (s : str) : option (N * N * str) :=
  match read_N s with
  | Some (n, c' :: rest) =>
      if (c' =? c_S)%N then Some (n, 0%N, rest)
      else if (c' =? c_dot)%N then
        let '(d, rest') := read_digits rest in
        match d, rest' with
        | _ :: _, c'' :: rest'' => if (c'' =? c_S)%N then Some (n, frac6 d, rest'') else None
        | _, _ => None
        end
      else None
  | _ => None
  end.
Definition dur_body (sg : Z) (t1 : str) : option Z :=
  match t1 with
  | c :: t2 =>
    if negb (c =? c_P)%N then None else
    let '(d, t3, hd) := part_or_zero c_D t2 in
    match t3 with
    | [] => if hd then Some (sg * Z.of_N (d * 86400 * 1000000))%Z else None
    | c' :: t4 =>
      if negb (c' =? c_T)%N then None else
      let '(h, t5, hh) := part_or_zero c_H t4 in
      let '(m, t6, hm) := part_or_zero c_M t5 in
      match t6 with
      | [] => if hh || hm then Some (sg * Z.of_N ((d * 86400 + h * 3600 + m * 60) * 1000000))%Z else None
      | _ => match opt_seconds t6 with
             | Some (sec, us, []) => Some (sg * Z.of_N ((d * 86400 + h * 3600 + m * 60 + sec) * 1000000 + us))%Z
             | _ => None
             end
      end
    end
  | [] => None
  end.
Definition dur_decode (t : str) : option Z :=
  match t with
  | c :: r => if (c =? c_minus)%N then dur_body (-1) r else dur_body 1 t
  | [] => None
  end.

(* pinned Duration.decode (the loop as written; str.isdigit modelled on ASCII, so the model is faithful on ASCII input).
   state: days hours minutes seconds buffer.  int("") raises -> None. *)
Definition int_buf (b : str) : option N := match b with [] => None | _ => Some (digits_val b) end.
Fixpoint dur_pinned_loop (s : str) (d h m sec : N) (buf : str) : option (N * N * N * N * str) :=
  match s with
  | [] => Some (d, h, m, sec, buf)
  | c :: r =>
    if is_digit c then dur_pinned_loop r d h m sec (buf ++ [c])
    else if (c =? c_D)%N then match int_buf buf with Some n => dur_pinned_loop r n h m sec [] | None => None end
    else if (c =? c_H)%N then match int_buf buf with Some n => dur_pinned_loop r d n m sec [] | None => None end
    else if (c =? c_M)%N then match int_buf buf with Some n => dur_pinned_loop r d h n sec [] | None => None end
    else if (c =? c_S)%N then match int_buf buf with Some n => Some (d, h, m, n, []) | None => None end   (* break *)
    else dur_pinned_loop r d h m sec buf
  end.
Definition dur_decode_pinned (t : str) : option Z :=
  let sign := match t with
              | c :: r => if (c =? c_P)%N then Some 1%Z
                          else match r with c2 :: _ => if (c =? c_minus)%N && (c2 =? c_P)%N then Some (-1)%Z else None | [] => None end
              | [] => None end in
  match sign with
  | None => None
  | Some sg =>
    match dur_pinned_loop t 0 0 0 0 [] with
    | Some (d, h, m, sec, []) => Some (sg * Z.of_N ((d * 86400 + h * 3600 + m * 60 + sec) * 1000000))%Z
    | _ => None
    end
  end.

(* the lexical space of xsd:duration restricted to what a timedelta can hold (no year / month designators), as a
   specification by decomposition, independent of any parsing strategy *)
Definition digit_str (d : str) : Prop := d <> [] /\ forallb is_digit d = true.
Definition comp (c : N) (o : option str) : str := match o with Some d => d ++ [c] | None => [] end.
Definition comp_val (o : option str) : N := match o with Some d => digits_val d | None => 0%N end.
Definition opt_digit_str (o : option str) : Prop := match o with Some d => digit_str d | None => True end.
Definition is_some {A} (o : option A) : bool := match o with Some _ => true | None => false end.
(* seconds component with optional fraction *)
Definition sec_comp (o : option (str * option str)) : str :=
  match o with
  | Some (d, None) => d ++ [c_S]
  | Some (d, Some f) => d ++ c_dot :: f ++ [c_S]
  | None => [] end.
Definition sec_ok (o : option (str * option str)) : Prop :=
  match o with
  | Some (d, None) => digit_str d
  | Some (d, Some f) => digit_str d /\ digit_str f
  | None => True end.
Definition sec_us (o : option (str * option str)) : N :=
  match o with
  | Some (d, None) => (digits_val d * 1000000)%N
  | Some (d, Some f) => (digits_val d * 1000000 + frac6 f)%N
  | None => 0%N end.
(* [xsd_dur t v]: t is  -?P(nD)?(T(nH)?(nM)?(n(.f)?S)?)?  with at least one component, at least one after T, and denotes v microseconds
   (fraction truncated to microseconds) *)
Definition xsd_dur (t : str) (v : Z) : Prop :=
  exists (neg : bool) (d h m : option str) (s : option (str * option str)),
    opt_digit_str d /\ opt_digit_str h /\ opt_digit_str m /\ sec_ok s /\
    let time := is_some h || is_some m || is_some s in
    (is_some d || time = true) /\
    t = (if neg then [c_minus] else []) ++ c_P :: comp c_D d ++
        (if time then c_T :: comp c_H h ++ comp c_M m ++ sec_comp s else []) /\
    v = ((if neg then -1 else 1) *
         Z.of_N ((comp_val d * 86400 + comp_val h * 3600 + comp_val m * 60) * 1000000 + sec_us s))%Z.

(* the boolean form used by the correspondence: by CodecDurproof.dur_lexical_iff it is true exactly on the strings t for which
   some v has [xsd_dur t v] *)
Definition dur_lexical (t : str) : bool := is_some (dur_decode t).

(* ------------------------------------------------------------------ Date / DateTime
   datetime record; tz = None (naive) or Some offset in MICROSECONDS, |offset| < 24 h.  [valid_tz] (the domain of the theorems)
   asks for a whole number of seconds; the functions below handle any microsecond offset, as datetime does. *)
Record dtime := mkdt { yr : N; mo : N; dy : N; hh : N; mi : N; ss : N; us : N; tz : option Z }.

Definition is_leap (y : N) : bool := ((y mod 4 =? 0) && negb (y mod 100 =? 0) || (y mod 400 =? 0))%N.
Definition days_in_month (y m : N) : N :=
  if (m =? 2)%N then (if is_leap y then 29%N else 28%N)
  else if ((m =? 4) || (m =? 6) || (m =? 9) || (m =? 11))%N then 30%N else 31%N.
Definition valid_date (y m d : N) : bool :=
  ((1 <=? y) && (y <=? 9999) && (1 <=? m) && (m <=? 12) && (1 <=? d) && (d <=? days_in_month y m))%N.
Definition valid_tz (o : option Z) : bool :=
  match o with None => true | Some z => (-86400000000 <? z)%Z && (z <? 86400000000)%Z && (z mod 1000000 =? 0)%Z end.
Definition valid_dt (d : dtime) : bool :=
  valid_date (yr d) (mo d) (dy d) && (hh d <? 24)%N && (mi d <? 60)%N && (ss d <? 60)%N && (us d <? 1000000)%N && valid_tz (tz d).

(* date.isoformat() *)
Definition format_date (y m d : N) : str :=
  print_fixed 4 y ++ c_minus :: print_fixed 2 m ++ c_minus :: print_fixed 2 d.
(* datetime._format_offset: +HH:MM, then :SS when the offset has seconds or microseconds, then .ffffff when it has microseconds *)
Definition format_offset (o : option Z) : str :=
  match o with
  | None => []
  | Some z =>
    let a := Z.to_N (Z.abs z) in
    let sec := ((a mod 60000000) / 1000000)%N in
    let u := (a mod 1000000)%N in
    (if (z <? 0)%Z then c_minus else c_plus) :: print_fixed 2 (a / 3600000000) ++ c_colon :: print_fixed 2 ((a mod 3600000000) / 60000000) ++
    (if (sec =? 0)%N && (u =? 0)%N then []
     else c_colon :: print_fixed 2 sec ++ (if (u =? 0)%N then [] else c_dot :: print_fixed 6 u))
  end.
(* datetime.isoformat() *)
Definition isoformat (d : dtime) : str :=
  format_date (yr d) (mo d) (dy d) ++ c_T :: print_fixed 2 (hh d) ++ c_colon :: print_fixed 2 (mi d) ++ c_colon :: print_fixed 2 (ss d) ++
  (if (us d =? 0)%N then [] else c_dot :: print_fixed 6 (us d)) ++ format_offset (tz d).
Definition s_utc : str := [43;48;48;58;48;48]%N.        (* "+00:00" *)
Definition ends_with (t suf : str) : bool := str_eqb (skipn (length t - length suf) t) suf && (length suf <=? length t).
(* DateTime.encode *)
Definition datetime_encode (d : dtime) : str :=
  let text := isoformat d in
  if ends_with text s_utc then firstn (length text - 6) text ++ [c_Z] else text.
(* Date.encode (of a date, or of the date part of a datetime) *)
Definition date_encode (y m d : N) : str := format_date y m d.

(* datetime.fromisoformat on the xsd:date / xsd:dateTime subset:
     YYYY-MM-DD                                      -> midnight, naive
     YYYY-MM-DDTHH:MM:SS[.f+][Z|(+|-)HH:MM[:SS]]     (fraction truncated to 6 digits)  *)
Definition expect (c : N) (s : str) : option str :=
  match s with x :: r => if (x =? c)%N then Some r else None | [] => None end.
Definition parse_tz (s : str) : option (option Z) :=
  match s with
  | [] => Some None
  | c :: r =>
    if (c =? c_Z)%N then match r with [] => Some (Some 0%Z) | _ => None end
    else if (c =? c_plus)%N || (c =? c_minus)%N then
      match read_fixed 2 r with
      | Some (h, r1) =>
        match expect c_colon r1 with
        | Some r2 =>
          match read_fixed 2 r2 with
          | Some (m, r3) =>
            let fin (sec u : N) :=
              let tot := Z.of_N ((h * 3600 + m * 60 + sec) * 1000000 + u) in
              if (m <? 60)%N && (sec <? 60)%N && (tot <? 86400000000)%Z
              then Some (Some (if (c =? c_minus)%N then (- tot)%Z else tot)) else None in
            match r3 with
            | [] => fin 0%N 0%N
            | _ => match expect c_colon r3 with
                   | Some r4 => match read_fixed 2 r4 with
                                | Some (sec, []) => fin sec 0%N
                                | Some (sec, c5 :: r5) =>
                                    if (c5 =? c_dot)%N then
                                      let '(f, r6) := read_digits r5 in
                                      match f, r6 with _ :: _, [] => fin sec (frac6 f) | _, _ => None end
                                    else None
                                | None => None end
                   | None => None end
            end
          | None => None end
        | None => None end
      | None => None end
    else None
  end.
Definition parse_iso (s : str) : option dtime :=
  match read_fixed 4 s with
  | Some (y, s1) =>
    match expect c_minus s1 with
    | Some s2 =>
      match read_fixed 2 s2 with
      | Some (m, s3) =>
        match expect c_minus s3 with
        | Some s4 =>
          match read_fixed 2 s4 with
          | Some (d, s5) =>
            if negb (valid_date y m d) then None else
            match s5 with
            | [] => Some (mkdt y m d 0 0 0 0 None)
            | c :: t0 =>
              if negb (c =? c_T)%N then None else
              match read_fixed 2 t0 with
              | Some (h, t1) =>
                match expect c_colon t1 with
                | Some t2 =>
                  match read_fixed 2 t2 with
                  | Some (mn, t3) =>
                    match expect c_colon t3 with
                    | Some t4 =>
                      match read_fixed 2 t4 with
                      | Some (sc, t5) =>
                        let '(usec, t6, okf) :=
                          match t5 with
                          | c5 :: t5' => if (c5 =? c_dot)%N
                                         then let '(f, r) := read_digits t5' in
                                              match f with [] => (0%N, t5, false) | _ => (frac6 f, r, true) end
                                         else (0%N, t5, true)
                          | [] => (0%N, t5, true)
                          end in
                        if negb okf then None else
                        match parse_tz t6 with
                        | Some z => if (h <? 24)%N && (mn <? 60)%N && (sc <? 60)%N then Some (mkdt y m d h mn sc usec z) else None
                        | None => None
                        end
                      | None => None end
                    | None => None end
                  | None => None end
                | None => None end
              | None => None end
            end
          | None => None end
        | None => None end
      | None => None end
    | None => None end
  | None => None end.
(* '"T" in text' : how the typed readers tell a dateTime from a date *)
Definition has_T (s : str) : bool := existsb (fun c => (c =? c_T)%N) s.
Definition datetime_decode (t : str) : option dtime := parse_iso t.
Definition date_decode (t : str) : option dtime := parse_iso t.

Definition optZ_eqb (a b : option Z) : bool :=
  match a, b with None, None => true | Some x, Some y => Z.eqb x y | _, _ => false end.
Definition dtime_eqb (a b : dtime) : bool :=
  (yr a =? yr b)%N && (mo a =? mo b)%N && (dy a =? dy b)%N && (hh a =? hh b)%N && (mi a =? mi b)%N &&
  (ss a =? ss b)%N && (us a =? us b)%N && optZ_eqb (tz a) (tz b).

(* lexical predicates, written as independent character-class matchers (the regular expressions of the property record):
   xsd:date on years 0001..9999:  \d{4}-\d{2}-\d{2} ;   xsd:dateTime:  \d{4}-\d{2}-\d{2}T\d{2}:\d{2}:\d{2}(\.\d+)?(Z|[+-]\d{2}:\d{2})?  *)
Inductive pat := PD (* one ASCII digit *) | PC (c : N).
Fixpoint match_pat (p : list pat) (s : str) : option str :=
  match p with
  | [] => Some s
  | PD :: p' => match s with c :: r => if is_digit c then match_pat p' r else None | [] => None end
  | PC x :: p' => match s with c :: r => if (c =? x)%N then match_pat p' r else None | [] => None end
  end.
Definition pat_date := [PD;PD;PD;PD;PC c_minus;PD;PD;PC c_minus;PD;PD].
Definition pat_time := [PC c_T;PD;PD;PC c_colon;PD;PD;PC c_colon;PD;PD].
Definition pat_hhmm := [PD;PD;PC c_colon;PD;PD].
Definition date_lexical (t : str) : bool := match match_pat pat_date t with Some [] => true | _ => false end.
Definition tz_lexical (s : str) : bool :=
  match s with
  | [] => true
  | c :: r => if (c =? c_Z)%N then match r with [] => true | _ => false end
              else ((c =? c_plus)%N || (c =? c_minus)%N) && match match_pat pat_hhmm r with Some [] => true | _ => false end
  end.
Definition datetime_lexical (t : str) : bool :=
  match match_pat (pat_date ++ pat_time) t with
  | Some r =>
    match r with
    | c :: r' => if (c =? c_dot)%N then let '(f, r'') := read_digits r' in negb (match f with [] => true | _ => false end) && tz_lexical r''
                 else tz_lexical r
    | [] => true
    end
  | None => false
  end.
(* ------------------------------------------------------------------ colours *)
Definition hex_digit (n : N) : N := if (n <? 10)%N then (48 + n)%N else (55 + n)%N.     (* "%X" : upper case *)
Definition hex2 (n : N) : str := [hex_digit (n / 16); hex_digit (n mod 16)].            (* "%02X" for n < 256 *)
(* rgb2hex of a 3-tuple of ints: channels outside 0..255 raise *)
Definition rgb2hex (r g b : Z) : option str :=
  if ((0 <=? r) && (r <=? 255) && (0 <=? g) && (g <=? 255) && (0 <=? b) && (b <=? 255))%Z
  then Some (c_hash :: hex2 (Z.to_N r) ++ hex2 (Z.to_N g) ++ hex2 (Z.to_N b)) else None.
(* value of an ASCII hexadecimal digit, as int(..., 16) reads it *)
Definition hex_val (c : N) : option N :=
  if is_digit c then Some (c - 48)%N
  else if (65 <=? c)%N && (c <=? 70)%N then Some (c - 55)%N
  else if (97 <=? c)%N && (c <=? 102)%N then Some (c - 87)%N
  else None.
(* int(text, 16) also accepts any Unicode decimal digit (category Nd).  Pinned model: the blocks below
   (zero code points of some Nd runs) stand for that table; the model is faithful on ASCII and on these blocks. *)
Definition nd_zeros : list N := [1632; 1776; 1984; 2406; 2534; 65296]%N.
Definition nd_val (c : N) : option N :=
  match filter (fun z => (z <=? c)%N && (c <=? z + 9)%N) nd_zeros with z :: _ => Some (c - z)%N | [] => None end.
Definition hex_val_pinned (c : N) : option N :=
  match hex_val c with Some v => Some v | None => nd_val c end.
(* str.isalnum on one character: ASCII letters and digits; the non-ASCII digits above; other non-ASCII letters are
   alphanumeric too but int(..., 16) rejects them, so they do not matter for the result *)
Definition is_alnum_pinned (c : N) : bool :=
  is_digit c || ((65 <=? c)%N && (c <=? 90)%N) || ((97 <=? c)%N && (c <=? 122)%N) || is_some (nd_val c) || (128 <=? c)%N.
Definition is_ascii (c : N) : bool := (c <? 128)%N.
Definition hex_pair (hv : N -> option N) (a b : N) : option N :=
  match hv a, hv b with Some x, Some y => Some (16 * x + y)%N | _, _ => None end.
Definition hex2rgb_gen (alnum : N -> bool) (hv : N -> option N) (color : str) : option (N * N * N) :=
  match color with
  | [h; a; b; c; d; e; f] =>
    if (h =? c_hash)%N && forallb alnum [a; b; c; d; e; f] then
      match hex_pair hv a b, hex_pair hv c d, hex_pair hv e f with
      | Some r, Some g, Some bl => Some (r, g, bl)
      | _, _, _ => None
      end
    else None
  | _ => None
  end.
Definition hex2rgb_pinned := hex2rgb_gen is_alnum_pinned hex_val_pinned.
(* repaired (fixes/F29): code.isascii() and code.isalnum() *)
Definition hex2rgb := hex2rgb_gen (fun c => is_ascii c && is_alnum_pinned c) hex_val.
(* #RRGGBB, either case *)
Definition is_hex (c : N) : bool := is_some (hex_val c).
Definition color_lexical (t : str) : bool :=
  match t with [h; a; b; c; d; e; f] => (h =? c_hash)%N && forallb is_hex [a; b; c; d; e; f] | _ => false end.

(* CSS names: str.lower on ASCII, dictionary lookup in the generated table *)
Definition ascii_lower (c : N) : N := if (65 <=? c)%N && (c <=? 90)%N then (c + 32)%N else c.
Fixpoint lookup {A} (k : str) (tbl : list (str * A)) : option A :=
  match tbl with [] => None | (k', v) :: r => if str_eqb k k' then Some v else lookup k r end.
Definition rgb2hex_name (tbl : list (str * (Z * Z * Z))) (name : str) : option str :=
  match lookup (map ascii_lower name) tbl with
  | Some (r, g, b) => rgb2hex r g b
  | None => None
  end.
(* hexa_color on a string: strip, "" -> black, "#..." returned unchanged, else CSS name.  ASCII white space. *)
Definition is_space (c : N) : bool := (c =? 32)%N || ((9 <=? c)%N && (c <=? 13)%N) || ((28 <=? c)%N && (c <=? 31)%N).
Fixpoint lstrip (s : str) : str := match s with c :: r => if is_space c then lstrip r else s | [] => [] end.
Definition strip (s : str) : str := rev (lstrip (rev (lstrip s))).
(* hexa_color(color): every input form.  Result: None = raises; Some None = returns None; Some (Some s) = returns s.
   A string that starts with '#' is returned as it is, whatever follows (pinned by tests/style/test_style_property.py with "#f00"). *)
Inductive hinput := HNone | HTuple (channels : list Z) | HStr (s : str) | HOther.   (* HOther: int, list, dict, bytes ... -> TypeError *)
Definition s_black : str := c_hash :: [48;48;48;48;48;48]%N.
Definition hexa_color (tbl : list (str * (Z * Z * Z))) (i : hinput) : option (option str) :=
  match i with
  | HNone => Some None
  | HTuple [r; g; b] => match rgb2hex r g b with Some h => Some (Some h) | None => None end
  | HTuple _ => None
  | HOther => None
  | HStr color =>
    let c := strip color in
    match c with
    | [] => Some (Some s_black)
    | x :: _ => if (x =? c_hash)%N then Some (Some c)
                else match rgb2hex_name tbl c with Some h => Some (Some h) | None => None end
    end
  end.
(* the colour an input denotes, when it denotes one *)
Definition hexa_denotes (tbl : list (str * (Z * Z * Z))) (i : hinput) : option (N * N * N) :=
  match i with
  | HTuple [r; g; b] => if ((0 <=? r) && (r <=? 255) && (0 <=? g) && (g <=? 255) && (0 <=? b) && (b <=? 255))%Z then Some (Z.to_N r, Z.to_N g, Z.to_N b) else None
  | HStr color =>
    match strip color with
    | [] => Some (0, 0, 0)%N
    | x :: r => if (x =? c_hash)%N then hex2rgb (x :: r)
                else match lookup (map ascii_lower (x :: r)) tbl with
                     | Some (r', g, b) => if ((0 <=? r') && (r' <=? 255) && (0 <=? g) && (g <=? 255) && (0 <=? b) && (b <=? 255))%Z then Some (Z.to_N r', Z.to_N g, Z.to_N b) else None
                     | None => None end
    end
  | _ => None
  end.
