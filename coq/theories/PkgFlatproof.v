(* PkgFlatproof.v — flat XML export: the file holds, in the order meta, settings, styles, content, exactly the children of the
   trees the document has in memory (whole subtrees, not only their order) *)
From Coq Require Import List ZArith Bool Arith Lia.
Import ListNotations.
Require Import Package PkgManproof PkgZipproof Pkgproof Pkgproof2 Pkgproof3 Pkgproof4 Pkgproof5 PkgStepWF PkgStepWF4.
Open Scope Z_scope.

Section F.
Variable xml bytes kid : Type.
Variable ser : xml -> bytes.
Variable par : bytes -> xml.
Variable pretty stamp : xml -> xml.
Variable entries : xml -> mentries.
Variable kids : xml -> list kid.
Variable mime : bytes -> mtype.
Variable rdf0 : bytes.
Hypothesis par_ser : forall x, par (ser x) = x.
Notation document := (document xml bytes).
Notation fsys := (fsys bytes kid).
Notation dB := (dB xml bytes kid).
Notation dX := (dX xml bytes kid par).
Notation WFd := (WFd xml bytes kid).
Notation d_save := (d_save xml bytes kid ser par pretty stamp entries kids mime rdf0 FIXED).
Notation check_rdf := (check_rdf xml bytes kid par entries rdf0 FIXED).
Notation c_save := (c_save xml bytes kid par kids mime FIXED).

Definition kids_of (fs : fsys) (d : document) (n : name) : list kid := match dX fs d n with Some x => kids x | None => [] end.

Theorem flatxml_is_memory : forall fs (d : document) t pty fs' d', WFd fs d ->
  d_save fs d t PXml pty = (fs', d', true) ->
  exists m, lookup (tgt_id t) fs' = Some (FFlat m (kids_of fs d' META ++ kids_of fs d' SETTINGS ++ kids_of fs d' STYLES ++ kids_of fs d' CONTENT)).
Proof.
  intros fs d t pty fs' d' W H. unfold Package.d_save in H.
  pose proof (d_tree_sem xml bytes kid par fs META d W is_xml_META) as [_ [_ [_ [W1 [_ [_ T7]]]]]].
  destruct (Package.d_tree xml bytes kid par FIXED fs META d) as [d1 [x|]]; cbn [fst snd] in *; [|inversion H].
  destruct (T7 ltac:(discriminate)) as [x0 [Lx0 _]].
  destruct (set_tree_sem xml bytes kid par fs META (stamp x) d1 W1 is_xml_META (wfd_live _ _ _ _ _ W1 META x0 Lx0)) as [W2 _].
  pose proof (check_rdf_wf xml bytes kid par entries rdf0 fs _ W2) as W3.
  destruct (check_rdf fs (set_tree xml bytes META (stamp x) d1)) as [d3 ok3]. cbn [fst] in W3.
  destruct ok3; cbn [negb] in H; [|inversion H].
  match type of H with (let '(d4, ok4) := ?L in _) = _ => destruct L as [d4 ok4] eqn:EL end.
  destruct ok4; cbn [negb] in H; [|inversion H].
  assert (Hm : forall y, (fun z : xml => z) (lay xml pretty (pty && negb (pk_eqb PXml PXml)) y) = y).
  { intros y. cbn [pk_eqb negb]. rewrite andb_false_r. reflexivity. }
  destruct (save_loops xml bytes kid ser par pretty xml (fun z => z) par_ser pty PXml fs d3 d4 true W3 Hm EL eq_refl) as [Fl W4].
  destruct (load_all_listing bytes kid fs (cont _ _ d4) (wfd_c _ _ _ _ _ W4)) as [A1 [A2 [A3 [A4 A5]]]].
  unfold Package.c_save in H.
  set (c1 := c_load_missing bytes kid FIXED fs (c_listing bytes kid FIXED fs (cont _ _ d4)) (cont _ _ d4)) in *.
  pose proof (all_loaded_live bytes kid fs c1 A2 A5) as Hlive.
  destruct (lookup MIMETYPE (live _ c1)) as [mb|]; inversion H; subst fs' d'; clear H.
  exists (mime mb). rewrite lookup_upsert_eq. f_equal. f_equal. unfold flat_kids. cbn [flat_map]. rewrite app_nil_r.
  assert (K : forall n, is_xml n = true ->
              match lookup n (live _ c1) with Some b => kids (par b) | None => [] end = kids_of fs (d_with_cont _ _ d4 c1) n).
  { intros n Xn. rewrite Hlive, A1. change (cB bytes kid fs (cont _ _ d4) n) with (dB fs d4 n).
    unfold kids_of. assert (HX : dX fs (d_with_cont _ _ d4 c1) n = dX fs d4 n).
    { unfold Pkgproof.dX, Pkgproof.dB. cbn [xps cont d_with_cont]. rewrite A1. reflexivity. }
    rewrite HX. specialize (Fl n Xn). destruct (dB fs d4 n) as [b|].
    - destruct Fl as [y [Hy E]]. rewrite Hy. cbn in E. rewrite E. reflexivity.
    - rewrite Fl. reflexivity. }
  rewrite (K META eq_refl), (K SETTINGS eq_refl), (K STYLES eq_refl), (K CONTENT eq_refl). reflexivity.
Qed.
End F.
