(* Executable model of src/odfdo/toc.py (TOC._header_numbering, TOC.fill) and of the outline printed by
   src/odfdo/scripts/headers.py, plus the specification (array of outline counters).  Definitions only. *)
From Coq Require Import List ZArith Bool Arith.
Require Import WS.
Import ListNotations.
Open Scope Z_scope.

(* ------------------------------------------------------------------ str(int) on top of the stdlib's Decimal *)
Definition dtok (d : nat) : tok := Ch (48 + d).                  (* '0' = 48 *)
Fixpoint uint_toks (u : Decimal.uint) : str :=
  match u with
  | Decimal.Nil => []
  | Decimal.D0 r => dtok 0 :: uint_toks r | Decimal.D1 r => dtok 1 :: uint_toks r
  | Decimal.D2 r => dtok 2 :: uint_toks r | Decimal.D3 r => dtok 3 :: uint_toks r
  | Decimal.D4 r => dtok 4 :: uint_toks r | Decimal.D5 r => dtok 5 :: uint_toks r
  | Decimal.D6 r => dtok 6 :: uint_toks r | Decimal.D7 r => dtok 7 :: uint_toks r
  | Decimal.D8 r => dtok 8 :: uint_toks r | Decimal.D9 r => dtok 9 :: uint_toks r
  end.
Definition minus_tok : tok := Ch 45.
Definition dot : tok := Ch 46.
Definition print_Z (z : Z) : str :=
  match z with
  | Zneg p => minus_tok :: uint_toks (Pos.to_uint p)
  | _ => uint_toks (N.to_uint (Z.to_N z))
  end.

(* ".".join(str(x) for x in numbers) + "." *)
Fixpoint join_dot (l : list Z) : str :=
  match l with
  | [] => []
  | [x] => print_Z x
  | x :: r => print_Z x ++ dot :: join_dot r
  end.
Definition number_str (nums : list Z) : str := join_dot nums ++ [dot].

(* ------------------------------------------------------------------ level_indexes : dict[int, int] *)
Definition dict := list (Z * Z).
Fixpoint dget (k : Z) (d : dict) : option Z :=
  match d with [] => None | (k', v) :: r => if k =? k' then Some v else dget k r end.
Fixpoint dset (k v : Z) (d : dict) : dict :=
  match d with [] => [(k, v)] | (k', v') :: r => if k =? k' then (k, v) :: r else (k', v') :: dset k v r end.
Definition ddel (k : Z) (d : dict) : dict := filter (fun p => negb (k =? fst p)) d.

(* for idx in range(1, level): numbers.append(level_indexes.setdefault(idx, 1)) *)
Fixpoint before_levels (n : nat) (idx : Z) (d : dict) (acc : list Z) : dict * list Z :=
  match n with
  | O => (d, rev acc)
  | S n' => match dget idx d with
            | Some v => before_levels n' (idx + 1) d (v :: acc)
            | None => before_levels n' (idx + 1) (dset idx 1 d) (1 :: acc)
            end
  end.
(* idx = level + 1;  while idx in level_indexes: del level_indexes[idx]; idx += 1
   explicit fuel; the caller passes the size of the dict, which suffices (Tocproof.del_after_spec) *)
Fixpoint del_after (fuel : nat) (idx : Z) (d : dict) : dict :=
  match fuel with
  | O => d
  | S f => match dget idx d with Some _ => del_after f (idx + 1) (ddel idx d) | None => d end
  end.
Definition header_numbering (d : dict) (level : Z) : dict * list Z :=
  let '(d1, nums) := before_levels (Z.to_nat (level - 1)) 1 d [] in
  let index := match dget level d1 with Some v => v + 1 | None => 1 end in
  let d2 := dset level index d1 in
  (del_after (length d2) (level + 1) d2, nums ++ [index]).

Fixpoint numbering (d : dict) (levels : list Z) : list (list Z) :=
  match levels with
  | [] => []
  | l :: r => let '(d', n) := header_numbering d l in n :: numbering d' r
  end.

(* ------------------------------------------------------------------ headings *)
(* content of a text:h: character data, text:s, text:tab, text:line-break, text:span (nested), a hyperlink text:a (its
   text counts, its target does not), a footnote / endnote / annotation (HNote: no part of the heading's text) *)
Inductive hitem := HStr (s : str) | HS (n : nat) | HTab | HLb | HSpan (kids : list hitem) | HLink (kids : list hitem) | HNote.

(* the text of a heading as the entry shows it.  For text, white-space elements and spans this is Element.inner_text
   (= text + "".join(str(child) + tail);  str(Spacer) = " " * c, str(Tab) = "\t", str(LineBreak) = "\n",
   str(Span) = inner_text); the repaired code (fixes/F99, toc.heading_plain_text) also reduces a link to its text
   and leaves notes out, where inner_text would give "[text](url)" and "citation. note body" *)
Fixpoint inner_item (it : hitem) : str :=
  match it with
  | HStr s => s
  | HS n => repeat Sp n
  | HTab => [Tb]
  | HLb => [Nl]
  | HSpan kids => flat_map inner_item kids
  | HLink kids => flat_map inner_item kids
  | HNote => []
  end.
Definition inner_text (its : list hitem) : str := flat_map inner_item its.

Record heading := mkH { hlevel : Z; hcontent : list hitem }.

(* Paragraph.__str__ = inner_text + "\n" (pinned code: f"{number_str} {header}");
   repaired code (fixes/F26): f"{number_str} {header.inner_text}" *)
Definition header_text (pinned : bool) (h : heading) : str :=
  inner_text (hcontent h) ++ (if pinned then [Nl] else []).

(* ------------------------------------------------------------------ TOC.fill *)
(* self.outline_level or 10 : attribute absent -> None -> 10;  0 -> 10 *)
Definition eff_outline (o : option Z) : Z :=
  match o with None => 10 | Some v => if v =? 0 then 10 else v end.

(* one entry: (level used for the style name, content of the text:p) *)
Definition entry := (Z * list item)%type.

Fixpoint fill_loop (pinned : bool) (d : dict) (ol : Z) (hs : list heading) : list entry :=
  match hs with
  | [] => []
  | h :: r =>
    if hlevel h >? ol then fill_loop pinned d ol r
    else let '(d', nums) := header_numbering d (hlevel h) in
         (hlevel h, append_plain_text [] (number_str nums ++ Sp :: header_text pinned h))
         :: fill_loop pinned d' ol r
  end.

(* the text:table-of-content as far as the property looks at it.
   ttitle: the text:index-title child of the index body, identified by an opaque id (the harness interns its
   canonical XML) and whether str(title) is non-empty;  toutline: text:outline-level of the source element *)
Record toc := mkT { ttitle : option (nat * bool); toutline : option Z; tentries : list entry }.

Definition keep_title (t : option (nat * bool)) : option (nat * bool) :=
  match t with Some (id, true) => Some (id, true) | _ => None end.   (* if title and str(title): insert *)

Definition fill_gen (pinned : bool) (t : toc) (hs : list heading) : toc :=
  mkT (keep_title (ttitle t)) (toutline t) (fill_loop pinned [] (eff_outline (toutline t)) hs).
Definition fill := fill_gen false.          (* repaired code *)
Definition fill_pinned := fill_gen true.    (* code as pinned *)

(* a document: its headings in document order (descendant::text:h of the body) and its TOCs *)
Record doc := mkD { dheads : list heading; dtocs : list toc }.
Fixpoint upd {A} (l : list A) (k : nat) (f : A -> A) : list A :=
  match l, k with
  | [], _ => []
  | x :: r, O => f x :: r
  | x :: r, S k' => x :: upd r k' f
  end.
Definition fill_doc (pinned : bool) (d : doc) (k : nat) : doc :=
  mkD (dheads d) (upd (dtocs d) k (fun t => fill_gen pinned t (dheads d))).

(* ------------------------------------------------------------------ scripts/headers.py : headers_document *)
(* print(f"{number_str} {header}", end="")  for the headers with level <= depth; no 0 -> 10 mapping there *)
Fixpoint tool_loop (d : dict) (depth : Z) (hs : list heading) : str :=
  match hs with
  | [] => []
  | h :: r =>
    if hlevel h >? depth then tool_loop d depth r
    else let '(d', nums) := header_numbering d (hlevel h) in
         (number_str nums ++ Sp :: header_text true h) ++ tool_loop d' depth r
  end.
Definition headers_tool (depth : Z) (hs : list heading) : str := tool_loop [] depth hs.

(* ------------------------------------------------------------------ Specification *)
(* outline numbering as word processors do it: one counter per level (0 = not yet used).  A heading whose own
   counter is at (0-based) position [pos] makes every unused ancestor counter 1 (and it stays), adds one to its
   own counter and clears the deeper ones; its number is counters 0..pos. *)
Fixpoint bump (cs : list Z) (pos : nat) : list Z :=
  match cs with
  | [] => []
  | c :: r => match pos with
              | O => (c + 1) :: repeat 0 (length r)
              | S p => (if c =? 0 then 1 else c) :: bump r p
              end
  end.
Definition level_pos (level : Z) : nat := Z.to_nat (level - 1).
Fixpoint spec_numbering (cs : list Z) (levels : list Z) : list (list Z) :=
  match levels with
  | [] => []
  | l :: r => let cs' := bump cs (level_pos l) in firstn (S (level_pos l)) cs' :: spec_numbering cs' r
  end.
Definition counters0 (n : nat) : list Z := repeat 0 n.

(* what the property says the entries are: the headings whose level does not exceed the outline level, in order,
   each "number" + " " + text of the heading *)
Definition listed (ol : Z) (hs : list heading) : list heading := filter (fun h => hlevel h <=? ol) hs.
Definition spec_entries (ol : Z) (hs : list heading) : list str :=
  let hs' := listed ol hs in
  map (fun p => number_str (fst p) ++ Sp :: inner_text (hcontent (snd p)))
      (combine (spec_numbering (counters0 10) (map hlevel hs')) hs').

(* lexicographic order on numbers; a proper prefix is smaller *)
Fixpoint lex_lt (a b : list Z) : bool :=
  match a, b with
  | _, [] => false
  | [], _ :: _ => true
  | x :: a', y :: b' => (x <? y) || ((x =? y) && lex_lt a' b')
  end.
(* "the previous number's prefix, bumped at this level": keep l-1 components of the previous number (a missing
   one counts as 1), then previous component l (missing = 0) plus one *)
Fixpoint pad1 (n : nat) (l : list Z) : list Z :=
  match n with
  | O => []
  | S n' => match l with [] => 1 :: pad1 n' [] | x :: r => x :: pad1 n' r end
  end.
Definition next_number (prev : list Z) (level : Z) : list Z :=
  pad1 (level_pos level) prev ++ [nth (level_pos level) prev 0 + 1].
Fixpoint outline_numbers (prev : list Z) (levels : list Z) : list (list Z) :=
  match levels with
  | [] => []
  | l :: r => let n := next_number prev l in n :: outline_numbers n r
  end.
Fixpoint increasing (prev : list Z) (nums : list (list Z)) : bool :=
  match nums with [] => true | n :: r => lex_lt prev n && increasing n r end.

(* ------------------------------------------------------------------ boolean helpers used by the correspondence *)
Definition item_eqb (a b : item) : bool :=
  match a, b with
  | IStr x, IStr y => str_eqb x y | IS n, IS m => Nat.eqb n m | ITab, ITab | ILb, ILb => true
  | IElem i x, IElem j y => Nat.eqb i j && str_eqb x y | _, _ => false
  end.
Definition items_eqb (a b : list item) :=
  Nat.eqb (length a) (length b) && forallb (fun p => item_eqb (fst p) (snd p)) (combine a b).
Definition lz_eqb (a b : list Z) := Nat.eqb (length a) (length b) && forallb (fun p => fst p =? snd p) (combine a b).
Definition llz_eqb (a b : list (list Z)) :=
  Nat.eqb (length a) (length b) && forallb (fun p => lz_eqb (fst p) (snd p)) (combine a b).

(* sanity sweep before the induction (the theorem is Tocproof.numbering_eq_spec) *)
Fixpoint seqs4 (n : nat) : list (list Z) :=
  match n with O => [[]] | S k => flat_map (fun s => [1 :: s; 2 :: s; 3 :: s; 4 :: s]) (seqs4 k) ++ seqs4 k end.
Eval vm_compute in forallb (fun s => llz_eqb (numbering [] s) (spec_numbering (counters0 10) s)) (seqs4 5).
Eval vm_compute in numbering [] [2; 1; 3; 1; 2; 2; 4].
Eval vm_compute in number_str [12; 1; 103].
