"""Third case family of the table checks: tables that contain table:table-header-rows, table:table-rows,
table:table-header-columns, table:table-columns wrappers and table:table-row-group / table:table-column-group
elements.  The operations of the first alphabet are driven on them; every call must either refuse (raise) and leave
the raw table untouched, or behave on the visible table exactly as on a table without wrappers, keep the groups
untouched and leave structurally valid XML.  Checker: coq/theories/Tablexml2chk.v."""
import random, sys
from pathlib import Path
from lxml import etree
sys.path.insert(0, str(Path(__file__).resolve().parent))
import common
import tablelib as tl
from tablelib import T, NSDECL, timed, c_attr, c_zlist, c_read, c_op

WRAP = {T + 'table-header-rows': 'YHeaderRows', T + 'table-rows': 'YRows',
        T + 'table-header-columns': 'YHeaderCols', T + 'table-columns': 'YCols'}


def _node(ch, intern):
    if ch.tag == T + 'table-column':
        return ('col', ch.get(T + 'number-columns-repeated'), intern.attrs_id(intern.cola, ch, T + 'number-columns-repeated'))
    if ch.tag == T + 'table-row':
        return ('row', ch.get(T + 'number-rows-repeated'), intern.attrs_id(intern.rowa, ch, T + 'number-rows-repeated'),
                [intern.cell(c) for c in ch])
    return ('other', etree.QName(ch).localname)


def abs_xml2(xml_text, intern, groups):
    x = etree.fromstring('<r %s>%s</r>' % (NSDECL, xml_text))[0]
    out = []
    for ch in x:
        if ch.tag in WRAP:
            out.append((WRAP[ch.tag], [_node(c, intern) for c in ch]))
        elif ch.tag in (T + 'table-row-group', T + 'table-column-group'):
            key = etree.tostring(ch, method='c14n', with_tail=False)
            gid = groups.setdefault(key, len(groups) + 1)
            out.append(('YRowGroup' if ch.tag == T + 'table-row-group' else 'YColGroup', gid))
        else:
            out.append(('Y1', _node(ch, intern)))
    return out


def flat(nodes2):
    out = []
    for n in nodes2:
        if n[0] == 'Y1': out.append(n[1])
        elif n[0] in WRAP.values(): out += n[1]
    return out


def c_node(n):
    if n[0] == 'col': return 'XCol (%s) %d' % (c_attr(n[1]), n[2])
    if n[0] == 'row':
        return 'XRow (%s) %d [%s]' % (c_attr(n[1]), n[2], ';'.join(
            'XC %s (%s) %d %d' % ('true' if f else 'false', c_attr(r), v, s) for f, r, v, s in n[3]))
    return 'XOther'


def c_xtable2(nodes2):
    out = []
    for n in nodes2:
        if n[0] == 'Y1': out.append('Y1 (%s)' % c_node(n[1]))
        elif n[0] in ('YRowGroup', 'YColGroup'): out.append('%s %d' % n)
        else: out.append('%s [%s]' % (n[0], ';'.join(c_node(c) for c in n[1])))
    return '[' + ';\n  '.join(out) + ']'


HEADER3 = ('Require Import Vault Row Table Grid Tableabs Tablexml Tablechk Tablexml2 Tablexml2chk.\n'
           'From Coq Require Import List ZArith NArith Bool Arith. Import ListNotations. Open Scope Z_scope.\n'
           'Inductive stepobs3 := St3 (o : top) (post : xtable2) (raised : bool) (tm cm : list Z) (rmaps : list (nat * list Z)) (reads : list (tread * tans)).\n'
           'Fixpoint chk_hist3 (f : obs2 -> nat) (pre : xtable2) (i fid : nat) (l : list stepobs3) : nat :=\n'
           '  match l with [] => fid | St3 o post ra tm cm rm rd :: r =>\n'
           '    match f (Obs2 pre o post ra tm cm rm rd) with O => chk_hist3 f post (S i) fid r | 9%nat => chk_hist3 f post (S i) 9%nat r\n'
           '    | k => (100 * (S i) + k)%nat end end.\n'
           'Definition mkc3 (tab : list (Z * Z)) (init : xtable2) (l : list stepobs3) := (tab, init, l).\n'
           'Definition chk01g (c : list (Z * Z) * xtable2 * list stepobs3) : nat := let \'(tab, init, l) := c in chk_hist3 (chk_grp01 (vcl_of tab)) init 0 0 l.\n'
           'Definition chk07g (c : list (Z * Z) * xtable2 * list stepobs3) : nat := let \'(tab, init, l) := c in\n'
           '  if negb (XmlOK2 init) then 12%nat else chk_hist3 chk_grp07 init 0 0 l.\n')


class Driver3(tl.Driver):
    def __init__(self, odfdo, init_xml):
        self.groups = {}
        super().__init__(odfdo, init_xml)

    def abs(self):
        self.nodes2 = abs_xml2(timed(self.table.serialize), self.intern, self.groups)
        return flat(self.nodes2)


def run_case3(odfdo, case):
    res = _once(odfdo, case)
    if any(r['raised'] and 'CallTimeout' in r['raised'] for r in res.get('records', [])):
        saved = tl.CALL_TIMEOUT
        tl.CALL_TIMEOUT = saved * 10
        try: res = _once(odfdo, case)
        finally: tl.CALL_TIMEOUT = saved
    return res


def _once(odfdo, case):
    try:
        d = Driver3(odfdo, case['init_xml'])
        init2 = d.nodes2
    except Exception as e:
        return dict(term=None, error='initial table: %r' % (e,), records=[])
    recs, terms = [], []
    for st in case['steps']:
        a, raised = d.apply(st['op'])
        try:
            post = d.abs(); post2 = d.nodes2
            tm, cm, rm = tl.abs_maps(d.table)
        except Exception as e:
            return dict(term=None, error='abstraction: %r' % (e,), records=recs)
        reads = []
        if not raised:
            for q in st.get('reads', []):
                try: reads.append((q, d.read(q)))
                except Exception as e: raised = 'read %r: %r' % (q, e)
        recs.append(dict(op=st['op'], abstract_op=a, raised=raised, post=post, post2=post2, tmap=tm, cmap=cm, rmaps=rm, reads=reads))
        terms.append('St3 (%s)\n  %s %s %s %s [%s]\n  [%s]' % (
            c_op(a), c_xtable2(post2), 'true' if raised else 'false', c_zlist(tm), c_zlist(cm),
            ';'.join('(%d%%nat,%s)' % (i, c_zlist(m)) for i, m in rm), ';'.join(c_read(q, r) for q, r in reads)))
    term = '(mkc3 [%s] %s\n [%s])' % (';'.join('(%d,%d)' % p for p in d.vtab()), c_xtable2(init2), ';\n '.join(terms))
    return dict(term=term, error=None, records=recs, init=flat(init2))


def g_wrapped_table(rng, maxw, maxh):
    """a valid table with wrappers and groups around the usual run-length shapes"""
    rows, h = [], 0
    for _ in range(rng.randint(1, 5)):
        r = tl.g_rowspec(rng, 4)
        while sum(c[0] for c in r[2]) > maxw and r[2]: r[2].pop()
        if h + r[0] > maxh: r[0] = 1
        if h + r[0] > maxh: break
        h += r[0]; rows.append(r)
    w = max([sum(c[0] for c in r[2]) for r in rows] + [1]) + rng.choice([0, 0, 1])
    cols, left = [], w
    while left > 0:
        n = rng.randint(1, min(left, 3)); cols.append((n, rng.choice([None, 'cs']))); left -= n

    def col_x(c):
        return '<table:table-column%s%s/>' % (' table:number-columns-repeated="%d"' % c[0] if c[0] > 1 else '', ' table:style-name="%s"' % c[1] if c[1] else '')

    def row_x(r):
        return '<table:table-row%s%s>%s</table:table-row>' % (' table:style-name="%s"' % r[1] if r[1] else '',
               ' table:number-rows-repeated="%d"' % r[0] if r[0] > 1 else '', ''.join(tl.cell_xml(c) for c in r[2]))
    out = ['<table:table table:name="t">']
    cx = [col_x(c) for c in cols]
    mode = rng.choice(['plain', 'plain', 'hcols', 'cols', 'both'])
    if mode == 'plain' or len(cx) < 1: out += cx
    elif mode == 'hcols': out += ['<table:table-header-columns>%s</table:table-header-columns>' % cx[0]] + cx[1:]
    elif mode == 'cols': out += ['<table:table-columns>%s</table:table-columns>' % ''.join(cx)]
    else: out += ['<table:table-header-columns>%s</table:table-header-columns>' % cx[0]] + (['<table:table-columns>%s</table:table-columns>' % ''.join(cx[1:])] if cx[1:] else [])
    if rng.random() < 0.15:
        out.append('<table:table-column-group><table:table-column/></table:table-column-group>')
    rx = [row_x(r) for r in rows]
    k = rng.randint(0, min(2, len(rx)))
    body = []
    if k: body.append('<table:table-header-rows>%s</table:table-header-rows>' % ''.join(rx[:k]))
    rest = rx[k:]
    if rest and rng.random() < 0.3:
        m = rng.randint(1, len(rest))
        body.append('<table:table-rows>%s</table:table-rows>' % ''.join(rest[:m])); rest = rest[m:]
    body += rest
    if rng.random() < 0.4:
        body.insert(rng.randint(1 if k else 0, len(body)),
                    '<table:table-row-group><table:table-row><table:table-cell office:value-type="string" office:string-value="g"><text:p>g</text:p></table:table-cell></table:table-row></table:table-row-group>')
    out += body
    out.append('</table:table>')
    return ''.join(out)


def gen_and_run3(odfdo, seed, nsteps, kinds=tl.OPS_CORE, maxw=8, maxh=8):
    rng = random.Random(seed)
    init = g_wrapped_table(rng, maxw, maxh)
    case = dict(kind='wrapped', family='grp', init_xml=init, steps=[])
    try:
        d = Driver3(odfdo, init)
    except Exception:
        return case
    nodes = d.init_nodes
    for _ in range(nsteps):
        op = tl.g_op(rng, nodes, kinds, maxw, maxh)
        if op[0] == 'clear':
            op = ['delete_row', 0]
        a, raised = d.apply(op)
        try:
            nodes = d.abs()
        except Exception:
            case['steps'].append(dict(op=op, reads=[])); break
        case['steps'].append(dict(op=op, reads=tl.g_reads(rng, nodes)))
        if not raised:
            for q in case['steps'][-1]['reads']:
                try: d.read(q)
                except Exception: pass
    return case
