(* Property C10, Element / Cell / Row / Table half — a clone is equal at birth and independent for life.
   Statements only; each is closed by [exact] of a lemma proved in TableCproof.v / TableBproof5.v.
   Model: TableC.v — objects hold LOCATIONS of list objects in a heap, for exactly the mutable position maps that Python
   could share (_rmap / _tmap / _cmap): insert_map_once at the end and the `repeated` setter write IN PLACE, get_elements
   hands the table's own _tmap / _cmap list objects to row wrappers, Row.clone slices, Table / Cell / Element.clone build a
   new wrapper over a deep copy (copy.deepcopy producing a disjoint lxml subtree is trusted).
   ro_view / to_view = everything observable of an object (XML, y, the CONTENT of its maps). *)
From Coq Require Import List ZArith Lia Bool Arith.
Import ListNotations.
Require Import Vault Row Table Tableabs TableB TableBabs TableBproof5 TableC TableCproof.
Open Scope Z_scope.

(* ---- equal at birth, original untouched, no list object shared (Row.clone) ---- *)
Theorem C10_row_clone : forall (h : heap) (r : rowobj), ok h r ->
  let h' := fst (ro_clone false h r) in let c := snd (ro_clone false h r) in
  ro_view h' c = ro_view h r /\ ro_view h' r = ro_view h r /\ ok h' c /\ ok h' r /\ disjoint r c /\
  Forall (fun l => (length h <= l)%nat) (ro_locs c).
Proof. exact ro_clone_spec. Qed.
Print Assumptions C10_row_clone.

(* ---- independent for life: for ANY two histories applied to original and clone in ANY interleaving, what can be observed of
        each side is what that side's own history gives (the projections commute; the pair state is a product) ---- *)
Theorem C10_independent : forall (ops : list (bool * roop)) (h : heap) (a b : rowobj) (ha : heap) (a0 : rowobj) (hb : heap) (b0 : rowobj),
  ok h a -> ok h b -> disjoint a b -> ok ha a0 -> ok hb b0 -> ro_view h a = ro_view ha a0 -> ro_view h b = ro_view hb b0 ->
  let '(hf, af, bf) := run2 h a b ops in
  ro_view hf af = ro_view (fst (run1 ha a0 (side true ops))) (snd (run1 ha a0 (side true ops))) /\
  ro_view hf bf = ro_view (fst (run1 hb b0 (side false ops))) (snd (run1 hb b0 (side false ops))).
Proof. exact independent. Qed.
Print Assumptions C10_independent.

(* its instance for a clone: original and clone after any interleaving = each after its own history from the moment of cloning *)
Theorem C10_clone_independent_for_life : forall (ops : list (bool * roop)) (h : heap) (r : rowobj), ok h r ->
  let h' := fst (ro_clone false h r) in let c := snd (ro_clone false h r) in
  let '(hf, rf, cf) := run2 h' r c ops in
  ro_view hf rf = ro_view (fst (run1 h' r (side true ops))) (snd (run1 h' r (side true ops))) /\
  ro_view hf cf = ro_view (fst (run1 h' c (side false ops))) (snd (run1 h' c (side false ops))).
Proof.
  intros ops h r Hok. destruct (ro_clone_spec h r Hok) as (_ & _ & Hc & Hr & Hd & _). cbv zeta in *.
  exact (independent ops _ _ _ _ _ _ _ Hr Hc Hd Hr Hc eq_refl eq_refl).
Qed.
Print Assumptions C10_clone_independent_for_life.

(* one call writes only the object's own list objects or new ones *)
Theorem C10_call_is_framed : forall (h : heap) (r : rowobj) (o : roop), ok h r -> framed h r (fst (ro_step h r o)) (snd (ro_step h r o)).
Proof. exact ro_step_framed. Qed.
Print Assumptions C10_call_is_framed.

(* the row wrappers of CachedElement.get_elements alias the table's _tmap / _cmap list objects; their clone shares none of them *)
Theorem C10_clone_of_aliasing_row : forall (h : heap) (t : tabobj) (i : nat) (h1 : heap) (r : rowobj),
  tab_get_row h t i = Some (h1, r) -> (to_tmap t < length h)%nat -> (to_cmap t < length h)%nat -> to_tmap t <> to_cmap t ->
  ro_tmap r = to_tmap t /\ ro_cmap r = to_cmap t /\ Forall (fun l => ~ In l (to_locs t)) (ro_locs (snd (ro_clone false h1 r))).
Proof. exact clone_of_aliasing_row. Qed.
Print Assumptions C10_clone_of_aliasing_row.

(* Table.clone: the XML, maps recomputed into new list objects; append_row (in-place insert_map_once) on either side stays there *)
Theorem C10_table_clone : forall (h : heap) (t : tabobj), (to_tmap t < length h)%nat -> (to_cmap t < length h)%nat ->
  let h' := fst (to_clone h t) in let c := snd (to_clone h t) in
  to_view h' c = (to_xml t, cmap (rows (to_xml t)), cmap (cols (to_xml t))) /\ to_view h' t = to_view h t /\
  Forall (fun l => (length h <= l)%nat) (to_locs c) /\
  (forall rep r, to_view (fst (to_append_row h' c rep r)) t = to_view h t) /\
  (forall rep r, to_view (fst (to_append_row h' t rep r)) c = to_view h' c).
Proof. exact to_clone_spec. Qed.
Print Assumptions C10_table_clone.

(* at layer B the clone of a table is a fresh parse of its XML: coherent, same answers as the original (C02) *)
Theorem C10_table_clone_is_a_fresh_parse : forall (b : bstate) (q : bread), Coh b ->
  Coh (reparse b) /\ ax (reparse b) = ax b /\ snd (b_read (reparse b) q) = snd (b_read b q).
Proof.
  intros b q Hc. split; [exact (Coh_reparse b (proj1 Hc))|]. split; [reflexivity|]. symmetry. exact (proj1 (live_eq_fresh b q Hc)).
Qed.
Print Assumptions C10_table_clone_is_a_fresh_parse.

(* ---- the kinds without shared mutable state: Cell, Column, any Element, and Tables at layer B.  A clone is the same value
        (coordinates included) and, a call being a function of the object alone, the interleaved run on the pair IS the pair of the
        two solo runs ---- *)
Theorem C10_pair_commutes : forall (S Op : Type) (step : S -> Op -> S) (ops : list (bool * Op)) (a b : S),
  prun2 step a b ops = (prun1 step a (pside true ops), prun1 step b (pside false ops)).
Proof. exact (@product_commutes). Qed.
Print Assumptions C10_pair_commutes.
Theorem C10_cell_clone : forall (c : cellobj) (ops : list (bool * coop)),
  co_clone c = c /\ prun2 co_step c (co_clone c) ops = (prun1 co_step c (pside true ops), prun1 co_step (co_clone c) (pside false ops)).
Proof. intros. split; [apply co_clone_eq|apply product_commutes]. Qed.
Print Assumptions C10_cell_clone.
Theorem C10_column_clone : forall (c : colobj) (ops : list (bool * koop)),
  ko_clone c = c /\ prun2 ko_step c (ko_clone c) ops = (prun1 ko_step c (pside true ops), prun1 ko_step (ko_clone c) (pside false ops)).
Proof. intros. split; [apply ko_clone_eq|apply product_commutes]. Qed.
Print Assumptions C10_column_clone.
(* Table.clone at layer B = reparse: any interleaving of mutators, reads and live setters on the table and its clone is the pair
   of the solo histories, and both sides stay coherent *)
Theorem C10_table_pair : forall (b : bstate) (ops : list (bool * bop)), Coh b -> Forall (fun p => bop_ok (snd p)) ops ->
  let step := fun s o => fst (tB_step s o) in
  prun2 step b (reparse b) ops = (prun1 step b (pside true ops), prun1 step (reparse b) (pside false ops)) /\
  Coh (prun1 step b (pside true ops)) /\ Coh (prun1 step (reparse b) (pside false ops)).
Proof.
  intros b ops Hc Hok. cbv zeta. split; [apply product_commutes|].
  assert (Hs : forall s, Forall bop_ok (pside s ops)).
  { intros s. unfold pside. apply Forall_forall. intros o Hin. apply in_map_iff in Hin. destruct Hin as ([s' o'] & <- & Hin).
    apply filter_In in Hin. rewrite Forall_forall in Hok. exact (Hok _ (proj1 Hin)). }
  split; [exact (coh_history _ b Hc (Hs true))|exact (coh_history _ (reparse b) (Coh_reparse b (proj1 Hc)) (Hs false))].
Qed.
Print Assumptions C10_table_pair.

(* ---- refuted: a Row.clone that shares its _rmap list object (DESIGN Appendix C): append_cell on the clone changes the original's map ---- *)
Theorem C10_shared_rmap_refuted : exists h r o, ok h r /\
  let '(h1, c) := ro_clone true h r in ro_view (fst (ro_step h1 c o)) r <> ro_view h1 r.
Proof. exact shared_rmap_refuted_w. Qed.
Print Assumptions C10_shared_rmap_refuted.

(* the hypotheses are inhabited: a row wrapper aliasing its table's maps *)
Example ok_nontrivial : ok [[0; 2]; [3]; [1]] {| ro_row := (0, [(2%nat, (5, 0))]); ro_y := Some 0; ro_rmap := 2; ro_tmap := 0; ro_cmap := 1 |}.
Proof. apply ok_intro; cbn; lia. Qed.
