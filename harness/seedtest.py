"""Run the registered checks against a seeded change kept under /verif/seeded/<id>/.

usage: python harness/seedtest.py seeded/<id> [--thorough] [--props C01,C02] [--no-demo]
Applies seeded/<id>/patch.diff to /repo (which must be clean), runs the demonstration (must fail with the
change, pass without) and the quick check of the property it breaks (plus any extra properties given), prints
what each check said, writes seeded/<id>/result.json, and always restores /repo (git checkout -- .)."""
import json, subprocess, sys, time, os
from pathlib import Path
ROOT = Path(__file__).resolve().parent.parent
REPO = "/repo"


def sh(cmd, timeout=3600, cwd=None, env=None):
    p = subprocess.run(cmd, shell=True, cwd=cwd, env=env, capture_output=True, text=True, timeout=timeout)
    return p.returncode, p.stdout + p.stderr


def main():
    d = Path(sys.argv[1]).resolve()
    meta = json.loads((d / "meta.json").read_text())
    props = [meta["property"]]
    if "--props" in sys.argv:
        props = sys.argv[sys.argv.index("--props") + 1].split(",")
    tier = "--thorough" if "--thorough" in sys.argv else "--quick"
    rc, out = sh("git -C %s status --porcelain --untracked-files=no" % REPO)
    if out.strip():
        print("refusing: /repo has local modifications:\n" + out); sys.exit(2)
    env = dict(os.environ, PYTHONPATH=REPO + "/src", PYTHONHASHSEED="0")
    res = dict(seed=d.name, tier=tier[2:], checks={})
    demo = d / meta.get("demo", "demo.py")
    try:
        if "--no-demo" not in sys.argv:
            rc0, o0 = sh("/venv/bin/python %s" % demo, 600, cwd=d, env=env)
            res["demo_clean_rc"] = rc0
        rc, out = sh("git -C %s apply --whitespace=nowarn %s" % (REPO, d / "patch.diff"))
        if rc:
            rc, out = sh("cd %s && patch -p1 --no-backup-if-mismatch -F3 < %s" % (REPO, d / "patch.diff"))
            if rc:
                print("patch does not apply:\n" + out); res["applies"] = False
                (d / "result.json").write_text(json.dumps(res, indent=1)); sys.exit(3)
        res["applies"] = True
        if "--no-demo" not in sys.argv:
            rc1, o1 = sh("/venv/bin/python %s" % demo, 600, cwd=d, env=env)
            res["demo_patched_rc"] = rc1
            print("demo: clean rc=%s patched rc=%s" % (rc0, rc1))
        for p in props:
            t0 = time.time()
            rc, out = sh("./check %s %s" % (p, tier), 7200, cwd=ROOT)
            lines = [l for l in out.splitlines() if l.startswith(("VIOLATION", "KNOWN-FINDING"))]
            replay = None
            for l in lines:
                if l.startswith("VIOLATION") and "replay=" in l:
                    rp = l.split("replay=")[1].split()[0]
                    try:
                        replay = json.loads(Path(rp).read_text())
                    except Exception:
                        replay = rp
                    break
            res["checks"][p] = dict(rc=rc, lines=lines, wall_s=round(time.time() - t0, 1),
                                    detected=(rc == 1 and any(l.startswith("VIOLATION") for l in lines)),
                                    no_failing_input=any("no-failing-input-found" in l for l in lines),
                                    replay_excerpt=json.dumps(replay, ensure_ascii=False)[:1500] if replay else None)
            print("%s %s: rc=%s %s" % (p, tier, rc, lines[:3]))
    finally:
        sh("git -C %s checkout -- ." % REPO)
        sh("git -C %s clean -fdq src" % REPO)
        for p in props:  # the evidence written while the change was applied is not evidence about /repo
            sh("git -C %s checkout -- evidence/%s.json" % (ROOT, p))
    (d / "result.json").write_text(json.dumps(res, indent=1, ensure_ascii=False) + "\n")


if __name__ == "__main__":
    main()
