(* The generated TEXT_CONTENT table meets the hypothesis of the pretty_indent theorems; witnesses for the pinned code. *)
From Coq Require Import List ZArith Bool Arith.
Import ListNotations.
Require Import WS PrettyTree PrettyTreeproof Gen_TextContent.

Definition crefill (a b : nat) (s : str) : str := s.

(* paragraphs, headings and the inline containers are in TEXT_CONTENT: a finite obligation on the generated table *)
Lemma gen_textual_ok : forall t, is_ph t || inline t = true -> textual t = true.
Proof.
  assert (H : forallb textual [T_P; T_H; T_SPAN; T_A; T_META; T_METAFIELD] = true) by (vm_compute; reflexivity).
  intros t Ht. rewrite forallb_forall in H. apply H.
  unfold is_ph, inline in Ht. repeat (apply orb_true_iff in Ht as [Ht|Ht]); apply Z.eqb_eq in Ht; subst; cbn; tauto.
Qed.

Lemma gen_pretty_text : forall root, readable_ws (pretty textual crefill true root) = readable_ws root.
Proof. exact (pretty_text_fixed textual crefill gen_textual_ok). Qed.

Lemma gen_pretty_skeleton : forall fx root, skeleton (pretty textual crefill fx root) = skeleton root.
Proof. exact (pretty_skeleton textual crefill). Qed.

(* F15: <text:p>a<text:s/><text:span>b</text:span></text:p> under an office:text root (tag 10000) *)
Definition f15_witness : node :=
  Node 10000%Z 0 0 [] [Node T_P 0 0 [Ch 1] [Node T_S 1 0 [] [] []; Node T_SPAN 0 0 [Ch 2] [] []] []] [].
Lemma gen_pretty_text_pinned_refuted : exists root, readable_ws (pretty textual crefill false root) <> readable_ws root.
Proof. exists f15_witness. vm_compute. discriminate. Qed.
Lemma f15_witness_reads : readable_ws f15_witness = [[Ch 1; Sp; Ch 2]]
                          /\ readable_ws (pretty textual crefill false f15_witness) = [[Ch 1; Sp; Sp; Ch 2]]
                          /\ readable_ws (pretty textual crefill true f15_witness) = [[Ch 1; Sp; Ch 2]].
Proof. vm_compute. repeat split. Qed.
