(* Property C15 -- statements only.  PARTIAL by design (DESIGN.md section 5/C15 and section 9).

   Proved here: for the reads that ARE modelled in the libraries present in this tree -- inner_text / the ODF consumer /
   length on the paragraph model WS.v, and the Markdown / RST table exporters as far as their effect on the live table
   goes (Readers.v) -- a read returns the state it was given and the same answer when repeated, in any order and
   however often; the Markdown export of the PINNED sources does change the table (F20, refuted), the repaired one does
   not and answers the same.
   NOT proved: every other read-only entry point of Document, Body, Element, Table, Row, Meta and the export mixins
   (several hundred methods).  For those the check is the snapshot-diff harness harness/c15.py: testing, not proof,
   labelled `level_note` in the evidence.  The table readers of C01/C08 (layer B: caches) belong to another builder's
   libraries and are not restated here. *)
From Coq Require Import List Arith Bool. Import ListNotations.
Require Import WS Readers Readersproof.

(* a modelled read leaves the paragraph as it was *)
Theorem C15_read_pure : forall (st : list item) (o : pop), is_read o = true -> fst (pstep st o) = st.
Proof. exact read_pure. Qed.
Print Assumptions C15_read_pure.

(* ... and gives the same answer when repeated *)
Theorem C15_deterministic : forall (st : list item) (o : pop), is_read o = true ->
  snd (pstep (fst (pstep st o)) o) = snd (pstep st o).
Proof. exact read_deterministic. Qed.
Print Assumptions C15_deterministic.

(* any history of reads, in any order, any number of times: state unchanged, each answer = the answer on the original state *)
Theorem C15_reads_in_any_order : forall (os : list pop) (st : list item), forallb is_read os = true ->
  fst (prun st os) = st /\ snd (prun st os) = map (fun o => snd (pstep st o)) os.
Proof. exact reads_any_order. Qed.
Print Assumptions C15_reads_in_any_order.

(* the statement is not vacuous: the machine has a step that does change the state *)
Theorem C15_machine_has_writes : exists st s, fst (pstep st (WAppend s)) <> st.
Proof. exact write_changes_state. Qed.
Print Assumptions C15_machine_has_writes.

(* Markdown export of a table, pinned sources (optimize_width on self): changes the live table -- F20 *)
Theorem C15_md_refuted : forall A (render : ctable -> A), exists t, fst (md_export_pinned A render t) <> t.
Proof. exact md_pinned_refuted. Qed.
Print Assumptions C15_md_refuted.

(* small-scope sweep (bound: Readers.small_tables, 87 161 tables of <= 3 row elements with <= 2 cell runs each): the pinned
   export is at least repeatable -- the second call finds the table as the first left it and gives the same answer *)
Theorem C15_md_pinned_repeatable_small : forall A (render : ctable -> A) t, In t small_tables ->
  md_export_pinned A render (fst (md_export_pinned A render t)) = md_export_pinned A render t.
Proof. exact md_pinned_repeatable_small. Qed.
Print Assumptions C15_md_pinned_repeatable_small.

(* repaired export (works on a clone): pure, repeatable, and the text produced is the one the pinned code produced *)
Theorem C15_md_fixed_pure : forall A (render : ctable -> A) t,
  fst (md_export_fixed A render t) = t /\
  snd (md_export_fixed A render (fst (md_export_fixed A render t))) = snd (md_export_fixed A render t) /\
  snd (md_export_fixed A render t) = snd (md_export_pinned A render t).
Proof. intros. split; [apply md_fixed_pure|split; [apply md_fixed_deterministic|apply md_fixed_same_answer]]. Qed.
Print Assumptions C15_md_fixed_pure.

(* RST export of a table (Table._get_formatted_text_rst strips a clone) *)
Theorem C15_rst_pure : forall A (render : ctable -> A) (rstrip : ctable -> ctable) t,
  fst (rst_export A render rstrip t) = t /\
  snd (rst_export A render rstrip (fst (rst_export A render rstrip t))) = snd (rst_export A render rstrip t).
Proof. exact rst_pure. Qed.
Print Assumptions C15_rst_pure.

Example C15_example_reads :
  let st := append_plain_text [] [Ch 1; Sp; Sp; Ch 2] in
  prun st [RInnerText; RLength; RConsume; RInnerText] =
  (st, [OStr [Ch 1; Sp; Sp; Ch 2]; ONat 4; OStr [Ch 1; Sp; Sp; Ch 2]; OStr [Ch 1; Sp; Sp; Ch 2]]).
Proof. vm_compute. reflexivity. Qed.

(* the F20 witness: "x" | 3 empty cells ; 3 x (4 empty) ; 1 x (4 empty)   becomes   "x" | 1 empty ; 1 x (2 empty) *)
Example C15_F20_witness :
  optimize_rows f20_table = [mkRow 1 [mkCell 1 false false; mkCell 1 true true]; mkRow 1 [mkCell 2 true true]].
Proof. vm_compute. reflexivity. Qed.

(* ------------------------------------------------------------------ the property at full strength (NOT proved) *)
Section Full.
  Variables (document answer entry : Type).
  Variable read_only : entry -> Prop.                       (* getters, searches, exports, str(), listings, replace(pattern) ... *)
  Variable call : document -> entry -> document * answer.  (* the implementation *)
  Variable parts : document -> list (nat * list nat).      (* every part, byte for byte *)

  Definition C15_full : Prop :=
    forall d e, read_only e ->
      parts (fst (call d e)) = parts d /\ snd (call (fst (call d e)) e) = snd (call d e).
End Full.
