(* Row.v — executable model of src/odfdo/row.py, layer A (XML cell runs; the map _rmap is recomputed
   from the runs, its incremental maintenance is Vaultproof2 / layer B).  Definitions only.

   Cells are abstract: (value id, style id); value id 0 = no value/content, style id 0 = no style; the
   harness interns everything a cell carries except its repeat attribute into these two numbers. *)
From Coq Require Import List ZArith Bool Arith.
Import ListNotations.
Require Import Vault.

Definition cell := (Z * Z)%type.
Definition empty_cell : cell := (0, 0)%Z.
Definition rruns := list (nat * cell).

Definition rwidth (v : rruns) : Z := Z.of_nat (width v).           (* Row.width *)

(* utils.coordinates.increment through translate_from_any: a negative index counts from the end *)
Definition norm_coord (x len : Z) : Z :=
  if (x <? 0)%Z then (if (len =? 0)%Z then 0%Z else (x mod len)%Z) else x.

(* Row.set_cell(x, cell) with cell.repeated = fst c, x >= 0 *)
Definition row_set_cell (x : Z) (c : nat * cell) (v : rruns) : option rruns :=
  let w := rwidth v in
  let diff := (x - w)%Z in
  if (diff =? 0)%Z then Some (v ++ [c])
  else if (0 <? diff)%Z then Some (v ++ [(Z.to_nat diff, empty_cell); c])
  else set_item x c v (cmap v).
(* Row.insert_cell *)
Definition row_insert_cell (x : Z) (c : nat * cell) (v : rruns) : option rruns :=
  let w := rwidth v in
  let diff := (x - w)%Z in
  if (diff <? 0)%Z then insert_item x c v (cmap v)
  else if (diff =? 0)%Z then Some (v ++ [c])
  else Some (v ++ [(Z.to_nat diff, empty_cell); c]).
(* Row.delete_cell *)
Definition row_delete_cell (x : Z) (v : rruns) : option rruns :=
  if (rwidth v <=? x)%Z then Some v else delete_item x v (cmap v).
(* Row.append_cell *)
Definition row_append_cell (c : nat * cell) (v : rruns) : option rruns := Some (v ++ [c]).

(* Row.set_cells(cells, start) (the set_cell loop: x advances by the repeat of each cell) *)
Fixpoint row_set_cells_loop (x : Z) (cs : list (nat * cell)) (v : rruns) : option rruns :=
  match cs with
  | [] => Some v
  | c :: r => match row_set_cell x c v with Some v' => row_set_cells_loop (x + Z.of_nat (fst c))%Z r v' | None => None end
  end.
(* Row.set_cells(cells, start, clone): clear + extend_cells when start = 0, clone is False and the new cells
   cover the row; otherwise the loop.  Row.set_values is the same with unrepeated cells and no clone test. *)
Definition row_set_cells (clone : bool) (start : Z) (cs : list (nat * cell)) (v : rruns) : option rruns :=
  if (start =? 0)%Z && negb clone && (rwidth v <=? Z.of_nat (length cs))%Z then Some cs
  else row_set_cells_loop start cs v.
Definition row_set_values (start : Z) (vals : list cell) (v : rruns) : option rruns :=
  row_set_cells false start (map (fun c => (1, c)) vals) v.

(* the Row-level alphabet; coordinates may be negative (translated with the row's own width) *)
Inductive rop :=
| RSet (x : Z) (c : nat * cell) | RIns (x : Z) (c : nat * cell) | RDel (x : Z) | RApp (c : nat * cell)
| RSetCells (clone : bool) (start : Z) (cs : list (nat * cell)) | RExtend (cs : list (nat * cell)) | RClear.
Definition rstep (v : rruns) (o : rop) : option rruns :=
  match o with
  | RSet x c => row_set_cell (norm_coord x (rwidth v)) c v
  | RIns x c => row_insert_cell (norm_coord x (rwidth v)) c v
  | RDel x => row_delete_cell (norm_coord x (rwidth v)) v
  | RApp c => row_append_cell c v
  | RSetCells cl s cs => row_set_cells cl (norm_coord s (rwidth v)) cs v
  | RExtend cs => Some (v ++ cs)
  | RClear => Some []
  end.
Fixpoint rrun (v : rruns) (os : list rop) : option rruns :=
  match os with [] => Some v | o :: r => match rstep v o with Some v' => rrun v' r | None => None end end.

(* ---- reads ---- *)
(* Row._get_cell2_base through the map *)
Definition cell_at (x : Z) (v : rruns) : option cell :=
  match find_idx (cmap v) x with Some i => option_map snd (nth_error v i) | None => None end.
(* Row.get_value(x) as a value id (0 = None) *)
Definition row_get_value (x : Z) (v : rruns) : Z :=
  match cell_at (norm_coord x (rwidth v)) v with Some c => fst c | None => 0%Z end.
(* Row.get_values() = values of traverse() *)
Definition row_values (v : rruns) : list Z := map fst (expand v).

(* ---- boolean equalities used by the correspondence checkers ---- *)
Definition cell_eqb (a b : cell) := (fst a =? fst b)%Z && (snd a =? snd b)%Z.
Definition list_eqb {A} (eqb : A -> A -> bool) (a b : list A) : bool :=
  (length a =? length b)%nat && forallb (fun p => eqb (fst p) (snd p)) (combine a b).
Definition run_eqb {A} (eqb : A -> A -> bool) (a b : nat * A) := (fst a =? fst b)%nat && eqb (snd a) (snd b).
Definition runs_eqb (a b : rruns) : bool := list_eqb (run_eqb cell_eqb) a b.
Definition zl_eqb (a b : list Z) : bool := list_eqb Z.eqb a b.
Definition cells_eqb (a b : list cell) : bool := list_eqb cell_eqb a b.
