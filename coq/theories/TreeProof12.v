(* TreeProof12.v — the strip guard is exact, and what is lost without it: only the multiplicity of consecutive spaces. *)
From Coq Require Import List Arith Bool Lia.
Import ListNotations.
Require Import WS WSnfproof Tree TreeNF TreeProof TreeProof3.

(* ---------------------------------------------------------------- collapse = " +" -> " " *)
Lemma collapse_cons_nsp t r : is_sp t = false -> collapse (t :: r) = t :: collapse r.
Proof. destruct t; try discriminate; reflexivity. Qed.
Lemma collapse_sp_sp r : collapse (Sp :: Sp :: r) = collapse (Sp :: r). Proof. reflexivity. Qed.
Lemma collapse_sp_nsp u r : is_sp u = false -> collapse (Sp :: u :: r) = Sp :: collapse (u :: r).
Proof. destruct u; try discriminate; reflexivity. Qed.
Lemma collapse_len s : length (collapse s) <= length s.
Proof.
  induction s as [|t s IH]; [auto|]. destruct t; try (rewrite collapse_cons_nsp by reflexivity; cbn [length]; lia).
  destruct s as [|u s']; [auto|]. destruct (is_sp u) eqn:U.
  - destruct u; try discriminate. rewrite collapse_sp_sp. cbn [length] in *. lia.
  - rewrite collapse_sp_nsp by exact U. cbn [length] in *. lia.
Qed.
Lemma collapse_lt s : no_dsp s = false -> length (collapse s) < length s.
Proof.
  induction s as [|t s IH]; [discriminate|]. intros H.
  destruct t; try (rewrite collapse_cons_nsp by reflexivity; cbn [length];
                   assert (no_dsp s = false) by (cbn in H; destruct s; exact H); specialize (IH H0); lia).
  destruct s as [|u s']; [discriminate|]. destruct (is_sp u) eqn:U.
  - destruct u; try discriminate. rewrite collapse_sp_sp. pose proof (collapse_len (Sp :: s')). cbn [length] in *. lia.
  - rewrite collapse_sp_nsp by exact U.
    assert (no_dsp (u :: s') = false) by (destruct u; try discriminate; exact H). specialize (IH H0). cbn [length] in *. lia.
Qed.
Lemma collapse_starts s : starts_sp (collapse s) = starts_sp s.
Proof.
  induction s as [|t s IH]; [reflexivity|]. destruct t; try reflexivity.
  destruct s as [|u s']; [reflexivity|]. destruct (is_sp u) eqn:U.
  - destruct u; try discriminate. rewrite collapse_sp_sp. exact IH.
  - now rewrite collapse_sp_nsp.
Qed.
Lemma starts_sp_app a X Y : starts_sp X = starts_sp Y -> starts_sp (a ++ X) = starts_sp (a ++ Y).
Proof. destruct a; auto. Qed.
Lemma collapse_sp_ns L : starts_sp L = false -> collapse (Sp :: L) = Sp :: collapse L.
Proof. destruct L as [|t r]; [reflexivity|]. destruct t; try discriminate; reflexivity. Qed.
Lemma collapse_sp_s L : starts_sp L = true -> collapse (Sp :: L) = collapse L.
Proof. destruct L as [|t r]; [discriminate|]. destruct t; try discriminate. reflexivity. Qed.
(* what follows matters only through its collapsed form and through whether it starts with a space *)
Lemma collapse_cong_r a : forall X Y, collapse X = collapse Y -> starts_sp X = starts_sp Y -> collapse (a ++ X) = collapse (a ++ Y).
Proof.
  induction a as [|t a IH]; intros X Y H S; [exact H|]. cbn [app].
  pose proof (starts_sp_app a X Y S) as S'. specialize (IH X Y H S).
  destruct (is_sp t) eqn:T.
  - destruct t; try discriminate. destruct (starts_sp (a ++ X)) eqn:SX.
    + rewrite !collapse_sp_s by congruence. exact IH.
    + rewrite !collapse_sp_ns by congruence. now rewrite IH.
  - rewrite !collapse_cons_nsp by exact T. now rewrite IH.
Qed.
Lemma collapse_idem s : collapse (collapse s) = collapse s.
Proof.
  induction s as [|t s IH]; [reflexivity|]. destruct (is_sp t) eqn:T.
  - destruct t; try discriminate. destruct s as [|u s']; [reflexivity|]. destruct (is_sp u) eqn:U.
    + destruct u; try discriminate. rewrite collapse_sp_sp. exact IH.
    + rewrite collapse_sp_nsp by exact U.
      assert (E : exists r, collapse (u :: s') = u :: r) by (rewrite collapse_cons_nsp by exact U; eauto).
      destruct E as [r E]. rewrite E in *. rewrite collapse_sp_nsp by exact U. now rewrite IH.
  - rewrite !collapse_cons_nsp by exact T. now rewrite IH.
Qed.
Lemma collapse_app_r a b : collapse (a ++ collapse b) = collapse (a ++ b).
Proof. apply collapse_cong_r; [apply collapse_idem|apply collapse_starts]. Qed.
Lemma starts_app_collapse a b : starts_sp (collapse a ++ b) = starts_sp (a ++ b).
Proof.
  destruct a as [|t r]; [reflexivity|]. destruct (is_sp t) eqn:T.
  - destruct t; try discriminate. pose proof (collapse_starts (Sp :: r)) as C. cbn [starts_sp] in C.
    destruct (collapse (Sp :: r)) as [|u q]; [discriminate|]. destruct u; try discriminate. reflexivity.
  - rewrite collapse_cons_nsp by exact T. reflexivity.
Qed.
Lemma collapse_app_l a : forall b, collapse (collapse a ++ b) = collapse (a ++ b).
Proof.
  induction a as [|t a IH]; intros b; [reflexivity|]. destruct (is_sp t) eqn:T.
  - destruct t; try discriminate. destruct (starts_sp a) eqn:SA.
    + rewrite collapse_sp_s by exact SA. cbn [app]. rewrite collapse_sp_s; [apply IH|].
      destruct a as [|u a']; [discriminate|]. exact SA.
    + rewrite collapse_sp_ns by exact SA. cbn [app].
      apply (collapse_cong_r [Sp]); [apply IH|apply starts_app_collapse].
  - rewrite collapse_cons_nsp by exact T. cbn [app]. rewrite !collapse_cons_nsp by exact T. f_equal. apply IH.
Qed.

(* ---------------------------------------------------------------- "shorter or equal, and equal up to runs of spaces" *)
Definition Rsq (x y : str) : Prop := length x <= length y /\ collapse x = collapse y.
Lemma Rsq_refl x : Rsq x x. Proof. split; auto. Qed.
Lemma Rsq_trans x y z : Rsq x y -> Rsq y z -> Rsq x z.
Proof. intros [L1 C1] [L2 C2]. split; [lia|congruence]. Qed.
Lemma Rsq_app x1 y1 x2 y2 : Rsq x1 y1 -> Rsq x2 y2 -> Rsq (x1 ++ x2) (y1 ++ y2).
Proof.
  intros [L1 C1] [L2 C2]. split; [rewrite !app_length; lia|].
  rewrite <- (collapse_app_l x1), C1, collapse_app_l. rewrite <- (collapse_app_r y1 x2), C2. apply collapse_app_r.
Qed.
Lemma Rsq_collapse_mid A B : Rsq (A ++ collapse B) (A ++ B).
Proof. split; [rewrite !app_length; pose proof (collapse_len B); lia|apply collapse_app_r]. Qed.

(* the shape of one __append *)
Lemma append_piece_shape st p : exists A B,
  raw_state (append_piece collapse st p) = A ++ collapse B /\ raw_state st ++ praw p = A ++ B /\ append_ok st p = no_dsp B.
Proof.
  destruct st as [tx ks]. destruct p as [s|n]; cbn [append_piece append_ok praw].
  - destruct (rev ks) as [|l rk] eqn:E.
    + assert (ks = []) by (destruct ks; [reflexivity|]; apply (f_equal (@length _)) in E; rewrite rev_length in E; discriminate). subst ks. exists [], (oget tx ++ s). unfold raw_state, add_text. cbn [fst snd oget flat_map app].
      change (raw []) with (@nil tok). rewrite !app_nil_r. auto.
    + assert (K : ks = rev rk ++ [l]) by (rewrite <- (rev_involutive ks), E; reflexivity). subst ks.
      exists (oget tx ++ raw (flat_map flat (rev rk)) ++ raw (flat (set_tail l None))), (oget (tail_of l) ++ s).
      unfold raw_state, add_text. cbn [fst snd]. rewrite !raw_flat_map_app. cbn [flat_map]. rewrite !app_nil_r.
      destruct l as [k a sl tx' ks' tl']. cbn [set_tail tail_of]. rewrite !raw_flat. cbn [oget]. rewrite !app_nil_r.
      repeat split; rewrite <- ?app_assoc; reflexivity.
  - exists (raw_state (tx, ks ++ [n])), []. unfold raw_state. cbn [fst snd collapse]. rewrite !app_nil_r, raw_flat_map_app.
    cbn [flat_map]. rewrite app_nil_r, app_assoc. auto.
Qed.
Lemma fold_append_Rsq ps : forall st x0, Rsq (raw_state st) x0 ->
  Rsq (raw_state (fold_left (append_piece collapse) ps st)) (x0 ++ praws ps)
  /\ ((fold_ok ps st = false \/ length (raw_state st) < length x0) ->
      length (raw_state (fold_left (append_piece collapse) ps st)) < length (x0 ++ praws ps)).
Proof.
  induction ps as [|p ps IH]; intros st x0 R.
  - unfold praws. cbn [map concat fold_left fold_ok]. rewrite app_nil_r. split; [exact R|]. intros [H|H]; [discriminate|exact H].
  - cbn [fold_left fold_ok]. destruct (append_piece_shape st p) as [A [B [E1 [E2 E3]]]].
    assert (R1 : Rsq (raw_state (append_piece collapse st p)) (x0 ++ praw p)).
    { rewrite E1. eapply Rsq_trans; [apply Rsq_collapse_mid|]. rewrite <- E2. apply Rsq_app; [exact R|apply Rsq_refl]. }
    destruct (IH _ _ R1) as [R2 S2]. unfold praws in *. cbn [map concat]. rewrite app_assoc. split; [exact R2|].
    intros H. apply S2. destruct H as [H|H].
    + apply andb_false_iff in H as [H|H]; [|left; exact H]. right.
      rewrite E3 in H. rewrite E1. pose proof (collapse_lt _ H). destruct R as [L _].
      assert (length (A ++ B) = length (raw_state st) + length (praw p)) by (rewrite <- E2; apply app_length).
      rewrite !app_length in *. lia.
    + right. rewrite E1. pose proof (collapse_len B). destruct R as [L _].
      assert (length (A ++ B) = length (raw_state st) + length (praw p)) by (rewrite <- E2; apply app_length).
      rewrite !app_length in *. lia.
Qed.

Theorem strip_Rsq sp pr : forall n protected,
  Rsq (praws (fst (strip_ collapse sp pr protected n))) (raw (flat n))
  /\ (strip_ok sp pr protected n = false -> length (praws (fst (strip_ collapse sp pr protected n))) < length (raw (flat n))).
Proof.
  induction n as [k a sel tx ks tl IH] using node_ind'. intros protected.
  assert (HK : Rsq (praws (flat_map fst (map (strip_ collapse sp pr (pr k)) ks))) (raw (flat_map flat ks))
               /\ (forallb (strip_ok sp pr (pr k)) ks = false ->
                   length (praws (flat_map fst (map (strip_ collapse sp pr (pr k)) ks))) < length (raw (flat_map flat ks)))).
  { induction IH as [|c ks Hc _ IHks]; [split; [apply Rsq_refl|discriminate]|].
    destruct (Hc (pr k)) as [R1 S1]. destruct IHks as [R2 S2].
    cbn [map flat_map forallb]. rewrite praws_app, raw_app. split; [now apply Rsq_app|].
    intros H. rewrite !app_length. destruct R1 as [L1 _], R2 as [L2 _].
    apply andb_false_iff in H as [H|H]; [specialize (S1 H)|specialize (S2 H)]; lia. }
  destruct HK as [RK SK]. cbn [strip_ strip_ok]. rewrite raw_flat.
  destruct (negb protected && sp k sel).
  - cbn [fst]. change (PS (oget tx) :: ?x) with ([PS (oget tx)] ++ x). rewrite !praws_app.
    assert (E1 : praws [PS (oget tx)] = oget tx) by (unfold praws; cbn; apply app_nil_r).
    assert (E2 : praws (opiece tl) = oget tl) by (destruct tl; unfold praws; cbn; rewrite ?app_nil_r; reflexivity).
    rewrite E1, E2. split; [apply Rsq_app; [apply Rsq_refl|apply Rsq_app; [exact RK|apply Rsq_refl]]|].
    rewrite andb_true_r. intros H. specialize (SK H). rewrite !app_length. lia.
  - destruct (negb (existsb snd (map (strip_ collapse sp pr (pr k)) ks))) eqn:EM.
    + cbn [fst]. unfold praws. cbn [map concat praw]. rewrite app_nil_r, raw_flat. split; [apply Rsq_refl|].
      rewrite andb_true_r. intros H. exfalso.
      (* nothing below was modified: every child came back unchanged, so its guard is vacuously true *)
      clear RK SK. apply negb_true_iff in EM.
      assert (G : forall c, In c ks -> strip_ok sp pr (pr k) c = true).
      { intros c Hc. destruct (strip_ok sp pr (pr k) c) eqn:E; [reflexivity|]. exfalso.
        rewrite Forall_forall in IH. destruct (IH c Hc (pr k)) as [_ S]. specialize (S E).
        (* a strictly shorter result means the child was modified *)
        assert (M : snd (strip_ collapse sp pr (pr k) c) = true).
        { destruct c as [k' a' s' tx' ks' tl']. cbn [strip_] in S |- *.
          destruct (negb (pr k) && sp k' s'); [reflexivity|].
          destruct (negb (existsb snd (map (strip_ collapse sp pr (pr k')) ks'))); [|destruct (fold_left _ _ _); reflexivity].
          cbn [fst] in S. unfold praws in S. cbn [map concat praw] in S. rewrite app_nil_r in S. lia. }
        assert (X : existsb snd (map (strip_ collapse sp pr (pr k)) ks) = true)
          by (apply existsb_exists; exists (strip_ collapse sp pr (pr k) c); split; [now apply in_map|exact M]).
        congruence. }
      assert (F : forallb (strip_ok sp pr (pr k)) ks = true) by (apply forallb_forall; exact G). congruence.
    + cbn [fst].
      destruct (fold_left (append_piece collapse) (flat_map fst (map (strip_ collapse sp pr (pr k)) ks))
                  (add_text collapse None (oget tx), [])) as [tx' ks'] eqn:EF.
      unfold praws. cbn [fst map concat praw]. rewrite app_nil_r, raw_flat.
      assert (R0 : Rsq (raw_state (add_text collapse None (oget tx), [])) (oget tx)).
      { unfold raw_state, add_text. cbn [fst snd oget flat_map app]. change (raw []) with (@nil tok). rewrite app_nil_r.
        apply (Rsq_collapse_mid [] (oget tx)). }
      destruct (fold_append_Rsq (flat_map fst (map (strip_ collapse sp pr (pr k)) ks)) _ _ R0) as [R1 S1].
      rewrite EF in R1, S1. unfold raw_state in R1, S1. cbn [fst snd] in R1, S1.
      assert (R2 : Rsq (oget tx ++ praws (flat_map fst (map (strip_ collapse sp pr (pr k)) ks))) (oget tx ++ raw (flat_map flat ks)))
        by (apply Rsq_app; [apply Rsq_refl|exact RK]).
      split.
      * rewrite !app_assoc. apply Rsq_app; [|apply Rsq_refl]. eapply Rsq_trans; eassumption.
      * intros H. rewrite !app_assoc, !(app_length _ (oget tl)).
        assert (length ((oget tx' ++ raw (flat_map flat ks'))) < length (oget tx ++ raw (flat_map flat ks))); [|lia].
        destruct R1 as [L1 _], R2 as [L2 _].
        apply andb_false_iff in H as [H|H].
        { specialize (SK H). rewrite !app_length in *. lia. }
        apply andb_false_iff in H as [H|H].
        { assert (length (oget tx' ++ raw (flat_map flat ks')) < length (oget tx ++ praws (flat_map fst (map (strip_ collapse sp pr (pr k)) ks)))); [|lia].
          apply S1. right. unfold add_text. cbn [fst snd oget flat_map app]. change (raw []) with (@nil tok). rewrite app_nil_r.
          now apply collapse_lt. }
        { assert (length (oget tx' ++ raw (flat_map flat ks')) < length (oget tx ++ praws (flat_map fst (map (strip_ collapse sp pr (pr k)) ks)))); [|lia].
          apply S1. left. exact H. }
Qed.

(* the guard is exact *)
Theorem strip_top_exact sp pr n n' : strip_top collapse sp pr n = Some n' ->
  (raw (content n') = raw (content n) <-> strip_ok sp pr false n = true)
  /\ collapse (raw (flat n')) = collapse (raw (flat n)) /\ length (raw (content n')) <= length (raw (content n)).
Proof.
  intros H. destruct (strip_Rsq sp pr n false) as [[L C] S].
  assert (E : fst (strip_ collapse sp pr false n) = [PN n'] /\ tail_of n' = tail_of n).
  { unfold strip_top in H. destruct (strip_ collapse sp pr false n) as [ps m] eqn:EQ.
    destruct ps as [|[s|x] [|p q]]; try discriminate. injection H as <-. split; [reflexivity|].
    destruct n as [k a sel tx ks tl]. cbn [strip_] in EQ.
    destruct (negb false && sp k sel).
    - injection EQ as EQ _. destruct tl; cbn in EQ; destruct (flat_map fst (map (strip_ collapse sp pr (pr k)) ks)); discriminate.
    - destruct (negb (existsb snd (map (strip_ collapse sp pr (pr k)) ks))).
      + injection EQ as <- _. reflexivity.
      + destruct (fold_left _ _ _) as [tx' ks']. injection EQ as <- _. reflexivity. }
  destruct E as [E T]. rewrite E in *. unfold praws in *. cbn [map concat praw] in *. rewrite app_nil_r in *.
  rewrite !raw_content, T in *. rewrite !app_length in L.
  split; [|split; [exact C|lia]]. split.
  - intros EQ. destruct (strip_ok sp pr false n) eqn:OK; [reflexivity|]. specialize (S eq_refl). rewrite EQ, !app_length in S. lia.
  - intros OK. pose proof (strip_top_raw sp pr n n' OK H) as [R _]. exact R.
Qed.
