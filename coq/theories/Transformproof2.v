(* Transformproof2.v — Table.rstrip: the run-length model refines the grid meaning g_rstrip; column trimming. *)
From Coq Require Import List ZArith Lia Bool Arith.
Import ListNotations.
Require Import Vault Vaultproof Row Table Grid Tableabs Tableproof Tableproof3 Tableproof4 Tableproof5
               Transform Transformspec Transformproof.
Open Scope Z_scope.

Lemma width_cons {A} n (x : A) v : width ((n, x) :: v) = (n + width v)%nat.
Proof. unfold width. cbn [expand]. rewrite app_length, repeat_length. reflexivity. Qed.
Lemma width_rev {A} (v : list (nat * A)) : width (rev v) = width v.
Proof.
  induction v as [|[n x] v IH]; [reflexivity|]. cbn [rev]. rewrite width_app, IH, !width_cons.
  unfold width at 2. cbn [expand length]. lia.
Qed.
Lemma wf_rev {A} (v : list (nat * A)) : wf v -> wf (rev v).
Proof. unfold wf. intros H. apply Forall_rev. exact H. Qed.

Lemma trim_loop_spec rc : forall diff, wf rc -> 0 < diff <= Z.of_nat (width rc) ->
  Z.of_nat (width (trim_loop diff rc)) = Z.of_nat (width rc) - diff /\ wf (trim_loop diff rc).
Proof.
  induction rc as [|[n s] r IH]; intros diff Hw Hd.
  - unfold width in Hd. cbn in Hd. lia.
  - inversion Hw as [|? ? Hn Hr]; subst. cbn [fst] in Hn. rewrite width_cons in *. cbn [trim_loop].
    destruct (Z.ltb_spec 0 (Z.of_nat n - diff)).
    + rewrite width_cons. split; [lia|]. constructor; [cbn [fst]; lia|exact Hr].
    + destruct (Z.eqb_spec (Z.of_nat n - diff) 0).
      * split; [lia|exact Hr].
      * destruct (IH (- (Z.of_nat n - diff)) Hr) as [H1 H2]; [lia|]. split; [lia|exact H2].
Qed.
Lemma trim_cols_spec w cs : wf cs -> 0 <= w ->
  Z.of_nat (width (trim_cols w cs)) = Z.min (Z.of_nat (width cs)) w /\ wf (trim_cols w cs).
Proof.
  intros Hw Hw0. unfold trim_cols. destruct (Z.ltb_spec 0 (Z.of_nat (width cs) - w)).
  - destruct (trim_loop_spec (rev cs) (Z.of_nat (width cs) - w) (wf_rev _ Hw)) as [H1 H2]; [rewrite width_rev; lia|].
    rewrite width_rev in *. split; [lia|]. apply wf_rev. exact H2.
  - split; [lia|exact Hw].
Qed.

Lemma fmax_ge {A} (f : A -> Z) l : forall a0, a0 <= fold_left (fun a r => Z.max a (f r)) l a0.
Proof. induction l as [|x l IH]; intros a0; cbn [fold_left]; [lia|]. specialize (IH (Z.max a0 (f x))). lia. Qed.
Lemma max_len_nonneg l : 0 <= max_len l.
Proof. apply fmax_ge. Qed.

Section Rstrip.
Variable a : calg.
Variable aggr : bool.

Let S := strip_end (cell_empty a aggr).
Let f := fun rx : rowx => (fst rx, row_rstrip a aggr (snd rx)).

Lemma grow_of_rstrip rx : wf (snd rx) -> grow_of (f rx) = S (grow_of rx).
Proof. intros Hw. unfold f, grow_of, row_rstrip, S. cbn [snd]. apply (expand_strip_end (cell_empty a aggr) (snd rx) Hw). Qed.
Lemma row_empty_grow rx : wf (snd rx) -> row_is_empty a aggr (snd rx) = lrow_empty a aggr (grow_of rx).
Proof. intros Hw. unfold row_is_empty, lrow_empty, grow_of. symmetry. apply (forallb_expand (cell_empty a aggr) (snd rx) Hw). Qed.

Theorem rstrip_refines t : WF t -> abs_t (t_rstrip a aggr t) = g_rstrip a aggr (abs_t t) /\ WF (t_rstrip a aggr t).
Proof.
  intros [[Hr Hc] Hcw].
  set (rows1 := strip_end (rowrun_empty a aggr) (rows t)).
  set (rows2 := map (rowrun_rstrip a aggr) rows1).
  assert (Hr1 : wf rows1) by (apply wf_strip_end; exact Hr).
  assert (Hc1 : Forall (fun r : nat * rowx => wf (snd (snd r))) rows1).
  { unfold cwf in Hcw. rewrite Forall_forall in *. intros x Hx. apply Hcw. eapply strip_end_incl. exact Hx. }
  assert (Hr2 : wf rows2).
  { unfold rows2. change (map (rowrun_rstrip a aggr) rows1) with (map (fun r : nat * rowx => (fst r, f (snd r))) rows1).
    apply wf_map_runs. exact Hr1. }
  assert (Hc2 : Forall (fun r : nat * rowx => wf (snd (snd r))) rows2).
  { unfold rows2. rewrite Forall_map. eapply Forall_impl; [|exact Hc1]. intros r Hwr. cbn [rowrun_rstrip snd].
    apply wf_strip_end. exact Hwr. }
  assert (Hrows : map grow_of (expand rows2) = map S (strip_end (lrow_empty a aggr) (map grow_of (expand (rows t))))).
  { unfold rows2. change (map (rowrun_rstrip a aggr) rows1) with (map (fun r : nat * rowx => (fst r, f (snd r))) rows1).
    rewrite expand_map_runs, map_map.
    assert (Hall1 : Forall rwf (expand rows1)) by (apply (Forall_expand rwf rows1 Hr1); exact Hc1).
    rewrite (map_ext_in (fun x => grow_of (f x)) (fun x => S (grow_of x))).
    2:{ intros x Hx. apply grow_of_rstrip. rewrite Forall_forall in Hall1. apply Hall1. exact Hx. }
    rewrite <- map_map. f_equal.
    assert (E : expand rows1 = strip_end (fun rx : rowx => row_is_empty a aggr (snd rx)) (expand (rows t)))
      by exact (expand_strip_end (fun rx : rowx => row_is_empty a aggr (snd rx)) (rows t) Hr).
    rewrite E, strip_end_map. f_equal. apply strip_end_ext_in. intros x Hx. apply row_empty_grow.
    assert (Hall : Forall rwf (expand (rows t))) by (apply (Forall_expand rwf (rows t) Hr); exact Hcw).
    rewrite Forall_forall in Hall. apply Hall. exact Hx. }
  assert (Hmax : max_roww rows2 = max_len (map grow_of (expand rows2))) by (symmetry; apply max_len_abs; exact Hr2).
  destruct (trim_cols_spec (max_roww rows2) (cols t) Hc) as [Hw1 Hw2]; [rewrite Hmax; apply max_len_nonneg|].
  split.
  - unfold abs_t, g_rstrip, t_rstrip. fold rows1. fold rows2. cbn [rows cols ncols grows]. unfold twidth. cbn [cols].
    rewrite Hw1, Hmax, Hrows. reflexivity.
  - unfold t_rstrip. fold rows1. fold rows2. split; [split|]; cbn [rows cols]; assumption.
Qed.
End Rstrip.
