(* Property C10, Container / Document half — statements only.  Each is closed by [exact] of a lemma proved elsewhere. *)
From Coq Require Import List ZArith Bool. Import ListNotations.
Require Import Package Pkgproof PkgStepWF PkgStepWF4 PkgCloneproof PkgPairproof PkgHistproof PkgLocalproof PkgLocalproof2 PkgLocalproof3 PkgInstproof.
Open Scope Z_scope.

(* C10_lazy_parts: a clone has no path, and the part map of a path-less document does not depend on the file system:
   deleting or overwriting the source file after cloning cannot be observed through the clone (pinned and repaired code) *)
Theorem C10_lazy_parts : forall (xml bytes kid : Type) (ser : xml -> bytes) (par : bytes -> xml) (proj : Type) (mask : xml -> proj)
  (fx : fixes) (fs fs' : fsys bytes kid) (d : document xml bytes) (n : name),
  view xml bytes kid par proj mask fs' (snd (d_clone xml bytes kid ser par fx fs d)) n
  = view xml bytes kid par proj mask fs (snd (d_clone xml bytes kid ser par fx fs d)) n.
Proof. exact clone_lazy. Qed.
Print Assumptions C10_lazy_parts.

Theorem C10_clone_has_no_path : forall (xml bytes kid : Type) (ser : xml -> bytes) (par : bytes -> xml) (fx : fixes) (fs : fsys bytes kid) (d : document xml bytes),
  cpath bytes (cont xml bytes (snd (d_clone xml bytes kid ser par fx fs d))) = None.
Proof. exact d_clone_no_path. Qed.
Print Assumptions C10_clone_has_no_path.

(* independence: the state of (file system, original, clone) is a product; an operation on one document is a function of
   the file system and that document only, and a path-less document does not read the file system (C10_lazy_parts):
   [step] has the type  fixes -> fsys * document -> op -> (fsys * document) * out , the other document is not an argument. *)
Theorem C10_doc_independent : forall (xml bytes kid : Type) (par : bytes -> xml) (proj : Type) (mask : xml -> proj)
  (fs fs' : fsys bytes kid) (d : document xml bytes) (n : name),
  cpath bytes (cont xml bytes d) = None -> view xml bytes kid par proj mask fs' d n = view xml bytes kid par proj mask fs d n.
Proof. exact view_no_path. Qed.
Print Assumptions C10_doc_independent.

(* F14 on the pinned code: after an unsaved edit the clone is not the original; the repaired clone is (same witness) *)
Theorem C10_doc_equal_at_birth_refuted : exists fs d n, cview fs (snd (cd_clone PINNED fs d)) n <> cview fs d n
                                                     /\ cview fs (snd (cd_clone FIXED fs d)) n = cview fs d n.
Proof. exact f14_refuted. Qed.
Print Assumptions C10_doc_equal_at_birth_refuted.

(* F37 on the pinned code: cloning a path-opened zip changes the original (a deleted part comes back) *)
Theorem C10_clone_modifies_original_refuted : exists fs d n, cview fs (fst (cd_clone PINNED fs d)) n <> cview fs d n
                                                          /\ cview fs (fst (cd_clone FIXED fs d)) n = cview fs d n.
Proof. exact f37_refuted. Qed.
Print Assumptions C10_clone_modifies_original_refuted.

(* C10_doc_equal_at_birth (repaired code), for every state with FsOK and WFd: the clone shows the original's part map, and cloning leaves the original's part map as it was *)
Theorem C10_doc_equal_at_birth :
  forall (xml bytes kid : Type) (ser : xml -> bytes)
           (par : bytes -> xml) (proj : Type) (mask : xml -> proj),
         (forall x : xml, par (ser x) = x) ->
         forall (fs : fsys bytes kid) (d : document xml bytes),
         FsOK bytes kid fs ->
         WFd xml bytes kid fs d ->
         (forall n : name,
          view xml bytes kid par proj mask fs
            (snd (d_clone xml bytes kid ser par FIXED fs d)) n =
          view xml bytes kid par proj mask fs d n) /\
         (forall n : name,
          view xml bytes kid par proj mask fs
            (fst (d_clone xml bytes kid ser par FIXED fs d)) n =
          view xml bytes kid par proj mask fs d n).
Proof. exact clone_equal_at_birth. Qed.
Print Assumptions C10_doc_equal_at_birth.

(* ... for every state reachable by any history *)
Theorem C10_doc_equal_at_birth_reachable :
  forall (xml bytes kid : Type) (ser : xml -> bytes)
           (par : bytes -> xml) (pretty stamp : xml -> xml)
           (entries : xml -> mentries) (with_entries : mentries -> xml -> xml)
           (kids : xml -> list kid) (mime : bytes -> mtype)
           (mime_bytes : mtype -> bytes) (rdf0 : bytes) 
           (proj : Type) (mask : xml -> proj),
         (forall x : xml, par (ser x) = x) ->
         forall (s0 : fsys bytes kid * document xml bytes)
           (os : list (op xml bytes)),
         SInv xml bytes kid s0 ->
         let fs :=
           fst
             (run xml bytes kid ser par pretty stamp entries with_entries kids
                mime mime_bytes rdf0 FIXED s0 os) in
         let d :=
           snd
             (run xml bytes kid ser par pretty stamp entries with_entries kids
                mime mime_bytes rdf0 FIXED s0 os) in
         (forall n : name,
          view xml bytes kid par proj mask fs
            (snd (d_clone xml bytes kid ser par FIXED fs d)) n =
          view xml bytes kid par proj mask fs d n) /\
         (forall n : name,
          view xml bytes kid par proj mask fs
            (fst (d_clone xml bytes kid ser par FIXED fs d)) n =
          view xml bytes kid par proj mask fs d n).
Proof. exact clone_equal_at_birth_reachable. Qed.
Print Assumptions C10_doc_equal_at_birth_reachable.

(* independence, one operation: the part map of the other document is unchanged unless the operation saves onto the very file the other still reads from *)
Theorem C10_other_untouched :
  forall (xml bytes kid : Type) (ser : xml -> bytes)
           (par : bytes -> xml) (pretty stamp : xml -> xml)
           (entries : xml -> mentries) (with_entries : mentries -> xml -> xml)
           (kids : xml -> list kid) (mime : bytes -> mtype)
           (mime_bytes : mtype -> bytes) (rdf0 : bytes) 
           (proj : Type) (mask : xml -> proj) (fs : fsys bytes kid)
           (d other : document xml bytes) (o : op xml bytes),
         (forall (t : target) (pk : packaging) (pty : bool),
          o = OSave t pk pty ->
          cpath bytes (cont xml bytes other) <> Some (tgt_id t)) ->
         forall n : name,
         view xml bytes kid par proj mask
           (fst
              (fst
                 (step xml bytes kid ser par pretty stamp entries with_entries
                    kids mime mime_bytes rdf0 FIXED (
                    fs, d) o))) other n =
         view xml bytes kid par proj mask fs other n.
Proof. exact other_untouched. Qed.
Print Assumptions C10_other_untouched.

(* independence on the pair state (file system, original, clone), one step of any interleaving: the document not operated on is literally the same and shows the same part map *)
Theorem C10_independent_step :
  forall (xml bytes kid : Type) (ser : xml -> bytes)
           (par : bytes -> xml) (pretty stamp : xml -> xml)
           (entries : xml -> mentries) (with_entries : mentries -> xml -> xml)
           (kids : xml -> list kid) (mime : bytes -> mtype)
           (mime_bytes : mtype -> bytes) (rdf0 : bytes) 
           (proj : Type) (mask : xml -> proj) (fs : fsys bytes kid)
           (d1 d2 : document xml bytes) (a : side * op xml bytes),
         let
         '(fs', d1', d2') :=
          pstep xml bytes kid ser par pretty stamp entries with_entries kids
            mime mime_bytes rdf0 (fs, d1, d2) a in
          match fst a with
          | OnOriginal =>
              d2' = d2 /\
              (cpath bytes (cont xml bytes d2) = None ->
               forall n : name,
               view xml bytes kid par proj mask fs' d2 n =
               view xml bytes kid par proj mask fs d2 n)
          | OnClone =>
              d1' = d1 /\
              (respects xml bytes (cpath bytes (cont xml bytes d1)) a ->
               forall n : name,
               view xml bytes kid par proj mask fs' d1 n =
               view xml bytes kid par proj mask fs d1 n)
          end.
Proof. exact pstep_independent. Qed.
Print Assumptions C10_independent_step.

(* any history on the clone leaves the original as it was *)
Theorem C10_clone_ops_leave_original :
  forall (xml bytes kid : Type) (ser : xml -> bytes)
           (par : bytes -> xml) (pretty stamp : xml -> xml)
           (entries : xml -> mentries) (with_entries : mentries -> xml -> xml)
           (kids : xml -> list kid) (mime : bytes -> mtype)
           (mime_bytes : mtype -> bytes) (rdf0 : bytes) 
           (proj : Type) (mask : xml -> proj) (h : list (side * op xml bytes))
           (fs : fsys bytes kid) (d1 d2 : document xml bytes),
         List.Forall
           (fun a : side * op xml bytes =>
            fst a = OnClone /\
            respects xml bytes (cpath bytes (cont xml bytes d1)) a) h ->
         let
         '(fs', d1', _) :=
          prun xml bytes kid ser par pretty stamp entries with_entries kids
            mime mime_bytes rdf0 (fs, d1, d2) h in
          d1' = d1 /\
          (forall n : name,
           view xml bytes kid par proj mask fs' d1 n =
           view xml bytes kid par proj mask fs d1 n).
Proof. exact clone_ops_leave_original. Qed.
Print Assumptions C10_clone_ops_leave_original.

(* any history on the original leaves the clone as it was *)
Theorem C10_original_ops_leave_clone :
  forall (xml bytes kid : Type) (ser : xml -> bytes)
           (par : bytes -> xml) (pretty stamp : xml -> xml)
           (entries : xml -> mentries) (with_entries : mentries -> xml -> xml)
           (kids : xml -> list kid) (mime : bytes -> mtype)
           (mime_bytes : mtype -> bytes) (rdf0 : bytes) 
           (proj : Type) (mask : xml -> proj) (h : list (side * op xml bytes))
           (fs : fsys bytes kid) (d1 d2 : document xml bytes),
         cpath bytes (cont xml bytes d2) = None ->
         List.Forall (fun a : side * op xml bytes => fst a = OnOriginal) h ->
         let
         '(fs', _, d2') :=
          prun xml bytes kid ser par pretty stamp entries with_entries kids
            mime mime_bytes rdf0 (fs, d1, d2) h in
          d2' = d2 /\
          (forall n : name,
           view xml bytes kid par proj mask fs' d2 n =
           view xml bytes kid par proj mask fs d2 n).
Proof. exact original_ops_leave_clone. Qed.
Print Assumptions C10_original_ops_leave_clone.

(* C10_doc_independent "in any interleaving": from a pair (original, clone) — the clone has no path — after ANY interleaved history
   (no re-open; the clone is not saved onto the file the original was opened from) the original and the clone are exactly
   the documents each would be after its own operations alone *)
Theorem C10_doc_independent_interleaving :
  forall (xml bytes kid : Type) (ser : xml -> bytes)
           (par : bytes -> xml) (pretty stamp : xml -> xml)
           (entries : xml -> mentries) (with_entries : mentries -> xml -> xml)
           (kids : xml -> list kid) (mime : bytes -> mtype)
           (mime_bytes : mtype -> bytes) (rdf0 : bytes)
           (h : list (side * op xml bytes)) (fs : fsys bytes kid)
           (d1 d2 : document xml bytes),
         P xml bytes d2 = None ->
         List.Forall (fair xml bytes (P xml bytes d1)) h ->
         let
         '(_, d1F, d2F) :=
          prun xml bytes kid ser par pretty stamp entries with_entries kids
            mime mime_bytes rdf0 (fs, d1, d2) h in
          d1F =
          snd
            (run xml bytes kid ser par pretty stamp entries with_entries kids
               mime mime_bytes rdf0 FIXED (fs, d1)
               (ops_of xml bytes OnOriginal h)) /\
          d2F =
          snd
            (run xml bytes kid ser par pretty stamp entries with_entries kids
               mime mime_bytes rdf0 FIXED (fs, d2) (ops_of xml bytes OnClone h)).
Proof. exact interleaving_commutes. Qed.
Print Assumptions C10_doc_independent_interleaving.

Example C10_example : FsOK cbytes Z ex_fs /\ WFd cxml cbytes Z ex_fs ex_doc /\ (forall x, cpar (cser x) = x).
Proof. exact (conj ex_fs_ok (conj ex_doc_wf cpar_cser)). Qed.
