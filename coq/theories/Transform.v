(* Transform.v — executable model of the whole-table transformations of src/odfdo/table.py (property C17), on the
   state type of Table.v (layer A: XML runs of columns and rows, each row with its cell runs).  Definitions only.

   Mirrors:  Cell.is_empty(aggressive) / Cell.is_spanned, Row.is_empty, Row.rstrip, Row.minimized_width,
             Row.force_width, Row.last_cell, Table.rstrip(aggressive), Table.optimize_width with its four helpers
             _optimize_width_trim_rows/_length/_rstrip_rows/_adapt_columns, Table.transpose() and transpose(coord),
             Table.set_span(area, merge), Table.del_span(area) with get_cell(keep_repeated=False),
             get_cells(area) -> Row.traverse(start,end), set_cells(clone=False); to_csv / import_from_csv (CSV text
             abstract: Transformcsv section of Transformproof).

   Cells are the abstract pairs of Row.v: (content id, style id).  Everything the span code does to ONE cell
   (change the tag to table:covered-table-cell and back, set / delete the two span attributes, read them) is lxml
   behaviour on that cell alone; it enters as a "cell algebra" [calg]: functions on content ids.  The harness
   computes them by doing exactly that to the cell's XML with lxml (independently of odfdo); the theorems take the
   algebra's laws ([alg_ok], round trips of tag and attribute edits) as a hypothesis, and the correspondence check
   evaluates the decidable form of these laws on the tables it is given. *)
From Coq Require Import List ZArith Bool Arith.
Import ListNotations.
Require Import Vault Row Table.
Local Open Scope Z_scope.

Record calg := {
  ca_cov   : Z -> bool;           (* the tag is table:covered-table-cell *)
  ca_span  : Z -> bool;           (* table:number-columns-spanned or table:number-rows-spanned is present *)
  ca_cs    : Z -> option Z;       (* get_attribute_integer("table:number-columns-spanned") *)
  ca_rs    : Z -> option Z;       (* get_attribute_integer("table:number-rows-spanned") *)
  ca_valued : Z -> bool;          (* Cell.value is not None, or the cell has children *)
  ca_hasval : Z -> bool;          (* Cell.get_value() is not None       (merge only) *)
  ca_nonblank : Z -> bool;        (* that value is not the empty string (merge only) *)
  ca_base  : Z -> Z;              (* the content with the tag and the two span attributes taken away: what the
                                     property calls the cell's value *)
  ca_to_cov : Z -> Z;             (* cell.tag = "table:covered-table-cell" *)
  ca_to_plain : Z -> Z;           (* cell.tag = "table:table-cell" *)
  ca_add_span : Z -> Z -> Z -> Z; (* set_attribute(number-columns-spanned, str c); set_attribute(number-rows-spanned, str r) *)
  ca_rm_span : Z -> Z;            (* del_attribute of both *)
  ca_join : list Z -> Z           (* merge=True: the content of Cell(v) where v is the one collected value, or " ".join(str(v)
                                     for the truthy ones) when there are several; argument = the contents of the
                                     contributing cells in the order the code collects them *)
}.

(* plain list helper: drop the longest suffix whose elements all satisfy p (reversed(...) loop with break) *)
Fixpoint strip_end {A} (p : A -> bool) (l : list A) : list A :=
  match l with
  | [] => []
  | x :: r => match strip_end p r with
              | [] => if p x then [] else [x]
              | r' => x :: r'
              end
  end.
Fixpoint zrange (s : Z) (n : nat) : list Z := match n with O => [] | S k => s :: zrange (s + 1) k end.

Section Model.
Variable a : calg.

(* Cell.is_spanned / Cell.is_empty(aggressive) *)
Definition is_spanned (v : Z) : bool := ca_cov a v || ca_span a v.
Definition cell_empty (aggr : bool) (c : cell) : bool :=
  negb (ca_valued a (fst c)) && negb (is_spanned (fst c)) && (aggr || (snd c =? 0)).
Definition run_empty (aggr : bool) (c : nat * cell) : bool := cell_empty aggr (snd c).
(* Row.is_empty(aggressive): all(...) over the cell ELEMENTS *)
Definition row_is_empty (aggr : bool) (v : rruns) : bool := forallb (run_empty aggr) v.
(* Row.rstrip(aggressive): delete trailing empty cell elements *)
Definition row_rstrip (aggr : bool) (v : rruns) : rruns := strip_end (run_empty aggr) v.

(* the column trimming loop shared by rstrip and _optimize_width_adapt_columns: over reversed(columns) *)
Fixpoint trim_loop (diff : Z) (rc : list (nat * Z)) : list (nat * Z) :=
  match rc with
  | [] => []
  | (n, s) :: r =>
      let rep := Z.of_nat n - diff in
      if 0 <? rep then (Z.to_nat rep, s) :: r
      else if rep =? 0 then r
      else trim_loop (- rep) r
  end.
Definition trim_cols (w : Z) (cs : list (nat * Z)) : list (nat * Z) :=
  let diff := Z.of_nat (width cs) - w in
  if 0 <? diff then rev (trim_loop diff (rev cs)) else cs.

(* Table.rstrip(aggressive) *)
Definition rowrun_empty (aggr : bool) (r : nat * rowx) : bool := row_is_empty aggr (snd (snd r)).
Definition rowrun_rstrip (aggr : bool) (r : nat * rowx) : nat * rowx := (fst r, (fst (snd r), row_rstrip aggr (snd (snd r)))).
Definition t_rstrip (aggr : bool) (t : tstate) : tstate :=
  let rows1 := strip_end (rowrun_empty aggr) (rows t) in
  let rows2 := map (rowrun_rstrip aggr) rows1 in
  {| cols := trim_cols (max_roww rows2) (cols t); rows := rows2 |}.

(* ---- optimize_width ---- *)
(* _optimize_width_trim_rows: count = (trailing empty row ELEMENTS) - 1; delete count of them; then the last row
   element loses its repeat — always in the pinned code (F22), only when it is empty in the repaired code *)
Definition unrepeat_last (cond : rowx -> bool) (rs : list (nat * rowx)) : list (nat * rowx) :=
  match rev rs with
  | [] => rs
  | (n, r) :: rr => if cond r then rev ((1%nat, r) :: rr) else rs
  end.
Definition ow_trim_rows (fixed : bool) (rs : list (nat * rowx)) : list (nat * rowx) :=
  let kept := strip_end (rowrun_empty false) rs in
  let k := (length rs - length kept)%nat in                     (* trailing empty row elements *)
  let rs1 := if (2 <=? k)%nat then firstn (S (length kept)) rs else rs in
  unrepeat_last (fun r => if fixed then row_is_empty false (snd r) else true) rs1.
(* Row.minimized_width: the last run counts for one when its cell is empty (aggressive); 1 for a row without cells *)
Definition minimized_width (v : rruns) : Z :=
  match rev v with
  | [] => 1
  | (n, c) :: _ => if cell_empty true c then rwidth v - Z.of_nat n + 1 else rwidth v
  end.
(* Row.force_width(width): shorten the last run when it is an empty (aggressive) repeated cell *)
Definition force_width (w : Z) (v : rruns) : rruns :=
  match rev v with
  | [] => v
  | (n, c) :: rr =>
      if cell_empty true c && (2 <=? n)%nat then
        let delta := rwidth v - w in
        if 0 <? delta then rev ((Nat.max 1 (Z.to_nat (Z.of_nat n - delta)), c) :: rr) else v
      else v
  end.
Definition ow_length (rs : list (nat * rowx)) : Z :=
  fold_left (fun acc (r : nat * rowx) => Z.max acc (minimized_width (snd (snd r)))) rs 0.
(* Table.optimize_width.  fixed = the repaired code (F22: repeat of a non-empty last row kept; F122: a table without
   rows is left without columns instead of raising ValueError from max() of an empty sequence: None = raises) *)
Definition t_optimize_width (fixed : bool) (t : tstate) : option tstate :=
  let rs1 := ow_trim_rows fixed (rows t) in
  match rs1 with
  | [] => if fixed then Some {| cols := trim_cols 0 (cols t); rows := [] |} else None
  | _ =>
    let w := ow_length rs1 in
    Some {| cols := trim_cols w (cols t);
            rows := map (fun r : nat * rowx => (fst r, (fst (snd r), force_width w (snd (snd r))))) rs1 |}
  end.

(* ---- transpose ---- *)
Definition max_length (ll : list (list cell)) : nat := fold_left (fun acc r => Nat.max acc (length r)) ll 0%nat.
(* itertools.zip_longest applied to the rows of data, fillvalue = d *)
Definition zip_longest (d : cell) (ll : list (list cell)) : list (list cell) :=
  map (fun j => map (fun r => nth j r d) ll) (seq 0 (max_length ll)).
Definition unit_runs (r : list cell) : rruns := map (fun c => (1%nat, c)) r.
Definition table_data (t : tstate) : list (list cell) := map (fun r : rowx => expand (snd r)) (expand (rows t)).
Definition build_rows (rs : list (list cell)) (t0 : tstate) : tstate :=
  fold_left (fun st r => append_row 1 (0, unit_runs r) st) rs t0.
(* Table.transpose() of the repaired code (F21: missing cells of shorter rows are filled with empty cells) *)
Definition t_transpose (t : tstate) : tstate := build_rows (zip_longest empty_cell (table_data t)) empty_table.
(* the pinned code: zip_longest pads with None and Row.extend_cells raises on it: None = raises *)
Definition rectangular (ll : list (list cell)) : bool := forallb (fun r => (length r =? max_length ll)%nat) ll.
Definition t_transpose_pinned (t : tstate) : option tstate :=
  if rectangular (table_data t) then Some (t_transpose t) else None.

(* Table.transpose(coord), coord = (x, y, z, t) given as non-negative integers: clamped to the table, the area is
   read with traverse(start,end) / Row.traverse(start,end), blanked with set_values when it is not square, and the
   transposed cells are written with set_cells (clone=True); a None of zip_longest is written as a new empty cell
   by Row.set_cell, so this variant does not raise on ragged rows *)
Definition area_read (x y z t : Z) (st : tstate) : list (list cell) :=
  map (fun r : rowx => traverse_range x z (snd r))
      (firstn (Z.to_nat (t + 1 - y)) (skipn (Z.to_nat y) (expand (rows st)))).
Definition lines_of (cells : list (list cell)) : list (list (nat * cell)) := map unit_runs cells.
Definition t_transpose_area (x y z t : Z) (st : tstate) : option tstate :=
  let x := Z.min x (twidth st - 1) in let z := Z.min z (twidth st - 1) in
  let y := Z.min y (theight st - 1) in let t := Z.min t (theight st - 1) in
  let data := area_read x y z t st in
  let w := z - x + 1 in let h := t - y + 1 in
  let st1 := if w =? h then Some st
             else t_step st (OSetLines false x y (repeat (repeat (1%nat, empty_cell) (Z.to_nat w)) (Z.to_nat h))) in
  match st1 with
  | None => None
  | Some st1 => t_step st1 (OSetLines true x y (lines_of (zip_longest empty_cell data)))
  end.

(* ---- spans ---- *)
(* the cells of the area as set_span collects them: get_cell((xx,yy), clone=True, keep_repeated=False), an empty
   Cell() beyond the row or below the table *)
Definition area_cells (x y z t : Z) (st : tstate) : list (list cell) :=
  map (fun yy => map (fun xx => t_get_cell xx yy st) (zrange x (Z.to_nat (z + 1 - x)))) (zrange y (Z.to_nat (t + 1 - y))).
Definition cov (c : cell) : cell := (ca_to_cov a (fst c), snd c).
Definition plain (c : cell) : cell := (ca_to_plain a (fst c), snd c).
(* first cell of the first row gets the two attributes, every other cell of the area the covered tag *)
Definition mark_span (nc nr : Z) (cells : list (list cell)) : list (list cell) :=
  match cells with
  | [] => []
  | r0 :: rs => (match r0 with [] => [] | c :: r' => (ca_add_span a (fst c) nc nr, snd c) :: map cov r' end) :: map (map cov) rs
  end.
Definition unmark_span (cells : list (list cell)) : list (list cell) :=
  match cells with
  | [] => []
  | r0 :: rs => (match r0 with [] => [] | c :: r' => (ca_rm_span a (fst c), snd c) :: map plain r' end) :: map (map plain) rs
  end.
(* merge=True: every non-empty (aggressive) cell whose value is not None is cleared (content and style); when one
   of the collected values is not "" the first cell receives the joined value: Cell.set_value clears it first, so
   it becomes the bare cell of content [mid] (the content id of Cell(joined value), supplied with the call) *)
Definition merge_clear (c : cell) : cell :=
  if cell_empty true c then c else if ca_hasval a (fst c) then empty_cell else c.
Definition contributes (c : cell) : bool := negb (cell_empty true c) && ca_hasval a (fst c) && ca_nonblank a (fst c).
Definition merge_cells (mid : Z) (cells : list (list cell)) : list (list cell) :=
  let cleared := map (map merge_clear) cells in
  if existsb (existsb contributes) cells then
    match cleared with
    | (c :: r0) :: rs => ((mid, 0) :: r0) :: rs
    | other => other
    end
  else cleared.
(* the contents whose values merge=True collects, in the order of the two nested loops (row by row, left to right), and
   the content the first cell receives *)
Definition join_ids (cells : list (list cell)) : list Z := map (fun c : cell => fst c) (filter contributes (concat cells)).
Definition merge_mid (cells : list (list cell)) : Z := ca_join a (join_ids cells).
(* Table.set_span(area=(x,y,z,t), merge): returns the new state and the boolean the call returns *)
Definition t_set_span (x y z t : Z) (merge : bool) (mid : Z) (st : tstate) : option (tstate * bool) :=
  if (x =? z) && (y =? t) then Some (st, false)
  else
    let cells := area_cells x y z t st in
    if existsb (existsb (fun c : cell => is_spanned (fst c))) cells then Some (st, false)
    else
      let cells1 := if merge then merge_cells mid cells else cells in
      let cells2 := mark_span (z - x + 1) (t - y + 1) cells1 in
      match t_step st (OSetLines false x y (lines_of cells2)) with
      | Some st' => Some (st', true)
      | None => None
      end.
(* Table.del_span((x,y)) *)
Definition t_del_span (x y : Z) (st : tstate) : option (tstate * bool) :=
  let c0 := t_get_cell x y st in
  match ca_cs a (fst c0) with
  | None => Some (st, false)
  | Some nc =>
    match ca_rs a (fst c0) with
    | None => Some (st, false)
    | Some nr =>
      let cells := area_read x y (x + nc - 1) (y + nr - 1) st in
      match cells with
      | (_ :: _) :: _ =>
          match t_step st (OSetLines false x y (lines_of (unmark_span cells))) with
          | Some st' => Some (st', true)
          | None => None
          end
      | _ => None                                 (* cells[0][0] raises IndexError *)
      end
    end
  end.

(* ---- the transformation alphabet ---- *)
Inductive xop :=
| XTranspose
| XTransposeArea (x y z t : Z)
| XRstrip (aggr : bool)
| XOptimize
| XSetSpan (x y z t : Z) (merge : bool) (mid : Z)
| XDelSpan (x y : Z)
| XCore (o : top).                 (* an operation of the C01 alphabet (used as a probe after a transformation) *)

(* one call: new state and returned boolean (true where the call returns nothing); None = the call raises.
   fixed = the repaired code (F21, F22, F122) *)
Definition x_step (fixed : bool) (st : tstate) (o : xop) : option (tstate * bool) :=
  match o with
  | XTranspose => if fixed then Some (t_transpose st, true)
                  else option_map (fun s => (s, true)) (t_transpose_pinned st)
  | XTransposeArea x y z t => option_map (fun s => (s, true)) (t_transpose_area x y z t st)
  | XRstrip aggr => Some (t_rstrip aggr st, true)
  | XOptimize => option_map (fun s => (s, true)) (t_optimize_width fixed st)
  | XSetSpan x y z t m mid => t_set_span x y z t m (if m then merge_mid (area_cells x y z t st) else mid) st
  | XDelSpan x y => t_del_span x y st
  | XCore o => option_map (fun s => (s, true)) (t_step st o)
  end.
Fixpoint x_run (fixed : bool) (st : tstate) (os : list xop) : option tstate :=
  match os with
  | [] => Some st
  | o :: r => match x_step fixed st o with Some (st', _) => x_run fixed st' r | None => None end
  end.
End Model.

(* a cell algebra given by finite tables (what the harness emits per case):
   info rows  (id, (covered, span attribute present, columns-spanned, rows-spanned, valued, hasval, nonblank, base,
                    id as covered, id as plain cell, id without span attributes))
   span rows  ((id, c, r), id with the two attributes set to c and r)
   join rows  (contents of the contributing cells in order, content of the merged first cell)
   an id without a row is read as a plain valued cell that no edit changes (the checker reports such a lookup) *)
Definition cinfo := (bool * bool * option Z * option Z * bool * bool * bool * Z * Z * Z * Z)%type.
Definition ci_default (v : Z) : cinfo := (false, false, None, None, negb (v =? 0), false, false, v, v, v, v).
Definition ci_find (tab : list (Z * cinfo)) (v : Z) : cinfo :=
  match find (fun p => fst p =? v) tab with Some p => snd p | None => ci_default v end.
Definition alg_of (tab : list (Z * cinfo)) (stab : list (Z * Z * Z * Z)) (jtab : list (list Z * Z)) : calg :=
  let get v := ci_find tab v in
  {| ca_cov := fun v => let '(c, _, _, _, _, _, _, _, _, _, _) := get v in c;
     ca_span := fun v => let '(_, s, _, _, _, _, _, _, _, _, _) := get v in s;
     ca_cs := fun v => let '(_, _, x, _, _, _, _, _, _, _, _) := get v in x;
     ca_rs := fun v => let '(_, _, _, x, _, _, _, _, _, _, _) := get v in x;
     ca_valued := fun v => let '(_, _, _, _, x, _, _, _, _, _, _) := get v in x;
     ca_hasval := fun v => let '(_, _, _, _, _, x, _, _, _, _, _) := get v in x;
     ca_nonblank := fun v => let '(_, _, _, _, _, _, x, _, _, _, _) := get v in x;
     ca_base := fun v => let '(_, _, _, _, _, _, _, x, _, _, _) := get v in x;
     ca_to_cov := fun v => let '(_, _, _, _, _, _, _, _, x, _, _) := get v in x;
     ca_to_plain := fun v => let '(_, _, _, _, _, _, _, _, _, x, _) := get v in x;
     ca_rm_span := fun v => let '(_, _, _, _, _, _, _, _, _, _, x) := get v in x;
     ca_add_span := fun v c r =>
       match find (fun p : Z * Z * Z * Z => let '(v', c', r', _) := p in (v' =? v) && (c' =? c) && (r' =? r)) stab with
       | Some (_, _, _, w) => w | None => -1 end;
     ca_join := fun l => match find (fun p : list Z * Z => zl_eqb (fst p) l) jtab with Some p => snd p | None => -1 end |}.
