From Coq Require Import List Arith Bool Lia.
Import ListNotations.

Inductive tok := Sp | Tb | Nl | Ch (n : nat).
Definition tok_eqb (a b : tok) : bool :=
  match a, b with Sp,Sp | Tb,Tb | Nl,Nl => true | Ch x, Ch y => Nat.eqb x y | _,_ => false end.
Definition is_sp (t : tok) := match t with Sp => true | _ => false end.
Definition str := list tok.

Inductive item := IStr (s : str) | IS (n : nat) | ITab | ILb | IElem (id : nat) (txt : str).

(* re.split("( +)") with empties removed: maximal runs *)
Fixpoint chunks (s : str) : list str :=
  match s with
  | [] => []
  | t :: s' =>
    match chunks s' with
    | [] => [[t]]
    | c :: cs =>
      match c with
      | [] => [t] :: cs   (* impossible *)
      | u :: _ => if Bool.eqb (is_sp t) (is_sp u) then (t :: c) :: cs else [t] :: c :: cs
      end
    end
  end.
Definition all_sp (c : str) := forallb is_sp c.

(* append text to the last item if it is a string *)
Fixpoint merge_text (res : list item) (t : str) : list item :=
  match res with
  | [] => [IStr t]
  | [IStr s] => [IStr (s ++ t)]
  | [x] => [x; IStr t]
  | x :: r => x :: merge_text r t
  end.

Definition mid_step (res : list item) (c : str) : list item :=
  if (1 <? length c) && all_sp c then merge_text res [Sp] ++ [IS (length c - 1)]
  else merge_text res c.

Definition sub_merge_spaces (text : str) : list item :=
  match chunks text with
  | [] => []
  | c0 :: rest =>
    let r0 := if all_sp c0 then [IS (length c0)] else [IStr c0] in
    match rev rest with
    | [] => r0
    | last :: rmid =>
      let r1 := fold_left mid_step (rev rmid) r0 in
      if all_sp last then r1 ++ [IS (length last)] else merge_text r1 last
    end
  end.

(* _re_splitter = (\n|\t) *)
Fixpoint split_tl (cur : str) (s : str) : list item :=
  match s with
  | [] => match cur with [] => [] | _ => [IStr (rev cur)] end
  | Tb :: s' => (match cur with [] => [] | _ => [IStr (rev cur)] end) ++ ITab :: split_tl [] s'
  | Nl :: s' => (match cur with [] => [] | _ => [IStr (rev cur)] end) ++ ILb :: split_tl [] s'
  | t :: s' => split_tl (t :: cur) s'
  end.
Definition replace_tabs_lb (its : list item) : list item :=
  flat_map (fun it => match it with IStr s => split_tl [] s | _ => [it] end) its.
Definition merge_spaces (its : list item) : list item :=
  flat_map (fun it => match it with IStr s => sub_merge_spaces s | _ => [it] end) its.

(* _expand_spaces: existing content (children with tails already as IStr items) + added string *)
Definition expand_spaces (its : list item) (added : str) : list item :=
  let step res it := match it with
                     | IStr s => merge_text res s
                     | IS n => merge_text res (repeat Sp n)
                     | _ => res ++ [it] end in
  merge_text (fold_left step its []) added.

(* Element.__append for str: text goes to tail of last child / text, with " +" -> " " — modelled at item level:
   appending IStr after IStr merges (cannot happen after merge passes produce alternating) *)
Definition append_plain_text (its : list item) (added : str) : list item :=
  replace_tabs_lb (merge_spaces (expand_spaces its added)).

Fixpoint readable (its : list item) : str :=
  match its with
  | [] => []
  | IStr s :: r => s ++ readable r
  | IS n :: r => repeat Sp n ++ readable r
  | ITab :: r => Tb :: readable r
  | ILb :: r => Nl :: readable r
  | IElem _ t :: r => t ++ readable r
  end.

(* consumer: (tok, collapsible) *)
Fixpoint chars (ign : bool) (s : str) (acc : list (tok*bool)) : bool * list (tok*bool) :=
  match s with
  | [] => (ign, acc)
  | t :: s' =>
    match t with
    | Sp | Tb | Nl => if ign then chars true s' acc else chars true s' ((Sp,true)::acc)
    | _ => chars false s' ((t,false)::acc)
    end
  end.
Fixpoint consume_ (ign : bool) (its : list item) (acc : list (tok*bool)) : list (tok*bool) :=
  match its with
  | [] => acc
  | IStr s :: r => let '(ign', acc') := chars ign s acc in consume_ ign' r acc'
  | IS n :: r => consume_ false r (repeat (Sp,false) n ++ acc)
  | ITab :: r => consume_ false r ((Tb,false)::acc)
  | ILb :: r => consume_ false r ((Nl,false)::acc)
  | IElem _ t :: r => consume_ false r (rev (map (fun x => (x,false)) t) ++ acc)
  end.
Fixpoint drop_coll (l : list (tok*bool)) := match l with (_,true)::r => drop_coll r | _ => l end.
Definition consume (its : list item) : str := rev (map fst (drop_coll (consume_ true its []))).

(* exhaustive sanity *)
Fixpoint all_strs (n : nat) : list str :=
  match n with 0 => [[]] | S k => flat_map (fun s => [Sp::s; Tb::s; Nl::s; Ch 0::s]) (all_strs k) ++ all_strs k end.
Definition str_eqb (a b : str) := (length a =? length b) && forallb (fun p => tok_eqb (fst p) (snd p)) (combine a b).
Definition ok1 (s : str) := let e := append_plain_text [] s in str_eqb (readable e) s && str_eqb (consume e) s.
Eval vm_compute in (length (all_strs 6), forallb ok1 (all_strs 6)).
(* two-step appends *)
Definition ok2 (a b : str) := let e := append_plain_text (append_plain_text [] a) b in str_eqb (readable e) (a++b) && str_eqb (consume e) (a++b).
Eval vm_compute in forallb (fun a => forallb (ok2 a) (all_strs 3)) (all_strs 4).
Eval vm_compute in append_plain_text [] [Ch 1; Sp; Sp; Sp; Ch 2; Sp; Tb; Sp; Ch 3; Sp].
