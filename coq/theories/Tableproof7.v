(* Tableproof7.v — every read of the model (through the maps) is the read of the grid. *)
From Coq Require Import List ZArith Lia Bool Arith.
Import ListNotations.
Require Import Vault Vaultproof Vaultproof3 Vaultproof5 Row Table Grid Tableabs Tableproof Tableproof2 Tableproof3 Tableproof4 Tableproof5 Tableproof6.
Open Scope Z_scope.

Lemma cell_at_spec cs x : wf cs -> 0 <= x -> cell_at x cs = nth_error (expand cs) (Z.to_nat x).
Proof. intros Hw Hx. exact (item_at_spec cs x Hw Hx). Qed.

Lemma cell_value_nth cs x : wf cs -> 0 <= x ->
  (match cell_at x cs with Some c => fst c | None => 0 end) = fst (nth (Z.to_nat x) (expand cs) empty_cell).
Proof.
  intros Hw Hx. rewrite (cell_at_spec cs x Hw Hx).
  destruct (nth_error (expand cs) (Z.to_nat x)) as [c|] eqn:E.
  - now rewrite (nth_error_nth _ _ _ E).
  - apply nth_error_None in E. now rewrite nth_overflow.
Qed.

Lemma cell_nth cs x : wf cs -> 0 <= x ->
  (match cell_at x cs with Some c => c | None => empty_cell end) = nth (Z.to_nat x) (expand cs) empty_cell.
Proof.
  intros Hw Hx. rewrite (cell_at_spec cs x Hw Hx).
  destruct (nth_error (expand cs) (Z.to_nat x)) as [c|] eqn:E.
  - now rewrite (nth_error_nth _ _ _ E).
  - apply nth_error_None in E. now rewrite nth_overflow.
Qed.
Lemma get_cell_base x y t :
  (if theight t <=? y then empty_cell else match row_at y t with
       | Some (_, (_, cs)) => match cell_at x cs with Some c => c | None => empty_cell end | None => empty_cell end)
  = match base_row y t with Some (_, cs) => match cell_at x cs with Some c => c | None => empty_cell end | None => empty_cell end.
Proof.
  unfold base_row. destruct (theight t <=? y); [reflexivity|].
  destruct (row_at y t) as [[rep [st cs]]|]; reflexivity.
Qed.

Lemma get_value_base x y t :
  (if theight t <=? y then 0 else match row_at y t with
       | Some (_, (_, cs)) => match cell_at x cs with Some c => fst c | None => 0 end | None => 0 end)
  = match base_row y t with Some (_, cs) => match cell_at x cs with Some c => fst c | None => 0 end | None => 0 end.
Proof.
  unfold base_row. destruct (theight t <=? y); [reflexivity|].
  destruct (row_at y t) as [[rep [st cs]]|]; reflexivity.
Qed.

Theorem read_refines t q : WF t -> t_read t q = g_read (abs_t t) q.
Proof.
  intros [Htw Hcw].
  assert (Hny : forall y, 0 <= ny y t) by (intros; apply norm_coord_nonneg, theight_nonneg).
  assert (Hnx : forall x, 0 <= nx x t) by (intros; apply norm_coord_nonneg, twidth_nonneg).
  destruct q as [|x y|y|  |x|y|x y z t'|x y]; cbn [t_read g_read]; rewrite ?gheight_abs, ?ncols_abs.
  - reflexivity.
  - f_equal. unfold t_get_value. rewrite get_value_base.
    destruct (base_row_spec (ny y t) t Htw Hcw (Hny y)) as (st & cs & Hb & He & Hw). rewrite Hb.
    rewrite (cell_value_nth cs (nx x t) Hw (Hnx x)). unfold g_value.
    change (norm_coord y (theight t)) with (ny y t). rewrite <- He. reflexivity.
  - f_equal. unfold t_row_values.
    destruct (base_row_spec (ny y t) t Htw Hcw (Hny y)) as (st & cs & Hb & He & Hw). rewrite Hb.
    unfold pad_to, gpad, row_values. change (norm_coord y (theight t)) with (ny y t). rewrite <- He. reflexivity.
  - f_equal. unfold t_values. cbn [abs_t grows ncols]. rewrite map_map. apply map_ext. reflexivity.
  - f_equal. unfold t_column_values. cbn [abs_t grows ncols]. rewrite map_map.
    apply map_ext_in. intros r Hr.
    assert (Hall : Forall rwf (expand (rows t))) by (apply (cwf_iff t (proj1 Htw)); exact Hcw).
    rewrite Forall_forall in Hall. apply (cell_value_nth (snd r) (nx x t) (Hall r Hr) (Hnx x)).
  - unfold t_row_width.
    destruct (base_row_spec (ny y t) t Htw Hcw (Hny y)) as (st & cs & Hb & He & Hw). rewrite Hb.
    change (norm_coord y (theight t)) with (ny y t). rewrite <- He. reflexivity.
  - f_equal. unfold t_area. cbv zeta. cbn [abs_t grows ncols].
    change (norm_coord x (twidth t)) with (nx x t). change (norm_coord z (twidth t)) with (nx z t).
    change (norm_coord y (theight t)) with (ny y t). change (norm_coord t' (theight t)) with (ny t' t).
    rewrite <- map_skipn, <- map_firstn, map_map. apply map_ext_in. intros r Hr.
    assert (Hall : Forall rwf (expand (rows t))) by (apply (cwf_iff t (proj1 Htw)); exact Hcw).
    assert (Hsub : Forall rwf (firstn (Z.to_nat (ny t' t + 1 - ny y t)) (skipn (Z.to_nat (ny y t)) (expand (rows t)))))
      by (apply Forall_firstn'', Forall_skipn''; exact Hall).
    rewrite Forall_forall in Hsub. rewrite (traverse_range_spec (snd r) (nx x t) (nx z t) (Hsub r Hr) (Hnx x)). reflexivity.
  - f_equal. unfold t_get_cell. cbv zeta. rewrite get_cell_base.
    destruct (base_row_spec (ny y t) t Htw Hcw (Hny y)) as (st & cs & Hb & He & Hw). rewrite Hb.
    rewrite (cell_nth cs (nx x t) Hw (Hnx x)).
    change (norm_coord y (theight t)) with (ny y t). change (norm_coord x (twidth t)) with (nx x t). rewrite <- He. reflexivity.
Qed.

(* the full statement of C01 on the modelled alphabet: after any history, every read is the grid's answer *)
Theorem reads_after_history os t q : WF t -> Forall op_ok os ->
  exists t', t_run t os = Some t' /\ t_read t' q = g_read (fold_left g_step os (abs_t t)) q.
Proof.
  intros Hwf Hok. destruct (history_refines os t Hwf Hok) as (t' & Hr & Hw' & Ha).
  exists t'. split; [exact Hr|]. rewrite <- Ha. apply read_refines, Hw'.
Qed.
