(* Property C12 -- statements only.  Each is closed by [exact] of a lemma proved elsewhere.
   PARTIAL by design (DESIGN.md section 5/C12, section 9):
     proved   (A) the dispatch mechanism, for every sequence of registrations and every tag (induction);
              (B) on the tables regenerated from the sources on every run (Gen_Registry.v, Gen_Ctors.v): finite sweeps
                  by vm_compute lifted with forallb_forall -- the bound is the table;
              (C) the generic attribute property (PropDef) laws, for every string / value / attribute map;
              (D) every constructor argument recorded in the table as stored through a generic property is exposed by
                  that property after the whole constructor ran, for every value satisfying its guard.
     NOT proved (differential testing in harness/c12.py): that lxml serialises to well-formed XML with an equal infoset,
              class identity through children / get_elements / xpath / parent / clone / get_element, arguments stored
              through hand-written properties or other code (kinds StoredCond, NonProp, Unrecognised of the table). *)
From Coq Require Import String List Bool. Import ListNotations. Open Scope string_scope.
Require Import Registry Registryproof Attr Attrproof RegistrySpec Gen_Registry Gen_Ctors C12defs C12tab C12lift.

(* ------------------------------------------------------------------ (A) dispatch, for all registration sequences *)

Theorem C12_registry_is_a_function : forall calls : list (string * string), NoDup (map fst (build calls)).
Proof. exact build_nodup. Qed.
Print Assumptions C12_registry_is_a_function.

Theorem C12_first_registrant_wins : forall (calls : list (string * string)) (tag : string),
  assoc tag (build calls) = assoc tag calls.
Proof. exact build_first_wins. Qed.
Print Assumptions C12_first_registrant_wins.

Theorem C12_known_tag_dispatches : forall reg cls tag c,
  NoDup (map fst reg) -> In (tag, c) reg -> from_tag reg cls tag = c.
Proof. exact from_tag_known. Qed.
Print Assumptions C12_known_tag_dispatches.

Theorem C12_unknown_tag_falls_back : forall reg cls tag, ~ In tag (map fst reg) -> from_tag reg cls tag = cls.
Proof. exact from_tag_unknown. Qed.
Print Assumptions C12_unknown_tag_falls_back.

(* ------------------------------------------------------------------ (B) the generated registry table *)

(* the registration calls recorded while importing odfdo, replayed through the model, give the implementation's dict *)
Theorem C12_model_registry_is_live :
  (forall t c, In (t, c) live_registry -> dispatch t = c) /\
  (forall t c, In (t, c) model_registry -> assoc t live_registry = Some c).
Proof. exact model_live. Qed.
Print Assumptions C12_model_registry_is_live.

(* every class's own tag dispatches to that class, or to the documented first registrant (bound: class_tags) *)
Theorem C12_own_tag_dispatches : forall c t, In (c, t) class_tags ->
  t = "" \/ exists lt, lxml_tag namespaces t = Some lt /\ (dispatch lt = c \/ is_documented c t (dispatch lt) = true).
Proof. exact own_tags. Qed.
Print Assumptions C12_own_tag_dispatches.

(* every registration call made by the sources took effect, or is the documented first-registrant case (bound: registrations) *)
Theorem C12_every_registration_effective : forall t c, In (t, c) registrations ->
  exists lt, lxml_tag namespaces t = Some lt /\ (dispatch lt = c \/ is_documented c t (dispatch lt) = true).
Proof. exact calls_effective. Qed.
Print Assumptions C12_every_registration_effective.

Theorem C12_unregistered_tags_give_Element : forall tag, ~ In tag (map fst model_registry) -> dispatch tag = "Element".
Proof. exact unknown_gives_element. Qed.
Print Assumptions C12_unregistered_tags_give_Element.

Theorem C12_every_class_reachable : forall ct, In ct class_tags -> reachable ct = true.
Proof. exact all_reachable. Qed.
Print Assumptions C12_every_class_reachable.

(* the LIVE registry against knowledge that does not come from the registration calls themselves:
   the hand-kept reference RegistrySpec.v (bound: 110 tags) and the classes that declare a _tag, found by walking the class
   tree (bound: tagged_classes) -- a registration dropped from the sources (which shrinks the recorded calls AND the dict
   together, invisible to C12_model_registry_is_live) fails both, with the tag / the class as the concrete input *)
Theorem C12_registry_matches_reference : forall x, In x registry_reference -> reference_ok x = true.
Proof. exact registry_matches_reference. Qed.
Print Assumptions C12_registry_matches_reference.

Theorem C12_every_tagged_class_is_dispatched : forall x, In x tagged_classes -> tagged_ok x = true.
Proof. exact every_tagged_class_dispatched. Qed.
Print Assumptions C12_every_tagged_class_is_dispatched.

(* ------------------------------------------------------------------ (B') access paths in the model
   children / parent / root / anything an XPath, get_elements, get_element, typed finder or traverse returns / clone:
   whatever the history and whatever the class of the receivers on the way, the wrapper obtained has the class the
   registry gives to the tag of ITS OWN node -- for every registry, every document tree, every history. *)
Theorem C12_access_paths_preserve_class : forall reg doc (l : list access) w w',
  consistent reg doc w -> access_run reg doc w l = Some w' -> consistent reg doc w'.
Proof. exact access_run_consistent. Qed.
Print Assumptions C12_access_paths_preserve_class.

Theorem C12_access_paths_agree : forall reg doc l1 l2 w1 w2 a b,
  consistent reg doc w1 -> consistent reg doc w2 ->
  access_run reg doc w1 l1 = Some a -> access_run reg doc w2 l2 = Some b -> w_pos a = w_pos b -> w_cls a = w_cls b.
Proof. exact access_paths_agree. Qed.
Print Assumptions C12_access_paths_agree.

(* ... on the generated registry: the class is [dispatch] of the node's tag -- the function the per-path observations of
   the correspondence are compared with *)
Theorem C12_access_paths_dispatch : forall doc l w w', consistent model_registry doc w -> access_run model_registry doc w l = Some w' ->
  exists n, node_at doc (w_pos w') = Some n /\ w_cls w' = dispatch (xtag n).
Proof. exact access_paths_dispatch. Qed.
Print Assumptions C12_access_paths_dispatch.

(* the model's assumption about the sources -- wrappers are made only by Element.from_tag / Element.from_tag_for_clone
   (base class), by self.from_tag in clone, and by the two constructions inside those factories -- checked on the
   generated table of wrapper-creation sites (bound: wrap_sites, every call site of the package) *)
Theorem C12_wrap_sites_as_modelled : forall x, In x wrap_sites -> site_ok x = true.
Proof. exact wrap_sites_modelled. Qed.
Print Assumptions C12_wrap_sites_as_modelled.

(* static: no constructor of a registered class writes to the element when it only wraps an existing node -- no property
   assignment through a setter and no public mutator call outside `if self._do_init:` anywhere in its __init__ chain
   (bound: the generated list wrap_writes; dynamic counterpart: parse-neutrality cases of the correspondence) *)
Theorem C12_wrapping_never_writes_static : wrap_writes = [].
Proof. exact sweep_wrap_writes. Qed.
Print Assumptions C12_wrapping_never_writes_static.

Example C12_example_access :
  let doc := XNode "{urn:oasis:names:tc:opendocument:xmlns:table:1.0}table"
               [XNode "{urn:oasis:names:tc:opendocument:xmlns:table:1.0}table-column" [];
                XNode "{urn:oasis:names:tc:opendocument:xmlns:table:1.0}table-row" [XNode "{urn:oasis:names:tc:opendocument:xmlns:table:1.0}table-cell" []]] in
  option_map w_cls (access_run model_registry doc (mkW "Table" []) [ASelect [1; 0]; AParent; AClone; AChild 0; ARoot; AChild 0]) = Some "Column".
Proof. vm_compute. reflexivity. Qed.

(* ------------------------------------------------------------------ (C) generic attribute properties *)

Theorem C12_attr_get_set : forall name family self_family v a, blocked family self_family = false ->
  getter name family self_family (setter name family self_family v a) = decode (encode v).
Proof. exact get_set. Qed.
Print Assumptions C12_attr_get_set.

Theorem C12_attr_other_properties_untouched : forall n m fam fam' sf v a, n <> m ->
  getter n fam sf (setter m fam' sf v a) = getter n fam sf a.
Proof. exact get_set_other. Qed.
Print Assumptions C12_attr_other_properties_untouched.

Theorem C12_attr_none_deletes : forall n fam sf a, blocked fam sf = false ->
  aget n (setter n fam sf VNone a) = None /\ forall m, m <> n -> aget m (setter n fam sf VNone a) = aget m a.
Proof. exact set_none_deletes. Qed.
Print Assumptions C12_attr_none_deletes.

Theorem C12_attr_bool : forall b, decode (encode (VBool b)) = VBool b.
Proof. exact decode_encode_bool. Qed.
Print Assumptions C12_attr_bool.

(* the exact exception set: a value reads back as itself iff it is None, a bool, or a string other than "true"/"false" *)
Theorem C12_attr_reads_back_exactly : forall v, decode (encode v) = v <-> reads_back_exactly v.
Proof. exact decode_encode_exact. Qed.
Print Assumptions C12_attr_reads_back_exactly.

Theorem C12_attr_string_true_reads_as_bool :
  decode (encode (VStr "true")) = VBool true /\ decode (encode (VStr "false")) = VBool false.
Proof. exact decode_encode_string_true. Qed.
Print Assumptions C12_attr_string_true_reads_as_bool.

Theorem C12_attr_other_objects_read_as_str : forall s t, s <> "true" -> s <> "false" -> decode (encode (VOther s t)) = VStr s.
Proof. exact decode_encode_other. Qed.
Print Assumptions C12_attr_other_objects_read_as_str.

Theorem C12_attr_ints_read_as_str : forall z s, s <> "true" -> s <> "false" -> decode (encode (VNum z s)) = VStr s.
Proof. exact decode_encode_num. Qed.
Print Assumptions C12_attr_ints_read_as_str.

Theorem C12_attr_other_family_inert : forall n fam sf v a, blocked fam sf = true ->
  setter n fam sf v a = a /\ getter n fam sf a = VNone.
Proof. exact blocked_inert. Qed.
Print Assumptions C12_attr_other_family_inert.

Theorem C12_attr_names_stay_unique : forall n fam sf v a, NoDup (map fst a) -> NoDup (map fst (setter n fam sf v a)).
Proof. exact setter_nodup. Qed.
Print Assumptions C12_attr_names_stay_unique.

(* every installed generic property of an existing (class, property) pair names the attribute of the hand-maintained
   reference table AttrSpec.v (bound: propdefs); pairs unknown to the reference are not judged *)
Theorem C12_propdefs_match_reference : forall x, In x propdefs -> matches_reference x = true.
Proof. exact propdefs_match_reference. Qed.
Print Assumptions C12_propdefs_match_reference.

(* ------------------------------------------------------------------ (D) constructors (table Gen_Ctors.v) *)

(* no argument is accepted and stored nowhere -- except the recorded known finding(s) in C12tab.known_dropped.
   On the pinned tree this obligation fails for Header.style, TOC.name, Annotation.name (F17). *)
Theorem C12_no_argument_dropped : forall e, In e ctors -> is_dropped e = false \/ is_known_dropped e = true.
Proof. exact none_dropped. Qed.
Print Assumptions C12_no_argument_dropped.

(* no two arguments of a constructor are stored into the same property / attribute (pinned tree: BackgroundImage, F53),
   and an argument named like a generic property goes into that property *)
Theorem C12_ctor_stores_injective : forall g, In g grouped -> stores_injective g = true.
Proof. exact stores_inj. Qed.
Print Assumptions C12_ctor_stores_injective.

Theorem C12_ctor_same_name_same_property : forall e, In e ctors -> same_name_ok e = true.
Proof. exact same_name. Qed.
Print Assumptions C12_ctor_same_name_same_property.

(* the two generated tables agree, and no class body shadows one of its own PropDefs (pinned tree: Style.leader_text, F54) *)
Theorem C12_tables_consistent :
  (forall e, In e ctors -> generic_consistent e = true /\ entry_class_known e = true) /\
  (forall x, In x declared_propdefs -> declared_unambiguous x = true /\ declared_installed x = true) /\
  grouped = map (fun c => (c, entries_of c)) classes.
Proof. exact tables_consistent. Qed.
Print Assumptions C12_tables_consistent.

(* the condition under which each constructor stores each argument is the one of the hand-kept reference CtorGuardSpec.v
   (bound: ctors; pairs unknown to the reference are not judged): an `is not None` that silently becomes a truthiness test
   -- the falsy members of the type (0, "", False, timedelta(0)) no longer stored -- fails here with (class, argument) *)
Theorem C12_ctor_guards_match_reference : forall e, In e ctors -> guard_matches_reference e = true.
Proof. exact guards_match_reference. Qed.
Print Assumptions C12_ctor_guards_match_reference.

(* MAIN: for every class of the table (c, es), every argument e recorded as stored through a generic property
   (attribute n, family fam) under guard g with conversion cv: whatever the other arguments are (raw), whatever the
   Python conversion functions do (pyconv), whatever attributes the element had (a) -- if the caller's value passes the
   guard, then after the WHOLE constructor the property reads decode (encode (converted value)). *)
Theorem C12_ctor_args_exposed : forall c es, In (c, es) grouped ->
  forall pyconv raw sf a e p g cv n fam,
  In e es -> c_kind e = Stored p g cv (Some (n, fam)) ->
  holds g (raw (c_arg e)) = true -> blocked fam sf = false ->
  getter n fam sf (ctor_model pyconv raw sf es a) = decode (encode (apply_conv pyconv cv (raw (c_arg e)))).
Proof. exact ctor_args_exposed. Qed.
Print Assumptions C12_ctor_args_exposed.

(* ... and the flags stored as `if arg: self.prop = True` *)
Theorem C12_ctor_flags_exposed : forall c es, In (c, es) grouped ->
  forall pyconv raw sf a e p b n fam,
  In e es -> c_kind e = StoredConst p b (Some (n, fam)) ->
  truthy (raw (c_arg e)) = true -> blocked fam sf = false ->
  getter n fam sf (ctor_model pyconv raw sf es a) = VBool b.
Proof. exact ctor_flags_exposed. Qed.
Print Assumptions C12_ctor_flags_exposed.

(* ------------------------------------------------------------------ examples: the hypotheses are inhabited *)

Example C12_example_header :
  In ("Header", entries_of "Header") grouped /\
  getter "text:outline-level" "" None
    (ctor_model (fun _ v => v) (fun arg => if String.eqb arg "level" then VOther "3" true else VNone) None (entries_of "Header") [])
  = VStr "3".
Proof. exact (conj header_in_grouped example_header_value). Qed.

Example C12_example_dispatch :
  dispatch "{urn:oasis:names:tc:opendocument:xmlns:text:1.0}h" = "Header" /\
  dispatch "{urn:oasis:names:tc:opendocument:xmlns:text:1.0}no-such-tag" = "Element".
Proof. split; vm_compute; reflexivity. Qed.

(* what the obligation C12_no_argument_dropped rejects: the pinned Header entry (F17) *)
Example C12_F17_shape_rejected : not_dropped (mkC "Header" "style" Dropped) = false.
Proof. vm_compute. reflexivity. Qed.

(* what C12_tables_consistent rejects: the pinned Style declarations of leader_text (F54) *)
Example C12_F54_shape_rejected :
  pd_agree ("Style", ("leader_text", ("style:leader-text", ""))) ("Style", ("leader_text", ("style:position", ""))) = false.
Proof. vm_compute. reflexivity. Qed.

(* ------------------------------------------------------------------ the property at full strength (NOT proved) *)

(* The implementation enters as functions; nothing is assumed about them.  What is missing from the theorems above to
   obtain C12_full is exactly the behaviour of lxml (serialise / parse), of every hand-written property and of every
   traversal method -- exercised by the correspondence (harness/c12.py), labelled as testing in the evidence. *)
Section Full.
  Variables (obj xml : Type).
  Variable construct : string -> (string -> val) -> option obj.      (* class, argument values; None = rejected arguments *)
  Variable class_of : obj -> string.
  Variable read : obj -> string -> val.                              (* property read-back *)
  Variable property_of_arg : string -> string -> option string.      (* class, argument -> its property *)
  Variable serialize : obj -> xml.
  Variable parse : xml -> option obj.
  Variable infoset_eq : xml -> xml -> Prop.
  Variable properties : string -> list string.
  Variable paths : list (obj -> option obj).                         (* children, get_elements, xpath, parent, clone, get_element ... re-reaching the same node *)

  Definition C12_full : Prop :=
    forall c raw o, construct c raw = Some o ->
      class_of o = c /\
      (forall arg p, property_of_arg c arg = Some p -> raw arg <> VNone -> read o p = decode (encode (raw arg))) /\
      exists o', parse (serialize o) = Some o' /\ class_of o' = c /\ infoset_eq (serialize o') (serialize o) /\
                 (forall p, In p (properties c) -> read o' p = read o p) /\
                 (forall path o'', In path paths -> path o' = Some o'' -> class_of o'' = c).
End Full.
