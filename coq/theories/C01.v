(* Property C01 — the table editing API behaves like a plain grid of cells under every history.
   Statements only; each is closed by [exact] of a lemma proved in Vaultproof*.v / Tableproof*.v.
   Model: Vault.v, Row.v, Table.v (layer A, the REPAIRED algorithm of fixes/F01..F04, F31); specification: Grid.v;
   abstraction abs_t and the grid meaning g_step / g_read of the alphabet: Tableabs.v. *)
From Coq Require Import List ZArith Lia Bool Arith.
Import ListNotations.
Require Import Vault Vaultproof Vaultproof2 Vaultproof3 Vaultproof4 Vaultproof5 Row Table Grid Tableabs
               Tableproof Tableproof2 Tableproof3 Tableproof4 Tableproof5 Tableproof6 Tableproof7 Tableproof8 Tablerefuted
               Coord TableExt TableExtproof TableLive TableLiveproof.
Open Scope Z_scope.

(* ---- the full statement: after ANY history of the modelled operations on ANY well-formed run-length state,
        with any coordinates (in range, at the edge, beyond, negative) and any repeats >= 1, EVERY read returns
        what the same history gives on the uncompressed list-of-lists grid ---- *)
Definition C01_full : Prop :=
  forall (t : tstate) (os : list top) (q : tread), WF t -> Forall op_ok os ->
  exists t', t_run t os = Some t' /\ t_read t' q = g_read (fold_left g_step os (abs_t t)) q.

Theorem C01_reads_after_every_history : C01_full.
Proof. exact (fun t os q => reads_after_history os t q). Qed.
Print Assumptions C01_reads_after_every_history.

(* ---- the vault: the three mutators are the list operations on the expansion, including the overflow of a
        repeated item into following (repeated) runs and past the end ---- *)
Theorem vault_set_refines : forall (A : Type) (p : Z) (x : nat * A) (v : runs A),
  wf v -> 0 <= p < Z.of_nat (width v) -> (1 <= fst x)%nat ->
  exists v', set_item p x v (cmap v) = Some v' /\
    expand v' = firstn (Z.to_nat p) (expand v) ++ repeat (snd x) (fst x) ++ skipn (Z.to_nat p + fst x) (expand v) /\ wf v'.
Proof. exact (@set_item_refines). Qed.
Print Assumptions vault_set_refines.

Theorem vault_insert_refines : forall (A : Type) (p : Z) (x : nat * A) (v : runs A),
  wf v -> 0 <= p < Z.of_nat (width v) ->
  exists v', insert_item p x v (cmap v) = Some v' /\
    expand v' = firstn (Z.to_nat p) (expand v) ++ repeat (snd x) (fst x) ++ skipn (Z.to_nat p) (expand v) /\
    ((1 <= fst x)%nat -> wf v').
Proof. exact (@insert_item_refines). Qed.
Print Assumptions vault_insert_refines.

Theorem vault_delete_refines : forall (A : Type) (p : Z) (v : runs A),
  wf v -> 0 <= p < Z.of_nat (width v) ->
  exists v', delete_item p v (cmap v) = Some v' /\
    expand v' = firstn (Z.to_nat p) (expand v) ++ skipn (S (Z.to_nat p)) (expand v) /\ wf v'.
Proof. exact (@delete_item_refines). Qed.
Print Assumptions vault_delete_refines.

(* the map really locates the logical item (the reads go through it) *)
Theorem vault_lookup_through_map : forall (A : Type) (v : runs A) (p : Z),
  wf v -> 0 <= p -> item_at p v = nth_error (expand v) (Z.to_nat p).
Proof. exact (@item_at_spec). Qed.
Print Assumptions vault_lookup_through_map.

(* the repaired incremental map update of set_item_in_vault IS make_cache_map of the new runs *)
Theorem vault_set_map_coherent : forall (A : Type) (p : Z) (x : nat * A) (v : runs A),
  wf v -> 0 <= p < Z.of_nat (width v) -> (1 <= fst x)%nat ->
  exists v', set_item p x v (cmap v) = Some v' /\ set_map p (fst x) (cmap v) = Some (cmap v').
Proof. exact (@set_map_correct). Qed.
Print Assumptions vault_set_map_coherent.

(* ... and so are the incremental map updates of insert_item_in_vault and delete_item_in_vault (as written in the code:
   compositions of _erase_map_once / insert_map_once, resp. the two slice expressions) *)
Theorem vault_insert_map_coherent : forall (A : Type) (p : Z) (x : nat * A) (v : runs A),
  wf v -> 0 <= p < Z.of_nat (width v) ->
  exists v', insert_item p x v (cmap v) = Some v' /\ insert_map p (fst x) (cmap v) = Some (cmap v').
Proof. exact (@insert_map_correct). Qed.
Print Assumptions vault_insert_map_coherent.

Theorem vault_delete_map_coherent : forall (A : Type) (p : Z) (v : runs A),
  wf v -> 0 <= p < Z.of_nat (width v) ->
  exists v', delete_item p v (cmap v) = Some v' /\ delete_map p (cmap v) = Some (cmap v').
Proof. exact (@delete_map_correct). Qed.
Print Assumptions vault_delete_map_coherent.

(* Row.traverse(start, end) (the loop over the map from the run holding start) yields exactly the slice [start, end] *)
Theorem vault_traverse_range : forall (A : Type) (v : runs A) (start en : Z), wf v -> 0 <= start ->
  traverse_range start en v = firstn (Z.to_nat (en + 1 - start)) (skipn (Z.to_nat start) (expand v)).
Proof. exact (@traverse_range_spec). Qed.
Print Assumptions vault_traverse_range.

(* ---- one step, and every history, of the whole alphabet (15 operations; set_value, set_values, set_cells,
        set_row_values, set_row_cells are instances) ---- *)
Theorem C01_step : forall (t : tstate) (o : top), WF t -> op_ok o ->
  exists t', t_step t o = Some t' /\ WF t' /\ abs_t t' = g_step (abs_t t) o.
Proof. exact step_refines. Qed.
Print Assumptions C01_step.

Theorem C01_history : forall (os : list top) (t : tstate), WF t -> Forall op_ok os ->
  exists t', t_run t os = Some t' /\ WF t' /\ abs_t t' = fold_left g_step os (abs_t t).
Proof. exact history_refines. Qed.
Print Assumptions C01_history.

(* ---- reads: size, single value, row, full matrix, column, row width, area (get_values(coord)) — live answer = grid answer ---- *)
Theorem C01_read : forall (t : tstate) (q : tread), WF t -> t_read t q = g_read (abs_t t) q.
Proof. exact read_refines. Qed.
Print Assumptions C01_read.

(* ---- the Row-level API (set/insert/delete/append cell, set_cells, set_values, extend_cells, clear) ---- *)
Theorem C01_row_step : forall (v : rruns) (o : rop), wf v -> rop_ok o ->
  exists v', rstep v o = Some v' /\ expand v' = lstep (expand v) o /\ wf v'.
Proof. exact rstep_refines. Qed.
Print Assumptions C01_row_step.

(* ---- locality: "an operation addressed to one row or one cell changes that row or cell only, even when it is
        stored as part of a repeated run, and a column insertion or deletion shifts every row alike".
        g_cell x y g = the cell read at (x,y) of the grid, empty outside what is stored. ---- *)
Theorem C01_set_cell_changes_those_cells_only : forall (t : tstate) (x y : Z) (c : nat * cell) (t' : tstate),
  WF t -> (1 <= fst c)%nat -> t_step t (OSetCell x y c) = Some t' ->
  forall x' y', 0 <= x' -> 0 <= y' ->
  g_cell x' y' (abs_t t') =
    if (y' =? ny y t) && (nx x t <=? x') && (x' <? nx x t + Z.of_nat (fst c)) then snd c else g_cell x' y' (abs_t t).
Proof. exact set_cell_local. Qed.
Print Assumptions C01_set_cell_changes_those_cells_only.

Theorem C01_cell_ops_change_that_row_only : forall (t : tstate) (o : top) (y : Z) (t' : tstate),
  WF t -> op_ok o ->
  (exists x c, o = OSetCell x y c \/ o = OInsertCell x y c \/ o = OAppendCell y c \/ o = ODeleteCell x y) ->
  t_step t o = Some t' -> forall y', 0 <= y' -> y' <> ny y t -> g_row y' (abs_t t') = g_row y' (abs_t t).
Proof. exact cell_ops_change_that_row_only. Qed.
Print Assumptions C01_cell_ops_change_that_row_only.

Theorem C01_set_row_changes_those_rows_only : forall (t : tstate) (y : Z) (rep : nat) (r : rowx) (t' : tstate),
  WF t -> (1 <= rep)%nat -> rwf r -> t_step t (OSetRow y rep r) = Some t' ->
  forall y', 0 <= y' ->
  g_row y' (abs_t t') = if (ny y t <=? y') && (y' <? ny y t + Z.of_nat rep) then grow_of r else g_row y' (abs_t t).
Proof. exact set_row_local. Qed.
Print Assumptions C01_set_row_changes_those_rows_only.

Theorem C01_insert_column_shifts_every_row : forall (t : tstate) (x : Z) (rep : nat) (st : Z) (t' : tstate),
  WF t -> (1 <= rep)%nat -> t_step t (OInsertColumn x rep st) = Some t' ->
  forall x' y', 0 <= x' ->
  g_cell x' y' (abs_t t') = if x' <? nx x t then g_cell x' y' (abs_t t)
                            else if x' <? nx x t + Z.of_nat rep then empty_cell else g_cell (x' - Z.of_nat rep) y' (abs_t t).
Proof. exact insert_column_shifts. Qed.
Print Assumptions C01_insert_column_shifts_every_row.

Theorem C01_delete_column_shifts_every_row : forall (t : tstate) (x : Z) (t' : tstate),
  WF t -> nx x t < twidth t -> t_step t (ODeleteColumn x) = Some t' ->
  forall x' y', 0 <= x' ->
  g_cell x' y' (abs_t t') = if x' <? nx x t then g_cell x' y' (abs_t t) else g_cell (x' + 1) y' (abs_t t).
Proof. exact delete_column_shifts. Qed.
Print Assumptions C01_delete_column_shifts_every_row.

(* ---- refuted: the faithful model of the PINNED code (before fixes/F01..F04) violates the statements above ---- *)
Theorem vault_set_pinned_refuted : exists (v : rruns) (p : Z) (x : nat * cell),
  wf v /\ 0 <= p < Z.of_nat (width v) /\ (1 <= fst x)%nat /\
  exists v', set_item_pinned 0 p x v (cmap v) = Some v' /\
    expand v' <> firstn (Z.to_nat p) (expand v) ++ repeat (snd x) (fst x) ++ skipn (Z.to_nat p + fst x) (expand v).
Proof. exact vault_set_pinned_refuted_w. Qed.
Print Assumptions vault_set_pinned_refuted.

Theorem vault_set_map_pinned_refuted : exists (v : rruns) (p : Z) (x : nat * cell),
  wf v /\ 0 <= p < Z.of_nat (width v) /\ (1 <= fst x)%nat /\
  exists v' m', set_item_pinned 0 p x v (cmap v) = Some v' /\ set_map_pinned p (fst x) (cmap v) = Some m' /\ m' <> cmap v'.
Proof. exact vault_set_map_pinned_refuted_w. Qed.
Print Assumptions vault_set_map_pinned_refuted.

Theorem set_row_pinned_refuted : exists (t : tstate) (y : Z) (rep : nat) (r : rowx),
  WF t /\ 0 <= y /\ (1 <= rep)%nat /\ rwf r /\
  exists t', set_row_pinned y rep r t = Some t' /\ abs_t t' <> g_set_row y rep (grow_of r) (abs_t t).
Proof. exact set_row_pinned_refuted_w. Qed.
Print Assumptions set_row_pinned_refuted.

Theorem append_cell_pinned_refuted : exists (t : tstate) (y : Z) (c : nat * cell),
  WF t /\ 0 <= y /\ (1 <= fst c)%nat /\
  exists t', t_append_cell_pinned y c t = Some t' /\ abs_t t' <> g_append_cell y c (abs_t t).
Proof. exact append_cell_pinned_refuted_w. Qed.
Print Assumptions append_cell_pinned_refuted.

Theorem delete_cell_pinned_refuted : exists (t : tstate) (x y : Z),
  WF t /\ 0 <= x /\ 0 <= y /\
  exists t', t_delete_cell_pinned x y t = Some t' /\ abs_t t' <> g_delete_cell x y (abs_t t).
Proof. exact delete_cell_pinned_refuted_w. Qed.
Print Assumptions delete_cell_pinned_refuted.

Theorem delete_column_pinned_refuted : exists (t : tstate) (x : Z),
  WF t /\ 0 <= x /\
  exists t', t_delete_column_pinned x t = Some t' /\ abs_t t' <> g_delete_column x (abs_t t).
Proof. exact delete_column_pinned_refuted_w. Qed.
Print Assumptions delete_column_pinned_refuted.

(* ==== second alphabet (TableExt.v): coordinates in every accepted form — str "C4" / "A1:B3" / "C" / "3", tuple, list,
        int of either sign — resolved by C19's model of the coordinate code (Coord.v); set_column_cells/values; reads
        with coordinate forms, get_values(coord) with partial areas, get_cells(coord), cells.  A call whose argument
        does not resolve raises (None). ==== *)
Theorem C01_second_alphabet_step : forall (t : tstate) (o : top2), WF t -> op_ok2 (twidth t) (theight t) o ->
  exists t', t_step2 t o = Some t' /\ WF t' /\ g_step2 (abs_t t) o = Some (abs_t t').
Proof. exact step2_refines. Qed.
Print Assumptions C01_second_alphabet_step.

(* histories over the SUM of both alphabets (admissibility of a step depends on the current size, hence on the grid run) *)
Theorem C01_history_both_alphabets : forall (os : list xop) (t : tstate), WF t -> xops_ok (abs_t t) os ->
  exists t', x_run t os = Some t' /\ WF t' /\ gx_run (abs_t t) os = Some (abs_t t').
Proof. exact x_history_refines. Qed.
Print Assumptions C01_history_both_alphabets.

Theorem C01_read_second_alphabet : forall (t : tstate) (q : tread2), WF t -> t_read2 t q = g_read2 (abs_t t) q.
Proof. exact read2_refines. Qed.
Print Assumptions C01_read_second_alphabet.

Theorem C01_reads_after_every_history_both_alphabets : forall (os : list xop) (t : tstate) (q : tread2),
  WF t -> xops_ok (abs_t t) os ->
  exists t' g', x_run t os = Some t' /\ gx_run (abs_t t) os = Some g' /\ t_read2 t' q = g_read2 g' q
                /\ forall q1, t_read t' q1 = g_read g' q1.
Proof. exact reads2_after_history. Qed.
Print Assumptions C01_reads_after_every_history_both_alphabets.

(* a str coordinate steps exactly like the tuple it parses to, for EVERY string that parses ... *)
Theorem C01_string_and_tuple_forms_step_alike : forall (t : tstate) (s : list Z) (l : list (option Z)) (cl : nat * cell),
  convert_coordinates s = Some l ->
  t_step2 t (XSetCell (CStr s) cl) = t_step2 t (XSetCell (CTup l) cl) /\
  t_step2 t (XInsertCell (CStr s) cl) = t_step2 t (XInsertCell (CTup l) cl) /\
  t_step2 t (XDeleteCell (CStr s)) = t_step2 t (XDeleteCell (CTup l)).
Proof. exact string_form_steps_like_its_tuple. Qed.
Print Assumptions C01_string_and_tuple_forms_step_alike.

(* ... the written address of (x,y) ("C4") steps like the pair of integers of the first alphabet (with C19's round trip) ... *)
Theorem C01_written_address_steps_like_integers : forall (t : tstate) (x y : Z) (cl : nat * cell), 0 <= x -> 0 <= y ->
  exists s, print_cell x y = Some s /\
    t_step2 t (XSetCell (CStr s) cl) = t_step t (OSetCell x y cl) /\
    t_step2 t (XInsertCell (CStr s) cl) = t_step t (OInsertCell x y cl) /\
    t_step2 t (XDeleteCell (CStr s)) = t_step t (ODeleteCell x y).
Proof. exact printed_cell_steps_like_integers. Qed.
Print Assumptions C01_written_address_steps_like_integers.

(* ... row numbers "3" and column letters "C" likewise ... *)
Theorem C01_written_index_steps_like_integers : forall (t : tstate) (x y : Z) (rep : nat) (r : rowx) (st : Z) (cl : nat * cell),
  0 <= x -> 0 <= y ->
  exists c, print_col x = Some c /\
    t_step2 t (XSetRow (AStr (print_row y)) rep r) = t_step t (OSetRow y rep r) /\
    t_step2 t (XInsertRow (AStr (print_row y)) rep r) = t_step t (OInsertRow y rep r) /\
    t_step2 t (XDeleteRow (AStr (print_row y))) = t_step t (ODeleteRow y) /\
    t_step2 t (XAppendCell (AStr (print_row y)) cl) = t_step t (OAppendCell y cl) /\
    t_step2 t (XInsertColumn (AStr c) rep st) = t_step t (OInsertColumn x rep st) /\
    t_step2 t (XDeleteColumn (AStr c)) = t_step t (ODeleteColumn x) /\
    t_step2 t (XSetColumn (AStr c) rep st) = t_step t (OSetColumn x rep st).
Proof. exact printed_index_steps_like_integers. Qed.
Print Assumptions C01_written_index_steps_like_integers.

(* ... and a tuple of integers of either sign IS the operation of the first alphabet *)
Theorem C01_tuple_form_is_first_alphabet : forall (t : tstate) (x y : Z) (cl : nat * cell),
  t_step2 t (XSetCell (CTup [Some x; Some y]) cl) = t_step t (OSetCell x y cl) /\
  t_step2 t (XInsertCell (CTup [Some x; Some y]) cl) = t_step t (OInsertCell x y cl) /\
  t_step2 t (XDeleteCell (CTup [Some x; Some y])) = t_step t (ODeleteCell x y).
Proof. exact tuple_form_is_first_alphabet. Qed.
Print Assumptions C01_tuple_form_is_first_alphabet.

(* ==== Row-level calls on a LIVE row handle (get_row(y, clone=False), then row.set/insert/append/delete_cell, not written
        back; TableLive.v).  All the API can promise: the whole stored RUN holding row y is rewritten, every other
        row, the column declarations and the height are untouched. ==== *)
Theorem C01_live_row_handle_rewrites_its_run_only : forall (y : Z) (os : list rop) (t t' : tstate),
  WF t -> 0 <= y < theight t -> Forall live_ok os -> t_live_row y os t = Some t' ->
  exists (lo rep : nat), Z.of_nat lo <= y < Z.of_nat (lo + rep) /\ (exists r0, row_at y t = Some (rep, r0)) /\
    ncols (abs_t t') = ncols (abs_t t) /\ gheight (abs_t t') = gheight (abs_t t) /\
    forall y', 0 <= y' ->
      g_row y' (abs_t t') = if (Z.of_nat lo <=? y') && (y' <? Z.of_nat (lo + rep))
                            then fold_left lstep os (g_row y (abs_t t)) else g_row y' (abs_t t).
Proof. exact live_row_touches_its_run_only. Qed.
Print Assumptions C01_live_row_handle_rewrites_its_run_only.

Theorem C01_live_row_handle_on_unrepeated_row : forall (y : Z) (os : list rop) (t t' : tstate) (r0 : rowx),
  WF t -> 0 <= y < theight t -> Forall live_ok os -> row_at y t = Some (1%nat, r0) -> t_live_row y os t = Some t' ->
  forall y', 0 <= y' -> g_row y' (abs_t t') = if y' =? y then fold_left lstep os (g_row y (abs_t t)) else g_row y' (abs_t t).
Proof. exact live_row_unrepeated. Qed.
Print Assumptions C01_live_row_handle_on_unrepeated_row.

(* written back (table.set_row(y, row) after the Row-level calls), the edit IS the Table-level row edit — inside the
   plain-grid contract by edit_row_refines — exactly when the handle is a fresh Row beyond the table or the row is
   stored unrepeated; on a repeated run set_row writes the row with the RUN's repeat at y (not a grid function either) *)
Theorem C01_live_row_handle_written_back_is_table_edit : forall (y : Z) (os : list rop) (t : tstate),
  WF t -> 0 <= y -> Forall live_ok os ->
  (theight t <= y \/ exists r0, row_at y t = Some (1%nat, r0)) -> t_live_row_back y os t = t_edit_row y os t.
Proof. exact live_row_back_is_table_edit. Qed.
Print Assumptions C01_live_row_handle_written_back_is_table_edit.

(* refuted: a live-handle edit is NOT a function of the plain grid — two run-length encodings of the same grid answer differently *)
Theorem C01_live_row_handle_not_a_grid_function_refuted : exists (t1 t2 : tstate) (y : Z) (os : list rop) t1' t2',
  WF t1 /\ WF t2 /\ abs_t t1 = abs_t t2 /\ Forall live_ok os /\
  t_live_row y os t1 = Some t1' /\ t_live_row y os t2 = Some t2' /\ abs_t t1' <> abs_t t2'.
Proof. exact live_row_not_a_grid_function_w. Qed.
Print Assumptions C01_live_row_handle_not_a_grid_function_refuted.

Example op_ok2_inhabited :      (* set_cell("B2", cell) and delete_column("A") on a 2 x 2 table resolve and are admissible *)
  op_ok2 2 2 (XSetCell (CStr [66; 50]) (1%nat, (7, 0))) /\ op_ok2 2 2 (XDeleteColumn (AStr [65])).
Proof. split; eexists; (split; [vm_compute; reflexivity|cbn; auto]). Qed.

(* ---- the hypotheses are inhabited: the empty table; a table with a 3-times repeated row whose middle cells
        are a 2-times repeated run ---- *)
Example WF_empty : WF empty_table.
Proof. repeat split; constructor. Qed.
Example WF_nontrivial : WF {| cols := [(3%nat, 0)]; rows := [(3%nat, (0, [(1%nat, (5, 0)); (2%nat, (7, 1))]))] |}.
Proof. repeat split; repeat constructor; cbn; lia. Qed.
(* a set_cell addressed to the middle row of that run, with a repeated cell overflowing the run boundary inside the
   row, splits the row run in three and leaves the other two rows alone *)
Example step_on_repeated_row :
  t_step {| cols := [(3%nat, 0)]; rows := [(3%nat, (0, [(1%nat, (5, 0)); (2%nat, (7, 1))]))] |} (OSetCell 0 (-2) (2%nat, (9, 0)))
  = Some {| cols := [(3%nat, 0)];
            rows := [(1%nat, (0, [(1%nat, (5, 0)); (2%nat, (7, 1))]));
                     (1%nat, (0, [(2%nat, (9, 0)); (1%nat, (7, 1))]));
                     (1%nat, (0, [(1%nat, (5, 0)); (2%nat, (7, 1))]))] |}.
Proof. reflexivity. Qed.
