(* Lemmas about the generic attribute getter/setter model and about constructors storing through it. *)
From Coq Require Import String List Bool. Import ListNotations. Open Scope string_scope.
Require Import Attr.

Lemma aget_aset_same : forall n s a, aget n (aset n s a) = Some s.
Proof.
  induction a as [|[k v] a IH]; cbn.
  - rewrite String.eqb_refl. reflexivity.
  - destruct (String.eqb_spec k n); cbn.
    + subst. rewrite String.eqb_refl. reflexivity.
    + destruct (String.eqb_spec k n); [contradiction|exact IH].
Qed.

Lemma aget_aset_other : forall n m s a, n <> m -> aget n (aset m s a) = aget n a.
Proof.
  induction a as [|[k v] a IH]; intros NE; cbn.
  - destruct (String.eqb_spec m n); [subst; contradiction|reflexivity].
  - destruct (String.eqb_spec k m); cbn.
    + subst. destruct (String.eqb_spec m n); [subst; contradiction|reflexivity].
    + destruct (String.eqb_spec k n); [reflexivity|auto].
Qed.

Lemma aget_adel_same : forall n a, aget n (adel n a) = None.
Proof.
  induction a as [|[k v] a IH]; cbn; [reflexivity|].
  destruct (String.eqb_spec k n); cbn; [exact IH|].
  destruct (String.eqb_spec k n); [contradiction|exact IH].
Qed.

Lemma aget_adel_other : forall n m a, n <> m -> aget n (adel m a) = aget n a.
Proof.
  induction a as [|[k v] a IH]; intros NE; cbn; [reflexivity|].
  destruct (String.eqb_spec k m); cbn.
  - subst. destruct (String.eqb_spec m n); [subst; contradiction|auto].
  - destruct (String.eqb_spec k n); [reflexivity|auto].
Qed.

(* names stay unique (the attrib mapping stays a mapping) *)
Lemma keys_aset : forall n s a k, In k (map fst (aset n s a)) <-> k = n \/ In k (map fst a).
Proof.
  induction a as [|[k' v] a IH]; intros k; cbn.
  - split; [intros [H|[]]; left; auto|intros [H|[]]; left; auto].
  - destruct (String.eqb_spec k' n); cbn.
    + subst. split; [intros [H|H]; [right; left; exact H|right; right; exact H]|intros [H|[H|H]]; [left; auto|left; exact H|right; exact H]].
    + rewrite IH. split; [intros [H|[H|H]]; auto|intros [H|[H|H]]; auto].
Qed.

Lemma nodup_aset : forall n s a, NoDup (map fst a) -> NoDup (map fst (aset n s a)).
Proof.
  induction a as [|[k v] a IH]; intros ND; cbn.
  - constructor; [intros []|constructor].
  - inversion ND as [|? ? NI ND']; subst. destruct (String.eqb_spec k n); cbn.
    + constructor; assumption.
    + constructor; [|auto]. rewrite keys_aset. intros [H|H]; [exact (n0 H)|exact (NI H)].
Qed.

Lemma keys_adel : forall n a k, In k (map fst (adel n a)) -> In k (map fst a).
Proof.
  induction a as [|[k' v] a IH]; intros k; cbn; [auto|].
  destruct (String.eqb_spec k' n); cbn; [right; auto|intros [H|H]; [left; exact H|right; auto]].
Qed.

Lemma nodup_adel : forall n a, NoDup (map fst a) -> NoDup (map fst (adel n a)).
Proof.
  induction a as [|[k v] a IH]; intros ND; cbn; [constructor|].
  inversion ND as [|? ? NI ND']; subst. destruct (String.eqb_spec k n); cbn; [auto|].
  constructor; [|auto]. intros H; apply NI. eapply keys_adel; exact H.
Qed.

(* ---- the law of the generic property: what you read is decode (encode v) ---- *)

Lemma aget_setter_same : forall n fam sf v a, blocked fam sf = false -> aget n (setter n fam sf v a) = encode v.
Proof.
  intros. unfold setter. rewrite H. destruct (encode v); [apply aget_aset_same|apply aget_adel_same].
Qed.

Lemma get_set : forall n fam sf v a, blocked fam sf = false ->
  getter n fam sf (setter n fam sf v a) = decode (encode v).
Proof. intros. unfold getter. rewrite H, aget_setter_same; auto. Qed.

Lemma aget_setter_other : forall n m fam sf v a, n <> m -> aget n (setter m fam sf v a) = aget n a.
Proof.
  intros. unfold setter. destruct (blocked fam sf); [reflexivity|].
  destruct (encode v); [apply aget_aset_other|apply aget_adel_other]; assumption.
Qed.

Lemma get_set_other : forall n m fam fam' sf v a, n <> m ->
  getter n fam sf (setter m fam' sf v a) = getter n fam sf a.
Proof. intros. unfold getter. rewrite aget_setter_other; auto. Qed.

(* setting None removes the attribute and nothing else *)
Lemma set_none_deletes : forall n fam sf a, blocked fam sf = false ->
  aget n (setter n fam sf VNone a) = None /\ forall m, m <> n -> aget m (setter n fam sf VNone a) = aget m a.
Proof. intros. split; [rewrite aget_setter_same; auto|intros; apply aget_setter_other; auto]. Qed.

(* a property of another family neither reads nor writes *)
Lemma blocked_inert : forall n fam sf v a, blocked fam sf = true ->
  setter n fam sf v a = a /\ getter n fam sf a = VNone.
Proof. intros. unfold setter, getter. rewrite H. auto. Qed.

Lemma setter_nodup : forall n fam sf v a, NoDup (map fst a) -> NoDup (map fst (setter n fam sf v a)).
Proof.
  intros. unfold setter. destruct (blocked fam sf); [assumption|].
  destruct (encode v); [apply nodup_aset|apply nodup_adel]; assumption.
Qed.

(* the exact set of values that do NOT read back as themselves *)
Definition reads_back_exactly (v : val) : Prop :=
  match v with
  | VNone | VBool _ => True
  | VStr s => s <> "true" /\ s <> "false"
  | VOther _ _ => False
  | VNum _ _ => False
  end.

Lemma decode_encode_exact : forall v, decode (encode v) = v <-> reads_back_exactly v.
Proof.
  destruct v as [|[|]|s|s t|z s]; cbn; try tauto.
  - destruct (String.eqb_spec s "true"); [subst; split; [discriminate|tauto]|].
    destruct (String.eqb_spec s "false"); [subst; split; [discriminate|tauto]|]. tauto.
  - split; [|tauto]. destruct (String.eqb s "true"); [discriminate|]. destruct (String.eqb s "false"); discriminate.
  - split; [|tauto]. destruct (String.eqb s "true"); [discriminate|]. destruct (String.eqb s "false"); discriminate.
Qed.

(* an int comes back as its str() *)
Lemma decode_encode_num : forall z s, s <> "true" -> s <> "false" -> decode (encode (VNum z s)) = VStr s.
Proof.
  intros. cbn. destruct (String.eqb_spec s "true"); [contradiction|]. destruct (String.eqb_spec s "false"); [contradiction|reflexivity].
Qed.

Lemma decode_encode_bool : forall b, decode (encode (VBool b)) = VBool b.
Proof. destruct b; reflexivity. Qed.

(* the exceptions: the STRING "true"/"false" comes back as a bool; any other object comes back as its str() *)
Lemma decode_encode_string_true : decode (encode (VStr "true")) = VBool true /\ decode (encode (VStr "false")) = VBool false.
Proof. split; reflexivity. Qed.

Lemma decode_encode_other : forall s t, s <> "true" -> s <> "false" -> decode (encode (VOther s t)) = VStr s.
Proof.
  intros. cbn. destruct (String.eqb_spec s "true"); [contradiction|]. destruct (String.eqb_spec s "false"); [contradiction|reflexivity].
Qed.

(* ---- constructors ---- *)

Definition st_attr (st : store) : string := let '(n, _, _, _) := st in n.

Lemma run_ctor_other : forall sf sts a n, ~ In n (map st_attr sts) -> aget n (run_ctor sf sts a) = aget n a.
Proof.
  induction sts as [|[[[m fam] ex] v] sts IH]; intros a n NI; [reflexivity|].
  cbn [run_ctor fold_left]. change (fold_left (run_store sf) sts ?x) with (run_ctor sf sts x).
  rewrite IH by (intros H; apply NI; right; exact H).
  cbn [run_store]. destruct ex; [|reflexivity].
  apply aget_setter_other. intros E; apply NI; left; cbn; auto.
Qed.

(* Every argument stored by a constructor through a generic property is exposed by that property after the whole
   constructor ran, provided no two stores of the constructor target the same attribute. *)
Lemma ctor_exposes : forall sf sts a n fam v,
  NoDup (map st_attr sts) -> In (n, fam, true, v) sts -> blocked fam sf = false ->
  getter n fam sf (run_ctor sf sts a) = decode (encode v).
Proof.
  induction sts as [|[[[m fam'] ex'] v'] sts IH]; intros a n fam v ND HI HB; [destruct HI|].
  cbn [run_ctor fold_left]. change (fold_left (run_store sf) sts ?x) with (run_ctor sf sts x).
  inversion ND as [|? ? NI ND']; subst. destruct HI as [E|HI].
  - inversion E; subst. unfold getter. rewrite HB, run_ctor_other by exact NI.
    cbn [run_store]. rewrite aget_setter_same by exact HB. reflexivity.
  - eapply IH; eauto.
Qed.

(* a store whose guard does not hold leaves the element as it was *)
Lemma ctor_guard_false : forall sf a n fam v, run_store sf a (n, fam, false, v) = a.
Proof. reflexivity. Qed.
