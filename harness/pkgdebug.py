"""debug helper: python harness/pkgdebug.py REPLAY [checker]  -> prints per-step codes and sub-checks for the last step"""
import sys, json
from pathlib import Path
sys.path.insert(0, str(Path(__file__).resolve().parent))
import common, pkglib
r = json.load(open(sys.argv[1])); chk = sys.argv[2] if len(sys.argv) > 2 else "chk04"
drv = pkglib.Driver(str(common.WORK / "dbg"))
recs = pkglib.run_concrete(drv, r["ops"])
hdr = pkglib.PKG_HEADER + "Require Import PkgChk.\n" + pkglib.fx_header()[0]
ex = []
for i, rec in enumerate(recs):
    ex.append("%s FX (%s)" % (chk, pkglib.step_case(rec)))
last = pkglib.step_case(recs[-1])
ex.append("let '(fs,d,o,fs',d',r) := %s in let '((fsm,dm),rm) := cstep FIXED (fs,d) o in (entries_of fs' d', entries_of fsm dm, r, rm, cPkgOKb fs' d', cPkgOKb fsm dm, view_eqb fs' d' fsm dm)" % last)
ex.append("let '(fs,d,o,fs',d',r) := %s in let '((fsm,dm),rm) := cstep FIXED (fs,d) o in (d', dm)" % last)
ex.append("let '(fs,d,o,fs',d',r) := %s in map (fun fx => agrees fx (fs,d,o,fs',d',r)) [PINNED; FIXED]" % last)
rc, out = common.coq_eval(hdr, ex, "dbg")
print(out[-6000:])
for rec in recs: print(rec["concrete"], rec["err"])
