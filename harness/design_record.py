"""Regenerates the tables of DESIGN.md section 10 (between the BEGIN/END GENERATED markers) from what is on disk:
MANIFEST.json, evidence/*.json, known_findings.json, fixes/COMMITS.json, seeded/*/{meta,result}.json, notes/*.md."""
import json, re
from pathlib import Path
ROOT = Path(__file__).resolve().parent.parent


def main():
    man = json.loads((ROOT / "MANIFEST.json").read_text())
    kf = json.loads((ROOT / "known_findings.json").read_text())
    out = []
    out.append("### 10.1 Registered checks (from MANIFEST.json and the committed evidence of the quick tier)\n")
    out.append("| property | theorems re-checked (discharged/obligations) | axioms reported by Print Assumptions | correspondence cases (quick) | distinct non-trivial | open findings | repaired defects | notes |")
    out.append("|---|---|---|---|---|---|---|---|")
    for c in man["checks"]:
        pid = c["property_id"]
        evf = ROOT / "evidence" / (pid + ".json")
        ev = json.loads(evf.read_text()) if evf.exists() else {}
        cov = ev.get("coverage", {})
        ax = "?"
        for t in cov.get("trusted_base", []):
            m = re.search(r"axioms used: (.*)$", t)
            if m:
                ax = m.group(1)
        nf = sum(1 for e in kf["findings"] if e["property"] == pid)
        nx = sum(1 for l in kf["fixed"] if "property=%s " % pid in l)
        notes = ", ".join("`notes/%s`" % p.name for p in sorted((ROOT / "notes").glob(pid + "*.md")))
        out.append("| %s | %s/%s | %s | %s | %s | %d | %d | %s |" % (
            pid, cov.get("discharged", "?"), cov.get("obligations", "?"), ax, cov.get("evaluations", "?"),
            cov.get("distinct_nontrivial", "?"), nf, nx, notes))
    na = man.get("not_applicable", [])
    if na:
        out.append("\nNot claimed: " + "; ".join("%s (%s)" % (e["property_id"], e["reason"]) for e in na) + "\n")
    out.append("\n### 10.2 Theorems per property (names as counted in the property files)\n")
    for c in man["checks"]:
        pid = c["property_id"]
        evf = ROOT / "evidence" / (pid + ".json")
        if evf.exists():
            th = json.loads(evf.read_text()).get("coverage", {}).get("theorems", [])
            out.append("* **%s** (%d): %s" % (pid, len(th), ", ".join("`%s`" % t for t in th)))
    out.append("\n### 10.3 Genuine defects repaired in /repo (one `fix:` commit each) and open findings\n")
    for l in kf["fixed"]:
        out.append("* " + l)
    out.append("")
    for e in kf["findings"]:
        out.append("* OPEN %s `%s` — %s Witness: %s" % (e["property"], e["key"], e["description"], e["witness"]))
    out.append("\n### 10.4 Seeded changes (written by sub-agents that saw only the property text) and which check catches which\n")
    out.append("| seed | property | needs, to manifest | check result (quick unless stated) | replay layer / excerpt |")
    out.append("|---|---|---|---|---|")
    for d in sorted((ROOT / "seeded").glob("*/meta.json")):
        meta = json.loads(d.read_text())
        rf = d.parent / "result.json"
        res = json.loads(rf.read_text()) if rf.exists() else {}
        cells, exc = [], ""
        for p, r in res.get("checks", {}).items():
            cells.append("%s %s: %s (%.0f s)" % (p, res.get("tier", "quick"), "VIOLATION" if r["detected"] else "missed", r["wall_s"]))
            if r.get("replay_excerpt") and not exc:
                m = re.search(r'"layer": "([^"]*)"', r["replay_excerpt"])
                exc = m.group(1)[:120] if m else r["replay_excerpt"][:120].replace("|", "/")
        if res.get("applies") is False:
            cells.append("patch no longer applies")
        out.append("| %s | %s | %s | %s | %s |" % (meta["name"], meta["property"], meta.get("needs_to_manifest", "")[:160],
                                                 "; ".join(cells) or "not run yet", exc.replace("\n", " ")))
    txt = "\n".join(out) + "\n"
    p = ROOT / "DESIGN.md"
    s = p.read_text()
    a, b = "<!-- BEGIN GENERATED RECORD -->", "<!-- END GENERATED RECORD -->"
    assert a in s and b in s
    s = s[:s.index(a) + len(a)] + "\n" + txt + s[s.index(b):]
    p.write_text(s)


if __name__ == "__main__":
    main()
