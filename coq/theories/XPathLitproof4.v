(* C14 — the structure of a whole query does not depend on the identifier pasted into it *)
From Coq Require Import List NArith Bool Lia Arith.
Import ListNotations.
Require Import XPathLit XPathLitproof.
Open Scope N_scope.

Lemma lex_app : forall pre m cur s,
  lex m cur (pre ++ s) = let '(ts, m', cur') := lexp m cur pre in option_map (app ts) (lex m' cur' s).
Proof.
  induction pre as [|c pre IH]; intros m cur s.
  - cbn [app lexp]. destruct (lex m cur s); reflexivity.
  - cbn [app lex lexp]. destruct m as [|q].
    + destruct (is_quote c).
      * rewrite IH. destruct (lexp (LIn c) [] pre) as [[ts m'] cur']. destruct (lex m' cur' s); cbn [option_map]; [|reflexivity].
        now rewrite app_assoc.
      * destruct (is_ws c); apply IH.
    + destruct (c =? q).
      * rewrite IH. destruct (lexp LOut [] pre) as [[ts m'] cur']. destruct (lex m' cur' s); reflexivity.
      * apply IH.
Qed.

Lemma lexp_noquote : forall s cur, noquote s = true -> lexp LOut cur s = ([], LOut, rev (nows s) ++ cur).
Proof.
  induction s as [|c s IH]; intros cur H; [reflexivity|].
  cbn [noquote forallb] in H. apply andb_true_iff in H as [Hc H]. apply negb_true_iff in Hc.
  cbn [lexp nows filter]. rewrite Hc. destruct (is_ws c); cbn [negb].
  - apply IH, H.
  - rewrite IH by exact H. cbn [rev]. now rewrite <- app_assoc.
Qed.

Lemma lex_noquote : forall s cur, noquote s = true -> lex LOut cur s = Some (other (rev cur ++ nows s)).
Proof.
  induction s as [|c s IH]; intros cur H.
  - cbn [lex nows filter]. now rewrite app_nil_r.
  - cbn [noquote forallb] in H. apply andb_true_iff in H as [Hc H]. apply negb_true_iff in Hc.
    cbn [lex nows filter]. rewrite Hc. destruct (is_ws c); cbn [negb].
    + apply IH, H.
    + rewrite IH by exact H. cbn [rev]. now rewrite <- app_assoc.
Qed.

Lemma lex_in : forall s q acc rest, has q s = false ->
  lex (LIn q) acc (s ++ q :: rest) = option_map (cons (TStr (rev acc ++ s))) (lex LOut [] rest).
Proof.
  induction s as [|c s IH]; intros q acc rest H.
  - cbn [app lex]. rewrite N.eqb_refl, app_nil_r. reflexivity.
  - cbn [has existsb] in H. apply orb_false_elim in H as [H1 H2]. cbn [app lex]. rewrite N.eqb_sym, H1.
    rewrite IH by exact H2. cbn [rev]. now rewrite <- app_assoc.
Qed.

(* tokens of  DQ p0 DQ , SQ DQ SQ , DQ p1 DQ ... *)
Fixpoint sep_toks (ps : list str) : list tok :=
  match ps with
  | [] => []
  | q :: r => TOther [COMMA] :: TStr [DQ] :: TOther [COMMA] :: TStr q :: sep_toks r
  end.

Lemma lex_dq_lit p cur rest : has DQ p = false ->
  lex LOut cur (dq_lit p ++ rest) = option_map (fun t => other (rev cur) ++ TStr p :: t) (lex LOut [] rest).
Proof.
  intros H. unfold dq_lit. cbn [app lex]. change (is_quote DQ) with true. cbn iota.
  rewrite <- app_assoc. cbn [app]. rewrite lex_in by exact H. cbn [rev app].
  destruct (lex LOut [] rest); reflexivity.
Qed.

Lemma lex_pieces : forall ps p cur rest, Forall (fun p => has DQ p = false) (p :: ps) ->
  lex LOut cur (join_pieces (p :: ps) ++ rest)
  = option_map (fun t => other (rev cur) ++ TStr p :: sep_toks ps ++ t) (lex LOut [] rest).
Proof.
  induction ps as [|q ps IH]; intros p cur rest Hall; inversion Hall as [|? ? Hp Hps]; subst.
  - cbn [join_pieces sep_toks app]. apply lex_dq_lit, Hp.
  - change (join_pieces (p :: q :: ps)) with (dq_lit p ++ [COMMA] ++ sq_lit [DQ] ++ [COMMA] ++ join_pieces (q :: ps)).
    rewrite <- !app_assoc. rewrite lex_dq_lit by exact Hp.
    (* , SQ DQ SQ , *)
    cbn [app sq_lit]. cbn [lex]. change (is_quote COMMA) with false. change (is_ws COMMA) with false. cbn iota.
    change (is_quote SQ) with true. cbn iota.
    change (DQ =? SQ) with false. cbn iota. rewrite N.eqb_refl.
    change (is_quote COMMA) with false. change (is_ws COMMA) with false. cbn iota.
    rewrite (IH q [COMMA] rest Hps).
    destruct (lex LOut [] rest); reflexivity.
Qed.

Lemma sep_toks_cargs : forall ps acc many x rest, (many = true \/ ps <> []) ->
  cargs (sep_toks ps ++ TOther (RPAR :: x) :: rest) acc many
  = Some (fold_left (fun a q => a ++ DQ :: q) ps acc, x, rest).
Proof.
  induction ps as [|q ps IH]; intros acc many x rest H.
  - destruct H as [->|H]; [|elim H; reflexivity]. cbn [sep_toks app cargs fold_left]. rewrite N.eqb_refl. reflexivity.
  - cbn [sep_toks app cargs]. change (COMMA =? RPAR) with false. cbn iota. rewrite N.eqb_refl.
    rewrite IH by (left; reflexivity). cbn [fold_left]. rewrite <- app_assoc. reflexivity.
Qed.

Lemma fold_left_join : forall ps p acc, fold_left (fun a q => a ++ DQ :: q) ps (acc ++ p) = acc ++ join_dq (p :: ps).
Proof.
  induction ps as [|q ps IH]; intros p acc; [reflexivity|].
  cbn [fold_left]. change (join_dq (p :: q :: ps)) with (p ++ DQ :: join_dq (q :: ps)).
  replace ((acc ++ p) ++ DQ :: q) with ((acc ++ p ++ [DQ]) ++ q) by (rewrite <- !app_assoc; reflexivity).
  rewrite IH. rewrite <- !app_assoc. reflexivity.
Qed.

Lemma strip_suffix_app p s : strip_suffix p (s ++ p) = Some s.
Proof. unfold strip_suffix. rewrite rev_app_distr, strip_prefix_app, rev_involutive. reflexivity. Qed.

Lemma fold_step_last t : fold_step t [] = [t].
Proof. destruct t as [o|s]; [|reflexivity]. cbn [fold_step]. destruct (strip_suffix s_concat o); reflexivity. Qed.

Lemma fold_other_nil s : fold_right fold_step [] (other s) = other s.
Proof. destruct s; [reflexivity|]. cbn [other fold_right]. apply fold_step_last. Qed.

Lemma fold_sep : forall ps tl, fold_right fold_step tl (sep_toks ps) = sep_toks ps ++ tl.
Proof.
  induction ps as [|q ps IH]; intros tl; [reflexivity|].
  cbn [sep_toks fold_right app]. rewrite IH. reflexivity.
Qed.

Lemma fold_right_app_step ts l : fold_right fold_step [] (ts ++ l) = fold_right fold_step (fold_right fold_step [] l) ts.
Proof. apply fold_right_app. Qed.

Lemma fold_other_keep o tl : strip_suffix s_concat o = None -> fold_right fold_step tl (other o) = other o ++ tl.
Proof. intros H. destruct o; [reflexivity|]. cbn [other fold_right fold_step app]. now rewrite H. Qed.

Theorem query_skeleton pre v post ts cur :
  lexp LOut [] pre = (ts, LOut, cur) ->
  strip_suffix s_concat (rev cur) = None ->
  noquote post = true ->
  skeleton (pre ++ quote v ++ post)
  = Some (fold_right fold_step (other (rev cur) ++ TStr v :: other (nows post)) ts).
Proof.
  intros Hpre Hsuf Hpost. unfold skeleton. rewrite lex_app, Hpre.
  destruct (has DQ v) eqn:E1.
  2:{ unfold quote. rewrite E1. cbn [negb]. rewrite lex_dq_lit by exact E1.
      rewrite lex_noquote by exact Hpost. cbn [rev app option_map]. f_equal.
      rewrite fold_right_app_step. f_equal.
      rewrite fold_right_app. cbn [fold_right]. rewrite fold_other_nil.
      cbn [fold_step]. apply fold_other_keep, Hsuf. }
  destruct (has SQ v) eqn:E2.
  2:{ unfold quote. rewrite E1, E2. cbn [negb]. unfold sq_lit. cbn [app lex]. change (is_quote SQ) with true. cbn iota.
      rewrite <- app_assoc. cbn [app]. rewrite lex_in by exact E2.
      rewrite lex_noquote by exact Hpost. cbn [rev app option_map]. f_equal.
      rewrite fold_right_app_step. f_equal.
      rewrite fold_right_app. cbn [fold_right]. rewrite fold_other_nil.
      cbn [fold_step]. apply fold_other_keep, Hsuf. }
  unfold quote. rewrite E1, E2. cbn [negb]. rewrite <- !app_assoc.
  rewrite lex_app. rewrite (lexp_noquote s_concat cur eq_refl).
  change (nows s_concat) with s_concat.
  pose proof (split_dq_nodq v [] eq_refl) as Hall.
  pose proof (split_dq_ne v []) as Hne.
  pose proof (split_dq_join v []) as Hjoin. cbn [rev app] in Hjoin.
  destruct (split_dq [] v) as [|p ps]; [congruence|].
  rewrite lex_pieces by exact Hall. cbn [app].
  change (lex LOut [] (RPAR :: post)) with (lex LOut [RPAR] post).
  rewrite lex_noquote by exact Hpost. cbn [rev app option_map other]. f_equal.
  rewrite fold_right_app_step. f_equal.
  rewrite rev_app_distr, rev_involutive.
  assert (Hne' : rev cur ++ s_concat <> []) by (intros H; apply app_eq_nil in H as [_ H]; discriminate).
  destruct (rev cur ++ s_concat) as [|x0 o0] eqn:Eo; [congruence|]. cbn [other app fold_right].
  rewrite fold_right_app. cbn [fold_right]. rewrite fold_step_last. rewrite fold_sep.
  cbn [fold_step]. rewrite <- Eo, strip_suffix_app.
  rewrite sep_toks_cargs.
  2:{ right. intros ->. cbn [join_dq] in Hjoin. subst p.
      inversion Hall as [|? ? Hp _]. rewrite E1 in Hp. discriminate. }
  pose proof (fold_left_join ps p []) as Hfl. cbn [app] in Hfl. rewrite Hfl. rewrite app_nil_r. f_equal. f_equal. f_equal. exact Hjoin.
Qed.

(* quote-free prefix: the skeleton of the query is the skeleton of pre, the string token v, the skeleton of post *)
Theorem query_skeleton_simple pre v post :
  noquote pre = true -> noquote post = true -> strip_suffix s_concat (nows pre) = None ->
  skeleton (pre ++ quote v ++ post) = Some (other (nows pre) ++ TStr v :: other (nows post))
  /\ skeleton pre = Some (other (nows pre)) /\ skeleton post = Some (other (nows post)).
Proof.
  intros Hpre Hpost Hs. split; [|split].
  - rewrite (query_skeleton pre v post [] (rev (nows pre))).
    + cbn [fold_right]. now rewrite rev_involutive.
    + rewrite lexp_noquote by exact Hpre. now rewrite app_nil_r.
    + now rewrite rev_involutive.
    + exact Hpost.
  - unfold skeleton. rewrite lex_noquote by exact Hpre. cbn [rev app option_map]. now rewrite fold_other_nil.
  - unfold skeleton. rewrite lex_noquote by exact Hpost. cbn [rev app option_map]. now rewrite fold_other_nil.
Qed.
