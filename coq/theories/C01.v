(* Property C01 — the table editing API behaves like a plain grid of cells under every history.
   Statements only; each is closed by [exact] of a lemma proved in Vaultproof*.v / Tableproof*.v.
   Model: Vault.v, Row.v, Table.v (layer A, the REPAIRED algorithm of fixes/F01..F04, F31); specification: Grid.v;
   abstraction abs_t and the grid meaning g_step / g_read of the alphabet: Tableabs.v. *)
From Coq Require Import List ZArith Lia Bool Arith.
Import ListNotations.
Require Import Vault Vaultproof Vaultproof2 Vaultproof3 Row Table Grid Tableabs
               Tableproof Tableproof2 Tableproof3 Tableproof4 Tableproof5 Tableproof6 Tableproof7.
Open Scope Z_scope.

(* ---- the full statement: after ANY history of the modelled operations on ANY well-formed run-length state,
        with any coordinates (in range, at the edge, beyond, negative) and any repeats >= 1, EVERY read returns
        what the same history gives on the uncompressed list-of-lists grid ---- *)
Definition C01_full : Prop :=
  forall (t : tstate) (os : list top) (q : tread), WF t -> Forall op_ok os ->
  exists t', t_run t os = Some t' /\ t_read t' q = g_read (fold_left g_step os (abs_t t)) q.

Theorem C01_reads_after_every_history : C01_full.
Proof. exact (fun t os q => reads_after_history os t q). Qed.
Print Assumptions C01_reads_after_every_history.

(* ---- the vault: the three mutators are the list operations on the expansion, including the overflow of a
        repeated item into following (repeated) runs and past the end ---- *)
Theorem vault_set_refines : forall (A : Type) (p : Z) (x : nat * A) (v : runs A),
  wf v -> 0 <= p < Z.of_nat (width v) -> (1 <= fst x)%nat ->
  exists v', set_item p x v (cmap v) = Some v' /\
    expand v' = firstn (Z.to_nat p) (expand v) ++ repeat (snd x) (fst x) ++ skipn (Z.to_nat p + fst x) (expand v) /\ wf v'.
Proof. exact (@set_item_refines). Qed.
Print Assumptions vault_set_refines.

Theorem vault_insert_refines : forall (A : Type) (p : Z) (x : nat * A) (v : runs A),
  wf v -> 0 <= p < Z.of_nat (width v) ->
  exists v', insert_item p x v (cmap v) = Some v' /\
    expand v' = firstn (Z.to_nat p) (expand v) ++ repeat (snd x) (fst x) ++ skipn (Z.to_nat p) (expand v) /\
    ((1 <= fst x)%nat -> wf v').
Proof. exact (@insert_item_refines). Qed.
Print Assumptions vault_insert_refines.

Theorem vault_delete_refines : forall (A : Type) (p : Z) (v : runs A),
  wf v -> 0 <= p < Z.of_nat (width v) ->
  exists v', delete_item p v (cmap v) = Some v' /\
    expand v' = firstn (Z.to_nat p) (expand v) ++ skipn (S (Z.to_nat p)) (expand v) /\ wf v'.
Proof. exact (@delete_item_refines). Qed.
Print Assumptions vault_delete_refines.

(* the map really locates the logical item (the reads go through it) *)
Theorem vault_lookup_through_map : forall (A : Type) (v : runs A) (p : Z),
  wf v -> 0 <= p -> item_at p v = nth_error (expand v) (Z.to_nat p).
Proof. exact (@item_at_spec). Qed.
Print Assumptions vault_lookup_through_map.

(* the repaired incremental map update of set_item_in_vault IS make_cache_map of the new runs *)
Theorem vault_set_map_coherent : forall (A : Type) (p : Z) (x : nat * A) (v : runs A),
  wf v -> 0 <= p < Z.of_nat (width v) -> (1 <= fst x)%nat ->
  exists v', set_item p x v (cmap v) = Some v' /\ set_map p (fst x) (cmap v) = Some (cmap v').
Proof. exact (@set_map_correct). Qed.
Print Assumptions vault_set_map_coherent.

(* ---- one step, and every history, of the whole alphabet (15 operations; set_value, set_values, set_cells,
        set_row_values, set_row_cells are instances) ---- *)
Theorem C01_step : forall (t : tstate) (o : top), WF t -> op_ok o ->
  exists t', t_step t o = Some t' /\ WF t' /\ abs_t t' = g_step (abs_t t) o.
Proof. exact step_refines. Qed.
Print Assumptions C01_step.

Theorem C01_history : forall (os : list top) (t : tstate), WF t -> Forall op_ok os ->
  exists t', t_run t os = Some t' /\ WF t' /\ abs_t t' = fold_left g_step os (abs_t t).
Proof. exact history_refines. Qed.
Print Assumptions C01_history.

(* ---- reads: size, single value, row, full matrix, column, row width — live answer = grid answer ---- *)
Theorem C01_read : forall (t : tstate) (q : tread), WF t -> t_read t q = g_read (abs_t t) q.
Proof. exact read_refines. Qed.
Print Assumptions C01_read.

(* ---- the Row-level API (set/insert/delete/append cell, set_cells, set_values, extend_cells, clear) ---- *)
Theorem C01_row_step : forall (v : rruns) (o : rop), wf v -> rop_ok o ->
  exists v', rstep v o = Some v' /\ expand v' = lstep (expand v) o /\ wf v'.
Proof. exact rstep_refines. Qed.
Print Assumptions C01_row_step.

(* ---- the hypotheses are inhabited: the empty table; a table with a 3-times repeated row whose middle cells
        are a 2-times repeated run ---- *)
Example WF_empty : WF empty_table.
Proof. repeat split; constructor. Qed.
Example WF_nontrivial : WF {| cols := [(3%nat, 0)]; rows := [(3%nat, (0, [(1%nat, (5, 0)); (2%nat, (7, 1))]))] |}.
Proof. repeat split; repeat constructor; cbn; lia. Qed.
(* a set_cell addressed to the middle row of that run, with a repeated cell overflowing the run boundary inside the
   row, splits the row run in three and leaves the other two rows alone *)
Example step_on_repeated_row :
  t_step {| cols := [(3%nat, 0)]; rows := [(3%nat, (0, [(1%nat, (5, 0)); (2%nat, (7, 1))]))] |} (OSetCell 0 (-2) (2%nat, (9, 0)))
  = Some {| cols := [(3%nat, 0)];
            rows := [(1%nat, (0, [(1%nat, (5, 0)); (2%nat, (7, 1))]));
                     (1%nat, (0, [(2%nat, (9, 0)); (1%nat, (7, 1))]));
                     (1%nat, (0, [(1%nat, (5, 0)); (2%nat, (7, 1))]))] |}.
Proof. reflexivity. Qed.
