(* Table.v — executable model of src/odfdo/table.py, layer A: the XML runs of columns and rows (each row
   with its own cell runs).  The maps _tmap/_cmap are recomputed from the runs (cmap); the wrapper caches
   are layer B (C02).  The code modelled is the REPAIRED one (fixes/F01..F04, F31); definitions only.

   rowx   = (row style id, cell runs)
   tstate = { cols : runs of column style ids ; rows : runs of rowx }
   Every mutator takes the coordinates as the API receives them (any sign); [norm_coord] is
   translate_from_any / _translate_cell_coordinates (negative = from the end, by the current size). *)
From Coq Require Import List ZArith Bool Arith.
Import ListNotations.
Require Import Vault Row.
Local Open Scope Z_scope.

Definition rowx := (Z * rruns)%type.
Record tstate := { cols : list (nat * Z); rows : list (nat * rowx) }.

Definition twidth (t : tstate) : Z := Z.of_nat (width (cols t)).       (* Table.width  *)
Definition theight (t : tstate) : Z := Z.of_nat (width (rows t)).      (* Table.height *)
Definition roww (r : rowx) : Z := rwidth (snd r).
Definition empty_row : rowx := (0, []).
Definition empty_table : tstate := {| cols := []; rows := [] |}.

(* Table.append_column(Column(repeated=rep, style=st)): the attribute is written only when rep > 1 *)
Definition t_append_column (rep : nat) (st : Z) (t : tstate) : tstate :=
  {| cols := cols t ++ [(Nat.max 1 rep, st)]; rows := rows t |}.
Definition append_column (rep : nat) (t : tstate) : tstate := t_append_column rep 0 t.
(* Table._update_width(row) *)
Definition update_width (w : Z) (t : tstate) : tstate :=
  let diff := w - twidth t in if 0 <? diff then append_column (Z.to_nat diff) t else t.

(* Table.append_row(row, _repeated=rep): the first row of a table without columns declares them *)
Definition append_row (rep : nat) (r : rowx) (t : tstate) : tstate :=
  let t1 := {| cols := cols t; rows := rows t ++ [(rep, r)] |} in
  let t2 := match cols t1 with
            | [] => {| cols := [(Nat.max 1 (Z.to_nat (roww r)), 0)]; rows := rows t1 |}
            | _ => t1 end in
  update_width (roww r) t2.

(* Table.set_row(y, row), y >= 0 *)
Definition set_row (y : Z) (rep : nat) (r : rowx) (t : tstate) : option tstate :=
  let diff := y - theight t in
  if diff =? 0 then Some (update_width (roww r) (append_row rep r t))
  else if 0 <? diff then Some (update_width (roww r) (append_row rep r (append_row (Z.to_nat diff) empty_row t)))
  else match set_item y (rep, r) (rows t) (cmap (rows t)) with
       | Some rs => Some (update_width (roww r) {| cols := cols t; rows := rs |})
       | None => None end.
(* Table.insert_row(y, row) *)
Definition insert_row (y : Z) (rep : nat) (r : rowx) (t : tstate) : option tstate :=
  let diff := y - theight t in
  if diff <? 0 then match insert_item y (rep, r) (rows t) (cmap (rows t)) with
       | Some rs => Some (update_width (roww r) {| cols := cols t; rows := rs |})
       | None => None end
  else if diff =? 0 then Some (update_width (roww r) (append_row rep r t))
  else Some (update_width (roww r) (append_row rep r (append_row (Z.to_nat diff) empty_row t))).
(* Table.delete_row(y) *)
Definition delete_row (y : Z) (t : tstate) : option tstate :=
  if theight t <=? y then Some t
  else match delete_item y (rows t) (cmap (rows t)) with
       | Some rs => Some {| cols := cols t; rows := rs |} | None => None end.

(* Table._get_row2_base(y): the run (with its repeat) that holds logical row y, found through the map *)
Definition row_at (y : Z) (t : tstate) : option (nat * rowx) :=
  match find_idx (cmap (rows t)) y with Some i => nth_error (rows t) i | None => None end.

(* Table.set_cell((x,y), cell): the row is edited in place when unrepeated, otherwise an un-repeated copy is
   pushed back with set_row; both leave the same XML *)
Definition set_cell (x y : Z) (c : nat * cell) (t : tstate) : option tstate :=
  if theight t <=? y then
    match row_set_cell x c [] with
    | Some cs => set_row y 1 (0, cs) t | None => None end
  else match row_at y t with
    | None => None
    | Some (rep, (st, cs)) =>
      match row_set_cell x c cs with
      | None => None
      | Some cs' => set_row y 1 (st, cs') t
      end
    end.

(* Table._get_row2(y, clone=True) followed by row.repeated = None: the row to edit, or a new Row beyond the table *)
Definition base_row (y : Z) (t : tstate) : option rowx :=
  if theight t <=? y then Some empty_row
  else match row_at y t with Some (_, r) => Some r | None => None end.

(* Table.insert_cell((x,y), cell) *)
Definition t_insert_cell (x y : Z) (c : nat * cell) (t : tstate) : option tstate :=
  match base_row y t with
  | None => None
  | Some (st, cs) =>
    match row_insert_cell x c cs with
    | Some cs' => set_row y 1 (st, cs') t
    | None => None end
  end.
(* Table.append_cell(y, cell), repaired (F03: the row copy is un-repeated) *)
Definition t_append_cell (y : Z) (c : nat * cell) (t : tstate) : option tstate :=
  match base_row y t with
  | None => None
  | Some (st, cs) => set_row y 1 (st, cs ++ [c]) t
  end.
(* Table.delete_cell((x,y)), repaired (F04: un-repeated copy, pushed back) *)
Definition t_delete_cell (x y : Z) (t : tstate) : option tstate :=
  if theight t <=? y then Some t
  else match row_at y t with
       | None => None
       | Some (_, (st, cs)) =>
         match row_delete_cell x cs with
         | Some cs' => set_row y 1 (st, cs') t
         | None => None end
       end.

(* the per-row part of insert_column / delete_column *)
Definition ins_row (x : Z) (rep : nat) (r : rowx) : rowx :=
  let '(st, cells) := r in
  if x <? rwidth cells then match row_insert_cell x (rep, empty_cell) cells with Some c' => (st, c') | None => r end else r.
Definition del_row (x : Z) (r : rowx) : rowx :=
  let '(st, cells) := r in
  if x <? rwidth cells then match row_delete_cell x cells with Some c' => (st, c') | None => r end else r.
Definition map_rows (f : rowx -> rowx) (rs : list (nat * rowx)) : list (nat * rowx) :=
  map (fun r => (fst r, f (snd r))) rs.

(* Table.insert_column(x, Column(repeated=rep, style=st)) *)
Definition t_insert_column (x : Z) (rep : nat) (st : Z) (t : tstate) : option tstate :=
  let diff := x - twidth t in
  let cols' :=
    if diff <? 0 then insert_item x (rep, st) (cols t) (cmap (cols t))
    else if diff =? 0 then Some (cols t ++ [(rep, st)])
    else Some (cols t ++ [(Z.to_nat diff, 0); (rep, st)]) in
  match cols' with
  | None => None
  | Some cs => Some {| cols := cs; rows := map_rows (ins_row x rep) (rows t) |}
  end.
(* Table.delete_column(x), repaired (F02: row.width > x) *)
Definition t_delete_column (x : Z) (t : tstate) : option tstate :=
  if twidth t <=? x then Some t
  else match delete_item x (cols t) (cmap (cols t)) with
       | None => None
       | Some cs => Some {| cols := cs; rows := map_rows (del_row x) (rows t) |}
       end.
(* Table.set_column(x, Column(repeated=rep, style=st)) *)
Definition t_set_column (x : Z) (rep : nat) (st : Z) (t : tstate) : option tstate :=
  let diff := x - twidth t in
  if diff =? 0 then Some (t_append_column rep st t)
  else if 0 <? diff then Some (t_append_column rep st (t_append_column (Z.to_nat diff) 0 t))
  else match set_item x (rep, st) (cols t) (cmap (cols t)) with
       | Some cs => Some {| cols := cs; rows := rows t |} | None => None end.

(* an edit of one row by Row-level operations on its un-repeated copy, pushed back with set_row:
   Table.set_values / set_cells (per row), and the pattern of insert_cell/append_cell/delete_cell *)
Definition clears (v : rruns) (o : rop) : bool :=
  match o with
  | RClear => true
  | RSetCells cl s cs => (norm_coord s (rwidth v) =? 0) && negb cl && (rwidth v <=? Z.of_nat (length cs))
  | _ => false end.
Fixpoint rowx_run (r : rowx) (os : list rop) : option rowx :=
  match os with
  | [] => Some r
  | o :: os' => match rstep (snd r) o with
                | Some v' => rowx_run ((if clears (snd r) o then 0 else fst r), v') os'
                | None => None end
  end.
Definition t_edit_row (y : Z) (os : list rop) (t : tstate) : option tstate :=
  match base_row y t with
  | None => None
  | Some r => match rowx_run r os with
              | Some r' => set_row y 1 r' t
              | None => None end
  end.
(* Table.set_values(values, (x,y)) / Table.set_cells(cells, (x,y)): one edit per non-empty line, y advancing *)
Fixpoint t_set_lines (clone : bool) (x y : Z) (lines : list (list (nat * cell))) (t : tstate) : option tstate :=
  match lines with
  | [] => Some t
  | l :: ls =>
    match l with
    | [] => t_set_lines clone x (y + 1) ls t
    | _ => match t_edit_row y [RSetCells clone x l] t with
           | Some t' => t_set_lines clone x (y + 1) ls t'
           | None => None end
    end
  end.
(* Table.extend_rows(rows), repaired (F31: the first rows of a table without columns declare them) *)
Definition max_roww (rs : list (nat * rowx)) : Z := fold_left (fun a r => Z.max a (roww (snd r))) rs 0.
Definition t_extend_rows (rs : list (nat * rowx)) (t : tstate) : tstate :=
  let rows' := rows t ++ rs in
  let w := max_roww rows' in
  match cols t, rs with
  | [], _ :: _ => {| cols := [(Nat.max 1 (Z.to_nat w), 0)]; rows := rows' |}
  | _, _ => update_width w {| cols := cols t; rows := rows' |}
  end.

(* ---- the operation alphabet (coordinates as given to the API, any sign) ---- *)
Inductive top :=
| OAppendRow (rep : nat) (r : rowx)
| OSetRow (y : Z) (rep : nat) (r : rowx)
| OInsertRow (y : Z) (rep : nat) (r : rowx)
| ODeleteRow (y : Z)
| OSetCell (x y : Z) (c : nat * cell)
| OInsertCell (x y : Z) (c : nat * cell)
| OAppendCell (y : Z) (c : nat * cell)
| ODeleteCell (x y : Z)
| OInsertColumn (x : Z) (rep : nat) (st : Z)
| ODeleteColumn (x : Z)
| OAppendColumn (rep : nat) (st : Z)
| OSetColumn (x : Z) (rep : nat) (st : Z)
| OSetLines (clone : bool) (x y : Z) (lines : list (list (nat * cell)))     (* set_values / set_cells *)
| OExtendRows (rs : list (nat * rowx))
| OClear.

Definition ny (y : Z) (t : tstate) := norm_coord y (theight t).
Definition nx (x : Z) (t : tstate) := norm_coord x (twidth t).
Definition t_step (t : tstate) (o : top) : option tstate :=
  match o with
  | OAppendRow rep r => Some (append_row rep r t)
  | OSetRow y rep r => set_row (ny y t) rep r t
  | OInsertRow y rep r => insert_row (ny y t) rep r t
  | ODeleteRow y => delete_row (ny y t) t
  | OSetCell x y c => set_cell (nx x t) (ny y t) c t
  | OInsertCell x y c => t_insert_cell (nx x t) (ny y t) c t
  | OAppendCell y c => t_append_cell (ny y t) c t
  | ODeleteCell x y => t_delete_cell (nx x t) (ny y t) t
  | OInsertColumn x rep st => t_insert_column (nx x t) rep st t
  | ODeleteColumn x => t_delete_column (nx x t) t
  | OAppendColumn rep st => Some (t_append_column rep st t)
  | OSetColumn x rep st => t_set_column (nx x t) rep st t
  | OSetLines cl x y ls => t_set_lines cl (nx x t) (ny y t) ls t
  | OExtendRows rs => Some (t_extend_rows rs t)
  | OClear => Some empty_table
  end.
Fixpoint t_run (t : tstate) (os : list top) : option tstate :=
  match os with [] => Some t | o :: r => match t_step t o with Some t' => t_run t' r | None => None end end.

(* ---- reads, as functions of the state ---- *)
Inductive tread :=
| QSize | QGetValue (x y : Z) | QRowValues (y : Z) | QValues | QColumnValues (x : Z) | QRowWidth (y : Z)
| QArea (x y z t : Z) | QGetCell (x y : Z).
Inductive tans := ASize (w h : Z) | AValue (v : Z) | AList (l : list Z) | AMatrix (m : list (list Z)) | ACell (c : cell).

(* Table.get_value((x,y)) as a value id (0 = None) *)
Definition t_get_value (x y : Z) (t : tstate) : Z :=
  let x := nx x t in let y := ny y t in
  if theight t <=? y then 0
  else match row_at y t with
       | Some (_, (_, cs)) => match cell_at x cs with Some c => fst c | None => 0 end
       | None => 0 end.
(* Table.get_cell((x,y)): a copy of the cell (value and style), an empty cell outside the table or beyond the row *)
Definition t_get_cell (x y : Z) (t : tstate) : cell :=
  let x := nx x t in let y := ny y t in
  if theight t <=? y then empty_cell
  else match row_at y t with
       | Some (_, (_, cs)) => match cell_at x cs with Some c => c | None => empty_cell end
       | None => empty_cell end.
Definition pad_to (w : Z) (l : list Z) : list Z := l ++ repeat 0 (Z.to_nat (w - Z.of_nat (length l))).
(* Table.get_row_values(y): get_row(y, clone=False) = the run's row or a new Row, completed to the table width *)
Definition t_row_values (y : Z) (t : tstate) : list Z :=
  let y := ny y t in
  match base_row y t with Some (_, cs) => pad_to (twidth t) (row_values cs) | None => [] end.
(* Table.get_values(): every expanded row, completed to the table width *)
Definition t_values (t : tstate) : list (list Z) :=
  map (fun r : rowx => pad_to (twidth t) (row_values (snd r))) (expand (rows t)).
(* Table.get_column_values(x): one value per logical row (Row.get_cell gives an empty cell beyond the row) *)
Definition t_column_values (x : Z) (t : tstate) : list Z :=
  let x := nx x t in
  map (fun r : rowx => match cell_at x (snd r) with Some c => fst c | None => 0 end) (expand (rows t)).
(* get_row(y).width *)
Definition t_row_width (y : Z) (t : tstate) : Z :=
  match base_row (ny y t) t with Some (_, cs) => rwidth cs | None => 0 end.
(* Table.get_values(coord=(x,y,z,t)): Table.traverse(start=y, end=t) expands the rows; each row answers
   Row.get_values((x,z)) = Row.traverse(start=x, end=z) through its map, completed to min(z+1, width) - x values *)
Definition t_area (x y z t : Z) (st : tstate) : list (list Z) :=
  let x := nx x st in let z := nx z st in let y := ny y st in let t := ny t st in
  map (fun r : rowx => pad_to (Z.min (z + 1) (twidth st) - x) (map fst (traverse_range x z (snd r))))
      (firstn (Z.to_nat (t + 1 - y)) (skipn (Z.to_nat y) (expand (rows st)))).
Definition t_read (t : tstate) (q : tread) : tans :=
  match q with
  | QSize => ASize (twidth t) (theight t)
  | QGetValue x y => AValue (t_get_value x y t)
  | QRowValues y => AList (t_row_values y t)
  | QValues => AMatrix (t_values t)
  | QColumnValues x => AList (t_column_values x t)
  | QRowWidth y => ASize (t_row_width y t) 0
  | QArea x y z t' => AMatrix (t_area x y z t' t)
  | QGetCell x y => ACell (t_get_cell x y t)
  end.

(* ---- the faithful model of the PINNED mutators that differ from the repaired ones (for ..._refuted) ---- *)
Definition set_row_pinned (y : Z) (rep : nat) (r : rowx) (t : tstate) : option tstate :=
  let diff := y - theight t in
  if diff =? 0 then Some (update_width (roww r) (append_row rep r t))
  else if 0 <? diff then Some (update_width (roww r) (append_row rep r (append_row (Z.to_nat diff) empty_row t)))
  else match set_item_pinned (length (cols t)) y (rep, r) (rows t) (cmap (rows t)) with
       | Some rs => Some (update_width (roww r) {| cols := cols t; rows := rs |})
       | None => None end.
(* pinned Table.append_cell: the row copy keeps its repeat and replaces the whole overlap *)
Definition t_append_cell_pinned (y : Z) (c : nat * cell) (t : tstate) : option tstate :=
  if theight t <=? y then set_row_pinned y 1 (0, [c]) t
  else match row_at y t with
       | Some (rep, (st, cs)) => set_row_pinned y rep (st, cs ++ [c]) t
       | None => None end.
(* pinned Table.delete_cell: Row.delete_cell on the live run *)
Definition t_delete_cell_pinned (x y : Z) (t : tstate) : option tstate :=
  if theight t <=? y then Some t
  else match find_idx (cmap (rows t)) y with
       | None => None
       | Some i => match nth_error (rows t) i with
                   | None => None
                   | Some (rep, (st, cs)) =>
                     match row_delete_cell x cs with
                     | Some cs' => Some {| cols := cols t; rows := firstn i (rows t) ++ (rep, (st, cs')) :: skipn (S i) (rows t) |}
                     | None => None end
                   end
       end.
(* pinned Table.delete_column: rows narrower than the NEW width are skipped *)
Definition t_delete_column_pinned (x : Z) (t : tstate) : option tstate :=
  if twidth t <=? x then Some t
  else match delete_item x (cols t) (cmap (cols t)) with
       | None => None
       | Some cs =>
         let w := Z.of_nat (width cs) in
         Some {| cols := cs;
                 rows := map_rows (fun r : rowx => if w <=? roww r then
                                      match row_delete_cell x (snd r) with Some c' => (fst r, c') | None => r end else r) (rows t) |}
       end.

(* pinned Row.set_cell / Table.set_cell / insert_cell and the pinned step (the other operations are unchanged) *)
Definition row_set_cell_pinned (x : Z) (c : nat * cell) (v : rruns) : option rruns :=
  let diff := x - rwidth v in
  if diff =? 0 then Some (v ++ [c])
  else if 0 <? diff then Some (v ++ [(Z.to_nat diff, empty_cell); c])
  else set_item_pinned 0 x c v (cmap v).
Definition set_cell_pinned (x y : Z) (c : nat * cell) (t : tstate) : option tstate :=
  if theight t <=? y then
    match row_set_cell_pinned x c [] with Some cs => set_row_pinned y 1 (0, cs) t | None => None end
  else match row_at y t with
    | None => None
    | Some (rep, (st, cs)) =>
      match row_set_cell_pinned x c cs with Some cs' => set_row_pinned y 1 (st, cs') t | None => None end
    end.
Definition t_insert_cell_pinned (x y : Z) (c : nat * cell) (t : tstate) : option tstate :=
  match base_row y t with
  | None => None
  | Some (st, cs) => match row_insert_cell x c cs with Some cs' => set_row_pinned y 1 (st, cs') t | None => None end
  end.
Definition t_set_column_pinned (x : Z) (rep : nat) (st : Z) (t : tstate) : option tstate :=
  let diff := x - twidth t in
  if diff =? 0 then Some (t_append_column rep st t)
  else if 0 <? diff then Some (t_append_column rep st (t_append_column (Z.to_nat diff) 0 t))
  else match set_item_pinned 0 x (rep, st) (cols t) (cmap (cols t)) with
       | Some cs => Some {| cols := cs; rows := rows t |} | None => None end.
Definition t_step_pinned (t : tstate) (o : top) : option tstate :=
  match o with
  | OSetRow y rep r => set_row_pinned (ny y t) rep r t
  | OSetCell x y c => set_cell_pinned (nx x t) (ny y t) c t
  | OInsertCell x y c => t_insert_cell_pinned (nx x t) (ny y t) c t
  | OAppendCell y c => t_append_cell_pinned (ny y t) c t
  | ODeleteCell x y => t_delete_cell_pinned (nx x t) (ny y t) t
  | ODeleteColumn x => t_delete_column_pinned (nx x t) t
  | OSetColumn x rep st => t_set_column_pinned (nx x t) rep st t
  | _ => t_step t o
  end.

(* ---- equalities and views for the correspondence ---- *)
Definition colrun_eqb (a b : list (nat * Z)) := list_eqb (run_eqb Z.eqb) a b.
Definition rowx_eqb (a b : rowx) := (fst a =? fst b) && runs_eqb (snd a) (snd b).
Definition rows_eqb (a b : list (nat * rowx)) := list_eqb (run_eqb rowx_eqb) a b.
Definition tstate_eqb (a b : tstate) := colrun_eqb (cols a) (cols b) && rows_eqb (rows a) (rows b).
