(* Tableproof4.v — every mutator keeps the cell runs of every row well formed (cwf); stated on [expand (rows t)]. *)
From Coq Require Import List ZArith Lia Bool Arith.
Import ListNotations.
Require Import Vault Vaultproof Row Table Grid Tableabs Tableproof Tableproof2 Tableproof3.
Open Scope Z_scope.


(* a property of all items of a well-formed run list = the same property of all logical positions *)
Lemma Forall_expand {A} (P : A -> Prop) (v : list (nat * A)) :
  wf v -> (Forall P (expand v) <-> Forall (fun r => P (snd r)) v).
Proof.
  induction v as [|[n a] v IH]; intros Hw; [split; constructor|].
  inversion Hw as [|? ? Hn Hv]; subst. cbn [fst] in Hn. cbn [expand].
  rewrite Forall_app. rewrite (IH Hv). split.
  - intros [H1 H2]. constructor; [|exact H2]. cbn [snd]. destruct n; [lia|]. cbn [repeat] in H1. now inversion H1.
  - intros H. inversion H as [|? ? Ha Hr]; subst. split; [|assumption]. cbn [snd] in Ha. clear -Ha. induction n; constructor; auto.
Qed.
Lemma Forall_repeat {A} (P : A -> Prop) a n : P a -> Forall P (repeat a n).
Proof. intros; induction n; constructor; auto. Qed.

Lemma cwf_iff t : wf (rows t) -> (cwf t <-> Forall rwf (expand (rows t))).
Proof. intros Hw. unfold cwf. symmetry. apply (Forall_expand rwf (rows t) Hw). Qed.

(* the expanded rows after update_width / append_row / set_row *)
Lemma rows_update_width w t : rows (update_width w t) = rows t.
Proof. apply update_width_spec. Qed.
Lemma rows_append_row rep r t : rows (append_row rep r t) = rows t ++ [(rep, r)].
Proof. unfold append_row. rewrite rows_update_width. cbn [cols rows]. destruct (cols t); reflexivity. Qed.

Lemma expand_single {A} n (a : A) : expand [(n, a)] = repeat a n.
Proof. cbn [expand]. apply app_nil_r. Qed.
Lemma Forall_firstn'' {A} (P : A -> Prop) n l : Forall P l -> Forall P (firstn n l).
Proof. revert n; induction l; intros [|n] H; simpl; auto. inversion H; subst; auto. Qed.
Lemma Forall_skipn'' {A} (P : A -> Prop) n l : Forall P l -> Forall P (skipn n l).
Proof. revert n; induction l; intros [|n] H; simpl; auto. inversion H; subst; auto. Qed.

Lemma set_row_rows y rep r t t' : wf (rows t) -> 0 <= y -> (1 <= rep)%nat -> set_row y rep r t = Some t' ->
  Forall rwf (expand (rows t)) -> rwf r -> Forall rwf (expand (rows t')).
Proof.
  intros Hr Hy Hrep Hs Hall Hrw. unfold set_row in Hs.
  assert (Hempty : rwf empty_row) by constructor.
  destruct (Z.eqb_spec (y - theight t) 0) as [E0|E0].
  - inversion Hs; subst. rewrite rows_update_width, rows_append_row, expand_app. apply Forall_app; split; [exact Hall|].
    rewrite expand_single. apply Forall_repeat; exact Hrw.
  - destruct (Z.ltb_spec 0 (y - theight t)) as [Hgt|Hle].
    + inversion Hs; subst. rewrite rows_update_width, !rows_append_row, !expand_app, !expand_single.
      repeat (apply Forall_app; split); auto; apply Forall_repeat; auto.
    + destruct (set_item y (rep, r) (rows t) (cmap (rows t))) as [rs|] eqn:E; [|discriminate].
      inversion Hs; subst. rewrite rows_update_width. cbn [rows].
      assert (Hin : 0 <= y < Z.of_nat (width (rows t))) by (unfold theight in *; lia).
      destruct (set_item_refines y (rep, r) (rows t) Hr Hin Hrep) as (v' & Hs' & He & _).
      rewrite E in Hs'. inversion Hs'; subst v'. rewrite He. cbn [fst snd].
      repeat (apply Forall_app; split); [apply Forall_firstn''|apply Forall_repeat|apply Forall_skipn'']; auto.
Qed.

(* every mutator proved so far keeps the cells of every row well formed *)
Theorem set_row_cwf y rep r t t' : twf t -> cwf t -> rwf r -> 0 <= y -> (1 <= rep)%nat ->
  set_row y rep r t = Some t' -> cwf t'.
Proof.
  intros Htw Hcw Hrw Hy Hrep Hs.
  destruct (set_row_refines y rep r t Htw Hy Hrep) as (t2 & Hs2 & _ & [Hr2 _]).
  rewrite Hs in Hs2. inversion Hs2; subst t2.
  apply (cwf_iff t' Hr2). apply (set_row_rows y rep r t t' (proj1 Htw) Hy Hrep Hs); [|exact Hrw].
  apply (cwf_iff t (proj1 Htw)). exact Hcw.
Qed.

Theorem set_cell_cwf x y c t t' : twf t -> cwf t -> 0 <= x -> 0 <= y -> (1 <= fst c)%nat ->
  set_cell x y c t = Some t' -> cwf t'.
Proof.
  intros Htw Hcw Hx Hy Hc Hs. unfold set_cell in Hs.
  destruct (Z.leb_spec (theight t) y) as [Hout|Hin].
  - destruct (row_set_cell_refines x c [] ltac:(constructor) Hx Hc) as (cs' & Hs1 & _ & Hw).
    rewrite Hs1 in Hs. apply (set_row_cwf y 1 (0, cs') t t' Htw Hcw Hw Hy ltac:(lia) Hs).
  - destruct (row_at_nth y t (proj1 Htw) ltac:(lia)) as (rep & [st cs] & Hra & Hnth).
    rewrite Hra in Hs.
    assert (Hwcs : wf cs).
    { destruct (nth_error_expand_in _ _ _ Hnth) as [n Hn]. unfold cwf in Hcw. rewrite Forall_forall in Hcw. apply (Hcw _ Hn). }
    destruct (row_set_cell_refines x c cs Hwcs Hx Hc) as (cs' & Hs1 & _ & Hw).
    rewrite Hs1 in Hs. apply (set_row_cwf y 1 (st, cs') t t' Htw Hcw Hw Hy ltac:(lia) Hs).
Qed.

Lemma delete_row_cwf y t t' : twf t -> cwf t -> 0 <= y -> delete_row y t = Some t' -> cwf t'.
Proof.
  intros Htw Hcw Hy Hd.
  destruct (delete_row_refines y t Htw Hy) as (t2 & Hd2 & _ & [Hr2 _]). rewrite Hd in Hd2. inversion Hd2; subst t2.
  apply (cwf_iff t' Hr2). apply (cwf_iff t (proj1 Htw)) in Hcw.
  unfold delete_row in Hd. destruct (Z.leb_spec (theight t) y); [inversion Hd; subst; exact Hcw|].
  destruct (delete_item_refines y (rows t) (proj1 Htw) ltac:(unfold theight in *; lia)) as (v' & Hs & He & _).
  rewrite Hs in Hd. inversion Hd; subst. cbn [rows]. rewrite He.
  apply Forall_app; split; [apply Forall_firstn''|apply Forall_skipn'']; exact Hcw.
Qed.
Lemma append_row_cwf rep r t : twf t -> cwf t -> rwf r -> (1 <= rep)%nat -> cwf (append_row rep r t).
Proof.
  intros Htw Hcw Hrw Hrep. destruct (append_row_refines rep r t Htw Hrep) as [_ [Hr2 _]].
  apply (cwf_iff _ Hr2). rewrite rows_append_row, expand_app, expand_single.
  apply Forall_app; split; [apply (cwf_iff t (proj1 Htw)); exact Hcw|apply Forall_repeat; exact Hrw].
Qed.


Lemma insert_row_rows y rep r t t' : wf (rows t) -> 0 <= y -> (1 <= rep)%nat -> insert_row y rep r t = Some t' ->
  Forall rwf (expand (rows t)) -> rwf r -> Forall rwf (expand (rows t')).
Proof.
  intros Hr Hy Hrep Hs Hall Hrw. unfold insert_row in Hs.
  assert (Hempty : rwf empty_row) by constructor.
  destruct (Z.ltb_spec (y - theight t) 0) as [Ein|Eout].
  - destruct (insert_item y (rep, r) (rows t) (cmap (rows t))) as [rs|] eqn:E; [|discriminate].
    inversion Hs; subst. rewrite rows_update_width. cbn [rows].
    assert (Hin : 0 <= y < Z.of_nat (width (rows t))) by (unfold theight in *; lia).
    destruct (insert_item_refines y (rep, r) (rows t) Hr Hin) as (v' & Hs' & He & _).
    rewrite E in Hs'. inversion Hs'; subst v'. rewrite He. cbn [fst snd].
    repeat (apply Forall_app; split); [apply Forall_firstn''|apply Forall_repeat|apply Forall_skipn'']; auto.
  - destruct (Z.eqb_spec (y - theight t) 0) as [E0|E0].
    + inversion Hs; subst. rewrite rows_update_width, rows_append_row, expand_app. apply Forall_app; split; [exact Hall|].
      rewrite expand_single. apply Forall_repeat; exact Hrw.
    + inversion Hs; subst. rewrite rows_update_width, !rows_append_row, !expand_app, !expand_single.
      repeat (apply Forall_app; split); auto; apply Forall_repeat; auto.
Qed.

Theorem insert_row_cwf y rep r t t' : twf t -> cwf t -> rwf r -> 0 <= y -> (1 <= rep)%nat ->
  insert_row y rep r t = Some t' -> cwf t'.
Proof.
  intros Htw Hcw Hrw Hy Hrep Hs.
  destruct (insert_row_refines y rep r t Htw Hy Hrep) as (t2 & Hs2 & _ & [Hr2 _]).
  rewrite Hs in Hs2. inversion Hs2; subst t2.
  apply (cwf_iff t' Hr2). apply (insert_row_rows y rep r t t' (proj1 Htw) Hy Hrep Hs); [|exact Hrw].
  apply (cwf_iff t (proj1 Htw)). exact Hcw.
Qed.

Theorem insert_cell_cwf x y c t t' : twf t -> cwf t -> 0 <= x -> 0 <= y -> (1 <= fst c)%nat ->
  t_insert_cell x y c t = Some t' -> cwf t'.
Proof.
  intros Htw Hcw Hx Hy Hc Hs. unfold t_insert_cell in Hs.
  destruct (base_row_spec y t Htw Hcw Hy) as (st & cs & Hb & _ & Hw). rewrite Hb in Hs.
  destruct (row_insert_cell_refines x c cs Hw Hx Hc) as (cs' & Hs1 & _ & Hw').
  rewrite Hs1 in Hs. apply (set_row_cwf y 1 (st, cs') t t' Htw Hcw Hw' Hy ltac:(lia) Hs).
Qed.
Theorem append_cell_cwf y c t t' : twf t -> cwf t -> 0 <= y -> (1 <= fst c)%nat ->
  t_append_cell y c t = Some t' -> cwf t'.
Proof.
  intros Htw Hcw Hy Hc Hs. unfold t_append_cell in Hs.
  destruct (base_row_spec y t Htw Hcw Hy) as (st & cs & Hb & _ & Hw). rewrite Hb in Hs.
  assert (Hw' : rwf (st, cs ++ [c])).
  { unfold rwf. cbn [snd]. apply Forall_app; split; [exact Hw|]. constructor; [exact Hc|constructor]. }
  apply (set_row_cwf y 1 (st, cs ++ [c]) t t' Htw Hcw Hw' Hy ltac:(lia) Hs).
Qed.
Theorem delete_cell_cwf x y t t' : twf t -> cwf t -> 0 <= x -> 0 <= y ->
  t_delete_cell x y t = Some t' -> cwf t'.
Proof.
  intros Htw Hcw Hx Hy Hs. unfold t_delete_cell in Hs.
  destruct (Z.leb_spec (theight t) y) as [Hout|Hin]; [inversion Hs; subst; exact Hcw|].
  destruct (base_row_spec y t Htw Hcw Hy) as (st & cs & Hb & _ & Hw). unfold base_row in Hb.
  destruct (Z.leb_spec (theight t) y); [lia|].
  destruct (row_at y t) as [[rep [st' cs'']]|] eqn:Era; [|discriminate]. inversion Hb; subst.
  destruct (row_delete_cell_refines x cs Hw Hx) as (cs' & Hs1 & _ & Hw').
  rewrite Hs1 in Hs. apply (set_row_cwf y 1 (st, cs') t t' Htw Hcw Hw' Hy ltac:(lia) Hs).
Qed.
