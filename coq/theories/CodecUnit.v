(* CodecUnit.v — model of datatype.Unit: a length "value + unit" (ODF length: optional minus, digits with an optional fraction or a fraction alone, then cm, mm, in, pt, pc, px).
   [unit_parse] / [unit_str] mirror the REPAIRED Unit.__init__(str) / Unit.__str__ (fixes/F70);
   [unit_parse_pinned] / [unit_str_pinned] mirror the pinned code.  Definitions only. *)
From Coq Require Import List ZArith NArith Bool Arith.
Import ListNotations.
Require Import Codec Typed.

Definition is_letter (c : N) : bool := ((65 <=? c) && (c <=? 90) || (97 <=? c) && (c <=? 122) || (c =? 37))%N.   (* [A-Za-z%] *)
Definition s_cm : str := [99; 109]%N.

(* repaired Unit(text): fullmatch (re.ASCII) of an optional minus, then "digits, optional dot, optional digits" or "dot digits", then letters or percent;
   value = Decimal(group 1), unit = group 2 or the default *)
Definition unit_parse (t : str) : option (dec * str) :=
  let '(neg, t1) := match t with c :: r => if (c =? c_minus)%N then (true, r) else (false, t) | [] => (false, t) end in
  let '(ip, t2) := read_digits t1 in
  let '(fp, t3, dot) := match t2 with
                        | c :: r => if (c =? c_dot)%N then let '(f, r') := read_digits r in (f, r', true) else ([], t2, false)
                        | [] => ([], t2, false) end in
  match ip, fp with
  | [], [] => None                              (* "", ".", "cm" *)
  | [], _ :: _ => if forallb is_letter t3 then Some (mkdec neg (digits_val fp) (- Z.of_nat (length fp)), match t3 with [] => s_cm | _ => t3 end) else None
  | _ :: _, _ => if forallb is_letter t3 then Some (mkdec neg (digits_val (ip ++ fp)) (- Z.of_nat (length fp)), match t3 with [] => s_cm | _ => t3 end) else None
  end.
Definition unit_lexical (t : str) : bool := match unit_parse t with Some _ => true | None => false end.

(* format(value, "f") of a finite Decimal *)
Definition dec_format_f (d : dec) : str :=
  let digits := print_N (dcoef d) in
  (if dneg d then [c_minus] else []) ++
  if (0 <=? dexp d)%Z then (if (dcoef d =? 0)%N then digits else digits ++ zeros (Z.to_nat (dexp d)))
  else
    let k := Z.to_nat (- dexp d) in
    let len := length digits in
    if (k <? len)%nat then firstn (len - k) digits ++ c_dot :: skipn (len - k) digits
    else 48%N :: c_dot :: zeros (k - len) ++ digits.
(* repaired Unit.__str__ *)
Definition unit_str (d : dec) (u : str) : str := dec_format_f d ++ u.
(* pinned Unit.__str__: str(Decimal) may use an exponent *)
Definition unit_str_pinned (d : dec) (u : str) : str := str_of_dec d ++ u.

(* pinned Unit(text): digits and dots are gathered wherever they are, everything else is the unit (str.isdigit modelled on ASCII) *)
Definition unit_parse_pinned (t : str) : option (dec * str) :=
  let ds := filter (fun c => is_digit c || (c =? c_dot)%N) t in
  let nd := filter (fun c => negb (is_digit c || (c =? c_dot)%N)) t in
  match dec_of_text ds with
  | Some d => Some (d, match nd with [] => s_cm | _ => nd end)
  | None => None
  end.

Definition unit_eqb (a b : dec * str) : bool := dec_eqb (fst a) (fst b) && str_eqb (snd a) (snd b).

(* Unit(float): the float goes through str(float), then Decimal(text) *)
Definition unit_of_float (r : str) : option dec := dec_of_text r.

(* Unit.convert("px", dpi): inches -> int(value * int(dpi)); centimetres -> int(value / Decimal("2.54") * int(dpi)); anything else is not
   implemented.  int() truncates toward zero.  The quotient is taken exactly here; Decimal works with 28 significant digits, which is
   the same for every value whose exact quotient is not within 10^-26 of an integer (stated in the notes; compared on every case). *)
Definition s_in : str := [105; 110]%N.
Definition s_px : str := [112; 120]%N.
Definition dec_signed_coef (d : dec) : Z := ((if dneg d then -1 else 1) * Z.of_N (dcoef d))%Z.
Definition unit_convert_px (d : dec) (u : str) (dpi : Z) : option Z :=
  let num := (dec_signed_coef d * dpi)%Z in
  if str_eqb u s_in then
    Some (if (0 <=? dexp d)%Z then num * 10 ^ dexp d else Z.quot num (10 ^ (- dexp d)))%Z
  else if str_eqb u s_cm then
    Some (if (0 <=? dexp d)%Z then Z.quot (num * 100 * 10 ^ dexp d) 254 else Z.quot (num * 100) (254 * 10 ^ (- dexp d)))%Z
  else None.
