(* TableGproof3.v — C08 for the single-object getters on EVERY well-formed table: get_cell, get_row, get_column carry
   the coordinates asked for (negative ones translated), hold the content of that position of the expansion of the XML
   (the empty cell / row outside the populated area), carry no repeat when keep_repeated=False, and are Detached when clone. *)
From Coq Require Import List ZArith Lia Bool Arith.
Import ListNotations.
Require Import Vault Vaultproof Vaultproof3 Vaultproof4 Row Table Grid Tableabs Tableproof Tableproof2 Tableproof5 Tableproof6 Tableproof7
               TableB TableBabs TableBproof TableBproof5 TableG TableGspec TableGproof.
Open Scope Z_scope.

Lemma cell_eqb_iff a b : cell_eqb a b = true <-> a = b.
Proof.
  unfold cell_eqb. rewrite andb_true_iff, !Z.eqb_eq. destruct a, b; cbn [fst snd]. split; [intros [-> ->]; reflexivity|intros H; inversion H; auto].
Qed.
Lemma cells_eqb_refl l : cells_eqb l l = true.
Proof. apply (list_eqb_iff cell_eqb cell_eqb_iff). reflexivity. Qed.
Lemma norm_coord_id x len : 0 <= x -> norm_coord x len = x.
Proof. intros H. unfold norm_coord. destruct (Z.ltb_spec x 0); [lia|reflexivity]. Qed.

Lemma m_row_get_cell_nil x cl ry rh : c_val (m_row_get_cell x cl ry rh []) = empty_cell.
Proof. unfold m_row_get_cell. destruct (rwidth [] <=? _); reflexivity. Qed.

Lemma m_get_row_content y cl t : WF t -> 0 <= y -> expand (snd (r_val (m_get_row y cl t))) = g_row y (abs_t t) /\ r_y (m_get_row y cl t) = Some y.
Proof.
  intros [[Hwr Hwc] Hcw] Hy. unfold m_get_row. unfold ny. rewrite (norm_coord_id y _ Hy).
  destruct (base_row_spec y t (conj Hwr Hwc) Hcw Hy) as (st & cs & Hb & He & Hw). unfold base_row, row_at in Hb.
  destruct (theight t <=? y).
  - inversion Hb; subst. cbn [r_val r_y empty_row snd]. auto.
  - destruct (find_idx (cmap (rows t)) y) as [i|]; [|discriminate].
    destruct (nth_error (rows t) i) as [[n [st' cs']]|]; [|discriminate]. inversion Hb; subst. cbn [r_val r_y snd]. auto.
Qed.

Theorem single_object_getters t q : WF t ->
  match q with GGetCell _ _ _ _ | GGetRow _ _ | GGetColumn _ => True | _ => False end -> C08_holds t q.
Proof.
  intros Hwf Hq. pose proof Hwf as [[Hwr Hwc] Hcw].
  assert (Hny : forall y, 0 <= ny y t) by (intros; apply norm_coord_nonneg, theight_nonneg).
  assert (Hnx : forall x, 0 <= nx x t) by (intros; apply norm_coord_nonneg, twidth_nonneg).
  unfold C08_holds. destruct q; try contradiction; cbn [m_get spec_get meets promises_copy expands]; rewrite ?gheight_abs, ?ncols_abs.
  - (* get_cell *)
    unfold forall2b. cbn [length combine forallb fst snd Nat.eqb andb]. rewrite !andb_true_r.
    fold (nx x t). fold (ny y t).
    assert (Hval : c_val (m_get_cell x y clone keep t) = nth (Z.to_nat (nx x t)) (g_row (ny y t) (abs_t t)) empty_cell).
    { pose proof (read_refines t (QGetCell x y) Hwf) as Hr. cbn [t_read g_read] in Hr. rewrite gheight_abs, ncols_abs in Hr.
      inversion Hr as [Hr']. fold (nx x t) in Hr'. fold (ny y t) in Hr'. rewrite <- Hr'. clear Hr Hr'.
      unfold m_get_cell, t_get_cell. cbv zeta.
      destruct (Z.leb_spec (theight t) (ny y t)) as [Ho|Hi]; [reflexivity|]. cbn [c_val].
      assert (Hnn : ny (ny y t) t = ny y t) by (unfold ny at 1; apply norm_coord_id; apply Hny).
      unfold m_get_row. rewrite !Hnn.
      destruct (Z.leb_spec (theight t) (ny y t)); [lia|]. unfold row_at.
      destruct (find_idx (cmap (rows t)) (ny y t)) as [i|]; [|apply m_row_get_cell_nil].
      destruct (nth_error (rows t) i) as [[n [st cs]]|] eqn:En; [|apply m_row_get_cell_nil]. cbn [r_val r_h snd].
      assert (Hwcs : wf cs) by (unfold cwf in Hcw; rewrite Forall_forall in Hcw; apply nth_error_In in En; exact (Hcw _ En)).
      unfold m_row_get_cell. rewrite (norm_coord_id (nx x t) _ (Hnx x)).
      rewrite <- (cell_pos_at_cell_at (nx x t) cs).
      destruct (Z.leb_spec (rwidth cs) (nx x t)) as [Hxo|Hxi].
      - cbn [c_val]. unfold cell_pos_at.
        destruct (find_idx (cmap cs) (nx x t)) as [ci|] eqn:Ef; [|reflexivity]. exfalso.
        pose proof (cell_at_spec cs (nx x t) Hwcs (Hnx x)) as Hs. unfold cell_at in Hs. rewrite Ef in Hs.
        assert (Hci : (ci < length cs)%nat).
        { unfold find_idx in Ef. destruct (Nat.ltb_spec (bisect (cmap cs) (nx x t)) (length (cmap cs))); [|discriminate].
          inversion Ef; subst. now rewrite cmap_length in *. }
        destruct (nth_error cs ci) as [c|] eqn:Ec; [|apply nth_error_None in Ec; lia]. cbn [option_map] in Hs. symmetry in Hs.
        assert (Z.to_nat (nx x t) < length (expand cs))%nat by (apply nth_error_Some; congruence). unfold rwidth, width in Hxo. lia.
      - destruct (cell_pos_at (nx x t) cs) as [[j [n' c]]|]; reflexivity. }
    unfold cobj_meets. rewrite Hval.
    assert (Hxy : c_x (m_get_cell x y clone keep t) = Some (nx x t) /\ c_y (m_get_cell x y clone keep t) = Some (ny y t)).
    { unfold m_get_cell. cbv zeta. destruct (theight t <=? ny y t); cbn [c_x c_y]; auto. }
    destruct Hxy as [-> ->]. cbn [oz_eqb]. rewrite !Z.eqb_refl. cbn [andb].
    assert (Hce : forall c, cell_eqb c c = true) by (intros c; apply cell_eqb_iff; reflexivity). rewrite Hce. cbn [andb].
    apply andb_true_iff. split.
    + destruct keep; [reflexivity|]. cbn [negb orb]. unfold m_get_cell. cbv zeta. destruct (theight t <=? ny y t); reflexivity.
    + destruct clone; [|reflexivity]. cbn [negb orb].
      pose proof (copies_detached false t (GGetCell x y true keep) eq_refl) as Hd. cbn [m_get res_handles concat app map] in Hd.
      inversion Hd as [|? ? Hh _]; subst. rewrite Hh. reflexivity.
  - (* get_row *)
    unfold forall2b. cbn [length combine forallb fst snd Nat.eqb andb]. rewrite !andb_true_r.
    unfold robj_meets. cbn [fst snd]. fold (ny y t).
    assert (Hm : m_get_row y clone t = m_get_row (ny y t) clone t).
    { assert (Hnn : ny (ny y t) t = ny y t) by (unfold ny at 1; apply norm_coord_id; apply Hny).
      unfold m_get_row. rewrite !Hnn. reflexivity. }
    rewrite Hm. destruct (m_get_row_content (ny y t) clone t Hwf (Hny y)) as [He Hy]. rewrite He, Hy.
    cbn [oz_eqb]. rewrite Z.eqb_refl, cells_eqb_refl. cbn [andb negb orb].
    destruct clone; [|reflexivity]. cbn [negb orb]. rewrite m_get_row_clone. reflexivity.
  - (* get_column *)
    unfold forall2b. cbn [length combine forallb fst snd Nat.eqb andb]. rewrite !andb_true_r.
    unfold kobj_meets. fold (nx x t). cbn [negb orb].
    assert (Hk : k_x (m_get_column x t) = Some (nx x t) /\ k_h (m_get_column x t) = Detached).
    { unfold m_get_column. destruct (twidth t <=? nx x t); [auto|]. destruct (find_idx _ _) as [i|]; [|auto].
      destruct (nth_error _ _) as [[n st]|]; auto. }
    destruct Hk as [-> ->]. cbn [oz_eqb h_detached]. rewrite Z.eqb_refl. reflexivity.
Qed.
