(* Property C18 — statements only.  Each is closed by [exact] of a lemma proved elsewhere.
   Models: Codec.v (mirrors src/odfdo/datatype.py and utils/color.py; Duration.decode and hex2rgb as REPAIRED by fixes/F23, fixes/F29;
   [dur_decode_pinned], [hex2rgb_pinned] mirror the pinned code).  Strings are lists of code points. *)
From Coq Require Import List ZArith NArith Reals. Import ListNotations.
From Flocq Require Import Core.
Require Import Codec Codecproof CodecDurproof CodecDateproof CodecIsoproof CodecColorproof CodecFloat Gen_Css Typed CodecUnit CodecUnitproof CodecUnitproof2.

(* ---------------------------------------------------------------- Duration *)
(* decode inverts encode on every whole-second duration, either sign, no bound *)
Theorem dur_roundtrip : forall s : Z, dur_decode (dur_encode_s s) = Some (s * 1000000)%Z.
Proof. exact dur_roundtrip_s. Qed.
Print Assumptions dur_roundtrip.

(* ... and on every microsecond count (repaired encoder, fixes/F71: the sub-second part is written as .ffffff) *)
Theorem dur_roundtrip_us : forall us : Z, dur_decode (dur_encode us) = Some us.
Proof. exact dur_decode_encode. Qed.
Print Assumptions dur_roundtrip_us.

(* pinned encoder (F71): the fraction is dropped, what comes back is the value truncated toward zero to whole seconds *)
Theorem dur_roundtrip_pinned_truncates : forall us : Z, dur_decode (dur_encode_pinned us) = Some (Z.quot us 1000000 * 1000000)%Z.
Proof. exact dur_pinned_truncates. Qed.
Print Assumptions dur_roundtrip_pinned_truncates.
Theorem dur_roundtrip_us_refuted : exists us : Z, dur_decode (dur_encode_pinned us) <> Some us.
Proof. exists 1500000%Z. vm_compute. discriminate. Qed.
Print Assumptions dur_roundtrip_us_refuted.

(* the encoded string is in the lexical space -?P(nD)?(T(nH)?(nM)?(n(.f)?S)?)? and denotes the value *)
Theorem dur_lexical_thm : forall us : Z, xsd_dur (dur_encode us) us /\ dur_lexical (dur_encode us) = true.
Proof. exact dur_encode_lexical_lemma. Qed.
Print Assumptions dur_lexical_thm.

(* repaired decoder: whatever it accepts is in the lexical space and has that value; and it accepts all of it *)
Theorem dur_decode_sound : forall t v, dur_decode t = Some v -> xsd_dur t v.
Proof. exact dur_decode_sound_lemma. Qed.
Print Assumptions dur_decode_sound.
Theorem dur_decode_complete : forall t v, xsd_dur t v -> dur_decode t = Some v.
Proof. exact dur_decode_complete_lemma. Qed.
Print Assumptions dur_decode_complete.

(* pinned decoder (F23): "PT1.5S" |-> 15 s, "P1M" |-> 1 min, "PT-5S" |-> 5 s *)
Theorem dur_decode_sound_refuted :
  (dur_decode_pinned w_PT1_5S = Some 15000000%Z /\ ~ xsd_dur w_PT1_5S 15000000) /\
  (dur_decode_pinned w_P1M = Some 60000000%Z /\ forall v, ~ xsd_dur w_P1M v) /\
  (dur_decode_pinned w_PT_5S = Some 5000000%Z /\ forall v, ~ xsd_dur w_PT_5S v).
Proof. exact dur_decode_pinned_unsound. Qed.
Print Assumptions dur_decode_sound_refuted.

(* float leg: hours = microseconds / (60*60*1000000) in binary64, then "%02d" truncates.  Exact for every whole-second
   duration below 3600 * 2^41 s (timedelta.max is below 2^37 s), and for any microsecond count below 2^21 hours. *)
Theorem dur_float_exact : forall s : Z, (0 <= s < 3600 * 2^41)%Z ->
  Ztrunc (RN (IZR (s * 1000000) / IZR (60 * 60 * 1000000))) = (s / 3600)%Z.
Proof. exact dur_float_hours. Qed.
Print Assumptions dur_float_exact.
Theorem dur_float_exact_minutes : forall r : Z, (0 <= r < 3600)%Z ->
  Ztrunc (RN (IZR (r * 1000000) / IZR (60 * 1000000))) = (r / 60)%Z.
Proof. exact dur_float_minutes. Qed.
Print Assumptions dur_float_exact_minutes.
Theorem dur_float_exact_seconds : forall r : Z, (0 <= r < 60)%Z -> Ztrunc (RN (IZR (r * 1000000) / IZR 1000000)) = r.
Proof. exact dur_float_seconds. Qed.
Print Assumptions dur_float_exact_seconds.
Theorem dur_float_exact_us : forall us : Z, (0 <= us < 3600000000 * 2^21)%Z ->
  Ztrunc (RN (IZR us / IZR (60 * 60 * 1000000))) = (us / 3600000000)%Z.
Proof. exact dur_float_hours_us. Qed.
Print Assumptions dur_float_exact_us.
Theorem dur_float_exact_minutes_us : forall a : Z, (0 <= a < 3600000000)%Z -> Ztrunc (RN (IZR a / IZR (60 * 1000000))) = (a / 60000000)%Z.
Proof. exact dur_float_minutes_us. Qed.
Print Assumptions dur_float_exact_minutes_us.
Theorem dur_float_exact_seconds_us : forall a : Z, (0 <= a < 60000000)%Z -> Ztrunc (RN (IZR a / IZR 1000000)) = (a / 1000000)%Z.
Proof. exact dur_float_seconds_us. Qed.
Print Assumptions dur_float_exact_seconds_us.
Example dur_float_example : (0 <= 86399999999999 < 3600 * 2^41)%Z.   (* timedelta.max in seconds meets the bound *)
Proof. split; vm_compute; [discriminate | reflexivity]. Qed.

(* ---------------------------------------------------------------- Date / DateTime *)
(* years 1..9999, any whole-second offset strictly inside +-24 h, microseconds; "+00:00" is written "Z" and read back as offset 0 *)
Theorem datetime_roundtrip : forall d : dtime, valid_dt d = true -> datetime_decode (datetime_encode d) = Some d.
Proof. exact datetime_roundtrip_lemma. Qed.
Print Assumptions datetime_roundtrip.
Theorem datetime_lexical_thm : forall d : dtime, valid_dt d = true -> whole_minute (tz d) = true -> datetime_lexical (datetime_encode d) = true.
Proof. exact datetime_lexical_lemma. Qed.
Print Assumptions datetime_lexical_thm.
(* a date comes back as the datetime at 00:00 of that day *)
Theorem date_roundtrip : forall y m d : N, valid_date y m d = true -> date_decode (date_encode y m d) = Some (mkdt y m d 0 0 0 0 None).
Proof. exact date_roundtrip_lemma. Qed.
Print Assumptions date_roundtrip.
Theorem date_lexical_thm : forall y m d : N, date_lexical (date_encode y m d) = true.
Proof. exact date_lexical_lemma. Qed.
Print Assumptions date_lexical_thm.
Example datetime_example :
  let d := mkdt 2024 2 29 23 59 59 123000 (Some 0%Z) in
  valid_dt d = true /\ datetime_encode d = [50;48;50;52;45;48;50;45;50;57;84;50;51;58;53;57;58;53;57;46;49;50;51;48;48;48;90]%N.
Proof. split; reflexivity. Qed.

(* repaired Date.decode / DateTime.decode (fixes/F73: anchored regular expression before fromisoformat): a value is returned exactly for
   the strings of the ODF date / dateTime forms ([iso_denotes]: YYYY-MM-DD, or YYYY-MM-DDTHH:MM:SS[.f+][Z|+-HH:MM[:SS[.f+]]] with calendar,
   clock and offset ranges), and it is the value the string denotes (fraction read to the microsecond) *)
Theorem datetime_decode_sound : forall t d, datetime_decode t = Some d -> iso_denotes t d.
Proof. exact parse_iso_sound. Qed.
Print Assumptions datetime_decode_sound.
Theorem datetime_decode_complete : forall t d, iso_denotes t d -> datetime_decode t = Some d.
Proof. exact parse_iso_complete. Qed.
Print Assumptions datetime_decode_complete.
Theorem date_decode_sound : forall t d, date_decode t = Some d -> iso_denotes t d.
Proof. exact parse_iso_sound. Qed.
Print Assumptions date_decode_sound.
Example iso_example : iso_denotes [50;48;50;52;45;48;49;45;51;49;84;49;48;58;48;48;58;48;48;46;53;43;48;53;58;51;48]%N   (* 2024-01-31T10:00:00.5+05:30 *)
                                  (mkdt 2024 1 31 10 0 0 500000 (Some 19800000000%Z)).
Proof. apply parse_iso_sound. reflexivity. Qed.

(* ---------------------------------------------------------------- Boolean *)
Theorem bool_roundtrip : forall b : bool, bool_decode (bool_encode b) = Some b /\ bool_lexical (bool_encode b) = true.
Proof. exact bool_roundtrip_lemma. Qed.
Print Assumptions bool_roundtrip.
Theorem bool_decode_sound : forall t b, bool_decode t = Some b -> t = bool_encode b.
Proof. exact bool_decode_sound_lemma. Qed.
Print Assumptions bool_decode_sound.

(* Boolean.encode on its whole signature (bool, str of any case, anything else): what it returns is true|false and decodes to the
   boolean the argument denotes *)
Theorem bool_encode_any_thm : forall i t, bool_encode_any i = Some t ->
  bool_lexical t = true /\ exists b, bool_decode t = Some b /\ t = bool_encode b /\
    match i with BBool b' => b' = b | BStr s => lower_str s = bool_encode b | BOther => False end.
Proof. exact bool_encode_any_lemma. Qed.
Print Assumptions bool_encode_any_thm.

(* ---------------------------------------------------------------- colours *)
(* all 2^24 colours (a sweep over the 256 values of one channel, lifted to three channels) *)
Theorem rgb_roundtrip : forall r g b : Z, (0 <= r <= 255)%Z -> (0 <= g <= 255)%Z -> (0 <= b <= 255)%Z ->
  exists e, rgb2hex r g b = Some e /\ hex2rgb e = Some (Z.to_N r, Z.to_N g, Z.to_N b) /\ color_lexical e = true.
Proof. exact rgb_roundtrip_lemma. Qed.
Print Assumptions rgb_roundtrip.
(* every CSS name of the table generated from const.py on this run *)
Theorem css_names : forall name r g b, In (name, (r, g, b)) css3_colormap ->
  exists h, rgb2hex_name css3_colormap name = Some h /\ color_lexical h = true /\
            exists r' g' b', hex2rgb h = Some (r', g', b') /\ (Z.of_N r' = r /\ Z.of_N g' = g /\ Z.of_N b' = b).
Proof. exact css_names_lemma. Qed.
Print Assumptions css_names.
(* repaired hex2rgb accepts exactly #[0-9A-Fa-f]{6}, with the base-16 value of each pair *)
Theorem hex_decode_sound : forall t r g b, hex2rgb t = Some (r, g, b) ->
  color_lexical t = true /\
  exists a1 a2 a3 a4 a5 a6, t = [c_hash; a1; a2; a3; a4; a5; a6] /\
    hex_pair hex_val a1 a2 = Some r /\ hex_pair hex_val a3 a4 = Some g /\ hex_pair hex_val a5 a6 = Some b /\
    (r < 256 /\ g < 256 /\ b < 256)%N.
Proof. exact hex2rgb_sound_lemma. Qed.
Print Assumptions hex_decode_sound.
Theorem hex_decode_complete : forall t, color_lexical t = true -> exists rgb, hex2rgb t = Some rgb.
Proof. exact hex2rgb_complete_lemma. Qed.
Print Assumptions hex_decode_complete.
(* pinned hex2rgb (F29): "#" followed by six ARABIC-INDIC DIGIT ZERO is accepted as black *)
Theorem hex_decode_sound_refuted : hex2rgb_pinned w_arabic_zeros = Some (0, 0, 0)%N /\ color_lexical w_arabic_zeros = false.
Proof. exact hex2rgb_pinned_unsound. Qed.
Print Assumptions hex_decode_sound_refuted.

(* rgb2hex of a name, for ANY table: what the table says, in #RRGGBB *)
Theorem rgb2hex_names : forall tbl name h, rgb2hex_name tbl name = Some h ->
  exists r g b, lookup (map ascii_lower name) tbl = Some (r, g, b) /\ color_lexical h = true /\ hex2rgb h = Some (Z.to_N r, Z.to_N g, Z.to_N b).
Proof. exact rgb2hex_name_lemma. Qed.
Print Assumptions rgb2hex_names.
(* hexa_color on every input form (None, tuples of any length, names, blank, '#...' strings, anything else): whenever a string is
   returned for an input that is not a malformed '#...' string, it is #rrggbb and reads back as the colour the input denotes *)
Theorem hexa_color_thm : forall tbl i h, hexa_color tbl i = Some (Some h) -> hexa_ok i = true ->
  color_lexical h = true /\ hexa_denotes tbl i = hex2rgb h /\ exists rgb, hex2rgb h = Some rgb.
Proof. exact hexa_color_lemma. Qed.
Print Assumptions hexa_color_thm.
(* ... and a malformed '#...' string is handed back unchanged (pinned by the test-suite with "#f00"): known finding *)
Theorem hexa_color_lexical_refuted : hexa_color css3_colormap (HStr [35;102;48;48]%N) = Some (Some [35;102;48;48]%N) /\ color_lexical [35;102;48;48]%N = false.
Proof. exact hexa_color_passthrough. Qed.
Print Assumptions hexa_color_lexical_refuted.

(* ---------------------------------------------------------------- lengths (Unit) *)
(* repaired Unit (fixes/F70): str then parse is the identity on every length without exponent, any sign, any unit of letters *)
Theorem unit_roundtrip : forall (d : dec) (u : str), (dexp d <= 0)%Z -> u <> [] -> forallb is_letter u = true ->
  unit_parse (unit_str d u) = Some (d, u).
Proof. exact unit_roundtrip_lemma. Qed.
Print Assumptions unit_roundtrip.
Example unit_example : unit_str (mkdec true 5 (-1)) s_cm = [45;48;46;53;99;109]%N /\ unit_parse [45;48;46;53;99;109]%N = Some (mkdec true 5 (-1), s_cm).
Proof. split; reflexivity. Qed.
(* pinned Unit (F70): "-0.5cm" reads as 0.5 with unit "-cm"; Decimal("1E+5") cm prints as "1E+5cm", which reads as 15 with unit "E+cm" *)
(* a length whose Decimal carries a positive exponent (Unit(Decimal("1E+2"))): "%f" prints digits and zeros, never an exponent, and the text
   reads back as the SAME NUMBER with exponent 0 ([dec_flat]); with unit_roundtrip this covers every finite Decimal *)
Theorem unit_roundtrip_positive_exponent : forall (d : dec) (u : str), (0 < dexp d)%Z -> u <> [] -> forallb is_letter u = true ->
  unit_parse (unit_str d u) = Some (dec_flat d, u) /\ dec_num_eqb d (dec_flat d) = true.
Proof. exact unit_roundtrip_posexp_lemma. Qed.
Print Assumptions unit_roundtrip_positive_exponent.
Theorem unit_roundtrip_numeric : forall (d : dec) (u : str), u <> [] -> forallb is_letter u = true ->
  exists d', unit_parse (unit_str d u) = Some (d', u) /\ dec_num_eqb d d' = true.
Proof. exact unit_roundtrip_numeric_lemma. Qed.
Print Assumptions unit_roundtrip_numeric.
(* writing a length out and reading it back never changes what Unit.convert("px", dpi) answers, whatever the exponent of the Decimal *)
Theorem unit_convert_after_roundtrip : forall (d : dec) (u : str) (dpi : Z), u <> [] -> forallb is_letter u = true ->
  exists d', unit_parse (unit_str d u) = Some (d', u) /\ unit_convert_px d' u dpi = unit_convert_px d u dpi.
Proof. exact unit_convert_after_roundtrip_lemma. Qed.
Print Assumptions unit_convert_after_roundtrip.
Example unit_posexp_example : unit_str (mkdec false 15 2) s_cm = [49;53;48;48;99;109]%N /\ unit_parse [49;53;48;48;99;109]%N = Some (mkdec false 1500 0, s_cm).
Proof. split; vm_compute; reflexivity. Qed.

Theorem unit_roundtrip_refuted :
  unit_parse_pinned [45;48;46;53;99;109]%N = Some (mkdec false 5 (-1), [45;99;109]%N) /\
  unit_parse_pinned (unit_str_pinned (mkdec false 1 5) s_cm) = Some (mkdec false 15 0, [69;43;99;109]%N).
Proof. exact unit_pinned_unsound. Qed.
Print Assumptions unit_roundtrip_refuted.

(* Unit.convert("px", dpi) is the truncation toward zero of value * dpi (inches) and of value * dpi * 100 / 254 (centimetres) *)
Theorem unit_convert_in : forall d dpi px, unit_convert_px d s_in dpi = Some px -> (dexp d <= 0)%Z ->
  px = Z.quot (dec_signed_coef d * dpi) (10 ^ (- dexp d)).
Proof. exact unit_convert_in_lemma. Qed.
Print Assumptions unit_convert_in.
Theorem unit_convert_cm : forall d dpi px, unit_convert_px d s_cm dpi = Some px -> (dexp d <= 0)%Z ->
  px = Z.quot (dec_signed_coef d * dpi * 100) (254 * 10 ^ (- dexp d)).
Proof. exact unit_convert_cm_lemma. Qed.
Print Assumptions unit_convert_cm.

(* ---------------------------------------------------------------- the property at full strength *)
Definition C18_full : Prop :=
  (forall us : Z, dur_decode (dur_encode us) = Some us /\ dur_lexical (dur_encode us) = true) /\
  (forall t v, dur_decode t = Some v <-> xsd_dur t v) /\
  (forall d, valid_dt d = true -> datetime_decode (datetime_encode d) = Some d /\ (whole_minute (tz d) = true -> datetime_lexical (datetime_encode d) = true)) /\
  (forall y m d, valid_date y m d = true -> date_decode (date_encode y m d) = Some (mkdt y m d 0 0 0 0 None) /\ date_lexical (date_encode y m d) = true) /\
  (forall b, bool_decode (bool_encode b) = Some b /\ bool_lexical (bool_encode b) = true) /\
  (forall r g b, (0 <= r <= 255)%Z -> (0 <= g <= 255)%Z -> (0 <= b <= 255)%Z ->
     exists e, rgb2hex r g b = Some e /\ hex2rgb e = Some (Z.to_N r, Z.to_N g, Z.to_N b) /\ color_lexical e = true) /\
  (forall t, color_lexical t = true <-> exists rgb, hex2rgb t = Some rgb).
Theorem C18_codecs : C18_full.
Proof.
  repeat split.
  - apply dur_decode_encode.
  - apply dur_encode_lexical_lemma.
  - apply dur_decode_sound_lemma.
  - apply dur_decode_complete_lemma.
  - now apply datetime_roundtrip_lemma.
  - now apply datetime_lexical_lemma.
  - now apply date_roundtrip_lemma.
  - apply date_lexical_lemma.
  - apply bool_roundtrip_lemma.
  - apply bool_roundtrip_lemma.
  - apply rgb_roundtrip_lemma; assumption.
  - apply hex2rgb_complete_lemma.
  - intros [[[r g] b] H]. now apply hex2rgb_sound_lemma in H.
Qed.
Print Assumptions C18_codecs.
