(* Pkgproof4.v — Document.save (repaired code) writes the document in memory: C03 / C11 main lemmas *)
From Coq Require Import List ZArith Bool Arith Lia.
Import ListNotations.
Require Import Package PkgManproof PkgZipproof Pkgproof Pkgproof2 Pkgproof3.
Open Scope Z_scope.

Section S4.
Variable xml bytes kid : Type.
Variable ser : xml -> bytes.
Variable par : bytes -> xml.
Variable pretty stamp : xml -> xml.
Variable entries : xml -> mentries.
Variable kids : xml -> list kid.
Variable mime : bytes -> mtype.
Variable rdf0 : bytes.
Variable proj : Type.
Variable mask : xml -> proj.
Hypothesis par_ser : forall x, par (ser x) = x.
Notation container := (container bytes).
Notation document := (document xml bytes).
Notation fsys := (fsys bytes kid).
Notation cB := (cB bytes kid).
Notation WFc := (WFc bytes kid).
Notation dB := (dB xml bytes kid).
Notation dX := (dX xml bytes kid par).
Notation WFd := (WFd xml bytes kid).
Notation d_tree := (d_tree xml bytes kid par FIXED).
Notation view := (view xml bytes kid par proj mask).
Notation file_view := (file_view xml bytes kid par proj mask).
Notation d_save := (d_save xml bytes kid ser par pretty stamp entries kids mime rdf0 FIXED).
Notation ser_loop := (ser_loop xml bytes kid ser par pretty FIXED).
Notation check_rdf := (check_rdf xml bytes kid par entries rdf0 FIXED).
Notation lay := (lay xml pretty).

Lemma is_xml_META : is_xml META = true. Proof. reflexivity. Qed.
Lemma is_xml_MANIFEST : is_xml MANIFEST = true. Proof. reflexivity. Qed.

Lemma set_tree_sem : forall fs n x (d : document), WFd fs d -> is_xml n = true -> dB fs d n <> None ->
  let d' := set_tree xml bytes n x d in
  WFd fs d' /\ (forall m, dB fs d' m = dB fs d m) /\ (forall m, dX fs d' m = if m =? n then Some x else dX fs d m)
  /\ cont _ _ d' = cont _ _ d.
Proof.
  intros fs n x d W Hn Hlive d'. subst d'. unfold set_tree. split; [|split; [reflexivity|split; [|reflexivity]]].
  - constructor; cbn [cont xps]; [exact (wfd_c _ _ _ _ _ W)| |].
    + intros m Hm. rewrite keys_upsert in Hm.
      match type of Hm with In _ (if ?cnd then _ else _) => destruct cnd end; [apply (wfd_x _ _ _ _ _ W); exact Hm|].
      apply in_app_or in Hm as [Hm|[<-|[]]]; [apply (wfd_x _ _ _ _ _ W); exact Hm|exact Hn].
    + intros m y Lm. rewrite lookup_upsert in Lm. destruct (m =? n) eqn:E.
      * apply Z.eqb_eq in E. subst m. exact Hlive.
      * apply (wfd_live _ _ _ _ _ W m y Lm).
  - intros m. unfold Pkgproof.dX, Pkgproof.dB. cbn [xps cont]. rewrite lookup_upsert. destruct (m =? n); reflexivity.
Qed.

Lemma with_cont_wf : forall fs (d : document) c, WFd fs d -> WFc fs c ->
  (forall m, is_xml m = true -> cB fs (cont _ _ d) m <> None -> cB fs c m <> None) -> WFd fs (d_with_cont _ _ d c).
Proof.
  intros fs d c W Wc H. constructor; [exact Wc|exact (wfd_x _ _ _ _ _ W)|].
  intros m y Lm. apply H; [apply (wfd_x _ _ _ _ _ W); eapply lookup_in_keys; exact Lm|apply (wfd_live _ _ _ _ _ W m y Lm)].
Qed.

Lemma check_rdf_wf : forall fs (d : document), WFd fs d -> WFd fs (fst (check_rdf fs d)).
Proof.
  intros fs d W. unfold Package.check_rdf.
  pose proof (d_tree_sem xml bytes kid par fs MANIFEST d W is_xml_MANIFEST) as [_ [_ [_ [W1 _]]]].
  destruct (d_tree fs MANIFEST d) as [d1 [xm|]]; cbn [fst] in *; [|exact W1].
  destruct (rdf_listed FIXED (entries xm));
    destruct (memz RDF (c_listing bytes kid FIXED fs (cont _ _ d1))); cbn [fst]; try exact W1.
  - destruct (c_set_part_sem bytes kid fs RDF rdf0 (cont _ _ d1) (wfd_c _ _ _ _ _ W1)) as [S1 [S2 _]].
    apply with_cont_wf; [exact W1|exact S2|]. intros m Hm Hb. rewrite S1. destruct (m =? RDF); [discriminate|exact Hb].
  - destruct (c_del_part_sem bytes kid fs RDF (cont _ _ d1) (wfd_c _ _ _ _ _ W1)) as [S1 [S2 _]].
    apply with_cont_wf; [exact W1|exact S2|]. intros m Hm Hb. rewrite S1. destruct (m =? RDF) eqn:E; [|exact Hb].
    apply Z.eqb_eq in E. subst m. discriminate.
Qed.

(* every XML part the container holds after the loops parses to the part's tree, up to the layout *)
Definition flushed (fs : fsys) (d : document) : Prop :=
  forall n, is_xml n = true ->
    match dB fs d n with
    | Some b => exists x, dX fs d n = Some x /\ mask (par b) = mask x
    | None => dX fs d n = None
    end.

Lemma loops_flush : forall pty fs (d3 d4 : document) (ok : bool),
  (forall x, mask (lay pty x) = mask x) ->
  LInv xml bytes kid ser par pretty pty fs (dX fs d3) (dB fs d3) (cpath _ (cont _ _ d3)) (pkg _ (cont _ _ d3)) d4 ->
  (forall n, In n (map fst (xps _ _ d3)) -> processed xml bytes kid ser pretty pty fs (dX fs d3) d4 n) ->
  flushed fs d4.
Proof.
  intros pty fs d3 d4 ok Hmask I Hp n Hn.
  assert (Hproc : processed xml bytes kid ser pretty pty fs (dX fs d3) d4 n ->
                  match dB fs d4 n with Some b => exists x, dX fs d4 n = Some x /\ mask (par b) = mask x | None => dX fs d4 n = None end).
  { intros [x [Hx Hb]]. rewrite Hb. exists x. split; [rewrite (li_x _ _ _ _ _ _ _ _ _ _ _ _ _ I); exact Hx|].
    rewrite par_ser. apply Hmask. }
  destruct (lookup n (xps _ _ d3)) as [[x|]|] eqn:L.
  - apply Hproc, Hp. eapply lookup_in_keys; eauto.
  - destruct (li_bx _ _ _ _ _ _ _ _ _ _ _ _ _ I n Hn) as [Hb|Hpr]; [|apply Hproc; exact Hpr].
    rewrite Hb, (li_x _ _ _ _ _ _ _ _ _ _ _ _ _ I). unfold Pkgproof.dX. rewrite L.
    destruct (dB fs d3 n) as [b|]; [exists (par b); auto|reflexivity].
  - destruct (li_bx _ _ _ _ _ _ _ _ _ _ _ _ _ I n Hn) as [Hb|Hpr]; [|apply Hproc; exact Hpr].
    rewrite Hb, (li_x _ _ _ _ _ _ _ _ _ _ _ _ _ I). unfold Pkgproof.dX. rewrite L.
    destruct (dB fs d3 n) as [b|]; [exists (par b); auto|reflexivity].
Qed.

Lemma LInv_start : forall pty fs (d : document), WFd fs d ->
  LInv xml bytes kid ser par pretty pty fs (dX fs d) (dB fs d) (cpath _ (cont _ _ d)) (pkg _ (cont _ _ d)) d.
Proof. intros. constructor; auto. Qed.

(* the two shapes of the serialisation phase of Document.save *)
Lemma save_loops : forall (pty : bool) (pk : packaging) fs (d3 d4 : document) ok4,
  WFd fs d3 -> (forall x, mask (lay (pty && negb (pk_eqb pk PXml)) x) = mask x) ->
  (if pty && negb (pk_eqb pk PXml)
   then let '(da, oka) := ser_loop fs true (map fst (xps _ _ d3)) d3 in
        let '(db, okb) := ser_loop fs true (filter (fun n => match lookup n (xps _ _ da) with Some _ => false | None => true end)
                                                   [CONTENT; META; SETTINGS; STYLES]) da in
        (db, oka && okb)
   else ser_loop fs false (map fst (xps _ _ d3)) d3) = (d4, ok4) ->
  ok4 = true -> flushed fs d4 /\ WFd fs d4.
Proof.
  intros pty pk fs d3 d4 ok4 W Hmask H Hok.
  assert (Hk : forall n, In n (map fst (xps _ _ d3)) -> is_xml n = true) by (apply (wfd_x _ _ _ _ _ W)).
  destruct (pty && negb (pk_eqb pk PXml)) eqn:P.
  - rewrite !ser_loop_is_fold in H.
    destruct (fold_body_inv xml bytes kid ser par pretty true fs _ _ _ _ (map fst (xps _ _ d3)) (d3, true) Hk (LInv_start true fs d3 W)) as [I1 [P1 M1]].
    destruct (fold_left (body xml bytes kid ser par pretty true fs) (map fst (xps _ _ d3)) (d3, true)) as [da oka] eqn:E1. cbn [fst snd] in *.
    match type of H with context [ser_loop fs true ?l da] => set (ns2 := l) in H end.
    assert (Hk2 : forall n, In n ns2 -> is_xml n = true).
    { intros n Hn. unfold ns2 in Hn. apply filter_In in Hn as [Hn _]. cbn in Hn. repeat (destruct Hn as [<-|Hn]; [reflexivity|]). destruct Hn. }
    destruct (fold_body_inv xml bytes kid ser par pretty true fs _ _ _ _ ns2 (da, true) Hk2 I1) as [I2 [P2 M2]].
    rewrite ser_loop_is_fold in H.
    destruct (fold_left (body xml bytes kid ser par pretty true fs) ns2 (da, true)) as [db okb] eqn:E2. cbn [fst snd] in *.
    subst ok4. inversion H as [[Hd Ho]]. subst d4. apply andb_true_iff in Ho as [Ha Hb].
    split; [|exact (li_wf _ _ _ _ _ _ _ _ _ _ _ _ _ I2)].
    apply (loops_flush true fs d3 db true Hmask I2). intros n Hn. apply M2. apply (proj2 (P1 Ha)). exact Hn.
  - rewrite ser_loop_is_fold in H.
    destruct (fold_body_inv xml bytes kid ser par pretty false fs _ _ _ _ (map fst (xps _ _ d3)) (d3, true) Hk (LInv_start false fs d3 W)) as [I1 [P1 M1]].
    rewrite H in *. cbn [fst snd] in *. subst ok4.
    split; [|exact (li_wf _ _ _ _ _ _ _ _ _ _ _ _ _ I1)].
    apply (loops_flush false fs d3 d4 true Hmask I1). intros n Hn. apply (proj2 (P1 eq_refl)). exact Hn.
Qed.

(* C03 / C11: what Document.save writes (zip or folder) is, part by part, the document it leaves in memory *)
Theorem save_file_is_memory : forall fs (d : document) t pk pty fs' d',
  WFd fs d -> pk <> PXml ->
  (pty = true -> forall x, mask (pretty x) = mask x) ->
  d_save fs d t pk pty = (fs', d', true) ->
  forall n, file_view (lookup (tgt_id t) fs') n = view fs d' n.
Proof.
  intros fs d t pk pty fs' d' W Hpk Hmask H n.
  unfold Package.d_save in H.
  pose proof (d_tree_sem xml bytes kid par fs META d W is_xml_META) as [_ [_ [_ [W1 [_ [_ T7]]]]]].
  destruct (d_tree fs META d) as [d1 [x|]]; cbn [fst snd] in W1, T7; [|inversion H].
  destruct (T7 ltac:(discriminate)) as [x0 [Lx0 _]].
  destruct (set_tree_sem fs META (stamp x) d1 W1 is_xml_META (wfd_live _ _ _ _ _ W1 META x0 Lx0)) as [W2 _].
  pose proof (check_rdf_wf fs _ W2) as W3.
  destruct (check_rdf fs (set_tree xml bytes META (stamp x) d1)) as [d3 ok3]. cbn [fst] in W3.
  destruct ok3; cbn [negb] in H; [|inversion H].
  match type of H with (let '(d4, ok4) := ?L in _) = _ => destruct L as [d4 ok4] eqn:EL end.
  destruct ok4; cbn [negb] in H; [|inversion H].
  assert (Hm2 : forall y, mask (lay (pty && negb (pk_eqb pk PXml)) y) = mask y).
  { intros y. unfold Pkgproof2.lay. destruct (pty && negb (pk_eqb pk PXml)) eqn:P; [|reflexivity].
    apply Hmask. apply andb_true_iff in P. tauto. }
  destruct (save_loops pty pk fs d3 d4 true W3 Hm2 EL eq_refl) as [Fl W4].
  destruct (c_save xml bytes kid par kids mime FIXED fs (cont _ _ d4) t pk) as [c5 [fs5|]] eqn:CS; inversion H; subst fs' d'; clear H.
  destruct (c_save_sem xml bytes kid par kids mime fs (cont _ _ d4) t pk c5 fs5 (wfd_c _ _ _ _ _ W4) Hpk CS) as [S1 [S2 _]].
  unfold Package.file_view, Package.view. destruct (is_dir n); [reflexivity|].
  fold (saved_entries bytes kid fs5 t). rewrite S1.
  change (cB fs (cont _ _ d4) n) with (dB fs d4 n).
  assert (HB : bytes_of xml bytes kid fs (d_with_cont _ _ d4 c5) n = dB fs d4 n) by (unfold bytes_of; cbn [cont d_with_cont]; apply S2).
  assert (HX : tree_of xml bytes kid par fs (d_with_cont _ _ d4 c5) n = dX fs d4 n).
  { unfold tree_of. rewrite HB. reflexivity. }
  rewrite HB, HX.
  destruct (is_xml n) eqn:Xn.
  - specialize (Fl n Xn). destruct (dB fs d4 n) as [b|].
    + destruct Fl as [y [Hy Hm]]. rewrite Hy, Hm. reflexivity.
    + rewrite Fl. reflexivity.
  - destruct (dB fs d4 n); reflexivity.
Qed.
End S4.
