"""C07: the table XML stays structurally valid and repeat-consistent after every operation; accepted names.

Theorems: coq/theories/C07.v (Tablexml.v: raw XML abstraction and XmlOK; Names.v: name checks and specifications).
Correspondence: the histories of C01; after every step Coq evaluates XmlOK on the RAW abstraction of the
implementation (attribute strings, child order), the first-row rule and the reported size; name strings are swept
over alphabets containing every forbidden character and the implementation's verdict is compared, in Coq, with the
independent specification.  The character classes of _RE_TABLE_NAME / forbidden_in_named_range() / str.isspace
are read from the live source into coq/theories/Gen_Names.v on every run."""
import itertools, string, sys
from pathlib import Path
sys.path.insert(0, str(Path(__file__).resolve().parent))
import common, tablelib as tl, tablerun as tr

LAYERS = {1: ('xmlok', 'invariant: XmlOK is false on the XML left by the call (a repeat attribute below 2 or not a number, a non-cell child of a row, a column after a row, or a row wider than the declared columns)'),
          6: ('first-row', 'invariant: rows were added to a table without rows and no column is declared'),
          15: ('raised-changed', 'invariant: the call raised after having changed the table, leaving a row wider than the declared columns (tables with table:table-columns / header wrappers)'),
          7: ('size', 'invariant: the reported width/height are not the sums of the repeats')}
SOFT = {11: 'state outside the modelled fragment', 12: 'initial state does not satisfy XmlOK (generator)'}
TRUSTED = ['lxml parse/serialise (the abstraction walks etree.fromstring(table.serialize()))',
           're._parser (the structure of _RE_TABLE_NAME is read from the parsed pattern; any unexpected shape stops the check)',
           'str.isspace over all code points stands for the class removed by str.strip()',
           'lxml refuses attribute values with characters outside the XML 1.0 Char production (Names2.xml_char): such names are rejected whatever odfdo checks',
           'specification of names: LibreOffice ScDocument::ValidTabName (+ no line break); range names: letters, digits, _ only, '
           'not starting with a digit, not of A1 or R1C1 shape; non-ASCII characters are left to the application']
MODELLED = ('the raw child list of table:table (columns, rows, cells with their repeat attribute strings); _set_repeated (attribute absent below 2), '
            '_update_width, append_row / extend_rows column declaration, _table_name_check + _RE_TABLE_NAME, NamedRange.name setter (repaired: F36, F60). '
            'NOT modelled: covered cells vs spans consistency, table:table-rows / header rows / groups, named-range replacement in a document body')


from gen_names import read_classes, write_gen


# Alphabets: for every character class a rule is written with (digit, letter, alnum, space, printable, word character) ASCII
# AND non-ASCII members: Arabic-Indic / fullwidth / non-BMP digits, non-BMP and upper/lower/titlecase non-ASCII letters,
# a combining mark, NBSP and other Unicode blanks, a zero-width space (not a blank), a control character.
NON_ASCII = ['\u0663', '\uff11', '\U0001d7d0', '\U0001d400', '\u00c9', '\u00e9', '\u01c5', '\u0301', '\u00a0', '\u2003', '\u3000', '\u0085',
             '\u200b', '\x1f']
TAB_ALPHA = ['a', 'B', '1', '_', ' ', "'", '*', '?', ':', '/', '\\', '[', ']', '\n', '\t'] + NON_ASCII
NR_ALPHA = ['a', 'B', 'R', 'C', '1', '0', '_', ' ', '\x01', '-', '.'] + NON_ASCII
TAB_CORE = ['a', '1', ' ', "'", '*', ':', '\n', '\u00e9', '\u0663', '\u00a0', '\u2003', '\u0301']
NR_CORE = ['a', 'B', 'R', 'C', '1', '0', '_', ' ', '\u00e9', '\u0663', '\uff11', '\U0001d7d0', '\u00a0', '\u0301']
BASE = ['a', '1', '_']
NAME_HEADER = ('Require Import Names Names2 Gen_Names.\nFrom Coq Require Import List NArith Bool. Import ListNotations. Open Scope N_scope.\n'
               '(* (string, accepted by the implementation, name stored) : 1 = verdict differs from the specification, 2 = stored name is not strip(s), 9 = model differs *)\n'
               'Definition mkn (s : list N) (a : bool) (st : list N) := (s, a, st).\n'
               'Definition str_eqb (a b : list N) := Nat.eqb (length a) (length b) && forallb (fun p => fst p =? snd p) (combine a b).\n'
               'Definition chk_tab (c : list N * bool * list N) : nat := let \'(s, acc, stored) := c in\n'
               '  if negb (Bool.eqb acc (lo_tab_name_ok gen_space s && xml_chars_ok (strip gen_space s))) then 1%nat\n'
               '  else if acc && negb (str_eqb stored (strip gen_space s)) then 2%nat\n'
               '  else if Bool.eqb acc (table_name_ok gen_fa gen_ff gen_fl gen_space s && xml_chars_ok (strip gen_space s)) then 0%nat else 9%nat.\n'
               'Definition chk_nr (c : list N * bool * list N) : nat := let \'(s, acc, stored) := c in\n'
               '  if negb (Bool.eqb acc (lo_range_name_ok gen_space s && xml_chars_ok (strip gen_space s))) then 1%nat\n'
               '  else if acc && negb (str_eqb stored (strip gen_space s)) then 2%nat\n'
               '  else if Bool.eqb acc (nr_rule_ok gen_space gen_nr_charrej gen_nr_firstrej gen_nr_shapes s && xml_chars_ok (strip gen_space s)) then 0%nat else 9%nat.\n')


def c_str(s):
    return '[' + ';'.join(str(ord(ch)) for ch in s) + ']'


def name_strings(alpha, core, tier, rng, extra, extralen):
    """every string of length <= 2 over the full alphabet; every member of the full alphabet at first / middle / last
    position of a length-3 string (and after an ASCII letter: the shape rules) ; every string of length <= 3 (thorough: <= 4)
    over the core alphabet; random longer ones"""
    out, seen = [], set()

    def add(s_):
        if s_ not in seen:
            seen.add(s_); out.append(s_)
    for n in range(3):
        for t in itertools.product(alpha, repeat=n): add(''.join(t))
    for c in alpha:
        for a in BASE:
            for b in BASE:
                add(c + a + b); add(a + c + b); add(a + b + c)
        add('A' + c); add('AB' + c); add('A' + c + c); add('A1' + c); add('A' + c + '1'); add(c + c + c)
    for n in range(3, (3 if tier == 'quick' else 4) + 1):
        for t in itertools.product(core, repeat=n): add(''.join(t))
    for _ in range(extra):
        add(''.join(rng.choice(alpha) for _ in range(rng.randint(3, extralen))))
    return out


def names_phase(tier, rng, odfdo, known, only=None):
    import odfdo.table as T
    violations, known_seen, errors, cov = [], [], [], {}
    for what, alpha, core, checker in (('table-name', TAB_ALPHA, TAB_CORE, 'chk_tab'), ('named-range-name', NR_ALPHA, NR_CORE, 'chk_nr')):
        if only and only[0] != what:
            continue
        strs = [only[1]] if only else name_strings(alpha, core, tier, rng, 1500 if tier == 'quick' else 20000, 7)
        if what == 'named-range-name' and not only:
            strs += ['R1C1', 'r10c2', 'R1C', 'RC1', 'AB12', 'A1', '1abc', '_1', 'a1b', 'R01C01', 'Rr1C1', ' R1C1 ', 'é1', 'R1C1_', 'AB\u0663', 'x\uff11', 'A\U0001d7d0', 'R\u0661C\u0661', 'AB1\u0663', '\u0663A']
        terms = []
        for s in strs:
            try:
                if what == 'table-name':
                    stored = tl.timed(lambda: T.Table(s).name); acc = True
                else:
                    stored = tl.timed(lambda: T.NamedRange(s, 'A1', 't').name); acc = True
            except (ValueError, TypeError):
                acc, stored = False, ''
            terms.append('(mkn %s %s %s)' % (c_str(s), 'true' if acc else 'false', c_str(stored or '')))
        bad, errs = common.run_shards(NAME_HEADER, terms, checker, 'c07' + what[:3], shard=max(200, len(terms) // 16 + 1))
        errors += errs
        hard = {k: c for k, c in bad.items() if c in (1, 2)}
        cov[what + '_strings'] = len(strs)
        cov[what + '_rule'] = ('all strings of length <= 2 over %r (ASCII and non-ASCII members of every character class the rules use); each of these '
                               'characters at first / middle / last position of a length-3 string and after ASCII letters / digits; all strings of length <= %d over '
                               'the core alphabet %r; random longer ones' % (alpha, 3 if tier == 'quick' else 4, core))
        cov[what + '_disagreements'] = len(hard)
        cov[what + '_model_divergences'] = sum(1 for c in bad.values() if c == 9)
        if hard:
            k = min(hard, key=lambda i: (len(strs[i]), strs[i]))
            s = strs[k]
            cls = ('accepts' if '] true [' in terms[k] else 'rejects')
            key = '%s/%s/%s' % (what, cls, 'stored' if hard[k] == 2 else 'verdict')
            payload = dict(layer='names: the implementation %s %r, the specification says otherwise' % (cls, s), key=key,
                           name=s, kind=what, count=len(hard), examples=[strs[i] for i in sorted(hard)[:12]],
                           known_finding_key=key if key in known else None)
            if key in known:
                known_seen.append('%s (%d strings, e.g. %r)' % (key, len(hard), s))
            else:
                violations.append((common.write_replay('C07', 0, 'name-' + common.digest(key)[:8], payload), False))
    return dict(violations=violations, coverage=cov, errors=errors, known_seen=known_seen)


def run(tier, seed, replay=None):
    return tr.run_table_check('C07', tier, seed, replay, 'chk07', LAYERS, SOFT, tl.OPS_CORE, extra=names_phase,
                              prebuild=write_gen, extra_targets=('Tablechk', 'TableExtchk', 'Tablexml2chk', 'TableXfchk', 'Names2proof', 'Gen_Names', 'Gen_Namesok'),
                              trusted=TRUSTED, modelled=MODELLED,
                              assumptions=['operations carry repeats >= 1 and integer coordinates of either sign',
                                           'tables consist of table:table-column elements followed by table:table-row elements',
                                           'a table may lose its last column through delete_column while rows remain (the property only demands that ADDING the first row declares columns)'])


if __name__ == '__main__':
    common.main(run)
