(* TableGfchk.v — the checker for the FILTERED getters (C08), evaluated by vm_compute.  The filter reaches Coq as three finite
   sets: the cell contents (value id, style id) that pass cell_type= / content= / style=, the logical rows that pass the row
   filters, the column attribute ids that pass style=.  The implementation's answer is compared, object by object, with
   m_fget (= the filter of the unfiltered answer, TableGfproof.filtered_is_filter, which meets the specification on every table,
   C08_all_getters_as_stored): count / nesting, coordinates, content, no repeat, and — after mutating the object — table and
   siblings untouched. *)
From Coq Require Import List ZArith NArith Bool Arith.
Import ListNotations.
Require Import Vault Row Table Grid Tableabs Tablexml Tablechk TableB TableG TableGspec TableGchk TableGf.
Local Open Scope Z_scope.

Definition mkfilt (ac : list cell) (ay : list Z) (ak : list Z) : filt :=
  {| f_cell := fun o => existsb (cell_eqb (c_val o)) ac;
     f_row := fun o => match r_y o with Some y => existsb (Z.eqb y) ay | None => false end;
     f_col := fun o => existsb (Z.eqb (k_st o)) ak |}.

(* an implementation answer: nested cells | a flat list | a list with None entries (complete=True) *)
Inductive ifres := IFCells (l : list (list iobj)) | IFFlat (l : list iobj) | IFOpt (l : list (option iobj)).
Inductive obs8f := Obs8f (pre : xtable) (g : fgetter) (ac : list cell) (ay ak : list Z) (raised : bool) (post : xtable) (res : ifres).

Definition ozz_eqb (a b : option Z) : bool := match a, b with Some a, Some b => a =? b | None, None => true | _, _ => false end.
Definition flag_code (o : iobj) : nat :=
  let '(m, t, c) := flags o in if m && t then 5 else if m && c then 6 else 0.
Definition cmp_cell (o : iobj) (c : cobj) : nat :=
  match o with
  | IC ox oy rep v _ _ _ =>
      if negb (ozz_eqb ox (c_x c) && ozz_eqb oy (c_y c)) then 2 else if negb (cell_eqb v (c_val c)) then 3
      else if negb (rep =? c_rep c)%nat then 4 else flag_code o
  | _ => 1 end.
Definition cmp_row (o : iobj) (r : robj) : nat :=
  match o with
  | IR oy rep rx _ _ _ =>
      if negb (ozz_eqb oy (r_y r)) then 2 else if negb (rowx_eqb rx (r_val r)) then 3
      else if negb (rep =? r_rep r)%nat then 4 else flag_code o
  | _ => 1 end.
Definition cmp_col (o : iobj) (k : kobj) : nat :=
  match o with
  | IK ox rep st _ _ _ =>
      if negb (ozz_eqb ox (k_x k)) then 2 else if negb (st =? k_st k) then 3
      else if negb (rep =? k_rep k)%nat then 4 else flag_code o
  | _ => 1 end.
Definition cmp_opt (o : option iobj) (c : option cobj) : nat :=
  match o, c with Some o, Some c => cmp_cell o c | None, None => 0 | _, _ => 1 end.
Definition fres_code (r : ifres) (m : fres) : nat :=
  match r, m with
  | IFCells l, FCells l' => first_code (first_code cmp_cell) l l'
  | IFFlat l, FFlat l' => first_code cmp_cell l l'
  | IFFlat l, FRowsR l' => first_code cmp_row l l'
  | IFFlat l, FColsR l' => first_code cmp_col l l'
  | IFOpt l, FOpt l' => first_code cmp_opt l l'
  | _, _ => 1 end.

(* codes as in chk_c08: 10 raised | 7 the read changed the table | 1 count / nesting | 2 coordinates | 3 content | 4 repeat
   | 5 live | 6 sibling | 11 outside the fragment *)
Definition chk_c08f (ob : obs8f) : nat :=
  let '(Obs8f pre g ac ay ak raised post res) := ob in
  if negb (in_fragment pre && in_fragment post) then 11%nat
  else if raised then 10%nat
  else if negb (tstate_eqb (to_tstate pre) (to_tstate post)) then 7%nat
  else fres_code res (m_fget (mkfilt ac ay ak) (to_tstate pre) g).
