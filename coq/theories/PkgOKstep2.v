(* PkgOKstep2.v — PkgOK is preserved by the in-memory operations of the history alphabet (repaired code) *)
From Coq Require Import List ZArith Bool Arith Lia.
Import ListNotations.
Require Import Package PkgManproof PkgZipproof PkgOKproof Pkgproof Pkgproof2 Pkgproof3 Pkgproof4 Pkgproof5
               PkgStepWF PkgStepWF2 PkgStepWF3 PkgStepWF4 PkgOKstep.
Open Scope Z_scope.

Section O2.
Variable xml bytes kid : Type.
Variable ser : xml -> bytes.
Variable par : bytes -> xml.
Variable entries : xml -> mentries.
Variable with_entries : mentries -> xml -> xml.
Variable mime : bytes -> mtype.
Hypothesis par_ser : forall x, par (ser x) = x.
Hypothesis entries_with : forall es x, entries (with_entries es x) = es.
Notation container := (container bytes).
Notation document := (document xml bytes).
Notation fsys := (fsys bytes kid).
Notation cB := (cB bytes kid).
Notation WFc := (WFc bytes kid).
Notation dB := (dB xml bytes kid).
Notation dX := (dX xml bytes kid par).
Notation WFd := (WFd xml bytes kid).
Notation d_tree := (d_tree xml bytes kid par FIXED).
Notation PkgOK := (PkgOK xml bytes kid par entries mime).
Notation files := (files xml bytes kid).

Lemma MAN_ne_MIME : MANIFEST <> MIMETYPE. Proof. discriminate. Qed.

(* replacing the manifest's entry list and changing the existence of one file part *)
Lemma PkgOK_update : forall fs d fs' d' xm es' (g : name -> bool),
  PkgOK fs d -> dX fs d MANIFEST = Some xm ->
  dX fs' d' MANIFEST = Some (with_entries es' xm) ->
  dB fs' d' MIMETYPE = dB fs d MIMETYPE ->
  (forall n, is_dir n = false -> files fs' d' n = g n) ->
  coherent g es' -> m_get ROOT es' = m_get ROOT (entries xm) -> entries_typed es' = true ->
  PkgOK fs' d'.
Proof.
  intros fs d fs' d' xm es' g H HX HX' HM Hf Hc Hr Ht.
  apply PkgOK_obs in H as [xm0 [mb [A [B [C [D F]]]]]]. rewrite HX in A. inversion A; subst xm0.
  apply PkgOK_obs. exists (with_entries es' xm), mb. rewrite entries_with.
  split; [exact HX'|]. split; [congruence|]. split; [|split; [congruence|exact Ht]].
  apply (coherent_ext g); [|exact Hc]. intros n Hn. symmetry. apply Hf. exact Hn.
Qed.

(* ---- OEdit of a part other than the manifest, OTouch, OGetPart: nothing the invariant looks at changes ---- *)
Lemma PkgOK_same_obs : forall fs d d', PkgOK fs d ->
  (forall n, dB fs d' n = dB fs d n) -> dX fs d' MANIFEST = dX fs d MANIFEST -> PkgOK fs d'.
Proof.
  intros fs d d' H HB HX. apply (PkgOK_transfer xml bytes kid par entries mime fs d fs d' H).
  - intros n. rewrite HB. reflexivity.
  - intros mb Hm. exists mb. rewrite HB. auto.
  - intros xm Hx. exists xm. rewrite HX. auto.
Qed.

Lemma edit_pkgok : forall fs n x' (d : document), WFd fs d -> PkgOK fs d -> is_xml n = true -> n <> MANIFEST ->
  let r := d_tree fs n d in
  PkgOK fs (match snd r with Some _ => set_tree xml bytes n x' (fst r) | None => fst r end).
Proof.
  intros fs n x' d W H Xn Hn.
  pose proof (d_tree_sem xml bytes kid par fs n d W Xn) as [_ [T2 [T3 [W1 [_ [_ T7]]]]]].
  destruct (d_tree fs n d) as [d1 [x|]]; cbn [fst snd] in *.
  - destruct (T7 ltac:(discriminate)) as [x0 [Lx0 _]].
    destruct (set_tree_sem xml bytes kid par fs n x' d1 W1 Xn (wfd_live _ _ _ _ _ W1 n x0 Lx0)) as [_ [S2 [S3 _]]].
    apply (PkgOK_same_obs fs d); [exact H|intros m; rewrite S2; apply T2|].
    rewrite S3. destruct (MANIFEST =? n) eqn:E; [apply Z.eqb_eq in E; congruence|apply T3].
  - apply (PkgOK_same_obs fs d); [exact H|exact T2|apply T3].
Qed.

(* ---- set_part of an existing part (not the manifest, not mimetype) ---- *)
Lemma set_part_obs : forall fs n b (d : document), WFd fs d -> n <> MANIFEST ->
  let d' := d_set_part xml bytes FIXED n b d in
  (forall m, dB fs d' m = if m =? n then Some b else dB fs d m) /\ dX fs d' MANIFEST = dX fs d MANIFEST.
Proof.
  intros fs n b d W Hn d'. subst d'. unfold d_set_part. cbn [fx9 FIXED andb].
  destruct (c_set_part_sem bytes kid fs n b (cont _ _ d) (wfd_c _ _ _ _ _ W)) as [S1 _].
  split; [exact S1|].
  unfold Pkgproof.dX, Pkgproof.dB. cbn [cont xps]. rewrite S1.
  destruct (MANIFEST =? n) eqn:E; [apply Z.eqb_eq in E; congruence|].
  destruct (is_xml n); [rewrite lookup_remove_key, E|]; reflexivity.
Qed.

Lemma set_part_pkgok : forall fs n b (d : document), WFd fs d -> PkgOK fs d -> n <> MANIFEST -> n <> MIMETYPE -> dB fs d n <> None ->
  PkgOK fs (d_set_part xml bytes FIXED n b d).
Proof.
  intros fs n b d W H Hn Hm He. destruct (set_part_obs fs n b d W Hn) as [S1 S2].
  apply (PkgOK_transfer xml bytes kid par entries mime fs d fs _ H).
  - intros m. rewrite S1. destruct (m =? n) eqn:E; [apply Z.eqb_eq in E; subst m; split; [discriminate|intros X; contradiction]|reflexivity].
  - intros mb Hb. exists mb. rewrite S1. destruct (MIMETYPE =? n) eqn:E; [apply Z.eqb_eq in E; congruence|auto].
  - intros xm Hx. exists xm. rewrite S2. auto.
Qed.

(* ---- manifest update after a container change ---- *)
Lemma manifest_update_obs : forall fs (f : mentries -> mentries) (d : document) xm, WFd fs d -> dX fs d MANIFEST = Some xm ->
  let r := d_tree fs MANIFEST d in
  exists d1, r = (d1, Some xm) /\ (forall m, dB fs (set_tree xml bytes MANIFEST (with_entries (f (entries xm)) xm) d1) m = dB fs d m)
             /\ dX fs (set_tree xml bytes MANIFEST (with_entries (f (entries xm)) xm) d1) MANIFEST = Some (with_entries (f (entries xm)) xm).
Proof.
  intros fs f d xm W Hx.
  pose proof (d_tree_sem xml bytes kid par fs MANIFEST d W is_xml_MANIFEST) as [T1 [T2 [T3 [W1 [_ [_ T7]]]]]].
  destruct (d_tree fs MANIFEST d) as [d1 ox]. cbn [fst snd] in *. rewrite Hx in T1. subst ox.
  destruct (T7 ltac:(discriminate)) as [x0 [Lx0 _]].
  destruct (set_tree_sem xml bytes kid par fs MANIFEST (with_entries (f (entries xm)) xm) d1 W1 is_xml_MANIFEST (wfd_live _ _ _ _ _ W1 MANIFEST x0 Lx0)) as [_ [S2 [S3 _]]].
  exists d1. split; [reflexivity|]. split; [intros m; rewrite S2; apply T2|]. rewrite S3, Z.eqb_refl. reflexivity.
Qed.

(* ---- del_part of a file (not a directory entry, not mimetype; XML parts and the manifest are refused by the code) ---- *)
Lemma del_part_pkgok : forall fs n (d : document), WFd fs d -> PkgOK fs d -> is_dir n = false -> n <> MIMETYPE ->
  PkgOK fs (fst (d_del_part xml bytes kid par entries with_entries FIXED fs n d)).
Proof.
  intros fs n d W H Hd Hm. unfold d_del_part.
  destruct ((n =? MANIFEST) || is_xml n) eqn:E; [exact H|]. cbn [fx11 FIXED].
  apply orb_false_iff in E as [E1 E2]. apply Z.eqb_neq in E1.
  pose proof (with_cont_del_wf xml bytes kid fs n d W E2) as W1.
  set (d1 := d_with_cont _ _ d (c_del_part bytes n (cont _ _ d))) in *.
  destruct (c_del_part_sem bytes kid fs n (cont _ _ d) (wfd_c _ _ _ _ _ W)) as [S1 _].
  assert (HB1 : forall m, dB fs d1 m = if m =? n then None else dB fs d m) by (intros m; apply S1).
  pose proof H as H0. apply PkgOK_obs in H0 as [xm [mb [A [B [C [D F]]]]]].
  assert (HX1 : dX fs d1 MANIFEST = Some xm).
  { rewrite <- A. unfold Pkgproof.dX. change (xps _ _ d1) with (xps _ _ d). rewrite HB1.
    destruct (MANIFEST =? n) eqn:E; [apply Z.eqb_eq in E; congruence|reflexivity]. }
  unfold d_manifest.
  destruct (manifest_update_obs fs (fun es => match m_del n es with Some es' => es' | None => es end) d1 xm W1 HX1) as [d2 [Er [U1 U2]]].
  rewrite Er. cbn [fst].
  apply (PkgOK_update fs d fs _ xm (match m_del n (entries xm) with Some es' => es' | None => entries xm end) (fun k => negb (k =? n) && files fs d k) H A U2).
  - rewrite U1, HB1. destruct (MIMETYPE =? n) eqn:E; [apply Z.eqb_eq in E; congruence|reflexivity].
  - intros k Hk. unfold PkgOKstep.files. rewrite U1, HB1. destruct (k =? n); cbn [negb andb]; [repeat rewrite andb_false_r; reflexivity|reflexivity].
  - apply del_coherent_file; assumption.
  - destruct (m_del n (entries xm)) as [es'|] eqn:Dl; [|reflexivity]. apply (m_get_m_del_other ROOT n (entries xm) es'); [|exact Dl].
    intros X. subst n. discriminate.
  - destruct (m_del n (entries xm)) as [es'|] eqn:Dl; [eapply typed_m_del; eauto|exact F].
Qed.

(* ---- add_file / import: a file part appears or is replaced, its entry is added or updated ---- *)
Lemma add_entries_ok : forall fs (d : document) xm n m es1, PkgOK fs d -> dX fs d MANIFEST = Some xm ->
  is_dir n = false -> typed1 n m = true ->
  (es1 = entries xm \/ (m_get PICTURES (entries xm) = None /\ es1 = entries xm ++ [(PICTURES, EMPTYMT)])) ->
  coherent (fun k => (k =? n) || files fs d k) (m_add true n m es1)
  /\ m_get ROOT (m_add true n m es1) = m_get ROOT (entries xm) /\ entries_typed (m_add true n m es1) = true.
Proof.
  intros fs d xm n m es1 H A Hd Ht Hes.
  apply PkgOK_obs in H as [xm0 [mb [A0 [B [C [D F]]]]]]. rewrite A in A0. inversion A0; subst xm0.
  assert (C1 : coherent (files fs d) es1 /\ entries_typed es1 = true /\ m_get ROOT es1 = m_get ROOT (entries xm)).
  { destruct Hes as [->|[G ->]]; [auto|]. split; [|split].
    - destruct C as [C1 C2]. split; rewrite declared_snoc_dir by reflexivity; assumption.
    - rewrite typed_app, F. reflexivity.
    - rewrite D. apply m_get_app_some. exact D. }
  destruct C1 as [C1 [F1 R1]].
  split; [apply add_coherent; [exact C1|apply typed_all_mt; exact F1|exact Hd]|]. split.
  - rewrite <- R1. apply m_get_m_add_other; [intros X; subst n; discriminate|]. rewrite R1, D. discriminate.
  - apply typed_m_add; assumption.
Qed.

Lemma add_file_pkgok : forall fs n b m (d : document), WFd fs d -> PkgOK fs d ->
  is_dir n = false -> n <> MIMETYPE -> n <> MANIFEST -> typed1 n m = true ->
  PkgOK fs (fst (d_add_file xml bytes kid par entries with_entries FIXED fs n b m d)).
Proof.
  intros fs n b m d W H Hd Hm Hn Ht. unfold d_add_file.
  pose proof H as H0. apply PkgOK_obs in H0 as [xm [mb [A [B [C [D F]]]]]].
  pose proof (d_tree_sem xml bytes kid par fs MANIFEST d W is_xml_MANIFEST) as [T1 [T2 [T3 [W1 [_ [_ T7]]]]]].
  destruct (d_tree fs MANIFEST d) as [d1 ox]. cbn [fst snd] in *. rewrite A in T1. subst ox.
  destruct (T7 ltac:(discriminate)) as [x0 [Lx0 _]].
  set (es1 := match m_get PICTURES (entries xm) with None => m_add (fx10 FIXED) PICTURES EMPTYMT (entries xm) | Some _ => entries xm end).
  pose proof (with_cont_set_wf xml bytes kid fs n b d1 W1) as W2.
  set (d2 := d_with_cont _ _ d1 (c_set_part bytes FIXED n b (cont _ _ d1))) in *.
  destruct (c_set_part_sem bytes kid fs n b (cont _ _ d1) (wfd_c _ _ _ _ _ W1)) as [S1 _].
  assert (HB2 : forall k, dB fs d2 k = if k =? n then Some b else dB fs d k).
  { intros k. unfold Pkgproof.dB, d2. cbn [cont d_with_cont]. rewrite S1. destruct (k =? n); [reflexivity|apply T2]. }
  destruct (set_tree_sem xml bytes kid par fs MANIFEST (with_entries (m_add (fx10 FIXED) n m es1) xm) d2 W2 is_xml_MANIFEST
              (wfd_live _ _ _ _ _ W2 MANIFEST x0 Lx0)) as [_ [U1 [U2 _]]].
  cbn [fst].
  assert (Hes : es1 = entries xm \/ (m_get PICTURES (entries xm) = None /\ es1 = entries xm ++ [(PICTURES, EMPTYMT)])).
  { unfold es1. destruct (m_get PICTURES (entries xm)) eqn:G; [left; reflexivity|right]. split; [reflexivity|].
    cbn [fx10 FIXED]. unfold m_add. rewrite G. reflexivity. }
  destruct (add_entries_ok fs d xm n m es1 H A Hd Ht Hes) as [K1 [K2 K3]].
  apply (PkgOK_update fs d fs _ xm (m_add true n m es1) (fun k => (k =? n) || files fs d k) H A).
  - rewrite U2, Z.eqb_refl. reflexivity.
  - rewrite U1, HB2. destruct (MIMETYPE =? n) eqn:E; [apply Z.eqb_eq in E; congruence|reflexivity].
  - intros k Hk. unfold PkgOKstep.files. rewrite U1, HB2. destruct (k =? n) eqn:E; cbn [orb]; [|reflexivity].
    apply Z.eqb_eq in E. subst k. apply Z.eqb_neq in Hm. apply Z.eqb_neq in Hn. rewrite Hm, Hn. reflexivity.
  - exact K1.
  - exact K2.
  - exact K3.
Qed.

Lemma import_pkgok : forall fs n b m (d : document), WFd fs d -> PkgOK fs d ->
  is_dir n = false -> n <> MIMETYPE -> n <> MANIFEST -> typed1 n m = true ->
  PkgOK fs (fst (d_import xml bytes kid par entries with_entries FIXED fs n b m d)).
Proof.
  intros fs n b m d W H Hd Hm Hn Ht. unfold d_import.
  pose proof H as H0. apply PkgOK_obs in H0 as [xm [mb [A [B [C [D F]]]]]].
  pose proof (d_set_part_wf xml bytes kid fs n b d W) as W0.
  destruct (set_part_obs fs n b d W Hn) as [S1 S2].
  set (d0 := d_set_part xml bytes FIXED n b d) in *.
  assert (A0 : dX fs d0 MANIFEST = Some xm) by congruence.
  destruct (manifest_update_obs fs (fun es => m_add (fx10 FIXED) n m es) d0 xm W0 A0) as [d1 [Er [U1 U2]]].
  rewrite Er. cbn [fst].
  destruct (add_entries_ok fs d xm n m (entries xm) H A Hd Ht (or_introl eq_refl)) as [K1 [K2 K3]].
  apply (PkgOK_update fs d fs _ xm (m_add true n m (entries xm)) (fun k => (k =? n) || files fs d k) H A U2).
  - rewrite U1, S1. destruct (MIMETYPE =? n) eqn:E; [apply Z.eqb_eq in E; congruence|reflexivity].
  - intros k Hk. unfold PkgOKstep.files. rewrite U1, S1. destruct (k =? n) eqn:E; cbn [orb]; [|reflexivity].
    apply Z.eqb_eq in E. subst k. apply Z.eqb_neq in Hm. apply Z.eqb_neq in Hn. rewrite Hm, Hn. reflexivity.
  - exact K1.
  - exact K2.
  - exact K3.
Qed.
End O2.
