"""C02: what a table answers in memory is what its own XML says when parsed afresh.

Theorems: coq/theories/C02.v (layer-B model TableB.v: the XML runs of Table.v plus _tmap/_cmap, the cached Row wrappers of
_indexes['_tmap'] with their own _rmap and cell cache, _indexes['_cmap']).  Correspondence: the histories of C01,
additionally interleaved with cache-filling reads (get_row / get_cell with clone true and false, traverse, get_column,
columns, get_value, get_row_values) before each mutation with probability 1/2 and with the `repeated` setters of live
rows / cells, are driven on the implementation with the table living inside a Document.  After EVERY step the XML is
abstracted by an independent lxml walk, the private state is dumped by name (positions of cached wrappers by identity),
the same call is performed on a fresh parse of the pre-state, observation reads (size, values, rows, columns, addressed
reads) are performed on the live object and on a fresh parse of the post-state, and every 3rd step the document is saved
to a BytesIO and reopened.  Coq (vm_compute, TableBchk.chk_c02) evaluates Coh on the dumped state, compares the live
answers with the fresh ones, with the expansion of the XML (Grid.v) and with the reloaded table, and runs the layer-B
model from the implementation's own pre-state (exact private state = fidelity)."""
import json, multiprocessing, random, sys, time
from pathlib import Path
sys.path.insert(0, str(Path(__file__).resolve().parent))
import common, tablelib as tl, layerb as lb

PROP = 'C02'
LAYERS = {10: ('raise-differs', 'the live call raised and the same call on a fresh parse of the same XML did not (or conversely): the live object was served from private state that its XML does not justify'),
          3: ('twin-xml', 'the XML after the call differs from the XML after the same call on a fresh parse of the pre-state'),
          21: ('coh-tmap', 'right after the step _tmap is not make_cache_map of the XML rows'),
          22: ('coh-cmap', 'right after the step _cmap is not make_cache_map of the XML columns'),
          23: ('coh-rowcache', 'right after the step a cached Row wrapper of _indexes[\'_tmap\'] is obsolete: its lxml element is not the row at the index it is cached under, or its _rmap is not make_cache_map of that row\'s cells, or one of its cached cells is not at its index'),
          24: ('coh-colcache', 'right after the step a cached Column of _indexes[\'_cmap\'] is not at the index it is cached under'),
          31: ('coh-tmap-after-reads', '_tmap is not the map of the XML after the observation reads'),
          32: ('coh-cmap-after-reads', '_cmap is not the map of the XML after the observation reads'),
          33: ('coh-rowcache-after-reads', 'a cached Row wrapper is obsolete after the observation reads'),
          34: ('coh-colcache-after-reads', 'a cached Column is obsolete after the observation reads'),
          4: ('expansion', 'an answer of the live object differs from the expansion of its own XML by the independent reader (Grid)'),
          6: ('fresh', 'an answer of the live object differs from the answer of Element.from_tag(table.serialize())'),
          7: ('reload', 'the table reloaded from Document.save -> Document(...) is not the table the caller was looking at (XML or answers)')}
NOTES = {8: 'the grid after a call is not the grid step of the C01 specification (C01\'s subject, not C02\'s)',
         9: 'only the exact private state or answer differs from the layer-B model (fidelity)'}
SOFT = {11: 'state outside the modelled fragment'}
TRUSTED = ['lxml parse/serialise (the abstraction walks etree.fromstring(table.serialize()); the fresh-parse and reload legs)',
           'zipfile / Document.save(pretty=False) -> Document(BytesIO) for the reload leg',
           'identity of lxml element proxies (`is`) to locate the element of a cached wrapper among the children of its parent',
           'Cell.get_value on a detached cell (used once per distinct cell content to learn its Python value class)',
           'the grid specification Grid.v as the independent expansion of the XML']
MODELLED = ('layer B of table.py / row.py / element_cached.py (TableB.v): _tmap, _cmap, _indexes[\'_tmap\'] (wrapper position, _rmap, '
            '_indexes[\'_rmap\']), _indexes[\'_cmap\']; Table._get_row2_base / Row._get_cell2_base / Row.traverse / traverse_columns consult and fill the caches; '
            'the 15 mutators of C01 with their cache resets and incremental / recomputed map updates (set/insert/delete_item_in_vault, insert_map_once at the end, '
            '_compute_table_cache), in-place Table.set_cell through the cached wrapper; reads size get_value get_cell get_row_values get_values get_column_values '
            'get_row().width get_values(area) get_row get_cell(keep repeat) traverse get_column columns; the `repeated` setters of live rows / cells (repaired, F8). '
            'TableBx.v / TableBspan.v: rstrip, optimize_width, transpose (end = fresh parse), set_span / del_span (reads through the cached wrappers, then the OSetLines write), '
            'Row.rstrip and the Row mutators through a live row handle, Column.repeated on the live column returned by append_column. NOT modelled: row / column groups and header rows (exercised).')
KINDS = ['empty', 'prefilled', 'rle', 'rle', 'sample', 'wrapped', 'xf']


def _worker(job):
    seed, kind, nsteps, maxw, maxh = job
    odfdo = common.use_repo()
    return lb.gen_case(odfdo, seed, kind, nsteps, tl.OPS_CORE, maxw, maxh)


def _replay_worker(case):
    odfdo = common.use_repo()
    return case, lb.run_case(odfdo, case)


def drive(jobs, fn, procs=16):
    if len(jobs) <= 2:
        return [fn(j) for j in jobs]
    with multiprocessing.get_context('fork').Pool(procs) as pool:
        return pool.map(fn, jobs, chunksize=max(1, len(jobs) // (procs * 8)))


def plan(tier, rng):
    n = 900 if tier == 'quick' else 9000
    maxw, maxh = (8, 8) if tier == 'quick' else (12, 12)
    return [(rng.getrandbits(48), KINDS[i % len(KINDS)], rng.randint(1, 6 if tier == 'quick' else 9), maxw, maxh) for i in range(n)]


def evaluate(results, tag):
    terms, idx = [], []
    for i, (case, res) in enumerate(results):
        if res['term'] is not None:
            terms.append(res['term']); idx.append(i)
    bad, errors = lb.run_shards_retry(lb.HEADER, terms, 'chk02', tag, min(120, max(1, len(terms) // 16 + 1)))
    return {idx[k]: c for k, c in bad.items()}, errors


def step_name(st):
    if 'op' in st: return st['op'][0]
    if 'live' in st: return 'live_' + st['live'][0]
    if 'opaque' in st: return st['opaque'][0]
    return 'read:' + st['read'][0]


def shrink(case, step, layer):
    """drop earlier steps one at a time (all variants of a round in one Coq run) while the last step still fails on the same layer"""
    cur = dict(kind=case['kind'], init_xml=case['init_xml'], steps=[dict(s) for s in case['steps'][:step + 1]])
    for _round in range(4):
        n = len(cur['steps'])
        if n <= 1:
            break
        variants = [dict(kind=cur['kind'], init_xml=cur['init_xml'], steps=cur['steps'][:k] + cur['steps'][k + 1:]) for k in range(n - 1)]
        results = drive(variants, _replay_worker)
        bad, errors = evaluate(results, 'c02s')
        good = [k for k in range(len(variants)) if bad.get(k, 0) % 100 == layer and bad.get(k, 0) // 100 == n - 1]
        if not good:
            break
        cur = variants[good[-1]]
    return cur


def py_maps(nodes):
    def mk(reps):
        out, acc = [], -1
        for r in reps:
            acc += r; out.append(acc)
        return out
    cols, rows = tl.shape_of(nodes)
    return mk([r for r, _ in rows]), mk([r for r, _ in cols]), [mk(cs) for _, cs in rows]


def python_oracle(res):
    """direct Python re-statement of the property (search phase only): first step where the live answers differ from the
    fresh ones, the twin differs, or a private map is not the map recomputed from the XML"""
    for i, r in enumerate(res.get('records', [])):
        if bool(r['raised']) != bool(r['twin_raised']) or r['post'] != r['twin']:
            return i
        if r['raised']:
            continue
        if r['live'] != r['fresh'] or r['out'] != r['twin_out']:
            return i
        for d in (r['postd'], r['afterd']):
            tm, cm, rms = py_maps(r['post'])
            if d[0] != tm or d[1] != cm:
                return i
            for key, pos, rmap, ck in d[2]:
                if pos != key or key >= len(rms) or rmap != rms[key] or any(k != p for k, p in ck):
                    return i
            if any(k != p for k, p in d[3]):
                return i
        if r['reload'] is not None and (r['reload'][0] != r['post'] or [a for _, a in r['reload'][1]] != [a for _, a in r['live']]):
            return i
    return None


def run(tier, seed, replay=None):
    t0 = time.time(); rng = random.Random(seed)
    odfdo = common.use_repo()
    proofs = common.build_proofs(PROP, ('TableBchk',))
    known = {e['key']: e for e in common.known_findings(PROP)}
    corpus = [json.load(open(f))['case'] for f in sorted((common.ROOT / 'corpus' / PROP).glob('*.json'))]
    if replay:
        payload = json.load(open(replay))
        results = drive([payload['case']] if 'case' in payload else [], _replay_worker)
    else:
        results = drive(corpus, _replay_worker) + drive(plan(tier, rng), _worker)
    bad, errors = evaluate(results, 'c02')
    violations, known_seen, seen_keys = [], [], set()
    abstraction_failures = [(i, r['error']) for i, (c, r) in enumerate(results) if r['term'] is None]
    hard = {i: c for i, c in bad.items() if (c % 100) in LAYERS}
    soft = {i: c for i, c in bad.items() if c not in NOTES and (c % 100) not in LAYERS}
    for i in sorted(hard):
        code = hard[i]; step = code // 100 - 1; layer = code % 100
        case, res = results[i]
        rec = res['records'][step] if 0 <= step < len(res['records']) else None
        key = '%s/%s' % (step_name(case['steps'][step]) if rec else 'initial-state', LAYERS[layer][0])
        if key in seen_keys:
            continue
        seen_keys.add(key)
        small = dict(kind=case['kind'], init_xml=case['init_xml'], steps=case['steps'][:step + 1])
        if rec is not None and not replay and len(violations) < 4:
            try:
                small = shrink(case, step, layer)
            except Exception:
                pass
        payload = dict(layer=LAYERS[layer][1], code=layer, key=key, step=len(small['steps']) - 1, case=small,
                       operation=case['steps'][step] if rec else None,
                       implementation=dict(raised=rec['raised'], twin_raised=rec['twin_raised'], private_state_after_step=rec['postd'],
                                           private_state_after_reads=rec['afterd'], xml_shape_after=tl.shape_of(rec['post'])) if rec else None,
                       theorem_or_correspondence='coq/theories/C02.v + TableBchk.chk_c02',
                       known_finding_key=key if key in known else None)
        if key in known:
            known_seen.append('%s (%s)' % (key, known[key]['description'][:100]))
            common.write_replay(PROP, seed, 'known-' + common.digest(key)[:8], payload)
        else:
            violations.append((common.write_replay(PROP, seed, common.digest((key, i))[:8], payload), False))
        if len(violations) >= 12:
            break
    soft_msgs, found_by_oracle = [], False
    if soft or abstraction_failures or not proofs['ok'] or errors:
        for i, (case, res) in enumerate(results):
            st = python_oracle(res) if res.get('term') else None
            if st is not None:
                found_by_oracle = True
                payload = dict(layer='direct Python re-statement of C02 (search phase)', key='oracle/%s' % step_name(case['steps'][st]),
                               case=dict(kind=case['kind'], init_xml=case['init_xml'], steps=case['steps'][:st + 1]), step=st)
                violations.append((common.write_replay(PROP, seed, 'oracle-%d' % i, payload), False))
                break
        soft_msgs += ['case %s: code %s (%s)' % (i, c, SOFT.get(c % 100, 'model-level')) for i, c in list(soft.items())[:5]]
        soft_msgs += ['case %d: %s' % (i, e) for i, e in abstraction_failures[:5]]
    violations += common.proof_violation(PROP, seed, proofs, errors + soft_msgs, bool(hard) or found_by_oracle)
    # ---- evidence
    steps = sum(len(r['records']) for c, r in results)
    kinds, opk, fill, sizes, reloads, cached, livec, raised = {}, {}, 0, {}, 0, 0, 0, 0
    distinct = set()
    for case, res in results:
        kinds[case['kind']] = kinds.get(case['kind'], 0) + 1
        for r in res.get('records', []):
            nm = step_name(r['step']); opk[nm] = opk.get(nm, 0) + 1
            fill += 'read' in r['step']; livec += 'live' in r['step']; raised += bool(r['raised'])
            reloads += r['reload'] is not None
            ncached = len(r['postd'][2]); cached += ncached > 0
            sizes[min(ncached, 8)] = sizes.get(min(ncached, 8), 0) + 1
            # non-trivial: a mutation or live setter performed while at least one row wrapper was cached, or a read that changed the private state
            if ('read' not in r['step'] and ncached > 0) or ('read' in r['step'] and r['postd'] != r['afterd']) or r['post'] != r['pre']:
                distinct.add(common.digest((tl.shape_of(r['pre']), r['step'].get('op') or r['step'].get('live') or r['step'].get('opaque') or r['step'].get('read'),
                                            [(k, p, m) for k, p, m, _ in r['postd'][2]])))
    fid = sum(1 for c in bad.values() if c == 9); c01 = sum(1 for c in bad.values() if c == 8)
    cov = dict(
        trusted_base=TRUSTED, evaluations=steps, histories=len(results), distinct_nontrivial=len(distinct),
        rule='initial tables {empty, Table(w,h), random run-length shapes written as XML text, tables of tests/samples/*.ods with clamped repeats, tables with table:table-header-rows / table-rows / table-header-columns / table-columns wrappers and row / column groups (judged on the visible table, without a model step), tables of the transformation generator tablexf.g_xf_table (filled rows followed by bare / repeated / styled empty row elements, trailing empty cells, spare columns; their histories start with optimize_width / rstrip / transpose with probability 0.7)}; histories of 1-%d mutations of the 22 C01 '
             'entry points (positions around every run boundary of the current state, the edge, beyond, negative; repeats 1-4), each preceded with probability 1/2 by one or two cache-filling reads '
             '(get_row / get_cell with clone true or false, traverse, get_column, columns, get_value, get_row_values, get_cell) and replaced with probability 0.14 by a call on a live handle (`repeated` setter of a live row / cell, Row.append_cell / set_cell / insert_cell / delete_cell on a live row) and with probability 0.1 by one of rstrip, optimize_width, transpose, set_span, del_span (aimed at spans made earlier), Row.rstrip on a live row, the `repeated` setter of the live column returned by append_column (all with a model step; Row.rstrip(aggressive=True) and every step on a table with wrappers are judged by coherence, fresh parse, twin, expansion and reload only); '
             'after EVERY step: raw lxml abstraction, private state, the same call on a fresh parse, 9-13 observation reads live and fresh, every 3rd step Document.save -> reopen; corpus first. '
             'distinct_nontrivial = distinct (pre-state run shape, step, cached wrappers) where the XML changed, or a mutation ran while row wrappers were cached, or the observation reads changed the private state'
             % (6 if tier == 'quick' else 9),
        samples=[dict(initial=c['init_xml'][:300], steps=[{k: v for k, v in s.items() if k != 'obs'} for s in c['steps'][:4]]) for c, r in results[len(corpus):len(corpus) + 3]],
        corpus_cases=len(corpus), initial_kinds=kinds, steps_by_kind=opk, cache_filling_read_steps=fill, live_setter_steps=livec,
        steps_with_cached_row_wrappers=cached, cached_row_wrappers_histogram=sizes, save_reload_legs=reloads, implementation_exceptions=raised,
        fidelity_divergences=fid, fidelity_ratio=round(1 - fid / max(1, len(results)), 4), c01_level_notes=c01,
        modelled=MODELLED, exhaustive=False, known_findings_reobserved=len(known_seen))
    if fid:
        print('NOTE: %d histories where only the exact private state differs from the layer-B model (fidelity, not an alarm)' % fid)
    if c01:
        print('NOTE: %d histories where the grid after a call is not the C01 grid step (C01\'s subject; C02 itself holds there)' % c01)
    return common.finish(PROP, tier, seed, proofs, cov, violations, known_seen, t0,
                         assumptions=['operations carry repeats >= 1 and integer coordinates of either sign',
                                      'tables consist of table:table-column elements followed by table:table-row elements',
                                      'Document.save is called with pretty=False (pretty printing is C11\'s subject)'])


if __name__ == '__main__':
    common.main(run)
