(* TableXfchk.v — checker for histories that contain whole-table transformations (no proofs).
   After a transformation step there is no grid step to compare with (C17 owns what the transformation must do): the
   checks are those every step owes C01 / C07 — the private maps are the maps of the XML, every read answers what the
   XML holds (in particular height and width are the sums of the repeats), XmlOK — plus, as fidelity only, the exact
   agreement with C17's model step. *)
From Coq Require Import List ZArith NArith Bool Arith.
Import ListNotations.
Require Import Vault Row Table Grid Tableabs Tablexml Tablechk Transform TableXf.
Local Open Scope Z_scope.

Inductive fobs := FObs (pre : xtable) (o : fop) (post : xtable) (raised : bool)
                       (tmap cmap_ : list Z) (rmaps : list (nat * list Z)) (reads : list (tread * tans)).

Definition chk_xf01 (a : calg) (vcl : Z -> Z) (ob : fobs) : nat :=
  let '(FObs pre o post raised tm cm rmaps reads) := ob in
  match o with
  | F1 o' => chk_c01 vcl (Obs pre o' post raised tm cm rmaps reads)
  | _ =>
    if negb (in_fragment pre && in_fragment post) then 11%nat
    else if raised then 10%nat
    else let tpost := to_tstate post in
      if negb (maps_ok tpost tm cm rmaps) then 5%nat
      else if negb (forallb (fun qa : tread * tans => ans_eqb vcl (g_read (abs_t tpost) (fst qa)) (snd qa)) reads) then 4%nat
      else match f_step a (to_tstate pre) o with
           | Some tm' => if tstate_eqb tm' tpost then 0%nat else 9%nat
           | None => 9%nat end
  end.
Definition chk_xf07 (a : calg) (ob : fobs) : nat :=
  let '(FObs pre o post raised tm cm rmaps reads) := ob in
  match o with
  | F1 o' => chk_c07 (Obs pre o' post raised tm cm rmaps reads)
  | _ =>
    if negb (in_fragment pre && in_fragment post) then 11%nat
    else if raised then 0%nat
    else if negb (XmlOK post) then 1%nat
    else if negb (size_ok (to_tstate post) reads) then 7%nat
    else 0%nat
  end.
