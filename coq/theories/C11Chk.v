(* C11Chk.v — checker evaluated by the correspondence on (tree before, tree after the implementation's pretty_indent) *)
From Coq Require Import List ZArith Bool Arith.
Import ListNotations.
Require Import WS PrettyTree Gen_TextContent C11inst.
(* 1: the ODF reading of some paragraph / heading changed   2: element structure or an attribute changed
   9: the tree is not the model's tree (fidelity) *)
Definition chk11t (c : node * node) : nat :=
  let '(t, t') := c in
  if negb (strs_eqb (readable_ws t') (readable_ws t)) then 1
  else if negb (node_eqb (skeleton t') (skeleton t)) then 2
  else if node_eqb t' (pretty textual crefill true t) then 0 else 9.
