(* Lemmas about the manifest entry-list functions of Package.v (manifest.py). *)
From Coq Require Import List ZArith Bool Arith Lia.
Import ListNotations.
Require Import Package.
Open Scope Z_scope.

Definition all_mt (es : mentries) : bool := forallb (fun e => negb (snd e =? NOMT)) es.

Lemma m_get_in : forall p es m, m_get p es = Some m -> In p (map fst es).
Proof.
  induction es as [|[q m0] r IH]; cbn [m_get map fst]; intros m H; [discriminate|].
  destruct ((q =? p) && negb (m0 =? NOMT)) eqn:E.
  - apply andb_true_iff in E as [E _]. apply Z.eqb_eq in E. left; exact E.
  - right. eapply IH; eauto.
Qed.

Lemma m_get_none_notin : forall p es, all_mt es = true -> m_get p es = None -> ~ In p (map fst es).
Proof.
  induction es as [|[q m0] r IH]; cbn [m_get map fst all_mt forallb snd]; intros Hm H; [intros []|].
  apply andb_true_iff in Hm as [Hq Hm]. rewrite Hq, andb_true_r in H.
  destruct (q =? p) eqn:E; [discriminate|]. apply Z.eqb_neq in E.
  intros [X|X]; [exact (E X)|exact (IH Hm H X)].
Qed.

Lemma m_set_names : forall p m es es', m_set p m es = Some es' -> map fst es' = map fst es.
Proof.
  induction es as [|[q m0] r IH]; cbn [m_set]; intros es' H; [discriminate|].
  destruct (q =? p) eqn:E.
  - inversion H; subst. apply Z.eqb_eq in E. reflexivity.
  - destruct (m_set p m r) eqn:S; [|discriminate]. inversion H; subst. cbn [map fst]. f_equal. auto.
Qed.

Lemma m_set_some : forall p m es, In p (map fst es) -> exists es', m_set p m es = Some es'.
Proof.
  induction es as [|[q m0] r IH]; cbn [m_set map fst]; intros H; [destruct H|].
  destruct (q =? p) eqn:E; [eauto|]. apply Z.eqb_neq in E.
  destruct H as [H|H]; [congruence|]. destruct (IH H) as [es' ->]. eauto.
Qed.

Lemma m_set_all_mt : forall p m es es', m <> NOMT -> all_mt es = true -> m_set p m es = Some es' -> all_mt es' = true.
Proof.
  induction es as [|[q m0] r IH]; cbn [m_set]; intros es' Hm Ha H; [discriminate|].
  cbn [all_mt forallb snd] in Ha. apply andb_true_iff in Ha as [Hq Ha].
  destruct (q =? p).
  - inversion H; subst. cbn [all_mt forallb snd]. rewrite Ha, andb_true_r. apply negb_true_iff, Z.eqb_neq, Hm.
  - destruct (m_set p m r) eqn:S; [|discriminate]. inversion H; subst.
    cbn [all_mt forallb snd]. rewrite Hq. cbn. eapply IH; eauto.
Qed.

(* the repaired add_full_path: the path is listed afterwards, exactly once if paths were unique, nothing else changes *)
Lemma m_add_fixed_names : forall p m es, all_mt es = true ->
  map fst (m_add true p m es) = if memz p (map fst es) then map fst es else map fst es ++ [p].
Proof.
  intros p m es Ha. unfold m_add.
  destruct (m_get p es) eqn:G.
  - pose proof (m_get_in _ _ _ G) as Hin.
    destruct (m_set_some p m es Hin) as [es' S]. rewrite S, (m_set_names _ _ _ _ S).
    replace (memz p (map fst es)) with true; [reflexivity|].
    symmetry. apply existsb_exists. exists p. split; [exact Hin|apply Z.eqb_refl].
  - pose proof (m_get_none_notin _ _ Ha G) as Hn.
    replace (memz p (map fst es)) with false; [rewrite map_app; reflexivity|].
    symmetry. apply not_true_is_false. intros X. apply existsb_exists in X as [x [Hx E]].
    apply Z.eqb_eq in E. subst x. exact (Hn Hx).
Qed.

Lemma memz_In : forall k l, memz k l = true <-> In k l.
Proof.
  intros. unfold memz. rewrite existsb_exists. split.
  - intros [x [H E]]. apply Z.eqb_eq in E. subst. exact H.
  - intros H. exists k. split; [exact H|apply Z.eqb_refl].
Qed.

Lemma nodupb_NoDup : forall l, nodupb l = true <-> NoDup l.
Proof.
  induction l as [|x r IH]; cbn [nodupb]; split; intros H; try constructor; try reflexivity.
  - apply andb_true_iff in H as [H1 H2]. apply negb_true_iff in H1. intros X. apply memz_In in X. congruence.
  - apply IH. apply andb_true_iff in H as [_ H]. exact H.
  - inversion H; subst. apply andb_true_iff. split; [|apply IH; assumption].
    apply negb_true_iff. apply not_true_is_false. intros X. apply memz_In in X. contradiction.
Qed.

Lemma NoDup_snoc {A} : forall (l : list A) x, NoDup l -> ~ In x l -> NoDup (l ++ [x]).
Proof.
  induction l as [|a r IH]; cbn; intros x Hn Hx; [constructor; [tauto|constructor]|].
  inversion Hn; subst. constructor.
  - rewrite in_app_iff. cbn. intros [X|[X|[]]]; [contradiction|]. subst. apply Hx. left; reflexivity.
  - apply IH; [assumption|]. intros X. apply Hx. right; exact X.
Qed.

Lemma m_add_fixed_nodup : forall p m es, all_mt es = true -> NoDup (map fst es) -> NoDup (map fst (m_add true p m es)).
Proof.
  intros p m es Ha Hn. rewrite m_add_fixed_names by assumption.
  destruct (memz p (map fst es)) eqn:E; [exact Hn|].
  apply NoDup_snoc; [exact Hn|]. intros Hx. apply memz_In in Hx. congruence.
Qed.

(* the pinned add_full_path duplicates an existing path: F10 *)
Lemma m_add_pinned_dup : exists p m es, NoDup (map fst es) /\ ~ NoDup (map fst (m_add false p m es)).
Proof.
  exists 1000, 7, [(1000, 7)]. split; [repeat constructor; cbn; tauto|].
  cbn. intros H. inversion H; subst. apply H2. left; reflexivity.
Qed.
