(* Property C04 — statements only.  Each is closed by [exact] of a lemma proved elsewhere. *)
From Coq Require Import List ZArith Bool. Import ListNotations.
Require Import Package PkgManproof PkgZipproof PkgOKproof Pkgproof PkgStepWF PkgStepWF4 PkgOKstep PkgOKstep3 PkgOKstep5 PkgInitproof PkgInstproof.
Open Scope Z_scope.

(* the saved zip of a container coherent with its manifest: first entry mimetype and STORED, unique names, the manifest's
   file entries are exactly the other files, each once, and "/" carries the mimetype *)
Theorem C04_zip_shape : forall (xml bytes : Type) (par : bytes -> xml) (entries : xml -> mentries) (mime : bytes -> mtype)
  (c : container bytes) es, CPkgOK xml bytes par entries mime c -> save_zip bytes c = Some es -> ZipShape xml bytes par entries mime es.
Proof. exact zip_shape. Qed.
Print Assumptions C04_zip_shape.

(* whatever the container holds: mimetype first and STORED, unique names *)
Theorem C04_zip_mimetype_first : forall (bytes : Type) (c : container bytes) es, save_zip bytes c = Some es ->
  exists mb r, es = (MIMETYPE, true, mb) :: r /\ lookup MIMETYPE (live bytes c) = Some mb.
Proof. exact save_zip_first. Qed.
Print Assumptions C04_zip_mimetype_first.
Theorem C04_zip_unique_names : forall (bytes : Type) (c : container bytes) es, NoDup (map fst (parts bytes c)) -> save_zip bytes c = Some es ->
  NoDup (map (fun e : name * bool * bytes => fst (fst e)) es).
Proof. exact save_zip_nodup. Qed.
Print Assumptions C04_zip_unique_names.

(* C04_inv on the pair (set of files, manifest entry list): add_file / import (repaired add_full_path) *)
Theorem C04_inv_add : forall files es n m, coherent files es -> all_mt es = true -> is_dir n = false ->
  coherent (fun k => (k =? n) || files k) (m_add true n m es).
Proof. exact add_coherent. Qed.
Print Assumptions C04_inv_add.
(* ... and del_part (repaired: the entry goes with the part) *)
Theorem C04_inv_del : forall files es n, coherent files es -> NoDup (map fst es) ->
  coherent (fun k => negb (k =? n) && files k) (match m_del n es with Some es' => es' | None => es end).
Proof. exact del_coherent. Qed.
Print Assumptions C04_inv_del.
Theorem C04_add_full_path_unique : forall p m es, all_mt es = true -> NoDup (map fst es) -> NoDup (map fst (m_add true p m es)).
Proof. exact m_add_fixed_nodup. Qed.
Print Assumptions C04_add_full_path_unique.
Theorem C04_add_keeps_media_types : forall p m es, m <> NOMT -> all_mt es = true -> all_mt (m_add true p m es) = true.
Proof. exact m_add_all_mt. Qed.
Print Assumptions C04_add_keeps_media_types.

(* F10: the pinned add_full_path duplicates an existing path and breaks coherence *)
Theorem C04_add_full_path_refuted : exists p m es, NoDup (map fst es) /\ ~ NoDup (map fst (m_add false p m es)).
Proof. exact m_add_pinned_dup. Qed.
Print Assumptions C04_add_full_path_refuted.
Theorem C04_inv_add_refuted : exists files es n m, coherent files es /\ all_mt es = true /\ is_dir n = false /\
  ~ coherent (fun k => (k =? n) || files k) (m_add false n m es).
Proof. exact add_pinned_incoherent. Qed.
Print Assumptions C04_inv_add_refuted.

(* abstractions of the four templates as created by Document("text" | "spreadsheet" | "presentation" | "drawing")
   (directory entries of the templates omitted): coherent with their manifests *)
Definition tmpl (mt : Z) (extra : list (name * option cbytes)) (ex : mentries) : cdoc :=
  mkD (mkC ([(MIMETYPE, Some (CB mt)); (META, Some (CS (CX 3 4 [] [5]))); (SETTINGS, Some (CS (CX 6 7 [] [8])));
             (RDF, Some (CB 9)); (STYLES, Some (CS (CX 10 11 [] [12])))
             ; (CONTENT, Some (CS (CX 16 17 [] [18]))); (1001, Some (CB 21))] ++ extra ++
            [(MANIFEST, Some (CS (CX 0 0 ([(ROOT, mt); (META, 22); (SETTINGS, 22)] ++ ex ++ [(RDF, 24); (STYLES, 22); (CONTENT, 22); (1001, 25)]) [])))])
           [] None PZip) [].
Example C04_templates_ok :
  cPkgOKb [] (tmpl 2 [(1000, Some (CB 0))] [(1000, 0); (-11, 23)]) = true            (* text: Configurations2/accelerator/current.xml *)
  /\ cPkgOKb [] (tmpl 26 [(1000, Some (CB 0))] [(1000, 0); (-11, 23)]) = true        (* spreadsheet *)
  /\ cPkgOKb [] (tmpl 27 [] []) = true                                               (* presentation *)
  /\ cPkgOKb [] (tmpl 28 [] []) = true.                                              (* drawing *)
Proof. repeat split. Qed.

(* C04_inv: every operation of the document-level alphabet preserves CInv = SInv + PkgOK of the document + every package of the file system opens as a coherent package; ok04 = what the API guarantees about the arguments (file names are not directory names, media types are strings, manifest.rdf is not given an empty type, set_part replaces an existing part) *)
Theorem C04_inv :
  forall (xml bytes kid : Type) (ser : xml -> bytes)
           (par : bytes -> xml) (pretty stamp : xml -> xml)
           (entries : xml -> mentries) (with_entries : mentries -> xml -> xml)
           (kids : xml -> list kid) (mime : bytes -> mtype)
           (mime_bytes : mtype -> bytes) (rdf0 : bytes),
         (forall x : xml, par (ser x) = x) ->
         (forall (es : mentries) (x : xml), entries (with_entries es x) = es) ->
         (forall x : xml, entries (pretty x) = entries x) ->
         (forall m : mtype, mime (mime_bytes m) = m) ->
         forall (s : fsys bytes kid * document xml bytes) (o : op xml bytes),
         CInv xml bytes kid par entries mime s ->
         ok04 xml bytes kid s o ->
         CInv xml bytes kid par entries mime
           (fst
              (step xml bytes kid ser par pretty stamp entries with_entries
                 kids mime mime_bytes rdf0 FIXED s o)).
Proof. exact step_pkgok. Qed.
Print Assumptions C04_inv.

(* C04_full: by induction over histories *)
Theorem C04_full :
  forall (xml bytes kid : Type) (ser : xml -> bytes)
           (par : bytes -> xml) (pretty stamp : xml -> xml)
           (entries : xml -> mentries) (with_entries : mentries -> xml -> xml)
           (kids : xml -> list kid) (mime : bytes -> mtype)
           (mime_bytes : mtype -> bytes) (rdf0 : bytes),
         (forall x : xml, par (ser x) = x) ->
         (forall (es : mentries) (x : xml), entries (with_entries es x) = es) ->
         (forall x : xml, entries (pretty x) = entries x) ->
         (forall m : mtype, mime (mime_bytes m) = m) ->
         forall (os : list (op xml bytes))
           (s : fsys bytes kid * document xml bytes),
         CInv xml bytes kid par entries mime s ->
         run_ok xml bytes kid ser par pretty stamp entries with_entries kids
           mime mime_bytes rdf0 s os ->
         CInv xml bytes kid par entries mime
           (run xml bytes kid ser par pretty stamp entries with_entries kids
              mime mime_bytes rdf0 FIXED s os).
Proof. exact run_pkgok. Qed.
Print Assumptions C04_full.

(* the first operation: opening any package of a coherent file system, or creating a document from a template *)
Theorem C04_start :
  forall (xml bytes kid : Type) (ser : xml -> bytes)
           (par : bytes -> xml) (pretty stamp : xml -> xml)
           (entries : xml -> mentries) (with_entries : mentries -> xml -> xml)
           (kids : xml -> list kid) (mime : bytes -> mtype)
           (mime_bytes : mtype -> bytes) (rdf0 : bytes),
         (forall x : xml, par (ser x) = x) ->
         (forall (es : mentries) (x : xml), entries (with_entries es x) = es) ->
         (forall m : mtype, mime (mime_bytes m) = m) ->
         forall (fs : fsys bytes kid) (d0 : document xml bytes)
           (o : op xml bytes),
         FsOK bytes kid fs ->
         AllGood xml bytes kid par entries mime fs ->
         starts xml bytes o ->
         snd
           (step xml bytes kid ser par pretty stamp entries with_entries kids
              mime mime_bytes rdf0 FIXED (fs, d0) o) = Done ->
         CInv xml bytes kid par entries mime
           (fst
              (step xml bytes kid ser par pretty stamp entries with_entries
                 kids mime mime_bytes rdf0 FIXED (fs, d0) o)).
Proof. exact start_inv. Qed.
Print Assumptions C04_start.

(* C04_full from the initial-state predicate (FsOK fs, AllGood fs), first operation open / new *)
Theorem C04_full_from_packages :
  forall (xml bytes kid : Type) (ser : xml -> bytes)
           (par : bytes -> xml) (pretty stamp : xml -> xml)
           (entries : xml -> mentries) (with_entries : mentries -> xml -> xml)
           (kids : xml -> list kid) (mime : bytes -> mtype)
           (mime_bytes : mtype -> bytes) (rdf0 : bytes),
         (forall x : xml, par (ser x) = x) ->
         (forall (es : mentries) (x : xml), entries (with_entries es x) = es) ->
         (forall x : xml, entries (pretty x) = entries x) ->
         (forall m : mtype, mime (mime_bytes m) = m) ->
         forall (fs : fsys bytes kid) (d0 : document xml bytes)
           (o : op xml bytes) (os : list (op xml bytes)),
         FsOK bytes kid fs ->
         AllGood xml bytes kid par entries mime fs ->
         starts xml bytes o ->
         snd
           (step xml bytes kid ser par pretty stamp entries with_entries kids
              mime mime_bytes rdf0 FIXED (fs, d0) o) = Done ->
         run_ok xml bytes kid ser par pretty stamp entries with_entries kids
           mime mime_bytes rdf0
           (fst
              (step xml bytes kid ser par pretty stamp entries with_entries
                 kids mime mime_bytes rdf0 FIXED (fs, d0) o)) os ->
         CInv xml bytes kid par entries mime
           (run xml bytes kid ser par pretty stamp entries with_entries kids
              mime mime_bytes rdf0 FIXED
              (fst
                 (step xml bytes kid ser par pretty stamp entries with_entries
                    kids mime mime_bytes rdf0 FIXED (
                    fs, d0) o)) os).
Proof. exact history_pkgok. Qed.
Print Assumptions C04_full_from_packages.

(* C04_zip_shape as a corollary for every state satisfying the invariant (hence every reachable one): the zip written starts with the STORED mimetype, has unique names and opens, by path or from a buffer, as a package whose manifest lists exactly its files, '/' carrying the mimetype *)
Theorem C04_zip_shape_reachable :
  forall (xml bytes kid : Type) (ser : xml -> bytes)
           (par : bytes -> xml) (pretty stamp : xml -> xml)
           (entries : xml -> mentries) (with_entries : mentries -> xml -> xml)
           (kids : xml -> list kid) (mime : bytes -> mtype) 
           (rdf0 : bytes),
         (forall x : xml, par (ser x) = x) ->
         (forall (es : mentries) (x : xml), entries (with_entries es x) = es) ->
         (forall x : xml, entries (pretty x) = entries x) ->
         forall (fs : fsys bytes kid) (d : document xml bytes) 
           (t : target) (pty : bool) (fs' : fsys bytes kid)
           (d' : document xml bytes),
         CInv xml bytes kid par entries mime (fs, d) ->
         d_save xml bytes kid ser par pretty stamp entries kids mime rdf0 FIXED
           fs d t PZip pty = (fs', d', true) ->
         exists
           (es : list (name * bool * bytes)) (mb : bytes) 
         (r : list (name * bool * bytes)),
           lookup (tgt_id t) fs' = Some (FZip es) /\
           es = ((MIMETYPE, true, mb) :: r)%list /\
           List.NoDup
             (List.map (fun e : name * bool * bytes => fst (fst e)) es) /\
           (forall (b : bool) (c : container bytes),
            c_open bytes kid fs' (tgt_id t) b = Some c ->
            PkgOK xml bytes kid par entries mime fs'
              {| cont := c; xps := nil |}).
Proof. exact save_zip_shape. Qed.
Print Assumptions C04_zip_shape_reachable.

(* the initial-state predicate is inhabited by the four templates (abstractions of src/odfdo/templates/*.ot? as the harness
   reads them), and Document("text" | "spreadsheet" | "presentation" | "drawing") / Document(path) succeed on them *)
Example C04_initial_state : FsOK cbytes Z tmpl_fs /\ AllGood cxml cbytes Z cpar centries cmime tmpl_fs.
Proof. exact tmpl_fs_ok. Qed.
Example C04_templates_start : forall p, In p [1; 2; 3; 4] ->
  snd (cstep FIXED (tmpl_fs, mkD (mkC [] [] None PZip) []) (ONew p 99)) = Done
  /\ snd (cstep FIXED (tmpl_fs, mkD (mkC [] [] None PZip) []) (OOpen p false)) = Done.
Proof. exact tmpl_starts. Qed.
Example C04_instance_hypotheses : (forall x, cpar (cser x) = x) /\ (forall es x, centries (cwith_entries es x) = es)
  /\ (forall x, centries (cpretty x) = centries x) /\ (forall m, cmime (cmime_bytes m) = m).
Proof. exact (conj cpar_cser (conj centries_with (conj centries_pretty cmime_bytes_ok))). Qed.

(* F42: before its repair (fixes/F42-*.diff: `is not None` instead of the truth value of the media type) giving manifest.rdf an
   empty media type breaks the invariant at the next save; with the repair the same history keeps it, and the alphabet of
   C04_full no longer excludes it *)
Theorem C04_rdf_empty_type_refuted : exists (s : cfs * cdoc) (o1 o2 : cop),
  cPkgOKb (fst s) (snd s) = true /\
  (let s2 := fst (cstep FIXED42OFF (fst (cstep FIXED42OFF s o1)) o2) in cPkgOKb (fst s2) (snd s2) = false) /\
  (let s2 := fst (cstep FIXED (fst (cstep FIXED s o1)) o2) in cPkgOKb (fst s2) (snd s2) = true).
Proof. exact f42_refuted. Qed.
Print Assumptions C04_rdf_empty_type_refuted.
