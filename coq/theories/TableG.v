(* TableG.v — executable model of the GETTERS of src/odfdo/table.py and row.py as far as property C08 is concerned:
   every returned object is a record of the coordinates stamped on it (Cell.x / Cell.y / Row.y / Column.x), the repeat
   attribute it carries (1 = no attribute), the HANDLE it is (Detached = a copy whose lxml element is not in the table;
   LiveRow i / LiveCell i j = the wrapper of XML row i / of XML cell j of XML row i) and its content.
   The handle kind follows the code: a wrapper fetched from the tree is Live, `.clone` (Element.clone: deepcopy under a fresh
   root) makes it Detached, `Cell()` / `Row()` / `Column()` are Detached.  Positions are read from the maps, which by C02
   (Coh) are make_cache_map of the XML, hence [cmap].  The code modelled is the current one (F13 F32 F110 repaired);
   [pinned] = true gives the behaviour of those three places before their repair (for the refuted statements);
   [pad] = true is the CANDIDATE repair of F30 (get_cells(area) completed with empty cells), which was not applied:
   the code as it is has pad = false.  Definitions only. *)
From Coq Require Import List ZArith Bool Arith.
Import ListNotations.
Require Import Vault Row Table TableB.
Local Open Scope Z_scope.

Inductive handle := Detached | LiveRow (i : nat) | LiveCell (i j : nat).
Record cobj := { c_x : option Z; c_y : option Z; c_rep : nat; c_h : handle; c_val : cell }.
Record robj := { r_y : option Z; r_rep : nat; r_h : handle; r_val : rowx }.
Record kobj := { k_x : option Z; k_rep : nat; k_h : handle; k_st : Z }.
Inductive gres := GCells (l : list (list cobj)) | GRowsR (l : list robj) | GColsR (l : list kobj) | GError.

(* ---- the expanding loop of Row.traverse(start, end) and Table.traverse_columns(start, end) over the map from the run
        that holds start: every position yields a CLONE; its repeat attribute is removed when `repeated > 1 or (x == start
        and start > 0)`, where `repeated` is what remains of the run from the position the loop entered it.
        [late] = true: the pinned traverse_columns increments x before that test (F110). ---- *)
Fixpoint trav_objs {A} (late : bool) (x en before start : Z) (m : list Z) (v : runs A) : list (Z * nat * A) :=
  match m, v with
  | juska :: m', (n, c) :: v' =>
      let rep := juska - before in
      let k := Z.to_nat (Z.min rep (en - x + 1)) in
      map (fun d : nat => let xx := x + Z.of_nat d in
                          (xx, (if (1 <? rep) || ((xx + (if late then 1 else 0) =? start) && (0 <? start)) then 1%nat else n), c)) (seq 0 k)
      ++ trav_objs late (x + Z.of_nat k) en juska start m' v'
  | _, _ => []
  end.
Definition vault_traverse {A} (late : bool) (start en : option Z) (v : runs A) : list (Z * nat * A) :=
  let s := Z.max 0 (match start with Some s => s | None => 0 end) in
  let e := match en with Some e => e | None => hmap (cmap v) - 1 end in
  match find_idx (cmap v) s with
  | None => []
  | Some i => trav_objs late s e (s - 1) s (skipn i (cmap v)) (skipn i v)
  end.

(* ---- LAZY consumption.  Row.traverse, traverse_columns and Table.traverse are generators: the caller may edit object k before
        object k+1 is produced.  For every yielded position the flag says whether the copy was made from the copy handed out
        just before (true) or from the stored element (false).  [prev] = true is the code before the repair of F112
        (`cell = cell.clone` inside the loop over a run: every further copy of a run is a copy of the previous copy). ---- *)
Definition run_flags (prev : bool) (k : nat) : list bool := match k with O => [] | S k' => false :: repeat prev k' end.
Fixpoint trav_flags {A} (prev : bool) (x en before : Z) (m : list Z) (v : runs A) : list bool :=
  match m, v with
  | juska :: m', (n, c) :: v' =>
      let rep := juska - before in
      let k := Z.to_nat (Z.min rep (en - x + 1)) in
      run_flags prev k ++ trav_flags prev (x + Z.of_nat k) en juska m' v'
  | _, _ => []
  end.
Definition vault_flags {A} (prev : bool) (start en : option Z) (v : runs A) : list bool :=
  let s := Z.max 0 (match start with Some s => s | None => 0 end) in
  let e := match en with Some e => e | None => hmap (cmap v) - 1 end in
  match find_idx (cmap v) s with
  | None => []
  | Some i => trav_flags prev s e (s - 1) (skipn i (cmap v)) (skipn i v)
  end.
(* Table._yield_odf_rows: one copy per repetition, each from the stored row ([prev] = true: the variant that duplicates the copy
   it has just yielded) *)
Definition yield_flags (prev : bool) (rs : list (nat * rowx)) : list bool := flat_map (fun r : nat * rowx => run_flags prev (fst r)) rs.
(* what the caller sees when he applies [f] to every object as soon as it is yielded: an object copied from the previous copy
   inherits what was done to that copy ([inherit own previous] keeps the object's own stamp and takes the rest from [previous]) *)
Fixpoint lazy_run {O} (inherit : O -> O -> O) (f : O -> O) (prev : option O) (l : list (bool * O)) : list O :=
  match l with
  | [] => []
  | (derived, o) :: r =>
      let o' := match derived, prev with true, Some p => inherit o p | _, _ => o end in
      o' :: lazy_run inherit f (Some (f o')) r
  end.

(* ---- Row-level getters on a row object: its y, its handle (a wrapper in the table or a detached copy), its cells ---- *)
Definition live_cell (rh : handle) (j : nat) : handle := match rh with LiveRow i => LiveCell i j | _ => Detached end.
(* Row.traverse(start, end) / Row.cells / Row.get_cells(coord): copies, x stamped, y = row.y *)
Definition m_row_traverse (start en : option Z) (ry : option Z) (cs : rruns) : list cobj :=
  map (fun p : Z * nat * cell => let '(x, rep, c) := p in {| c_x := Some x; c_y := ry; c_rep := rep; c_h := Detached; c_val := c |})
      (vault_traverse false start en cs).
(* Row.get_cell(x, clone) *)
Definition m_row_get_cell (x : Z) (clone : bool) (ry : option Z) (rh : handle) (cs : rruns) : cobj :=
  let x := norm_coord x (rwidth cs) in
  if rwidth cs <=? x then {| c_x := Some x; c_y := ry; c_rep := 1; c_h := Detached; c_val := empty_cell |}
  else match cell_pos_at x cs with
       | Some (j, (n, c)) => {| c_x := Some x; c_y := ry; c_rep := n; c_h := if clone then Detached else live_cell rh j; c_val := c |}
       | None => {| c_x := Some x; c_y := ry; c_rep := 1; c_h := Detached; c_val := empty_cell |} end.

(* ---- Table-level getters ---- *)
(* Table.get_row(y, clone) *)
Definition m_get_row (y : Z) (clone : bool) (t : tstate) : robj :=
  let y := ny y t in
  if theight t <=? y then {| r_y := Some y; r_rep := 1; r_h := Detached; r_val := empty_row |}
  else match find_idx (cmap (rows t)) y with
       | Some i => match nth_error (rows t) i with
                   | Some (n, r) => {| r_y := Some y; r_rep := n; r_h := if clone then Detached else LiveRow i; r_val := r |}
                   | None => {| r_y := Some y; r_rep := 1; r_h := Detached; r_val := empty_row |} end
       | None => {| r_y := Some y; r_rep := 1; r_h := Detached; r_val := empty_row |} end.
(* Table.get_cell((x,y), clone, keep_repeated): through the (live) cached wrapper of the row; x and y stamped by the table *)
Definition m_get_cell (x y : Z) (clone keep : bool) (t : tstate) : cobj :=
  let x := nx x t in let y := ny y t in
  let r := m_get_row y false t in
  if theight t <=? y then {| c_x := Some x; c_y := Some y; c_rep := 1; c_h := Detached; c_val := empty_cell |}
  else let c := m_row_get_cell x clone (Some y) (r_h r) (snd (r_val r)) in
       {| c_x := Some x; c_y := Some y; c_rep := if keep then c_rep c else 1%nat; c_h := c_h c; c_val := c_val c |}.
(* Table._yield_odf_rows + Table.traverse(start, end): every logical row, y stamped; repaired: always a copy (F13);
   pinned: an unrepeated row is the live wrapper, a repeated one is cloned per repetition *)
Fixpoint yield_rows (pinned : bool) (i : nat) (y : Z) (rs : list (nat * rowx)) : list robj :=
  match rs with
  | [] => []
  | (n, r) :: rs' =>
      map (fun d : nat => {| r_y := Some (y + Z.of_nat d); r_rep := 1;
                             r_h := if pinned && (n =? 1)%nat then LiveRow i else Detached; r_val := r |}) (seq 0 n)
      ++ yield_rows pinned (S i) (y + Z.of_nat n) rs'
  end.
Definition in_range (s e : Z) (oy : option Z) : bool := match oy with Some y => (s <=? y) && (y <=? e) | None => false end.
Definition m_traverse (pinned : bool) (start en : option Z) (t : tstate) : list robj :=
  let s := Z.max 0 (match start with Some s => s | None => 0 end) in
  match en with
  | Some e => if e <? s then [] else filter (fun r => in_range s e (r_y r)) (yield_rows pinned 0 0 (rows t))
  | None => filter (fun r => match r_y r with Some y => s <=? y | None => false end) (yield_rows pinned 0 0 (rows t))
  end.
(* Table.get_rows(coord) with coord = (y, t) *)
Definition m_get_rows (pinned : bool) (range : option (Z * Z)) (t : tstate) : list robj :=
  match range with
  | Some (y, e) => m_traverse pinned (Some (ny y t)) (Some (ny e t)) t
  | None => m_traverse pinned None None t end.
(* Table.get_cells(coord) with coord = (x, y, z, t) or None: traverse(y, t), then Row.get_cells((x, z)) on each copy;
   as it is: a row stored narrower than the area gives fewer cells (F30, known finding); with the candidate repair
   ([pad]): when an area is given, completed with empty cells up to min(z + 1, width) *)
Fixpoint pad_cells (pos width : Z) (ry : option Z) (fuel : nat) : list cobj :=
  match fuel with
  | O => []
  | S f => if pos <? width then {| c_x := Some pos; c_y := ry; c_rep := 1; c_h := Detached; c_val := empty_cell |} :: pad_cells (pos + 1) width ry f
           else [] end.
Definition m_get_cells (pinned pad : bool) (area : option (Z * Z * Z * Z)) (t : tstate) : list (list cobj) :=
  let '(ox, oy, oz, oe) := match area with
                           | Some (x, y, z, e) => (Some (nx x t), Some (ny y t), Some (nx z t), Some (ny e t))
                           | None => (None, None, None, None) end in
  let width := match oz with Some z => Z.min (z + 1) (twidth t) | None => twidth t end in
  let first := match ox with Some x => Z.max 0 x | None => 0 end in
  map (fun r : robj =>
         let cells := m_row_traverse ox oz (r_y r) (snd (r_val r)) in
         if negb pad || (match area with None => true | Some _ => false end) then cells
         else cells ++ pad_cells (first + Z.of_nat (length cells)) width (r_y r) (Z.to_nat (width - first)))
      (m_traverse pinned oy oe t).
(* Table.cells *)
Definition m_cells (pinned : bool) (t : tstate) : list (list cobj) :=
  map (fun r : robj => m_row_traverse None None (r_y r) (snd (r_val r))) (m_traverse pinned None None t).
(* Table.get_column(x): a copy that keeps its repeat *)
Definition m_get_column (x : Z) (t : tstate) : kobj :=
  let x := nx x t in
  if twidth t <=? x then {| k_x := Some x; k_rep := 1; k_h := Detached; k_st := 0 |}
  else match find_idx (cmap (cols t)) x with
       | Some i => match nth_error (cols t) i with
                   | Some (n, st) => {| k_x := Some x; k_rep := n; k_h := Detached; k_st := st |}
                   | None => {| k_x := Some x; k_rep := 1; k_h := Detached; k_st := 0 |} end
       | None => {| k_x := Some x; k_rep := 1; k_h := Detached; k_st := 0 |} end.
(* Table.traverse_columns(start, end) / columns / get_columns(coord) *)
Definition m_traverse_columns (pinned : bool) (start en : option Z) (t : tstate) : list kobj :=
  let late := pinned && match start, en with None, None => false | _, _ => true end in
  map (fun p : Z * nat * Z => let '(x, rep, st) := p in {| k_x := Some x; k_rep := rep; k_h := Detached; k_st := st |})
      (vault_traverse late start en (cols t)).
Definition m_get_columns (pinned : bool) (range : option (Z * Z)) (t : tstate) : list kobj :=
  match range with
  | Some (x, z) => m_traverse_columns pinned (Some (nx x t)) (Some (nx z t)) t
  | None => m_traverse_columns pinned None None t end.
(* Table.get_column_cells(x): Row.get_cell(x, clone=True) on every copy yielded by traverse(); repaired (F32): the column
   repetition of the cell is removed *)
Definition m_get_column_cells (pinned : bool) (x : Z) (t : tstate) : list cobj :=
  let x := nx x t in
  map (fun r : robj => let c := m_row_get_cell x true (r_y r) (r_h r) (snd (r_val r)) in
                       {| c_x := c_x c; c_y := c_y c; c_rep := if pinned then c_rep c else 1%nat; c_h := c_h c; c_val := c_val c |})
      (m_traverse pinned None None t).

(* ---- the getters of the property's list as one alphabet ---- *)
Inductive getter :=
| GGetCell (x y : Z) (clone keep : bool)
| GGetRow (y : Z) (clone : bool)
| GGetCells (area : option (Z * Z * Z * Z))
| GCellsP                                              (* Table.cells *)
| GGetRows (range : option (Z * Z))                    (* get_rows(coord); rows = get_rows() *)
| GTraverse (s e : option Z)
| GGetColumn (x : Z)
| GGetColumns (range : option (Z * Z))                 (* get_columns(coord); columns = get_columns() *)
| GTraverseColumns (s e : option Z)
| GColumnCells (x : Z)
| GRowGetCell (y : Z) (rclone : bool) (x : Z) (clone : bool)      (* get_row(y, rclone).get_cell(x, clone) *)
| GRowTraverse (y : Z) (rclone : bool) (s e : option Z)           (* get_row(y, rclone).traverse(s, e) *)
| GRowCells (y : Z) (rclone : bool).                              (* get_row(y, rclone).cells *)

Definition m_get (pinned pad : bool) (t : tstate) (g : getter) : gres :=
  match g with
  | GGetCell x y cl keep => GCells [[m_get_cell x y cl keep t]]
  | GGetRow y cl => GRowsR [m_get_row y cl t]
  | GGetCells area => GCells (m_get_cells pinned pad area t)
  | GCellsP => GCells (m_cells pinned t)
  | GGetRows range => GRowsR (m_get_rows pinned range t)
  | GTraverse s e => GRowsR (m_traverse pinned s e t)
  | GGetColumn x => GColsR [m_get_column x t]
  | GGetColumns range => GColsR (m_get_columns pinned range t)
  | GTraverseColumns s e => GColsR (m_traverse_columns pinned s e t)
  | GColumnCells x => GCells [m_get_column_cells pinned x t]
  | GRowGetCell y rcl x cl => let r := m_get_row y rcl t in GCells [[m_row_get_cell x cl (r_y r) (r_h r) (snd (r_val r))]]
  | GRowTraverse y rcl s e => let r := m_get_row y rcl t in GCells [m_row_traverse s e (r_y r) (snd (r_val r))]
  | GRowCells y rcl => let r := m_get_row y rcl t in GCells [m_row_traverse None None (r_y r) (snd (r_val r))]
  end.

(* ---- what the documentation promises per getter ---- *)
(* the returned objects are documented as copies *)
Definition promises_copy (g : getter) : bool :=
  match g with
  | GGetCell _ _ cl _ => cl
  | GGetRow _ cl => cl
  | GRowGetCell _ rcl _ cl => cl || rcl
  | GRowTraverse _ _ _ _ | GRowCells _ _ => true
  | _ => true end.
(* the read expands repetitions: the returned objects must carry no repeat *)
Definition expands (g : getter) : bool :=
  match g with
  | GGetCell _ _ _ keep => negb keep
  | GGetRow _ _ | GGetColumn _ | GRowGetCell _ _ _ _ => false
  | _ => true end.

(* ---- mutating a returned object: only a Live handle reaches the table ---- *)
Inductive mutation := MSetStyle (st : Z) | MSetValue (v : Z) | MSetRepeat (n : nat) | MAppendCell (c : nat * cell).
Definition mut_cell (f : mutation) (c : nat * cell) : nat * cell :=
  match f with
  | MSetStyle st => (fst c, (fst (snd c), st))
  | MSetValue v => (fst c, (v, snd (snd c)))
  | MSetRepeat n => (Nat.max 1 n, snd c)
  | MAppendCell _ => c end.
Definition mut_row (f : mutation) (r : nat * rowx) : nat * rowx :=
  match f with
  | MSetStyle st => (fst r, (st, snd (snd r)))
  | MSetValue v => r
  | MSetRepeat n => (Nat.max 1 n, snd r)
  | MAppendCell c => (fst r, (fst (snd r), snd (snd r) ++ [c])) end.
Definition mutate (h : handle) (f : mutation) (t : tstate) : tstate :=
  match h with
  | Detached => t
  | LiveRow i => match nth_error (rows t) i with
                 | Some r => {| cols := cols t; rows := set_nth i (mut_row f r) (rows t) |}
                 | None => t end
  | LiveCell i j => match nth_error (rows t) i with
                    | Some (n, (st, cs)) =>
                        match nth_error cs j with
                        | Some c => {| cols := cols t; rows := set_nth i (n, (st, set_nth j (mut_cell f c) cs)) (rows t) |}
                        | None => t end
                    | None => t end
  end.
Definition res_handles (r : gres) : list handle :=
  match r with
  | GCells l => map c_h (concat l) | GRowsR l => map r_h l | GColsR l => map k_h l | GError => [] end.
Definition res_reps (r : gres) : list nat :=
  match r with
  | GCells l => map c_rep (concat l) | GRowsR l => map r_rep l | GColsR l => map k_rep l | GError => [] end.
