(* Property C14 — statements only.  Each is closed by [exact] of a lemma proved in XPathLitproof*.v. *)
From Coq Require Import List NArith Bool. Import ListNotations.
Require Import XPathLit XPathLitproof XPathLitproof2 XPathLitproof3 XPathLitproof4 XPathLitproof5 XPathLitproof6.
Open Scope N_scope.

(* The full statement, for the quoting function of the repaired code: whatever the identifier contains, the text
   pasted into the query is read back by an XPath 1.0 reader as exactly that identifier, the predicate is consumed
   entirely (no trailing tokens: no injection, no syntax error); and the value written into an XML attribute
   (Manifest.make_file_entry) is read back by an XML reader as exactly that identifier. *)
Definition C14_full : Prop :=
  (forall v : str, eval (quote v) = Some v) /\
  (forall a v : str, a <> [] -> forallb name_char a = true -> parse_pred (pred a v) = Some (a, v)) /\
  (forall v : str, xml_unescape (xml_attr_escape v) = Some v).

Theorem C14_quote_correct : forall v : str, eval (quote v) = Some v.
Proof. exact quote_correct. Qed.
Print Assumptions C14_quote_correct.

Theorem C14_quote_in_context : forall v rest : str, string_expr (quote v ++ rest) = Some (v, rest).
Proof. exact string_expr_quote. Qed.
Print Assumptions C14_quote_in_context.

Theorem C14_pred_wellformed : forall a v : str,
  a <> [] -> forallb name_char a = true -> parse_pred (pred a v) = Some (a, v).
Proof. exact pred_wellformed. Qed.
Print Assumptions C14_pred_wellformed.

Theorem C14_pred_axis_wellformed : forall a v : str,
  a <> [] -> forallb name_char a = true -> parse_pred (pred_axis a v) = Some (a, v).
Proof. exact pred_axis_wellformed. Qed.
Print Assumptions C14_pred_axis_wellformed.

Theorem C14_full_holds : C14_full.
Proof. exact (conj quote_correct (conj pred_wellformed xml_roundtrip)). Qed.
Print Assumptions C14_full_holds.

(* hypotheses inhabited: attribute text:name, identifier  a DQ b SQ c *)
Example C14_pred_example :
  let a := [116;101;120;116;58;110;97;109;101] in
  a <> [] /\ forallb name_char a = true /\
  parse_pred (pred a [97;34;98;39;99]) = Some (a, [97;34;98;39;99]).
Proof. repeat split; try reflexivity; discriminate. Qed.

(* Whole query: for any prefix that lexes up to a point outside a literal (tokens ts, pending run cur not ending in
   the text concat( ) and any quote-free rest, the token structure of the query is one fixed function of the
   identifier: the identifier is one string token, everything else is what it is for any other identifier. *)
Theorem C14_query_skeleton : forall (pre v post : str) (ts : list tok) (cur : str),
  lexp LOut [] pre = (ts, LOut, cur) ->
  strip_suffix s_concat (rev cur) = None ->
  noquote post = true ->
  skeleton (pre ++ quote v ++ post)
  = Some (fold_right fold_step (other (rev cur) ++ TStr v :: other (nows post)) ts).
Proof. exact query_skeleton. Qed.
Print Assumptions C14_query_skeleton.

Theorem C14_query_skeleton_simple : forall pre v post : str,
  noquote pre = true -> noquote post = true -> strip_suffix s_concat (nows pre) = None ->
  skeleton (pre ++ quote v ++ post) = Some (other (nows pre) ++ TStr v :: other (nows post))
  /\ skeleton pre = Some (other (nows pre)) /\ skeleton post = Some (other (nows post)).
Proof. exact query_skeleton_simple. Qed.
Print Assumptions C14_query_skeleton_simple.

(* hypotheses inhabited: pre = x[@f=DQ p DQ][@n=   (a literal before the identifier), post = ][1] ;
   identifier a DQ b SQ c : five tokens, the fourth is the identifier *)
Example C14_query_skeleton_example :
  let pre := [120;91;64;102;61;34;112;34;93;91;64;110;61] in
  let post := [93;91;49;93] in
  lexp LOut [] pre = ([TOther [120;91;64;102;61]; TStr [112]], LOut, [61;110;64;91;93]) /\
  strip_suffix s_concat (rev [61;110;64;91;93]) = None /\ noquote post = true /\
  skeleton (pre ++ quote [97;34;98;39;99] ++ post)
  = Some [TOther [120;91;64;102;61]; TStr [112]; TOther [93;91;64;110;61]; TStr [97;34;98;39;99]; TOther [93;91;49;93]].
Proof. repeat split. Qed.

(* The same with any rest that lexes (it may contain further literals, e.g. [@style:family=DQ paragraph DQ] after the
   identifier): the skeleton of the query is the folded prefix tokens, the identifier, the skeleton of the rest. *)
Theorem C14_query_skeleton_general : forall (pre v post : str) (ts : list tok) (cur : str) (tp : list tok),
  lexp LOut [] pre = (ts, LOut, cur) ->
  strip_suffix s_concat (rev cur) = None ->
  lex LOut [] post = Some tp ->
  skeleton (pre ++ quote v ++ post)
  = Some (fold_right fold_step (other (rev cur) ++ TStr v :: fold_right fold_step [] tp) ts).
Proof. exact query_skeleton_gen. Qed.
Print Assumptions C14_query_skeleton_general.

(* hypotheses inhabited: pre = x[@n=  post = ][@f=DQ p DQ] ; identifier a DQ b SQ c *)
Example C14_query_skeleton_general_example :
  let pre := [120;91;64;110;61] in
  let post := [93;91;64;102;61;34;112;34;93] in
  lexp LOut [] pre = ([], LOut, [61;110;64;91;120]) /\
  strip_suffix s_concat (rev [61;110;64;91;120]) = None /\
  lex LOut [] post = Some [TOther [93;91;64;102;61]; TStr [112]; TOther [93]] /\
  skeleton (pre ++ quote [97;34;98;39;99] ++ post)
  = Some [TOther [120;91;64;110;61]; TStr [97;34;98;39;99]; TOther [93;91;64;102;61]; TStr [112]; TOther [93]].
Proof. repeat split. Qed.

(* Unions.  [covered v toks]: every union branch of the query (at every parenthesis level) carries a predicate with
   the string token v, so no node can be selected without its attribute being compared with the identifier.
   With the predicate written on both branches this holds for every identifier; *)
Theorem C14_union_both_branches_covered : forall b1 b2 a v : str,
  plainb b1 = true -> plainb b2 = true -> plainb a = true ->
  option_map (covered v) (skeleton (b1 ++ pred a v ++ [PIPE] ++ b2 ++ pred a v)) = Some true.
Proof. exact union_both_covered. Qed.
Print Assumptions C14_union_both_branches_covered.

(* with the predicate appended once to the text of a union (what make_xpath_query does to a query_string that is a
   union) the first branch is unconstrained, for every identifier: refuted shape. *)
Theorem C14_union_last_branch_only_refuted : forall b1 b2 a v : str,
  plainb b1 = true -> plainb b2 = true -> plainb a = true ->
  option_map (covered v) (skeleton (b1 ++ [PIPE] ++ b2 ++ pred a v)) = Some false.
Proof. exact union_last_only_not_covered. Qed.
Print Assumptions C14_union_last_branch_only_refuted.

(* hypotheses inhabited; and the wrapped forms (q)[1] built by get_element / a position argument:
     (d::m-s[@n=Q] | d::m[@n=Q])[1]  is covered,   (d::m | d::m-s[@n=Q])[1]  is not *)
Example C14_union_examples :
  let b1 := [100;58;58;109;45;115] in let b2 := [100;58;58;109] in let a := [110] in let v := [97;34;98;39;99] in
  plainb b1 = true /\ plainb b2 = true /\ plainb a = true /\
  option_map (covered v) (skeleton ([LPAR] ++ b1 ++ pred a v ++ [PIPE] ++ b2 ++ pred a v ++ [RPAR;LBRA;49;RBRA])) = Some true /\
  option_map (covered v) (skeleton ([LPAR] ++ b2 ++ [PIPE] ++ b1 ++ pred a v ++ [RPAR;LBRA;49;RBRA])) = Some false.
Proof. repeat split. Qed.

(* the pinned code: pasting between double quotes *)
Theorem C14_pinned_refuted : exists v : str, eval (quote_pinned v) <> Some v.
Proof. exists [97;34;98]. vm_compute. discriminate. Qed.
Print Assumptions C14_pinned_refuted.

Theorem C14_pinned_refuted_all : forall v : str, has DQ v = true -> eval (quote_pinned v) <> Some v.
Proof. exact pinned_wrong. Qed.
Print Assumptions C14_pinned_refuted_all.

Theorem C14_pinned_sq_refuted_all : forall v : str, has SQ v = true -> eval (quote_pinned_sq v) <> Some v.
Proof. exact pinned_sq_wrong. Qed.
Print Assumptions C14_pinned_sq_refuted_all.

Theorem C14_pinned_partial : forall v : str, has DQ v = false -> eval (quote_pinned v) = Some v.
Proof. exact pinned_ok. Qed.
Print Assumptions C14_pinned_partial.

Example C14_pinned_examples :
  has DQ [97;34;98] = true /\ has SQ [97;39;98] = true /\ has DQ [97;39;98] = false /\
  parse_pred (pred_pinned [97] [97;34;98]) = None.
Proof. repeat split. Qed.

(* XML attribute values: Manifest.make_file_entry.  Repaired code (set_attribute, serializer escaping) *)
Theorem C14_xml_attr_roundtrip : forall v : str, xml_unescape (xml_attr_escape v) = Some v.
Proof. exact xml_roundtrip. Qed.
Print Assumptions C14_xml_attr_roundtrip.

Theorem C14_xml_attr_no_delimiter : forall (k : chr) (v : str), k = 34 \/ k = 60 -> has k (xml_attr_escape v) = false.
Proof. exact escape_no. Qed.
Print Assumptions C14_xml_attr_no_delimiter.

(* pinned code: the raw value between double quotes in a tag string that is then parsed *)
Theorem C14_xml_attr_pinned_refuted : exists v : str, xml_unescape (xml_attr_pinned v) <> Some v.
Proof. exists [97;38;98]. vm_compute. discriminate. Qed.
Print Assumptions C14_xml_attr_pinned_refuted.
