(* TableLive.v — Row-level calls on a LIVE row handle: row = table.get_row(y, clone=False), then
   row.set_cell / insert_cell / append_cell / delete_cell, not written back (definitions only).

   What the code does (and all the API can promise): beyond the table get_row returns a fresh detached Row, the
   table is untouched; inside, the handle is the stored XML row, so the edit lands on the whole RUN that holds row y
   (every repetition changes), the table's column declarations are NOT grown (no _update_width), _tmap is unchanged
   and the handle's own _rmap follows the edit.  Row.insert_cell/append_cell say "Do not use when working on a
   table, use Table.insert_cell()".  (Row.clear() on a live row also removes its repeat attribute and leaves the
   table's _tmap stale: outside this alphabet.) *)
From Coq Require Import List ZArith Bool Arith.
Import ListNotations.
Require Import Vault Row Table Grid Tableabs Coord TableExt.
Local Open Scope Z_scope.

Definition live_okb (o : rop) : bool :=
  match o with RSet _ c | RIns _ c | RApp c => (1 <=? fst c)%nat | RDel _ => true | _ => false end.
Definition live_ok (o : rop) : Prop := live_okb o = true.

(* y already translated (>= 0) *)
Definition t_live_row (y : Z) (os : list rop) (t : tstate) : option tstate :=
  if theight t <=? y then Some t
  else match find_idx (cmap (rows t)) y with
       | None => None
       | Some i =>
         match nth_error (rows t) i with
         | None => None
         | Some (rep, r) =>
           match rowx_run r os with
           | Some r' => Some {| cols := cols t; rows := firstn i (rows t) ++ (rep, r') :: skipn (S i) (rows t) |}
           | None => None end
         end
       end.
(* the handle written back: row = get_row(y, clone=False); Row-level calls; table.set_row(y, row).
   Beyond the table the handle is a fresh Row and this is exactly the Table-level edit; inside, the run was already edited
   in place and set_row then writes the row with the RUN's repeat at position y. *)
Definition t_live_row_back (y : Z) (os : list rop) (t : tstate) : option tstate :=
  if theight t <=? y then t_edit_row y os t
  else match t_live_row y os t with
       | Some t1 => match row_at y t1 with Some (rep, r') => set_row y rep r' t1 | None => None end
       | None => None end.
Inductive lop := LRow (y : anyarg) (os : list rop) | LRowBack (y : anyarg) (os : list rop).
Definition t_live_step (t : tstate) (o : lop) : option tstate :=
  match o with
  | LRow y os => match res_y (theight t) y with Some y' => t_live_row y' os t | None => None end
  | LRowBack y os => match res_y (theight t) y with Some y' => t_live_row_back y' os t | None => None end
  end.
