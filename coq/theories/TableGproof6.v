(* TableGproof6.v — C08 on every well-formed table for the getters that walk the rows: traverse / rows / get_rows, and on
   top of them get_cells / cells (as stored) and get_column_cells. *)
From Coq Require Import List ZArith Lia Bool Arith.
Import ListNotations.
Require Import Vault Vaultproof Vaultproof3 Vaultproof4 Row Table Grid Tableabs Tableproof Tableproof2 Tableproof4 Tableproof5 Tableproof6 Tableproof7 Tableproof8
               Tablexmlproof TableB TableBproof TableG TableGspec TableGproof TableGproof2 TableGproof3 TableGproof4 TableGproof5.
Open Scope Z_scope.

Lemma combine_app {A B} (a c : list A) (b d : list B) : length a = length b -> combine (a ++ c) (b ++ d) = combine a b ++ combine c d.
Proof. revert b; induction a as [|x a IH]; intros [|y b] H; try discriminate; [reflexivity|]. cbn. f_equal. apply IH. now inversion H. Qed.
Lemma filter_map_comm {A B} (f : A -> B) (p : B -> bool) l : filter p (map f l) = map f (filter (fun a => p (f a)) l).
Proof. induction l as [|a l IH]; [reflexivity|]. cbn. destruct (p (f a)); cbn; now rewrite IH. Qed.

Definition mkrow (p : Z * rowx) : robj := {| r_y := Some (fst p); r_rep := 1; r_h := Detached; r_val := snd p |}.

Lemma map_seq_rows (r : rowx) y n : forall s,
  map (fun d : nat => {| r_y := Some (y + Z.of_nat d); r_rep := 1; r_h := Detached; r_val := r |}) (seq s n)
  = map mkrow (combine (map (fun d : nat => y + Z.of_nat d) (seq s n)) (repeat r n)).
Proof. induction n as [|n IHn]; intros s; [reflexivity|]. cbn [seq map repeat combine]. f_equal. apply IHn. Qed.

Lemma yield_rows_spec (rs : list (nat * rowx)) : forall i y,
  yield_rows false i y rs = map mkrow (combine (zrange y (width rs)) (expand rs)).
Proof.
  induction rs as [|[n r] rs IH]; intros i y; [reflexivity|].
  cbn [yield_rows]. unfold width. cbn [expand]. rewrite app_length, repeat_length, zrange_app.
  rewrite combine_app by (now rewrite zrange_length, repeat_length). rewrite map_app. f_equal; [|apply IH].
  cbn [andb]. apply map_seq_rows.
Qed.

(* keeping the positions s .. e of an indexed list *)
Lemma filter_range {B} (l : list B) : forall a s e,
  filter (fun p : Z * B => (s <=? fst p) && (fst p <=? e)) (combine (zrange a (length l)) l)
  = let sl := firstn (Z.to_nat (e + 1 - Z.max a s)) (skipn (Z.to_nat (Z.max a s - a)) l) in combine (zrange (Z.max a s) (length sl)) sl.
Proof.
  induction l as [|b l IH]; intros a s e; cbv zeta.
  - cbn [length]. rewrite skipn_nil, firstn_nil. reflexivity.
  - cbn [length]. rewrite zrange_S. cbn [combine filter fst]. specialize (IH (a + 1) s e). cbv zeta in IH.
    destruct (Z.leb_spec s a) as [Hs|Hs]; [destruct (Z.leb_spec a e) as [He|He]|]; cbn [andb].
    + rewrite IH. rewrite (Z.max_l a s) by lia. rewrite (Z.max_l (a + 1) s) by lia.
      replace (Z.to_nat (a - a)) with 0%nat by lia. replace (Z.to_nat (a + 1 - (a + 1))) with 0%nat by lia. cbn [skipn].
      replace (Z.to_nat (e + 1 - a)) with (S (Z.to_nat (e + 1 - (a + 1)))) by lia. cbn [firstn length]. rewrite zrange_S. reflexivity.
    + rewrite IH. rewrite (Z.max_l a s) by lia. rewrite (Z.max_l (a + 1) s) by lia.
      replace (Z.to_nat (e + 1 - (a + 1))) with 0%nat by lia. replace (Z.to_nat (e + 1 - a)) with 0%nat by lia. reflexivity.
    + rewrite IH. rewrite (Z.max_r a s) by lia. rewrite (Z.max_r (a + 1) s) by lia.
      replace (Z.to_nat (s - a)) with (S (Z.to_nat (s - (a + 1)))) by lia. reflexivity.
Qed.

(* the rows Table.traverse(start, end) yields *)
Definition tr_slice (s e : option Z) (t : tstate) : list rowx :=
  firstn (Z.to_nat (hi e (theight t) + 1 - lo s)) (skipn (Z.to_nat (lo s)) (expand (rows t))).
Lemma m_traverse_spec s e t :
  m_traverse false s e t = map mkrow (combine (zrange (lo s) (length (tr_slice s e t))) (tr_slice s e t)).
Proof.
  unfold m_traverse. rewrite yield_rows_spec. fold (lo s). unfold tr_slice, theight.
  assert (Hlo : 0 <= lo s) by (unfold lo; lia).
  destruct e as [e|].
  - destruct (Z.ltb_spec e (lo s)) as [Hlt|Hge].
    + unfold hi. replace (Z.to_nat (Z.min e (Z.of_nat (width (rows t)) - 1) + 1 - lo s)) with 0%nat by lia. reflexivity.
    + rewrite filter_map_comm. f_equal. unfold width.
      pose proof (filter_range (expand (rows t)) 0 (lo s) e) as H. cbv zeta in H. rewrite (Z.max_r 0 (lo s)) in H by lia.
      replace (lo s - 0) with (lo s) in H by lia.
      replace (Z.to_nat (hi (Some e) (Z.of_nat (length (expand (rows t)))) + 1 - lo s))
        with (Nat.min (Z.to_nat (e + 1 - lo s)) (length (skipn (Z.to_nat (lo s)) (expand (rows t))))) by (unfold hi; rewrite skipn_length; lia).
      rewrite <- (firstn_firstn (skipn (Z.to_nat (lo s)) (expand (rows t)))).
      rewrite (firstn_all (skipn (Z.to_nat (lo s)) (expand (rows t)))). exact H.
  - rewrite filter_map_comm. f_equal. unfold width.
    pose proof (filter_range (expand (rows t)) 0 (lo s) (Z.of_nat (length (expand (rows t))))) as H. cbv zeta in H.
    rewrite (Z.max_r 0 (lo s)) in H by lia. replace (lo s - 0) with (lo s) in H by lia.
    replace (Z.to_nat (hi None (Z.of_nat (length (expand (rows t)))) + 1 - lo s))
      with (Nat.min (Z.to_nat (Z.of_nat (length (expand (rows t))) + 1 - lo s)) (length (skipn (Z.to_nat (lo s)) (expand (rows t))))) by (unfold hi; rewrite skipn_length; lia).
    rewrite <- (firstn_firstn (skipn (Z.to_nat (lo s)) (expand (rows t)))).
    rewrite (firstn_all (skipn (Z.to_nat (lo s)) (expand (rows t)))). rewrite <- H.
    apply filter_ext_in. intros [y r] Hin. cbn [mkrow r_y fst].
    apply in_combine_l in Hin. unfold zrange in Hin. apply in_map_iff in Hin. destruct Hin as (d & <- & Hd). apply in_seq in Hd.
    destruct (Z.leb_spec (0 + Z.of_nat d) (Z.of_nat (length (expand (rows t))))); [now rewrite andb_true_r|lia].
Qed.
Lemma tr_slice_length s e t : length (tr_slice s e t) = Z.to_nat (hi e (theight t) - lo s + 1).
Proof. unfold tr_slice, theight, width. rewrite firstn_length, skipn_length. unfold hi, lo. destruct e; lia. Qed.
Lemma tr_slice_nth s e t i : (i < length (tr_slice s e t))%nat ->
  nth i (tr_slice s e t) empty_row = nth (Z.to_nat (lo s) + i) (expand (rows t)) empty_row.
Proof. intros Hi. unfold tr_slice in *. rewrite firstn_length in Hi. rewrite nth_firstn_lt by lia. apply nth_skipn'. Qed.
Lemma g_row_nth y t : 0 <= y -> g_row y (abs_t t) = grow_of (nth (Z.to_nat y) (expand (rows t)) empty_row).
Proof. intros _. unfold g_row. cbn [abs_t grows]. change (@nil cell) with (grow_of empty_row). apply map_nth. Qed.

Theorem row_walkers_hold t q : WF t ->
  match q with GTraverse _ _ | GGetRows _ => True | _ => False end -> C08_holds t q.
Proof.
  intros Hwf Hq. unfold C08_holds.
  assert (Hny : forall y, 0 <= ny y t) by (intros; apply norm_coord_nonneg, theight_nonneg).
  assert (Hgo : forall s e, forall2b (robj_meets true true) (m_traverse false s e t)
              (map (fun yy => (yy, g_row yy (abs_t t))) (zint (lo s) (hi e (theight t)))) = true).
  { intros s e. rewrite m_traverse_spec. unfold zint. rewrite <- (tr_slice_length s e t).
    set (n := length (tr_slice s e t)). change (map (fun d : nat => lo s + Z.of_nat d) (seq 0 n)) with (zrange (lo s) n).
    apply (forall2b_map_combine _ _ _ 0 empty_row); [now rewrite zrange_length|].
    rewrite zrange_length. intros i Hi. rewrite (nth_zrange n _ _ Hi), (tr_slice_nth s e t i Hi).
    unfold robj_meets, mkrow. cbn [fst snd r_y r_rep r_h r_val oz_eqb h_detached]. rewrite Z.eqb_refl.
    rewrite g_row_nth by (unfold lo; lia). replace (Z.to_nat (lo s + Z.of_nat i)) with (Z.to_nat (lo s) + i)%nat by (unfold lo; lia).
    unfold grow_of. rewrite cells_eqb_refl. reflexivity. }
  destruct q; try contradiction; cbn [m_get spec_get meets promises_copy expands]; rewrite ?gheight_abs.
  - destruct range as [[y e]|]; unfold m_get_rows.
    + fold (ny y t). fold (ny e t). pose proof (Hgo (Some (ny y t)) (Some (ny e t))) as H. unfold lo, hi in H.
      rewrite Z.max_r in H by apply Hny. exact H.
    + exact (Hgo None None).
  - exact (Hgo s e).
Qed.
