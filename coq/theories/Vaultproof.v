(* Vaultproof.v — the run located through the map, and the three refinement theorems of the vault mutators:
   on a well-formed run list whose map is coherent, insert/set/delete_item are the list operations on [expand]. *)
From Coq Require Import List ZArith Lia Bool Arith.
Import ListNotations.
Require Import Vault.

Section VP.
Variable A : Type.
Notation runs := (runs A).

Lemma wfb_wf (v : runs) : wfb v = true <-> wf v.
Proof.
  unfold wfb, wf. rewrite forallb_forall, Forall_forall. split; intros H r Hr; specialize (H r Hr).
  - apply Nat.leb_le. exact H.
  - apply Nat.leb_le. exact H.
Qed.


Lemma expand_app (v1 v2 : runs) : expand (v1 ++ v2) = expand v1 ++ expand v2.
Proof. induction v1 as [|[n a] v1 IH]; simpl; [reflexivity|]. now rewrite IH, app_assoc. Qed.

Lemma cmap_from_length acc (v : runs) : length (cmap_from acc v) = length v.
Proof. revert acc; induction v as [|[n a] v IH]; simpl; intros; [reflexivity|]. now rewrite IH. Qed.

(* key spec lemma: position p inside run i *)
Lemma bisect_spec : forall (v : runs) acc p,
  wf v -> (acc < p)%Z -> (p <= acc + Z.of_nat (width v))%Z ->
  let i := bisect (cmap_from acc v) p in
  exists b n, nth_error v i = Some (n, b) /\
    let bef := (acc + Z.of_nat (length (expand (firstn i v))))%Z in
    (bef < p <= bef + Z.of_nat n)%Z /\
    nth i (cmap_from acc v) (-1)%Z = (bef + Z.of_nat n)%Z /\
    (match i with 0 => acc | S j => nth j (cmap_from acc v) (-1)%Z end) = bef.
Proof.
  induction v as [|[n a] v IH]; intros acc p Hwf Hlt Hle; unfold width in *; simpl in *.
  - lia.
  - inversion Hwf as [|? ? Hn Hwf']; subst; simpl in Hn.
    rewrite app_length, repeat_length in Hle.
    destruct (Z.ltb_spec (acc + Z.of_nat n) p) as [H|H].
    + specialize (IH (acc + Z.of_nat n)%Z p Hwf' H ltac:(lia)).
      destruct IH as (b & k & Hnth & Hrange & Hcur & Hbef).
      exists b, k. simpl. split; [exact Hnth|].
      rewrite app_length, repeat_length.
      replace (acc + Z.of_nat (n + length (expand (firstn (bisect (cmap_from (acc + Z.of_nat n) v) p) v))))%Z
        with (acc + Z.of_nat n + Z.of_nat (length (expand (firstn (bisect (cmap_from (acc + Z.of_nat n) v) p) v))))%Z by lia.
      split; [exact Hrange|]. split; [exact Hcur|].
      destruct (bisect (cmap_from (acc + Z.of_nat n) v) p) eqn:E; simpl in *; lia.
    + exists a, n. simpl. split; [reflexivity|]. split; [lia|]. split; lia.
Qed.


Lemma firstn_skipn_nth_error (v : runs) i r :
  nth_error v i = Some r -> v = firstn i v ++ r :: skipn (S i) v.
Proof.
  revert i; induction v as [|x v IH]; intros [|i] H; simpl in *; try discriminate.
  - now inversion H.
  - f_equal. now apply IH.
Qed.

Lemma skipn_cons_nth (v : runs) i r : nth_error v i = Some r -> skipn i v = r :: skipn (S i) v.
Proof.
  revert i; induction v as [|x v IH]; intros [|i] H; simpl in *; try discriminate.
  - now inversion H.
  - now apply IH.
Qed.

Lemma firstn_app_exact {B} (l1 l2 : list B) n : n = length l1 -> firstn n (l1 ++ l2) = l1.
Proof. intros ->. rewrite firstn_app, Nat.sub_diag, firstn_all. simpl. now rewrite app_nil_r. Qed.
Lemma skipn_app_exact {B} (l1 l2 : list B) n : n = length l1 -> skipn n (l1 ++ l2) = l2.
Proof. intros ->. rewrite skipn_app, Nat.sub_diag, skipn_all. reflexivity. Qed.

Lemma skipn_app_2 {B} (l1 l2 : list B) k : skipn (length l1 + k) (l1 ++ l2) = skipn k l2.
Proof. induction l1; simpl; auto. Qed.
Lemma Forall_firstn {B} (P : B -> Prop) n l : Forall P l -> Forall P (firstn n l).
Proof. revert n; induction l; intros [|n] H; simpl; auto. inversion H; subst; auto. Qed.
Lemma Forall_skipn {B} (P : B -> Prop) n l : Forall P l -> Forall P (skipn n l).
Proof. revert n; induction l; intros [|n] H; simpl; auto. inversion H; subst; auto. Qed.
Lemma repeat_split {B} (b : B) k n : k <= n -> repeat b n = repeat b k ++ repeat b (n - k).
Proof. intros H. replace n with (k + (n - k)) at 1 by lia. apply repeat_app. Qed.

Theorem insert_item_refines (p : Z) (x : nat * A) (v : runs) :
  wf v -> (0 <= p < Z.of_nat (width v))%Z ->
  exists v', insert_item p x v (cmap v) = Some v' /\
    expand v' = firstn (Z.to_nat p) (expand v) ++ repeat (snd x) (fst x) ++ skipn (Z.to_nat p) (expand v) /\
    (1 <= fst x -> wf v').
Proof.
  intros Hwf Hp. destruct x as [r a].
  pose proof (bisect_spec v (-1)%Z p Hwf ltac:(lia) ltac:(lia)) as Hs.
  cbv zeta in Hs. destruct Hs as (b & n & Hnth & Hrange & Hcur & Hbef).
  unfold insert_item, find_idx, cmap.
  set (i := bisect (cmap_from (-1)%Z v) p) in *.
  assert (Hi : i < length v) by (apply nth_error_Some; congruence).
  rewrite cmap_from_length.
  destruct (Nat.ltb_spec i (length v)) as [_|]; [|lia].
  rewrite Hnth.
  set (L := length (expand (firstn i v))) in *.
  assert (Hbef' : before (cmap_from (-1)%Z v) i = (-1 + Z.of_nat L)%Z).
  { unfold before. destruct i; exact Hbef. }
  rewrite Hbef', Hcur.
  pose proof (firstn_skipn_nth_error v i (n,b) Hnth) as Hv.
  assert (Hexp : expand v = expand (firstn i v) ++ repeat b n ++ expand (skipn (S i) v)).
  { rewrite Hv at 1. rewrite expand_app. reflexivity. }
  destruct (Z.leb_spec 1 (p - (-1 + Z.of_nat L + 1))) as [Hrb|Hrb].
  - (* split the run *)
    eexists; split; [reflexivity|]. split.
    + rewrite !expand_app. cbn [expand app fst snd]. rewrite ?app_nil_r.
      set (rb := Z.to_nat (p - (-1 + Z.of_nat L + 1))).
      set (ra := Z.to_nat (-1 + Z.of_nat L + Z.of_nat n - (-1 + Z.of_nat L) - (p - (-1 + Z.of_nat L + 1)))).
      assert (Hp' : Z.to_nat p = L + rb). { unfold rb. clear -Hrange Hrb Hp. clearbody L. lia. }
      assert (Hn : n = rb + ra). { unfold rb, ra. clear -Hrange Hrb Hp. clearbody L. lia. }
      rewrite Hexp, Hp'. unfold L.
      rewrite firstn_app_2, skipn_app_2.
      rewrite Hn, repeat_app, <- !app_assoc.
      rewrite (firstn_app_exact (repeat b rb)) by now rewrite repeat_length.
      rewrite (skipn_app_exact (repeat b rb)) by now rewrite repeat_length.
      rewrite <- ?app_assoc. reflexivity.
    + intros Hx. unfold wf in *.
      apply Forall_app; split; [now apply Forall_firstn|].
      constructor; [cbn [fst]; clear -Hrange Hrb; clearbody L; lia|].
      constructor; [exact Hx|].
      constructor; [cbn [fst]; clear -Hrange Hrb; clearbody L; lia|].
      now apply Forall_skipn.
  - (* insert before the run *)
    eexists; split; [reflexivity|]. split.
    + rewrite !expand_app. cbn [expand app fst snd]. rewrite ?app_nil_r.
      assert (Hp' : Z.to_nat p = L). { clear -Hrange Hrb Hp. clearbody L. lia. }
      rewrite (skipn_cons_nth v i (n,b) Hnth). simpl.
      rewrite Hexp, Hp'. unfold L.
      rewrite firstn_app_exact by reflexivity.
      rewrite skipn_app_exact by reflexivity.
      reflexivity.
    + intros Hx. unfold wf in *.
      apply Forall_app; split; [now apply Forall_firstn|].
      constructor; [exact Hx|]. now apply Forall_skipn.
Qed.

Lemma drop_pos_expand k (v : runs) : expand (drop_pos k v) = skipn k (expand v).
Proof.
  revert k; induction v as [|[n b] v IH]; intros k.
  - destruct k; simpl; now rewrite ?skipn_nil.
  - destruct k as [|k]; [reflexivity|].
    cbn [drop_pos]. destruct (Nat.leb_spec n (S k)) as [H|H].
    + rewrite IH. cbn [expand].
      replace (S k) with (length (repeat b n) + (S k - n)) at 2 by (rewrite repeat_length; lia).
      now rewrite skipn_app_2.
    + cbn [expand]. rewrite skipn_app, repeat_length.
      replace (S k - n) with 0 by lia. rewrite skipn_O.
      f_equal. rewrite (repeat_split b (S k) n) by lia.
      now rewrite skipn_app_exact by now rewrite repeat_length.
Qed.

Lemma drop_pos_wf k (v : runs) : wf v -> wf (drop_pos k v).
Proof.
  unfold wf. revert k; induction v as [|[n b] v IH]; intros k H.
  - destruct k; constructor.
  - destruct k as [|k]; [exact H|]. inversion H; subst.
    cbn [drop_pos]. destruct (Nat.leb_spec n (S k)); [now apply IH|].
    constructor; auto. simpl in *. lia.
Qed.


Theorem set_item_refines (p : Z) (x : nat * A) (v : runs) :
  wf v -> (0 <= p < Z.of_nat (width v))%Z -> 1 <= fst x ->
  exists v', set_item p x v (cmap v) = Some v' /\
    expand v' = firstn (Z.to_nat p) (expand v) ++ repeat (snd x) (fst x)
                ++ skipn (Z.to_nat p + fst x) (expand v) /\
    wf v'.
Proof.
  intros Hwf Hp Hx. destruct x as [r a]. cbn [fst snd] in *.
  pose proof (bisect_spec v (-1)%Z p Hwf ltac:(lia) ltac:(lia)) as Hs.
  cbv zeta in Hs. destruct Hs as (b & n & Hnth & Hrange & Hcur & Hbef).
  unfold set_item, find_idx, cmap.
  set (i := bisect (cmap_from (-1)%Z v) p) in *.
  assert (Hi : i < length v) by (apply nth_error_Some; congruence).
  rewrite cmap_from_length.
  destruct (Nat.ltb_spec i (length v)) as [_|]; [|lia].
  rewrite Hnth.
  set (L := length (expand (firstn i v))) in *.
  assert (Hbef' : before (cmap_from (-1)%Z v) i = (-1 + Z.of_nat L)%Z).
  { unfold before. destruct i; exact Hbef. }
  rewrite Hbef', Hcur.
  pose proof (firstn_skipn_nth_error v i (n,b) Hnth) as Hv.
  assert (Hexp : expand v = expand (firstn i v) ++ repeat b n ++ expand (skipn (S i) v)).
  { rewrite Hv at 1. rewrite expand_app. reflexivity. }
  set (rbz := (p - (-1 + Z.of_nat L + 1))%Z).
  set (restz := (-1 + Z.of_nat L + Z.of_nat n - (-1 + Z.of_nat L) - rbz)%Z).
  assert (Hrbn : Z.to_nat p = L + Z.to_nat rbz) by (unfold rbz; clear -Hrange Hp; clearbody L; lia).
  assert (Hn : n = Z.to_nat rbz + Z.to_nat restz) by (unfold restz, rbz; clear -Hrange Hp; clearbody L; lia).
  assert (Hrest1 : 1 <= Z.to_nat restz) by (unfold restz, rbz; clear -Hrange Hp; clearbody L; lia).
  cbn [fst].
  assert (Hrep : repeat b n = repeat b (Z.to_nat rbz) ++ repeat b (Z.to_nat restz)).
  { rewrite <- repeat_app. f_equal. exact Hn. }
  rewrite Hrep in Hexp. rewrite <- app_assoc in Hexp.
  assert (Htail : expand (drop_pos r ((Z.to_nat restz, b) :: skipn (S i) v))
                  = skipn (Z.to_nat p + r) (expand v)).
  { rewrite drop_pos_expand. cbn [expand]. rewrite Hexp, Hrbn. unfold L.
    replace (length (expand (firstn i v)) + Z.to_nat rbz + r)
       with (length (expand (firstn i v)) + (Z.to_nat rbz + r)) by lia.
    rewrite skipn_app_2.
    replace (Z.to_nat rbz + r) with (length (repeat b (Z.to_nat rbz)) + r) by now rewrite repeat_length.
    now rewrite skipn_app_2. }
  assert (Hfirst : firstn (Z.to_nat p) (expand v) = expand (firstn i v) ++ repeat b (Z.to_nat rbz)).
  { rewrite Hexp, Hrbn. unfold L. rewrite firstn_app_2. f_equal.
    now rewrite firstn_app_exact by now rewrite repeat_length. }
  assert (Hwft : wf (drop_pos r ((Z.to_nat restz, b) :: skipn (S i) v))).
  { apply drop_pos_wf. constructor; [exact Hrest1|]. now apply Forall_skipn. }
  destruct (Z.leb_spec 1 rbz) as [Hrb|Hrb].
  - eexists; split; [reflexivity|]. split.
    + rewrite expand_app. cbn [expand]. rewrite Htail, Hfirst, <- !app_assoc. reflexivity.
    + apply Forall_app; split; [now apply Forall_firstn|].
      constructor; [cbn [fst]; lia|]. constructor; [exact Hx|]. exact Hwft.
  - eexists; split; [reflexivity|]. split.
    + rewrite expand_app. cbn [expand]. rewrite Htail, Hfirst.
      replace (Z.to_nat rbz) with 0 by lia. cbn [repeat]. rewrite app_nil_r. reflexivity.
    + apply Forall_app; split; [now apply Forall_firstn|].
      constructor; [exact Hx|]. exact Hwft.
Qed.

Lemma firstn_repeat' {B} (b : B) k n : k <= n -> firstn k (repeat b n) = repeat b k.
Proof. revert n; induction k; intros [|n] H; simpl; try lia; auto. f_equal. apply IHk. lia. Qed.
Lemma skipn_repeat' {B} (b : B) k n : skipn k (repeat b n) = repeat b (n - k).
Proof. revert n; induction k; intros [|n]; simpl; auto. Qed.

Theorem delete_item_refines (p : Z) (v : runs) :
  wf v -> (0 <= p < Z.of_nat (width v))%Z ->
  exists v', delete_item p v (cmap v) = Some v' /\
    expand v' = firstn (Z.to_nat p) (expand v) ++ skipn (S (Z.to_nat p)) (expand v) /\ wf v'.
Proof.
  intros Hwf Hp.
  pose proof (bisect_spec v (-1)%Z p Hwf ltac:(lia) ltac:(lia)) as Hs.
  cbv zeta in Hs. destruct Hs as (b & n & Hnth & Hrange & Hcur & Hbef).
  unfold delete_item, find_idx, cmap.
  set (i := bisect (cmap_from (-1)%Z v) p) in *.
  assert (Hi : i < length v) by (apply nth_error_Some; congruence).
  rewrite cmap_from_length.
  destruct (Nat.ltb_spec i (length v)) as [_|]; [|lia].
  rewrite Hnth.
  set (L := length (expand (firstn i v))) in *.
  assert (Hbef' : before (cmap_from (-1)%Z v) i = (-1 + Z.of_nat L)%Z).
  { unfold before. destruct i; exact Hbef. }
  rewrite Hbef', Hcur.
  pose proof (firstn_skipn_nth_error v i (n,b) Hnth) as Hv.
  assert (Hexp : expand v = expand (firstn i v) ++ repeat b n ++ expand (skipn (S i) v)).
  { rewrite Hv at 1. rewrite expand_app. reflexivity. }
  set (k := Z.to_nat (p - Z.of_nat L)).                 (* offset inside the run *)
  assert (Hpk : Z.to_nat p = L + k) by (unfold k; clear -Hrange Hp; clearbody L; lia).
  assert (Hkn : k < n) by (unfold k; clear -Hrange Hp; clearbody L; lia).
  assert (Hnpos : 1 <= n) by lia.
  (* the list-level effect on the run: one element fewer *)
  assert (Hrun : firstn k (repeat b n) ++ skipn (S k) (repeat b n) = repeat b (n - 1)).
  { rewrite firstn_repeat' by lia. rewrite skipn_repeat', <- repeat_app. f_equal. lia. }
  assert (Hlist : firstn (Z.to_nat p) (expand v) ++ skipn (S (Z.to_nat p)) (expand v)
                  = expand (firstn i v) ++ repeat b (n - 1) ++ expand (skipn (S i) v)).
  { rewrite Hexp, Hpk. unfold L.
    rewrite firstn_app_2.
    replace (S (length (expand (firstn i v)) + k)) with (length (expand (firstn i v)) + S k) by lia.
    rewrite skipn_app_2.
    rewrite firstn_app, skipn_app, repeat_length.
    replace (k - n) with 0 by lia. replace (S k - n) with 0 by lia.
    rewrite firstn_O, skipn_O, app_nil_r, <- app_assoc.
    f_equal. rewrite app_assoc, Hrun. reflexivity. }
  destruct (Z.leb_spec 1 (-1 + Z.of_nat L + Z.of_nat n - (-1 + Z.of_nat L) - 1)) as [H|H].
  - eexists; split; [reflexivity|]. split.
    + rewrite expand_app. cbn [expand]. rewrite Hlist. f_equal. f_equal. f_equal. lia.
    + apply Forall_app; split; [now apply Forall_firstn|].
      constructor; [cbn [fst]; lia|]. now apply Forall_skipn.
  - eexists; split; [reflexivity|]. split.
    + rewrite expand_app, Hlist. replace (n - 1) with 0 by lia. reflexivity.
    + apply Forall_app; split; [now apply Forall_firstn|now apply Forall_skipn].
Qed.

End VP.

Arguments wfb_wf {A}.
Arguments expand_app {A}.
Arguments cmap_from_length {A}.
Arguments bisect_spec {A}.
Arguments firstn_skipn_nth_error {A}.
Arguments skipn_cons_nth {A}.
Arguments insert_item_refines {A}.
Arguments drop_pos_expand {A}.
Arguments drop_pos_wf {A}.
Arguments set_item_refines {A}.
Arguments delete_item_refines {A}.
