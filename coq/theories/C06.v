(* Property C06 — statements only.  Each is closed by [exact] of a lemma proved elsewhere. *)
From Coq Require Import List ZArith NArith. Import ListNotations.
Require Import Codec Typed Typedproof.

Theorem C06_bool_roundtrip_et : forall b : bool,
  match set_et (VBool b) with Ok (e, _) => get_et e = Ok (VBool b) | Err => False end.
Proof. exact et_bool_roundtrip. Qed.
Print Assumptions C06_bool_roundtrip_et.
