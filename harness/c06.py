"""C06: typed values survive the trip through Cell / Row / Table / VarSet / UserFieldDecl / UserDefined / user-defined metadata.

Theorems: coq/theories/C06.v (model Typed.v on top of Codec.v).  Correspondence: boundary values x carriers x three legs
(direct, re-parse of the element, document save / reload through BytesIO).  After every write and before every read the
element is abstracted by an independent lxml walk (for the reload leg: of the bytes in the saved zip) to its type and payload
attributes; Coq (TypedChk.chk06) evaluates on those: the model's set, the lexical predicate, the model's get from the same
element, and "equal value of the corresponding type"."""
import sys, io, json, random, time, zipfile
from pathlib import Path
sys.path.insert(0, str(Path(__file__).resolve().parent))
import common
from codec_gen import cstr, cz, copt, limited
from datetime import date, datetime, timedelta, timezone
from decimal import Decimal
from lxml import etree

PROP = "C06"
HEADER = ("Require Import Codec Typed TypedChk. From Coq Require Import List ZArith NArith Bool. Import ListNotations.\n"
          "Open Scope N_scope.\nDefinition chk := chk06.\n")
LAYER = {1: "value: the value read back is not an equal value of the corresponding type",
         2: "lexical: the attribute written is outside the ODF lexical space of its value type",
         3: "set: the type / payload attribute written differs from the model's",
         4: "get: the value read differs from the model's reading of the same attributes",
         5: "persistence: the stored attributes changed through re-parse or save / reload"}
FIDELITY = 8
MODEL_ERR = 7
NS = dict(office="urn:oasis:names:tc:opendocument:xmlns:office:1.0", text="urn:oasis:names:tc:opendocument:xmlns:text:1.0",
          table="urn:oasis:names:tc:opendocument:xmlns:table:1.0", meta="urn:oasis:names:tc:opendocument:xmlns:meta:1.0")
Q = lambda p, n: "{%s}%s" % (NS[p], n)
US = timedelta(microseconds=1)
import datetime as _dtmod
EVAL_NS = dict(datetime=_dtmod, Decimal=Decimal)       # values are stored in replays / corpus as their repr


# ---------------------------------------------------------------- abstraction (independent of odfdo's getters)
def node_of(obj):
    return obj._Element__element


def abs_elem(node, meta=False):
    """lxml node -> Coq term  E type bool value date string time text"""
    if node is None:
        return "(E None None None None None None None)"
    g = lambda n: node.get(Q("office", n))
    if meta:
        f = [node.get(Q("meta", "value-type")), None, None, None, None, None, node.text or None]
    else:
        f = [g("value-type"), g("boolean-value"), g("value"), g("date-value"), g("string-value"), g("time-value"), None]
    return "(E %s)" % " ".join(copt(x, cstr) for x in f)


def c_dt(d):
    off = d.utcoffset()
    if off is not None:
        if off.microseconds:
            return None
        off = off.days * 86400 + off.seconds
    return "(DT %d %d %d %d %d %d %d %s)" % (d.year, d.month, d.day, d.hour, d.minute, d.second, d.microsecond, copt(off, cz))


def c_val(v):
    if v is None: return "VNone"
    if v is True: return "(VBool true)"
    if v is False: return "(VBool false)"
    if type(v) is int: return "(VInt %s)" % cz(v)
    if type(v) is float:
        return "(VFloat %s)" % cstr(repr(v))
    if type(v) is Decimal:
        if not v.is_finite(): return "VOther"
        sg, digits, exp = v.as_tuple()
        return "(VDec (mkdec %s %d %s))" % ("true" if sg else "false", int("".join(map(str, digits)) or "0"), cz(exp))
    if type(v) is str: return "(VStr %s)" % cstr(v)
    if type(v) is datetime:
        t = c_dt(v)
        return "VOther" if t is None else "(VDateTime %s)" % t
    if type(v) is date: return "(VDate %d %d %d)" % (v.year, v.month, v.day)
    if type(v) is timedelta: return "(VDur %s)" % cz(v // US)
    return "VOther"


def c_res(ok, r):
    return "(Ok %s)" % c_val(r) if ok else "Err"


def vclass(v):
    if v is None: return "None"
    if isinstance(v, bool): return "bool"
    if isinstance(v, int): return "int" + ("-huge" if abs(v) >= 2 ** 63 else "")
    if isinstance(v, float): return "float" + ("-exp" if "e" in repr(v) else "")
    if isinstance(v, Decimal): return "Decimal" + ("-exp" if "E" in str(v) else "")
    if isinstance(v, str):
        if v in ("true", "false"): return "str-true-false"
        if any(not (c in "\t\n\r" or 32 <= ord(c) <= 0xD7FF or 0xE000 <= ord(c) <= 0xFFFD or ord(c) >= 0x10000) for c in v): return "str-not-xml"
        return "str" + ("-empty" if v == "" else "-ws" if v != v.strip() or "\n" in v or "\t" in v else "")
    if isinstance(v, datetime):
        off = v.utcoffset()
        return "datetime" + ("" if off is None else "-tz" if off.seconds % 60 == 0 else "-tz-seconds") + ("-micro" if v.microsecond else "")
    if isinstance(v, date): return "date"
    if isinstance(v, timedelta): return "timedelta" + ("-subsecond" if v.microseconds else "") + ("-neg" if v < timedelta(0) else "")
    return "other"


# ---------------------------------------------------------------- values
def boundary_values(tier, rng):
    tzs = [None, timezone.utc, timezone(timedelta(hours=5, minutes=30)), timezone(timedelta(hours=-11)), timezone(timedelta(hours=14)),
           timezone(timedelta(hours=-14)), timezone(timedelta(hours=23, minutes=59)), timezone(timedelta(seconds=1))]
    vals = [None, True, False,
            0, 1, -1, 7, 10, 255, -255, 2 ** 31, -2 ** 31, 2 ** 63, 10 ** 30, -10 ** 30, 10 ** 100 + 1, 123456789012345678901234567890,
            0.5, -0.0, 0.0, 1.0, 3.0, -2.5, 1e300, 1e-300, 0.1, 123456789.123456789, 1e16, 1e15, 123456789012345680.0, 1e-5, 0.0001, 5e-324,
            1.7976931348623157e308, 1e22, 1e21, 2.5e-7, -1e-7, 100.0, 1e100,
            Decimal("1.10"), Decimal("-0.001"), Decimal("1E+5"), Decimal("100"), Decimal("0"), Decimal("0.00"), Decimal("-0"), Decimal("1E-7"),
            Decimal("0.000001"), Decimal("0.0000001"), Decimal("123456789.123456789"), Decimal("1E+30"), Decimal("12345678901234567890.5"),
            Decimal("5E-1"), Decimal("-1E+2"), Decimal("0E+3"), Decimal("0E-8"), Decimal("10.0"), Decimal("-7"),
            "", " ", "  a  b ", "a\tb\nc", "<&>\"'", "é€", "true", "false", "True", "2024-01-01", "12", "None", "\r", "a\rb", "\U0001F600",
            " leading", "\n", "PT1S", "nan", "2024-01-01T00:00:00", "x" * 300, "]]>", "&amp;", " ", " ",
            date(1, 1, 1), date(9999, 12, 31), date(2024, 2, 29), date(1900, 3, 1), date(999, 9, 9),
            datetime(1, 1, 1), datetime(9999, 12, 31, 23, 59, 59, 999999), datetime(2024, 1, 1, 12, 0, tzinfo=timezone.utc),
            datetime(2024, 1, 1, 12, 0, 0, 1, tzinfo=tzs[2]), datetime(2024, 1, 1), datetime(2024, 2, 29, 23, 59, 59, tzinfo=tzs[3]),
            datetime(5, 6, 7, 8, 9, 10, 123000, tzinfo=tzs[4]), datetime(2024, 12, 31, 0, 0, 0, 500000, tzinfo=tzs[5]),
            datetime(2000, 1, 1, 0, 0, 1, tzinfo=tzs[6]), datetime(2024, 1, 1, 12, 0, 0, 999999),
            timedelta(0), timedelta(seconds=1), timedelta(seconds=-1), timedelta(days=3, seconds=5), timedelta(days=-2, seconds=7), timedelta(days=400),
            timedelta(seconds=3599), timedelta(seconds=3600), timedelta(seconds=86399), timedelta(days=1), timedelta(days=-1), timedelta(days=36500, seconds=86399),
            timedelta(days=999999999, seconds=86399), timedelta(days=-999999999), timedelta(hours=100, seconds=-1),
            # outside the domain of the property (compared with the model only)
            "\x00", "a\x0bb", "\ud800", "￾",
            # sub-second durations (F71) and second-granular offsets (no lexical claim)
            timedelta(seconds=1, microseconds=500000), timedelta(microseconds=1), timedelta(microseconds=-500000),
            datetime(2024, 1, 1, 12, 0, tzinfo=tzs[7])]
    n = 40 if tier == "quick" else 1500
    for _ in range(n):
        k = rng.randint(0, 7)
        if k == 0: vals.append(rng.randint(-10 ** rng.randint(1, 40), 10 ** rng.randint(1, 40)))
        elif k == 1: vals.append(rng.choice([rng.random(), rng.uniform(-1e6, 1e6), rng.uniform(-1, 1) * 10 ** rng.randint(-300, 300), float(rng.randint(-10 ** 6, 10 ** 6))]))
        elif k == 2:
            vals.append(Decimal((rng.randint(0, 1), tuple(rng.randint(0, 9) for _ in range(rng.randint(1, 25))), rng.randint(-30, 12))))
        elif k == 3:
            vals.append("".join(rng.choice("a é<&\"'\t\n  0true 中") for _ in range(rng.randint(0, 12))))
        elif k == 4:
            y = rng.randint(1, 9999); m = rng.randint(1, 12); vals.append(date(y, m, rng.randint(1, 28)))
        elif k in (5, 6):
            y = rng.randint(1, 9999)
            vals.append(datetime(y, rng.randint(1, 12), rng.randint(1, 28), rng.randint(0, 23), rng.randint(0, 59), rng.randint(0, 59),
                                 rng.choice([0, 0, 1, 999999, rng.randint(0, 999999)]),
                                 tzinfo=rng.choice(tzs[:7] + [timezone(timedelta(minutes=rng.randint(-1439, 1439)))])))
        else:
            vals.append(timedelta(seconds=rng.choice([rng.randint(-10 ** 5, 10 ** 5), rng.randint(-10 ** 9, 10 ** 9), rng.randint(-86399999913600, 86399999999999)])))
    return vals


# ---------------------------------------------------------------- carriers
# name -> (setk, build(v) -> object, [(getk, read(obj))], reparse(obj) -> object, node(obj) -> lxml node holding the attributes)
def carriers(O):
    Cell, Row, Table, Element = O.Cell, O.Row, O.Table, O.Element
    from odfdo.variable import VarSet, UserFieldDecl, UserDefined
    reparse = lambda o: Element.from_tag(o.serialize())
    ident = lambda o: node_of(o)

    def cell_setter(v):
        c = Cell(); c.value = v; return c

    def cell_set_value(v):
        c = Cell(42); c.set_value(v); return c

    def row_build(v):
        r = Row(); r.set_value(1, v); return r

    def table_build(v):
        t = Table("t"); t.set_value((1, 2), v); return t

    def varset2(v):
        e = VarSet(name="n", value="before"); e.set_value(v); return e

    def ufd2(v):
        e = UserFieldDecl(name="n", value=12); e.set_value(v); return e

    def cell_in(node, x, y=None):
        """independent walk: the x-th logical cell of a row node (of the y-th logical row of a table node)"""
        if y is not None:
            k = 0
            for r in node.iter(Q("table", "table-row")):
                rep = int(r.get(Q("table", "number-rows-repeated")) or 1)
                if k <= y < k + rep:
                    node = r; break
                k += rep
            else:
                return None
        k = 0
        for c in node:
            if c.tag != Q("table", "table-cell"):
                continue
            rep = int(c.get(Q("table", "number-columns-repeated")) or 1)
            if k <= x < k + rep:
                return c
            k += rep
        return None

    cellreads = [("GetET", lambda c: c.get_value()), ("GetCellValue", lambda c: c.value)]
    et = [("GetET", lambda e: e.get_value())]
    return {
        "Cell(v)": ("SetET", lambda v: Cell(v), cellreads, reparse, ident),
        "Cell.set_value": ("SetET", cell_set_value, cellreads, reparse, ident),
        "Cell.value=": ("SetCellValue", cell_setter, cellreads, reparse, ident),
        "Row.set_value": ("SetET", row_build, [("GetET", lambda r: r.get_value(1))], reparse, lambda r: cell_in(node_of(r), 1)),
        "Table.set_value": ("SetET", table_build, [("GetET", lambda t: t.get_value((1, 2)))], reparse, lambda t: cell_in(node_of(t), 1, 2)),
        "VarSet(v)": ("SetET", lambda v: VarSet(name="n", value=v), et, reparse, ident),
        "VarSet.set_value": ("SetET", varset2, et, reparse, ident),
        "UserFieldDecl(v)": ("SetET", lambda v: UserFieldDecl(name="n", value=v), et, reparse, ident),
        "UserFieldDecl.set_value": ("SetET", ufd2, et, reparse, ident),
        "UserDefined(v)": ("SetET", lambda v: UserDefined(name="n", value=v), et, reparse, ident),
    }, cell_in


def drive(O, vals, with_docs=True):
    """returns list of (carrier, value index, coq case, value class)"""
    Document, Element = O.Document, O.Element
    CAR, cell_in = carriers(O)
    out = []
    per = {}        # (carrier, i) -> dict(setk, v, written, reads=[...])
    for name, (setk, build, readers, reparse, nodef) in CAR.items():
        for i, v in enumerate(vals):
            ok, obj = limited(lambda: build(v))
            if not ok:
                if isinstance(obj, (MemoryError, KeyboardInterrupt)): raise obj
                per[(name, i)] = dict(setk=setk, written="Err", reads=[], obj=None)
                continue
            okn, node = limited(lambda: nodef(obj))
            rec = dict(setk=setk, written="(Ok %s)" % abs_elem(node if okn else None), reads=[], obj=obj)
            for gk, rd in readers:                                  # leg 1: direct
                okr, r = limited(lambda: rd(obj))
                rec["reads"].append("(%s, %s, %s)" % (gk, abs_elem(node if okn else None), c_res(okr, r)))
            ok2, obj2 = limited(lambda: reparse(obj))                # leg 2: re-parse of the serialised element
            if ok2:
                okn2, node2 = limited(lambda: nodef(obj2))
                for gk, rd in readers:
                    okr, r = limited(lambda: rd(obj2))
                    rec["reads"].append("(%s, %s, %s)" % (gk, abs_elem(node2 if okn2 else None), c_res(okr, r)))
            else:
                rec["reads"].append("(GetET, (E None None None None None None None), Err)")
            per[(name, i)] = rec
    # Meta: direct leg
    meta_doc = Document("text")
    for i, v in enumerate(vals):
        ok, _ = limited(lambda: meta_doc.meta.set_user_defined_metadata("k%d" % i, v))
        if not ok:
            per[("Meta", i)] = dict(setk="SetMeta", written="Err", reads=[], obj=None); continue
        node = [n for n in node_of(meta_doc.meta.root).iter(Q("meta", "user-defined")) if n.get(Q("meta", "name")) == "k%d" % i]
        a = abs_elem(node[0] if node else None, meta=True)
        okr, r = limited(lambda: meta_doc.meta.get_user_defined_metadata()["k%d" % i])
        if not okr:      # one unreadable entry must not hide the others: read it alone
            okr, r = limited(lambda: meta_doc.meta.get_user_defined_metadata_of_name("k%d" % i)["value"])
        per[("Meta", i)] = dict(setk="SetMeta", written="(Ok %s)" % a, reads=["(GetMeta, %s, %s)" % (a, c_res(okr, r))], obj=True)
        if not okr:
            limited(lambda: meta_doc.meta.set_user_defined_metadata("k%d" % i, "unreadable"))
    if with_docs:
        # leg 3: documents saved to BytesIO and reopened; the stored attributes are read from the zip bytes with lxml
        sheet = Document("spreadsheet"); sheet.body.clear()
        tabs = {}
        for name in ("Cell(v)", "Cell.value=", "Table.set_value", "Row.set_value"):
            t = O.Table(name); tabs[name] = t
            for i, v in enumerate(vals):
                rec = per[(name, i)]
                if rec["obj"] is None:
                    if name == "Row.set_value": t.append_row(O.Row())
                    else: t.set_value((0, i), "unset")
                    continue
                if name.startswith("Cell"):
                    limited(lambda: t.set_cell((0, i), rec["obj"]))
                elif name == "Table.set_value":
                    limited(lambda: t.set_value((0, i), v))
                else:
                    r = O.Row(); r.set_value(0, v); limited(lambda: t.append_row(r))
            sheet.body.append(t)
        bio = io.BytesIO(); sheet.save(bio)
        raw = etree.fromstring(zipfile.ZipFile(io.BytesIO(bio.getvalue())).read("content.xml"))
        rawtabs = {t.get(Q("table", "name")): t for t in raw.iter(Q("table", "table"))}
        doc2 = Document(io.BytesIO(bio.getvalue()))
        for name in tabs:
            t2 = doc2.body.get_table(name=name)
            for i, v in enumerate(vals):
                rec = per[(name, i)]
                if rec["obj"] is None: continue
                a = abs_elem(cell_in(rawtabs[name], 0, i))
                okr, r = limited(lambda: t2.get_value((0, i)))
                rec["reads"].append("(GetET, %s, %s)" % (a, c_res(okr, r)))
                if name.startswith("Cell"):
                    okr, r = limited(lambda: t2.get_cell((0, i)).value)
                    rec["reads"].append("(GetCellValue, %s, %s)" % (a, c_res(okr, r)))
        # text document with the fields
        tdoc = Document("text"); tdoc.body.clear()
        kinds = [("VarSet(v)", "variable-set"), ("UserFieldDecl(v)", "user-field-decl"), ("UserDefined(v)", "user-defined")]
        for name, tag in kinds:
            for i, v in enumerate(vals):
                rec = per[(name, i)]
                if rec["obj"] is None: continue
                p = O.Paragraph(""); rec["obj"].set_attribute("text:name", "%s%d" % (tag, i)); p.append(rec["obj"]); tdoc.body.append(p)
        bio = io.BytesIO(); tdoc.save(bio)
        raw = etree.fromstring(zipfile.ZipFile(io.BytesIO(bio.getvalue())).read("content.xml"))
        doc2 = Document(io.BytesIO(bio.getvalue()))
        for name, tag in kinds:
            rawn = {n.get(Q("text", "name")): n for n in raw.iter(Q("text", tag))}
            got = {e.get_attribute("text:name"): e for e in doc2.body.get_elements("descendant::text:" + tag)}
            for i, v in enumerate(vals):
                rec = per[(name, i)]
                if rec["obj"] is None: continue
                key = "%s%d" % (tag, i)
                okr, r = limited(lambda: got[key].get_value())
                rec["reads"].append("(GetET, %s, %s)" % (abs_elem(rawn.get(key)), c_res(okr, r)))
        # metadata
        bio = io.BytesIO(); meta_doc.save(bio)
        raw = etree.fromstring(zipfile.ZipFile(io.BytesIO(bio.getvalue())).read("meta.xml"))
        rawn = {n.get(Q("meta", "name")): n for n in raw.iter(Q("meta", "user-defined"))}
        doc2 = Document(io.BytesIO(bio.getvalue()))
        for i, v in enumerate(vals):
            rec = per[("Meta", i)]
            if rec["obj"] is None or "Err)" in rec["reads"][0]: continue
            okr, r = limited(lambda: doc2.meta.get_user_defined_metadata_of_name("k%d" % i)["value"])
            rec["reads"].append("(GetMeta, %s, %s)" % (abs_elem(rawn.get("k%d" % i), meta=True), c_res(okr, r)))
    for (name, i), rec in per.items():
        out.append((name, i, "(%s, %s, %s, [%s])" % (rec["setk"], c_val(vals[i]), rec["written"], "; ".join(rec["reads"])), vclass(vals[i])))
    return out


def py_same(v, r):
    """direct Python oracle of 'equal value of the corresponding type' (DESIGN.md C06)"""
    if v is None: return r is None
    if isinstance(v, bool): return r is v
    if isinstance(v, (int, Decimal)): return type(r) in (int, Decimal) and r == v
    if isinstance(v, float): return type(r) in (int, Decimal) and r == Decimal(repr(v))
    if isinstance(v, str): return type(r) is str and r == v
    if isinstance(v, datetime): return isinstance(r, datetime) and r == v and r.utcoffset() == v.utcoffset() and (r.tzinfo is None) == (v.tzinfo is None)
    if isinstance(v, date): return isinstance(r, datetime) and r == datetime(v.year, v.month, v.day) and r.tzinfo is None
    if isinstance(v, timedelta): return r == v
    return False


def py_oracle(O, vals):
    """first (carrier, value) on which the property fails on the direct leg, or None; used only when the Coq side broke"""
    from odfdo.variable import VarSet, UserFieldDecl, UserDefined
    def cellv(v):
        c = O.Cell(); c.value = v; return c.value
    def meta(v):
        d = py_oracle.doc = getattr(py_oracle, "doc", None) or O.Document("text")
        d.meta.set_user_defined_metadata("k", v); return d.meta.get_user_defined_metadata_of_name("k")["value"]
    legs = {"Cell(v)": lambda v: O.Cell(v).get_value(), "Cell.value=": cellv, "VarSet(v)": lambda v: VarSet(name="n", value=v).get_value(),
            "UserFieldDecl(v)": lambda v: UserFieldDecl(name="n", value=v).get_value(), "UserDefined(v)": lambda v: UserDefined(name="n", value=v).get_value(), "Meta": meta}
    for v in vals:
        vc = vclass(v)
        if vc in ("str-not-xml", "other") or (isinstance(v, float) and v != v) or (isinstance(v, float) and v in (float("inf"), float("-inf"))):
            continue
        for name, f in legs.items():
            if name == "Meta" and v is None:
                continue
            ok, r = limited(lambda: f(v))
            if not ok or not py_same(v, r):
                return name, v
    return None


def finding_key(name, vc):
    group = "Meta" if name == "Meta" else "Cell.value" if name == "Cell.value=" else "ElementTyped"
    return "%s/%s" % (group, vc)


def run(tier, seed, replay=None):
    t0 = time.time(); rng = random.Random(seed)
    O = common.use_repo()
    proofs = common.build_proofs(PROP, extra_targets=("TypedChk",))
    corpus = [json.load(open(f))["case"] for f in sorted((common.ROOT / "corpus" / PROP).glob("*.json"))]
    if replay:
        rp = json.load(open(replay))["case"]
        vals = [eval(rp["value"], EVAL_NS)]
        only = rp["carrier"]
    else:
        ev = lambda c: eval(c["value"], EVAL_NS)
        vals = [ev(c) for c in corpus] + boundary_values(tier, rng)
        only = None
    driven = []
    chunk = 150
    for k in range(0, len(vals), chunk):
        part = drive(O, vals[k:k + chunk])
        driven += [(n, i + k, c, vc) for n, i, c, vc in part]
    if only:
        driven = [d for d in driven if d[0] == only]
    cases = [d[2] for d in driven]
    bad, errors = common.run_shards(HEADER, cases, "chk", "c06", shard=120)
    hard = {i: c for i, c in bad.items() if c not in (FIDELITY, MODEL_ERR)}
    for i, c in bad.items():
        if c == MODEL_ERR:
            errors.append("model error: Typed.dec_of_text (str_of_dec d) is not d for %s" % driven[i][2][:200])
    known = {e["key"]: e for e in common.known_findings(PROP)}
    violations, known_seen, reported, per_group = [], [], set(), {}
    for i in sorted(hard):
        name, vi, coq, vc = driven[i]
        key = finding_key(name, vc)
        if key in known:
            if key not in reported:
                reported.add(key); known_seen.append("%s (%s): %s" % (key, LAYER[hard[i]].split(":")[0], known[key]["description"]))
            continue
        group = key.split("-")[0]          # writer group / type
        if (key, hard[i]) in reported or per_group.get(group, 0) >= 2 or len(violations) >= 16:
            continue
        reported.add((key, hard[i])); per_group[group] = per_group.get(group, 0) + 1
        rp = common.write_replay(PROP, seed, "%d" % i, dict(layer=LAYER[hard[i]], code=hard[i], input_class=key,
                                 case=dict(carrier=name, value=repr(vals[vi])), coq_case=coq, known_finding_key=None))
        violations.append((rp, False))
    hard_found = bool(violations)
    if ((not proofs["ok"]) or errors) and not hard_found:
        # look for a concrete failing input with the direct oracle before giving the no-input verdict
        pool = vals if tier == "thorough" or replay else vals + boundary_values("thorough", random.Random(seed))
        found = py_oracle(O, pool)
        if found:
            rp = common.write_replay(PROP, seed, "oracle", dict(layer="python-oracle: the property fails on this input (direct leg)",
                                     case=dict(carrier=found[0], value=repr(found[1])), input_class=finding_key(found[0], vclass(found[1]))))
            violations.append((rp, False)); hard_found = True
    violations += common.proof_violation(PROP, seed, proofs, errors, hard_found)
    hist, chist = {}, {}
    for n, i, c, vc in driven:
        hist[vc] = hist.get(vc, 0) + 1; chist[n] = chist.get(n, 0) + 1
    distinct = len({common.digest((n, repr(vals[i]))) for n, i, c, vc in driven if vals[i] is not None})
    reads = sum(c.count("(Get") for c in cases)
    coverage = dict(
        trusted_base=["lxml (parse / serialise; attribute and text escaping) and zipfile on the re-parse and save / reload legs",
                      "CPython repr(float) (a float is identified with its repr; float(repr(x)) == x) and decimal.Decimal's parser / printer, modelled by Typed.dec_of_text / str_of_dec and compared here on every numeric case",
                      "the abstraction of an element to (value-type, boolean-value, value, date-value, string-value, time-value | meta text) by an lxml walk",
                      "modelled in Typed.v: ElementTyped.set_value_and_type / _get_typed_value, Cell.value setter and getter, Meta.set_user_defined_metadata / _get_meta_value_full; Codec.v for the codecs"],
        evaluations=len(cases), distinct_nontrivial=distinct, reads_checked=reads,
        rule="boundary values of every type (huge / negative ints, floats with exponents, Decimals with trailing zeros and exponents, empty / white-space / XML-special / non-BMP strings, "
             "years 1 and 9999, offsets up to +-23:59, microseconds, multi-day and negative durations, values outside the domain) plus random values, each through 11 carriers "
             "(Cell(v), Cell.set_value, Cell.value=, Row.set_value, Table.set_value, VarSet(v), VarSet.set_value, UserFieldDecl(v), UserFieldDecl.set_value, UserDefined(v), Meta) "
             "and three legs (direct, re-parse, document save/reload). distinct = distinct (carrier, value); non-trivial = value is not None",
        samples=[dict(carrier=n, value=repr(vals[i]), coq=c) for n, i, c, vc in (driven[5:6] + driven[len(driven) // 2:len(driven) // 2 + 1] + driven[-1:])],
        value_classes=hist, carriers=chist, corpus_cases=len(corpus),
        fidelity_divergences=sum(1 for c in bad.values() if c == FIDELITY),
        layers={LAYER[c].split(":")[0]: sum(1 for v in hard.values() if v == c) for c in LAYER},
        exhaustive=False)
    return common.finish(PROP, tier, seed, proofs, coverage, violations, known_seen, t0,
                         assumptions=["a stored date reads back as the datetime at 00:00 of that day (DESIGN.md C06)",
                                      "numbers read back as a numerically equal int or Decimal (user-defined metadata documents Decimal)",
                                      "domain: finite numbers, XML 1.0 strings, valid dates of years 1..9999, every timedelta, None not for user-defined metadata"])


if __name__ == "__main__":
    common.main(run)
