(* TreeNF.v — definitions only: the normal-form predicate of C05 (WSnfproof.NFb) read on the containers of a tree,
   used by C16 (replace(formatted=True)) both in the theorems and on the implementation's post-states. *)
From Coq Require Import List Arith Bool.
Import ListNotations.
Require Import WS WSnfproof Tree.

Section Flags.
  Variable subn : str -> str * nat.
  (* preorder over the elements that are not text:s / tab / line-break:
     "this element is a p / h / span and one of its OWN text nodes (text, tails of its children) was changed" *)
  Fixpoint own_flags (n : node) : list bool :=
    match n with
    | Node k _ _ tx ks _ =>
        let own := snd (osubn subn tx) + list_sum (map (fun c => snd (osubn subn (tail_of c))) ks) in
        (if ws_kind k then [] else [container k && (0 <? own)]) ++ flat_map own_flags ks
    end.
End Flags.
(* same traversal: "the content of this element is in white-space normal form" *)
Fixpoint nf_flags (n : node) : list bool :=
  match n with
  | Node k _ _ tx ks _ => (if ws_kind k then [] else [NFb true (items_of tx ks)]) ++ flat_map nf_flags ks
  end.
Fixpoint implied (a b : list bool) : bool :=
  match a, b with
  | [], [] => true
  | x :: r, y :: q => implb x y && implied r q
  | _, _ => false
  end.
