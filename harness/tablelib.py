"""Shared machinery of the table checks (C01, C07; reusable by C02, C08, C10, C17).

* abstraction: an independent lxml walk of table.serialize() -> raw nodes (child order, attribute strings, interned
  cell/row/column contents), plus the private maps _tmap/_cmap and the _rmap of cached row wrappers (read by name);
* generators: initial tables (empty, Table(w,h), arbitrary run-length shapes written as XML text, tables of
  tests/samples/*.ods with clamped repeats), state-dependent histories (positions around every run boundary, at the
  edge, beyond it, negative; repeats 1-4), the reads performed after every step;
* executor with a per-call alarm; Coq term printers for coq/theories/Tablechk.v.
A case is JSON: {"kind", "init_xml", "steps": [{"op": [...], "reads": [[...], ...]}, ...]} and is replayable as such."""
import glob, json, os, random, signal, sys, zipfile
from pathlib import Path
from lxml import etree

sys.path.insert(0, str(Path(__file__).resolve().parent))
import common

TNS = 'urn:oasis:names:tc:opendocument:xmlns:table:1.0'
ONS = 'urn:oasis:names:tc:opendocument:xmlns:office:1.0'
T = '{%s}' % TNS
NSDECL = ('xmlns:table="%s" xmlns:office="%s" xmlns:text="urn:oasis:names:tc:opendocument:xmlns:text:1.0" '
          'xmlns:calcext="urn:org:documentfoundation:names:experimental:calc:xmlns:calcext:1.0" '
          'xmlns:style="urn:oasis:names:tc:opendocument:xmlns:style:1.0" xmlns:draw="urn:oasis:names:tc:opendocument:xmlns:drawing:1.0" '
          'xmlns:xlink="http://www.w3.org/1999/xlink" xmlns:svg="urn:oasis:names:tc:opendocument:xmlns:svg-compatible:1.0" '
          'xmlns:fo="urn:oasis:names:tc:opendocument:xmlns:xsl-fo-compatible:1.0" xmlns:dc="http://purl.org/dc/elements/1.1/" '
          'xmlns:number="urn:oasis:names:tc:opendocument:xmlns:datastyle:1.0" xmlns:of="urn:oasis:names:tc:opendocument:xmlns:of:1.2" '
          'xmlns:loext="urn:org:documentfoundation:names:experimental:office:xmlns:loext:1.0" '
          'xmlns:form="urn:oasis:names:tc:opendocument:xmlns:form:1.0" xmlns:script="urn:oasis:names:tc:opendocument:xmlns:script:1.0"') % (TNS, ONS)
CALL_TIMEOUT = 5


class CallTimeout(Exception):
    pass


def _alarm(signum, frame):
    raise CallTimeout()


def timed(f, *a, **k):
    """every implementation call runs under an alarm"""
    signal.signal(signal.SIGALRM, _alarm)
    signal.alarm(CALL_TIMEOUT)
    try:
        return f(*a, **k)
    finally:
        signal.alarm(0)


# ------------------------------------------------------------------ abstraction (independent of odfdo getters)

class Intern:
    """per-case numbering of cell contents, styles, row and column attribute sets; id 0 = nothing"""

    def __init__(self):
        self.val, self.sty, self.rowa, self.cola = {}, {}, {}, {}
        self.val_xml = {}      # value id -> XML of a bare cell with that content (to learn its Python value)

    @staticmethod
    def _id(tab, key):
        if key not in tab:
            tab[key] = len(tab) + 1
        return tab[key]

    def cell(self, el):
        """(foreign, repeat attribute string or None, value id, style id) of a child of a row"""
        ln = etree.QName(el).localname
        foreign = not (el.tag in (T + 'table-cell', T + 'covered-table-cell'))
        rep = el.get(T + 'number-columns-repeated')
        st = el.get(T + 'style-name')
        attrs = sorted((k, v) for k, v in el.attrib.items() if k not in (T + 'number-columns-repeated', T + 'style-name'))
        kids = [etree.tostring(c, method='c14n', with_tail=False) for c in el]
        txt = el.text or ''
        if not attrs and not kids and not txt and ln == 'table-cell':
            vid = 0
        else:
            key = (ln, tuple(attrs), tuple(kids), txt)
            vid = self._id(self.val, key)
            if vid not in self.val_xml:
                c = etree.fromstring(etree.tostring(el, with_tail=False))
                for a in (T + 'number-columns-repeated', T + 'style-name'):
                    if a in c.attrib:
                        del c.attrib[a]
                self.val_xml[vid] = etree.tostring(c, with_tail=False).decode()
        sid = 0 if st is None else self._id(self.sty, st)
        return (foreign, rep, vid, sid)

    def attrs_id(self, tab, el, rep_name):
        attrs = tuple(sorted((k, v) for k, v in el.attrib.items() if k != rep_name))
        return 0 if not attrs else self._id(tab, attrs)


def abs_xml(xml_text, intern):
    """raw abstraction of a serialised table:table: list of ('col', rep, id) | ('row', rep, id, [cells]) | ('other', tag)"""
    x = etree.fromstring('<r %s>%s</r>' % (NSDECL, xml_text))[0]
    nodes = []
    for ch in x:
        if ch.tag == T + 'table-column':
            nodes.append(('col', ch.get(T + 'number-columns-repeated'), intern.attrs_id(intern.cola, ch, T + 'number-columns-repeated')))
        elif ch.tag == T + 'table-row':
            nodes.append(('row', ch.get(T + 'number-rows-repeated'), intern.attrs_id(intern.rowa, ch, T + 'number-rows-repeated'),
                          [intern.cell(c) for c in ch]))
        else:
            nodes.append(('other', etree.QName(ch).localname))
    return nodes


def rep_val(a):
    """odfdo's reading of a repeat attribute, re-stated (used only by generators / oracles, never as evidence)"""
    try:
        return max(int(a), 1) if a is not None else 1
    except ValueError:
        return 1


def abs_maps(table):
    """private maps, by name: _tmap, _cmap, and (odf index, _rmap) of every cached row wrapper"""
    tm = list(getattr(table, '_tmap'))
    cm = list(getattr(table, '_cmap'))
    rm = []
    for idx, w in sorted(getattr(table, '_indexes').get('_tmap', {}).items()):
        if w is not None and hasattr(w, '_rmap'):
            rm.append((idx, list(w._rmap)))
    return tm, cm, rm


# ------------------------------------------------------------------ Coq printers

def c_attr(a):
    return 'None' if a is None else 'Some [%s]%%N' % ';'.join(str(ord(ch)) for ch in a)


def c_xtable(nodes):
    out = []
    for n in nodes:
        if n[0] == 'col':
            out.append('XCol (%s) %d' % (c_attr(n[1]), n[2]))
        elif n[0] == 'row':
            out.append('XRow (%s) %d [%s]' % (c_attr(n[1]), n[2], ';'.join(
                'XC %s (%s) %d %d' % ('true' if f else 'false', c_attr(r), v, s) for f, r, v, s in n[3])))
        else:
            out.append('XOther')
    return '[' + ';\n  '.join(out) + ']'


def c_cellrun(c):
    return '(%d%%nat,(%d,%d))' % tuple(c)


def c_cells(cs):
    return '[' + ';'.join(c_cellrun(c) for c in cs) + ']'


def c_rowx(r):            # (style id, [cell runs])
    return '(%d,%s)' % (r[0], c_cells(r[1]))


def c_zlist(l):
    return '[' + ';'.join('(%d)' % v for v in l) + ']'


def c_op(a):
    """a = abstract operation (ids instead of Python objects), see Driver.apply"""
    k = a[0]
    if k == 'append_row': return 'OAppendRow %d%%nat %s' % (a[1], c_rowx(a[2]))
    if k == 'set_row': return 'OSetRow (%d) %d%%nat %s' % (a[1], a[2], c_rowx(a[3]))
    if k == 'insert_row': return 'OInsertRow (%d) %d%%nat %s' % (a[1], a[2], c_rowx(a[3]))
    if k == 'delete_row': return 'ODeleteRow (%d)' % a[1]
    if k == 'set_cell': return 'OSetCell (%d) (%d) %s' % (a[1], a[2], c_cellrun(a[3]))
    if k == 'insert_cell': return 'OInsertCell (%d) (%d) %s' % (a[1], a[2], c_cellrun(a[3]))
    if k == 'append_cell': return 'OAppendCell (%d) %s' % (a[1], c_cellrun(a[2]))
    if k == 'delete_cell': return 'ODeleteCell (%d) (%d)' % (a[1], a[2])
    if k == 'insert_column': return 'OInsertColumn (%d) %d%%nat %d' % (a[1], a[2], a[3])
    if k == 'delete_column': return 'ODeleteColumn (%d)' % a[1]
    if k == 'append_column': return 'OAppendColumn %d%%nat %d' % (a[1], a[2])
    if k == 'set_column': return 'OSetColumn (%d) %d%%nat %d' % (a[1], a[2], a[3])
    if k == 'set_lines': return 'OSetLines %s (%d) (%d) [%s]' % ('true' if a[1] else 'false', a[2], a[3], ';'.join(c_cells(l) for l in a[4]))
    if k == 'extend_rows': return 'OExtendRows [%s]' % ';'.join('(%d%%nat,%s)' % (rep, c_rowx(r)) for rep, r in a[1])
    if k == 'clear': return 'OClear'
    raise ValueError(k)


def c_read(q, ans):
    k = q[0]
    if k == 'size': return '(QSize, ASize (%d) (%d))' % tuple(ans)
    if k == 'get_value': return '(QGetValue (%d) (%d), AValue (%d))' % (q[1], q[2], ans)
    if k == 'row_values': return '(QRowValues (%d), AList %s)' % (q[1], c_zlist(ans))
    if k == 'values': return '(QValues, AMatrix [%s])' % ';'.join(c_zlist(r) for r in ans)
    if k == 'column_values': return '(QColumnValues (%d), AList %s)' % (q[1], c_zlist(ans))
    if k == 'row_width': return '(QRowWidth (%d), ASize (%d) 0)' % (q[1], ans)
    if k == 'get_cell': return '(QGetCell (%d) (%d), ACell (%d,%d))' % (q[1], q[2], ans[0], ans[1])
    if k == 'area': return '(QArea (%d) (%d) (%d) (%d), AMatrix [%s])' % (q[1], q[2], q[3], q[4], ';'.join(c_zlist(r) for r in ans))
    raise ValueError(k)


HEADER = ('Require Import Vault Row Table Grid Tableabs Tablexml Tablechk.\n'
          'From Coq Require Import List ZArith NArith Bool Arith. Import ListNotations. Open Scope Z_scope.\n'
          'Inductive stepobs := St (o : top) (post : xtable) (raised : bool) (tm cm : list Z) (rmaps : list (nat * list Z)) (reads : list (tread * tans)).\n'
          '(* first hard code of a history as 100*(step+1)+code; 9 if only the exact shape differed somewhere; 0 otherwise *)\n'
          'Fixpoint chk_hist (f : obs -> nat) (pre : xtable) (i fid : nat) (l : list stepobs) : nat :=\n'
          '  match l with [] => fid | St o post ra tm cm rm rd :: r =>\n'
          '    match f (Obs pre o post ra tm cm rm rd) with O => chk_hist f post (S i) fid r | 9%nat => chk_hist f post (S i) 9%nat r\n'
          '    | k => (100 * (S i) + k)%nat end end.\n'
          'Definition mkc (tab : list (Z * Z)) (init : xtable) (l : list stepobs) := (tab, init, l).\n'
          'Definition chk01 (c : list (Z * Z) * xtable * list stepobs) : nat := let \'(tab, init, l) := c in chk_hist (chk_c01 (vcl_of tab)) init 0 0 l.\n'
          'Definition chkpin (c : list (Z * Z) * xtable * list stepobs) : nat := let \'(tab, init, l) := c in chk_hist chk_pinned init 0 0 l.\n'
          'Definition chk07 (c : list (Z * Z) * xtable * list stepobs) : nat := let \'(tab, init, l) := c in\n'
          '  if in_fragment init && negb (XmlOK init) then 12%nat else chk_hist chk_c07 init 0 0 l.\n')


# ------------------------------------------------------------------ building arguments from JSON specs

STYLES = [None, 's1', 's2']


def mk_cell(odfdo, spec):
    """spec = [rep, value, style] -> Cell"""
    rep, val, st = spec
    return odfdo.Cell(val, repeated=rep if rep > 1 else None, style=st)


def mk_row(odfdo, spec):
    """spec = [rep, style, [cell specs]] -> Row (cells appended through lxml, not through the API under test)"""
    rep, st, cells = spec
    row = odfdo.Row()
    el = row._Element__element
    for c in cells:
        el.append(mk_cell(odfdo, c)._Element__element)
    if st:
        el.set(T + 'style-name', st)
    if rep > 1:
        el.set(T + 'number-rows-repeated', str(rep))
    row._compute_row_cache()
    return row


def mk_column(odfdo, rep, st):
    return odfdo.Column(repeated=rep if rep > 1 else None, style=st)


class Driver:
    """one history on the real implementation; abstracts after every step"""

    def __init__(self, odfdo, init_xml):
        self.odfdo = odfdo
        self.intern = Intern()
        self.table = timed(odfdo.Element.from_tag, init_xml)
        if not isinstance(self.table, odfdo.Table):
            raise TypeError('not a table')
        self.init_nodes = self.abs()
        self.pyval = {0: repr(None)}

    def abs(self):
        return abs_xml(timed(self.table.serialize), self.intern)

    # abstract forms of arguments: through the same independent walk, on the argument object itself
    def a_cell(self, cell):
        el = etree.fromstring('<r %s>%s</r>' % (NSDECL, cell.serialize()))[0]
        f, rep, v, s = self.intern.cell(el)
        return (rep_val(rep), v, s)

    def a_row(self, row):
        el = etree.fromstring('<r %s>%s</r>' % (NSDECL, row.serialize()))[0]
        rep = rep_val(el.get(T + 'number-rows-repeated'))
        rid = self.intern.attrs_id(self.intern.rowa, el, T + 'number-rows-repeated')
        cells = []
        for c in el:
            f, r, v, s = self.intern.cell(c)
            cells.append((rep_val(r), v, s))
        return rep, (rid, cells)

    def a_col(self, col):
        el = etree.fromstring('<r %s>%s</r>' % (NSDECL, col.serialize()))[0]
        return rep_val(el.get(T + 'number-columns-repeated')), self.intern.attrs_id(self.intern.cola, el, T + 'number-columns-repeated')

    def apply(self, op):
        """op = JSON form; returns (abstract op for Coq, raised: None or repr)"""
        o, t, k = self.odfdo, self.table, op[0]
        raised = None
        try:
            if k in ('append_row', 'set_row', 'insert_row'):
                row = mk_row(o, op[-1]); rep, ar = self.a_row(row)
                if k == 'append_row':
                    a = (k, rep, ar); timed(t.append_row, row)
                elif k == 'set_row':
                    a = (k, op[1], rep, ar); timed(t.set_row, op[1], row)
                else:
                    a = (k, op[1], rep, ar); timed(t.insert_row, op[1], row)
            elif k == 'delete_row':
                a = (k, op[1]); timed(t.delete_row, op[1])
            elif k in ('set_cell', 'insert_cell'):
                c = mk_cell(o, op[3]); a = (k, op[1], op[2], self.a_cell(c))
                timed(getattr(t, k), (op[1], op[2]), c)
            elif k == 'set_value':            # Table.set_value(coord, value, style=)
                c = mk_cell(o, [1, op[3], op[4]]); a = ('set_cell', op[1], op[2], self.a_cell(c))
                timed(t.set_value, (op[1], op[2]), op[3], style=op[4])
            elif k == 'append_cell':
                c = mk_cell(o, op[2]); a = (k, op[1], self.a_cell(c)); timed(t.append_cell, op[1], c)
            elif k == 'delete_cell':
                a = (k, op[1], op[2]); timed(t.delete_cell, (op[1], op[2]))
            elif k in ('insert_column', 'set_column'):
                col = mk_column(o, op[2], op[3]); rep, cid = self.a_col(col)
                a = (k, op[1], rep, cid); timed(getattr(t, k), op[1], col)
            elif k == 'append_column':
                col = mk_column(o, op[1], op[2]); rep, cid = self.a_col(col)
                a = (k, rep, cid); timed(t.append_column, col)
            elif k == 'delete_column':
                a = (k, op[1]); timed(t.delete_column, op[1])
            elif k == 'set_values':           # Table.set_values(values, coord, style=)
                lines = [[self.a_cell(mk_cell(o, [1, v, op[4]])) for v in line] for line in op[3]]
                a = ('set_lines', False, op[1], op[2], lines)
                timed(t.set_values, op[3], (op[1], op[2]), style=op[4])
            elif k == 'set_cells':            # Table.set_cells(cells, coord)
                objs = [[mk_cell(o, c) for c in line] for line in op[3]]
                a = ('set_lines', True, op[1], op[2], [[self.a_cell(c) for c in line] for line in objs])
                timed(t.set_cells, objs, (op[1], op[2]))
            elif k == 'set_row_values':       # Table.set_row_values(y, values, style=)
                cells = [self.a_cell(mk_cell(o, [1, v, op[3]])) for v in op[2]]
                a = ('set_row', op[1], 1, (0, cells)); timed(t.set_row_values, op[1], op[2], style=op[3])
            elif k == 'set_row_cells':        # Table.set_row_cells(y, cells)
                objs = [mk_cell(o, c) for c in op[2]]
                a = ('set_row', op[1], 1, (0, [self.a_cell(c) for c in objs])); timed(t.set_row_cells, op[1], objs)
            elif k == 'set_column_cells':     # Table.set_column_cells(x, cells), x >= 0, one cell per logical row
                objs = [mk_cell(o, c) for c in op[2]]
                a = ('set_lines', True, op[1], 0, [[self.a_cell(c)] for c in objs]); timed(t.set_column_cells, op[1], objs)
            elif k == 'set_column_values':    # Table.set_column_values(x, values, style=)
                a = ('set_lines', True, op[1], 0, [[self.a_cell(mk_cell(o, [1, v, op[3]]))] for v in op[2]])
                timed(t.set_column_values, op[1], op[2], style=op[3])
            elif k == 'extend_rows':
                objs = [mk_row(o, r) for r in op[1]]
                a = (k, [self.a_row(r) for r in objs]); timed(t.extend_rows, objs)
            elif k == 'clear':
                a = (k,); timed(t.clear)
            else:
                raise KeyError(k)
        except (KeyError, CallTimeout) as e:
            if isinstance(e, KeyError) and e.args == (k,):
                raise
            raised = repr(e)
        except Exception as e:      # the implementation fails on an input of the property's domain
            raised = repr(e)
        return a, raised

    def cls(self, value):
        """Python answer -> value class id (the smallest value id whose own Python value prints the same)"""
        self._learn()
        return self.cls_of.get(repr(value), -1)

    def _learn(self):
        for vid, xml in self.intern.val_xml.items():
            if vid not in self.pyval:
                try:
                    c = self.odfdo.Element.from_tag(xml)
                    self.pyval[vid] = repr(c.get_value())
                except Exception as e:
                    self.pyval[vid] = 'ERR%d' % vid
        self.cls_of = {}
        for vid in sorted(self.pyval):
            self.cls_of.setdefault(self.pyval[vid], vid)

    def vtab(self):
        self._learn()
        return [(vid, self.cls_of[self.pyval[vid]]) for vid in sorted(self.pyval) if self.cls_of[self.pyval[vid]] != vid]

    def read(self, q):
        t, k = self.table, q[0]
        if k == 'size':
            w, h = timed(lambda: t.size)
            w2, h2 = timed(lambda: (t.width, t.height))
            return (w, h) if (w, h) == (w2, h2) else (-1, -1)
        if k == 'get_value': return self.cls(timed(t.get_value, (q[1], q[2])))
        if k == 'row_values': return [self.cls(v) for v in timed(t.get_row_values, q[1])]
        if k == 'values': return [[self.cls(v) for v in r] for r in timed(t.get_values)]
        if k == 'column_values': return [self.cls(v) for v in timed(t.get_column_values, q[1])]
        if k == 'row_width': return timed(lambda: t.get_row(q[1]).width)
        if k == 'get_cell':
            c = timed(t.get_cell, (q[1], q[2]))
            rep, v, s = self.a_cell(c)
            return (v, s)
        if k == 'area': return [[self.cls(v) for v in r] for r in timed(t.get_values, (q[1], q[2], q[3], q[4]))]
        raise KeyError(k)


def run_case(odfdo, case):
    """Execute a case; a call that hits the alarm is retried once, whole case, with a ten times longer alarm (a loaded
    machine must not produce an alarm; a genuine hang still does)"""
    global CALL_TIMEOUT
    res = run_case_once(odfdo, case)
    if any(r['raised'] and 'CallTimeout' in r['raised'] for r in res.get('records', [])) or 'CallTimeout' in str(res.get('error')):
        saved = CALL_TIMEOUT
        CALL_TIMEOUT = saved * 10
        try:
            res = run_case_once(odfdo, case)
        finally:
            CALL_TIMEOUT = saved
    return res


def run_case_once(odfdo, case):
    """Execute a case on the implementation.  Returns dict(term=Coq term or None, steps=[...per-step record...], error=...)"""
    try:
        d = Driver(odfdo, case['init_xml'])
    except Exception as e:
        return dict(term=None, error='initial table: %r' % (e,), records=[])
    recs, terms = [], []
    for st in case['steps']:
        a, raised = d.apply(st['op'])
        try:
            post = d.abs()
            tm, cm, rm = abs_maps(d.table)
        except Exception as e:
            return dict(term=None, error='abstraction: %r' % (e,), records=recs)
        reads = []
        if not raised:
            for q in st.get('reads', []):
                try:
                    reads.append((q, d.read(q)))
                except Exception as e:
                    reads.append((q, None)); raised = 'read %r: %r' % (q, e)
        recs.append(dict(op=st['op'], abstract_op=a, raised=raised, post=post, tmap=tm, cmap=cm, rmaps=rm,
                         reads=[(q, r) for q, r in reads]))
        terms.append('St (%s)\n  %s %s %s %s [%s]\n  [%s]' % (
            c_op(a), c_xtable(post), 'true' if raised else 'false', c_zlist(tm), c_zlist(cm),
            ';'.join('(%d%%nat,%s)' % (i, c_zlist(m)) for i, m in rm),
            ';'.join(c_read(q, r) for q, r in reads if r is not None)))
    term = '(mkc [%s] %s\n [%s])' % (';'.join('(%d,%d)' % p for p in d.vtab()), c_xtable(d.init_nodes), ';\n '.join(terms))
    return dict(term=term, error=None, records=recs, init=d.init_nodes)


# ------------------------------------------------------------------ generators

VALUES = [None, None, 1, 2, 3, 4, 5, 'a', 'b', True]


def g_cellspec(rng, reps=(1, 1, 1, 2, 3, 4)):
    return [rng.choice(reps), rng.choice(VALUES), rng.choice([None, None, 's1', 's2'])]


def g_rowspec(rng, maxcells=3):
    return [rng.choice([1, 1, 2, 3, 4]), rng.choice([None, None, 'rs']), [g_cellspec(rng) for _ in range(rng.randint(0, maxcells))]]


def cell_xml(spec):
    rep, val, st = spec
    a = ''
    body = ''
    if isinstance(val, bool):
        a += ' office:value-type="boolean" calcext:value-type="boolean" office:boolean-value="%s"' % ('true' if val else 'false')
        body = '<text:p>%s</text:p>' % val
    elif isinstance(val, int):
        a += ' office:value-type="float" calcext:value-type="float" office:value="%d" calcext:value="%d"' % (val, val)
        body = '<text:p>%d</text:p>' % val
    elif isinstance(val, str):
        a += ' office:value-type="string" calcext:value-type="string" office:string-value="%s"' % val
        body = '<text:p>%s</text:p>' % val
    if rep > 1: a += ' table:number-columns-repeated="%d"' % rep
    if st: a += ' table:style-name="%s"' % st
    return '<table:table-cell%s>%s</table:table-cell>' % (a, body) if body else '<table:table-cell%s/>' % a


def table_xml(cols, rows):
    """cols = [(rep, style)], rows = [rowspec]: a table written as XML text (run-length shape chosen freely)"""
    out = ['<table:table table:name="t">']
    for rep, st in cols:
        out.append('<table:table-column%s%s/>' % (' table:number-columns-repeated="%d"' % rep if rep > 1 else '',
                                                  ' table:style-name="%s"' % st if st else ''))
    for rep, st, cells in rows:
        out.append('<table:table-row%s%s>%s</table:table-row>' % (
            ' table:style-name="%s"' % st if st else '', ' table:number-rows-repeated="%d"' % rep if rep > 1 else '',
            ''.join(cell_xml(c) for c in cells)))
    out.append('</table:table>')
    return ''.join(out)


def g_rle_table(rng, maxw, maxh):
    """arbitrary run-length shape: adjacent equal runs allowed, rows ragged, columns cover the widest row (mostly exactly)"""
    rows = []
    h = 0
    for _ in range(rng.randint(0, 4)):
        r = g_rowspec(rng, 4)
        # keep the expanded size bounded
        while sum(c[0] for c in r[2]) > maxw and r[2]:
            r[2].pop()
        if h + r[0] > maxh:
            r[0] = 1
        if h + r[0] > maxh:
            break
        h += r[0]
        rows.append(r)
        if rng.random() < 0.2 and h + r[0] <= maxh:      # an adjacent identical run
            rows.append([r[0], r[1], [list(c) for c in r[2]]]); h += r[0]
    w = max([sum(c[0] for c in r[2]) for r in rows] + [0])
    if rows:
        w = max(w, 1) + rng.choice([0, 0, 0, 1, 2])
    cols, left = [], w
    while left > 0:
        n = rng.randint(1, min(left, 4))
        cols.append((n, rng.choice([None, None, 'cs'])))
        left -= n
    return table_xml(cols, rows)


_SAMPLES = None


def sample_tables(clamp=3, maxrows=8, maxcells=8):
    """tables of tests/samples/*.ods, repeats clamped and child lists truncated (bounded size); XML text"""
    global _SAMPLES
    if _SAMPLES is not None:
        return _SAMPLES
    out = []
    for f in sorted(glob.glob(str(common.REPO / 'tests' / 'samples' / '*.ods'))):
        try:
            x = etree.fromstring(zipfile.ZipFile(f).read('content.xml'))
        except Exception:
            continue
        for t in x.iter(T + 'table'):
            if any(ch.tag not in (T + 'table-column', T + 'table-row') for ch in t):
                continue      # outside the modelled fragment (groups, header rows, shapes, ...)
            t = etree.fromstring(etree.tostring(t, with_tail=False))
            rows = [ch for ch in t if ch.tag == T + 'table-row']
            for r in rows[maxrows:]:
                t.remove(r)
            for r in rows[:maxrows]:
                for c in list(r)[maxcells:]:
                    r.remove(c)
                for c in r:
                    a = T + 'number-columns-repeated'
                    if c.get(a) and rep_val(c.get(a)) > clamp: c.set(a, str(clamp))
                    for sp in (T + 'number-columns-spanned', T + 'number-rows-spanned'):
                        pass
                a = T + 'number-rows-repeated'
                if r.get(a) and rep_val(r.get(a)) > clamp: r.set(a, str(clamp))
            # columns: cover the (clamped) widest row
            w = max([sum(rep_val(c.get(T + 'number-columns-repeated')) for c in r) for r in rows[:maxrows]] + [1])
            cols = [ch for ch in t if ch.tag == T + 'table-column']
            have = 0
            for c in cols:
                a = T + 'number-columns-repeated'
                n = rep_val(c.get(a))
                if have >= w:
                    t.remove(c); continue
                n = min(n, max(w - have, 1), 2 * clamp)
                if n > 1: c.set(a, str(n))
                elif a in c.attrib: del c.attrib[a]
                have += n
            if have < w and cols:
                last = [ch for ch in t if ch.tag == T + 'table-column'][-1]
                last.set(T + 'number-columns-repeated', str(rep_val(last.get(T + 'number-columns-repeated')) + w - have))
            etree.cleanup_namespaces(t)
            out.append((Path(f).name, etree.tostring(t, with_tail=False).decode()))
    _SAMPLES = out
    return out


def shape_of(nodes):
    cols = [(rep_val(n[1]), n[2]) for n in nodes if n[0] == 'col']
    rows = [(rep_val(n[1]), [rep_val(c[1]) for c in n[3]]) for n in nodes if n[0] == 'row']
    return cols, rows


def boundaries(reps):
    """positions around every run boundary: first/last of each run, the edge, beyond it"""
    out, acc = [0], 0
    for r in reps:
        out += [acc, acc + r // 2, acc + r - 1]
        acc += r
    out += [acc, acc, acc + 1, acc + 2]
    return out, acc


def pick_pos(rng, reps, allow_neg=True):
    b, total = boundaries(reps)
    p = rng.choice(b)
    if allow_neg and rng.random() < 0.12:
        p = -rng.randint(1, max(total, 1) + 2)
    return p


OPS_CORE = ['append_row', 'set_row', 'insert_row', 'delete_row', 'set_cell', 'set_cell', 'set_value', 'insert_cell',
            'append_cell', 'delete_cell', 'insert_column', 'delete_column', 'append_column', 'set_column',
            'set_values', 'set_cells', 'set_row_values', 'set_row_cells', 'extend_rows', 'clear',
            'set_column_cells', 'set_column_values']


def g_op(rng, nodes, kinds, maxw, maxh):
    cols, rows = shape_of(nodes)
    H = sum(r for r, _ in rows); W = sum(r for r, _ in cols)
    y = pick_pos(rng, [r for r, _ in rows])
    # x: around the run boundaries of the addressed row, of the columns, or of a random row
    yy = y if 0 <= y < H else None
    cellreps = []
    if yy is not None:
        acc = 0
        for r, cs in rows:
            if acc <= yy < acc + r:
                cellreps = cs; break
            acc += r
    x = pick_pos(rng, cellreps if rng.random() < 0.6 else [r for r, _ in cols])
    small = H >= maxh or W >= maxw
    k = rng.choice(kinds)
    if small and k in ('append_row', 'insert_row', 'insert_column', 'append_column', 'extend_rows') and rng.random() < 0.8:
        k = rng.choice(['delete_row', 'delete_column', 'set_cell', 'delete_cell', 'set_row'])
    if (y > maxh or x > maxw):
        y = min(y, maxh); x = min(x, maxw)
    if k == 'append_row': return [k, g_rowspec(rng)]
    if k in ('set_row', 'insert_row'): return [k, y, g_rowspec(rng)]
    if k == 'delete_row': return [k, y]
    if k in ('set_cell', 'insert_cell'): return [k, x, y, g_cellspec(rng)]
    if k == 'set_value': return [k, x, y, rng.choice(VALUES), rng.choice([None, None, 's1'])]
    if k == 'append_cell': return [k, y, g_cellspec(rng)]
    if k == 'delete_cell': return [k, x, y]
    if k in ('insert_column', 'set_column'): return [k, x, rng.choice([1, 1, 2, 3]), rng.choice([None, 'cs'])]
    if k == 'append_column': return [k, rng.choice([1, 1, 2, 3]), rng.choice([None, 'cs'])]
    if k == 'delete_column': return [k, x]
    if k == 'set_values':
        return [k, x, y, [[rng.choice(VALUES) for _ in range(rng.randint(0, 3))] for _ in range(rng.randint(1, 3))], rng.choice([None, None, 's1'])]
    if k == 'set_cells':
        return [k, x, y, [[g_cellspec(rng) for _ in range(rng.randint(0, 3))] for _ in range(rng.randint(1, 3))]]
    if k == 'set_row_values': return [k, y, [rng.choice(VALUES) for _ in range(rng.randint(0, 4))], rng.choice([None, None, 's1'])]
    if k == 'set_row_cells': return [k, y, [g_cellspec(rng) for _ in range(rng.randint(0, 3))]]
    if k == 'extend_rows': return [k, [g_rowspec(rng) for _ in range(rng.randint(0, 2))]]
    if k == 'set_column_cells': return [k, max(0, x), [g_cellspec(rng) for _ in range(H)]]
    if k == 'set_column_values': return [k, max(0, x), [rng.choice(VALUES) for _ in range(H)], rng.choice([None, None, 's1'])]
    if k == 'clear': return [k]
    raise KeyError(k)


def g_reads(rng, nodes, full=True):
    cols, rows = shape_of(nodes)
    qs = [['size']]
    if full:
        qs.append(['values'])
    for _ in range(2):
        qs.append(['get_value', pick_pos(rng, [r for r, _ in cols]), pick_pos(rng, [r for r, _ in rows])])
    qs.append(['get_cell', pick_pos(rng, [r for r, _ in cols]), pick_pos(rng, [r for r, _ in rows])])
    qs.append(['row_values', pick_pos(rng, [r for r, _ in rows])])
    if rng.random() < 0.5:
        qs.append(['column_values', pick_pos(rng, [r for r, _ in cols])])
    if rng.random() < 0.5:
        qs.append(['row_width', pick_pos(rng, [r for r, _ in rows])])
    if rng.random() < 0.7:      # get_values(coord) over an area: corners around run boundaries, possibly crossed or beyond
        qs.append(['area', pick_pos(rng, [r for r, _ in cols]), pick_pos(rng, [r for r, _ in rows]),
                   pick_pos(rng, [r for r, _ in cols]), pick_pos(rng, [r for r, _ in rows])])
    return qs


def gen_and_run(odfdo, seed, kind, nsteps, kinds=OPS_CORE, maxw=8, maxh=8):
    """state-dependent generation: the next operation is drawn around the run boundaries of the CURRENT state.
    Returns (case JSON, result of run_case) — the case replays without the generator."""
    rng = random.Random(seed)
    if kind == 'empty':
        init = '<table:table table:name="t"/>'
    elif kind == 'prefilled':
        init = None
    elif kind == 'rle':
        init = g_rle_table(rng, maxw, maxh)
    else:
        s = sample_tables()
        init = s[rng.randrange(len(s))][1] if s else '<table:table table:name="t"/>'
    if init is None:
        t = odfdo.Table('t', width=rng.randint(1, 4), height=rng.randint(1, 4))
        init = t.serialize()
    case = dict(kind=kind, init_xml=init, steps=[])
    try:
        d = Driver(odfdo, init)
    except Exception as e:
        return case, dict(term=None, error='initial table: %r' % (e,), records=[])
    nodes = d.init_nodes
    for _ in range(nsteps):
        op = g_op(rng, nodes, kinds, maxw, maxh)
        a, raised = d.apply(op)
        try:
            nodes = d.abs()
        except Exception:
            case['steps'].append(dict(op=op, reads=[])); break
        case['steps'].append(dict(op=op, reads=g_reads(rng, nodes)))
        if raised:
            break
        # reads influence the wrapper caches: perform them here too so that generation sees the same object history
        for q in case['steps'][-1]['reads']:
            try: d.read(q)
            except Exception: pass
    return case, None


# ------------------------------------------------------------------ direct Python reference (search phase ONLY)
# A list-of-lists re-statement of Grid.v.  It is never used as evidence: only to look for a concrete failing input
# when a proof or the Coq evaluation itself is broken (BUILDERS.md, decision step 5).

def _norm(v, n):
    return (0 if n == 0 else v % n) if v < 0 else v


def _lset(l, x, rep, c):
    l = l + [(0, 0)] * max(0, x - len(l))
    return l[:x] + [c] * rep + l[x + rep:]


def _lins(l, x, rep, c):
    l2 = l + [(0, 0)] * max(0, x - len(l))
    return l2[:x] + [c] * rep + l[x:]


class PyGrid:
    def __init__(self, nodes):
        self.ncols = sum(rep_val(n[1]) for n in nodes if n[0] == 'col')
        self.rows = []
        for n in nodes:
            if n[0] == 'row':
                r = [(v, s) for f, rep, v, s in n[3] for _ in range(rep_val(rep))]
                self.rows += [list(r) for _ in range(rep_val(n[1]))]

    def key(self):
        return (self.ncols, tuple(tuple(r) for r in self.rows))

    def _declare(self, w):
        n0 = max(1, w) if self.ncols == 0 else self.ncols
        self.ncols = max(n0, w)

    def _set_row(self, y, rep, r):
        h = len(self.rows)
        rows = self.rows + [[] for _ in range(max(0, y - h))]
        self.rows = rows[:y] + [list(r) for _ in range(rep)] + self.rows[y + rep:]
        if y < h: self.ncols = max(self.ncols, len(r))
        else: self._declare(len(r))

    def apply(self, a):
        k = a[0]; H = len(self.rows); W = self.ncols
        cells = lambda cs: [(v, s) for rep, v, s in cs for _ in range(rep)]
        if k == 'append_row':
            self.rows += [cells(a[2][1]) for _ in range(a[1])]; self._declare(len(cells(a[2][1])))
        elif k == 'set_row': self._set_row(_norm(a[1], H), a[2], cells(a[3][1]))
        elif k == 'insert_row':
            y = _norm(a[1], H); r = cells(a[3][1])
            rows = self.rows + [[] for _ in range(max(0, y - H))]
            self.rows = rows[:y] + [list(r) for _ in range(a[2])] + self.rows[y:]
            if y < H: self.ncols = max(W, len(r))
            else: self._declare(len(r))
        elif k == 'delete_row':
            y = _norm(a[1], H)
            if y < H: del self.rows[y]
        elif k in ('set_cell', 'insert_cell', 'append_cell', 'delete_cell'):
            if k == 'append_cell': y = _norm(a[1], H); c = a[2]
            elif k == 'delete_cell': x = _norm(a[1], W); y = _norm(a[2], H)
            else: x = _norm(a[1], W); y = _norm(a[2], H); c = a[3]
            row = list(self.rows[y]) if y < H else []
            if k == 'set_cell': row = _lset(row, x, c[0], (c[1], c[2]))
            elif k == 'insert_cell': row = _lins(row, x, c[0], (c[1], c[2]))
            elif k == 'append_cell': row = row + [(c[1], c[2])] * c[0]
            else:
                if y >= H: return
                row = row[:x] + row[x + 1:]
            self._set_row(y, 1, row)
        elif k == 'insert_column':
            x = _norm(a[1], W)
            self.rows = [(_lins(r, x, a[2], (0, 0)) if x < len(r) else r) for r in self.rows]
            self.ncols = max(W, x) + a[2]
        elif k == 'delete_column':
            x = _norm(a[1], W)
            if x < W:
                self.rows = [(r[:x] + r[x + 1:] if x < len(r) else r) for r in self.rows]; self.ncols = W - 1
        elif k == 'append_column': self.ncols = W + max(1, a[1])
        elif k == 'set_column': self.ncols = max(W, _norm(a[1], W) + max(1, a[2]))
        elif k == 'set_lines':
            clone, x, y = a[1], _norm(a[2], W), _norm(a[3], H)
            for line in a[4]:
                if line:
                    row = list(self.rows[y]) if y < len(self.rows) else []
                    if x == 0 and not clone and len(row) <= len(line): row = cells(line)
                    else:
                        xx = x
                        for rep, v, s in line:
                            row = _lset(row, xx, rep, (v, s)); xx += rep
                    self._set_row(y, 1, row)
                y += 1
        elif k == 'extend_rows':
            for rep, r in a[1]:
                self.rows += [cells(r[1]) for _ in range(rep)]
            w = max([len(r) for r in self.rows] + [0])
            if a[1]: self.ncols = max(1, w) if W == 0 else max(W, w)
            else: self.ncols = max(W, w)
        elif k == 'clear':
            self.ncols = 0; self.rows = []


def python_oracle(res):
    """first step of an executed case whose post state is not the reference's; None if all agree"""
    pre = res.get('init')
    if pre is None:
        return None
    for i, r in enumerate(res['records']):
        if r['raised']:
            return i
        g = PyGrid(pre)
        try:
            g.apply(r['abstract_op'])
        except Exception:
            return None
        if g.key() != PyGrid(r['post']).key():
            return i
        pre = r['post']
    return None
