(* TreeProof3.v — the tree view: delete, _strip_tags under the guard, replace on trees. *)
From Coq Require Import List Arith Bool ZArith Lia.
Import ListNotations.
Require Import WS WSnfproof Tree TreeNF TreeProof TreeProof2.

Lemma node_ind' (P : node -> Prop) :
  (forall k a s tx ks tl, Forall P ks -> P (Node k a s tx ks tl)) -> forall n, P n.
Proof.
  intros H. fix IH 1. intros [k a s tx ks tl]. apply H.
  induction ks as [|c ks IHks]; constructor; [apply IH|exact IHks].
Qed.

(* ---------------------------------------------------------------- delete *)
Lemma take_skip d r : take_elem d r ++ skip_elem d r = r.
Proof.
  revert d; induction r as [|e r IH]; intros d; [reflexivity|].
  destruct e as [k a| |s]; cbn [take_elem skip_elem app].
  - now rewrite IH.
  - destruct d; cbn [app]; [reflexivity|now rewrite IH].
  - now rewrite IH.
Qed.
Lemma raw_cons_open k a r : raw (Open k a :: r) = raw r. Proof. reflexivity. Qed.
Lemma raw_cons_close r : raw (Close :: r) = raw r. Proof. reflexivity. Qed.
Lemma raw_cons_txt s r : raw (Txt s :: r) = s ++ raw r. Proof. reflexivity. Qed.
Lemma merge_adj_raw evs : raw (merge_adj evs) = raw evs.
Proof.
  induction evs as [|e evs IH]; [reflexivity|]. destruct e as [k a| |s]; cbn [merge_adj].
  - now rewrite !raw_cons_open.
  - now rewrite !raw_cons_close.
  - rewrite raw_cons_txt, <- IH. destruct (merge_adj evs) as [|[k a| |y] q]; try reflexivity.
    rewrite !raw_cons_txt. now rewrite app_assoc.
Qed.
(* what is deleted is exactly the i-th element; with keep_tail every other character stays *)
Theorem delete_at_spec keep : forall evs i evs', delete_at i keep evs = Some evs' ->
  exists pre post, evs = pre ++ elem_at i evs ++ post /\ is_nil (elem_at i evs) = false /\
    evs' = pre ++ (if keep then post else match post with Txt _ :: q => q | _ => post end).
Proof.
  induction evs as [|e evs IH]; intros i evs' H; [discriminate|].
  destruct e as [k a| |s]; cbn [delete_at elem_at] in *.
  - destruct i.
    + injection H as <-. exists [], (skip_elem 0 evs). cbn [app]. rewrite take_skip. auto.
    + destruct (delete_at i keep evs) as [m|] eqn:E; [|discriminate]. injection H as <-.
      destruct (IH i m E) as [pre [post [E1 [E2 E3]]]]. exists (Open k a :: pre), post. cbn [app]. rewrite <- E1, E3. auto.
  - destruct (delete_at i keep evs) as [m|] eqn:E; [|discriminate]. injection H as <-.
    destruct (IH i m E) as [pre [post [E1 [E2 E3]]]]. exists (Close :: pre), post. cbn [app]. rewrite <- E1, E3. auto.
  - destruct (delete_at i keep evs) as [m|] eqn:E; [|discriminate]. injection H as <-.
    destruct (IH i m E) as [pre [post [E1 [E2 E3]]]]. exists (Txt s :: pre), post. cbn [app]. rewrite <- E1, E3. auto.
Qed.
Theorem delete_keeps i evs evs' : delete_ i true evs = Some evs' ->
  exists pre post, evs = pre ++ elem_at i evs ++ post /\ raw evs' = raw pre ++ raw post.
Proof.
  unfold delete_. destruct (delete_at i true evs) as [m|] eqn:E; [|discriminate]. intros H. injection H as <-.
  destruct (delete_at_spec true evs i m E) as [pre [post [E1 [_ E3]]]]. exists pre, post. split; [exact E1|].
  now rewrite merge_adj_raw, E3, raw_app.
Qed.

(* ---------------------------------------------------------------- _strip_tags *)
Definition praw (p : piece) : str := match p with PS s => s | PN n => raw (flat n) end.
Definition praws (ps : list piece) : str := concat (map praw ps).
Lemma praws_app x y : praws (x ++ y) = praws x ++ praws y.
Proof. unfold praws. now rewrite map_app, concat_app. Qed.
Lemma raw_otxt o : raw (otxt o) = oget o. Proof. destruct o; [apply app_nil_r|reflexivity]. Qed.
Lemma raw_flat k a s tx ks tl : raw (flat (Node k a s tx ks tl)) = oget tx ++ raw (flat_map flat ks) ++ oget tl.
Proof. cbn [flat]. rewrite raw_cons_open, !raw_app, raw_otxt, raw_cons_close, raw_otxt. reflexivity. Qed.
Lemma raw_flat_map_app x y : raw (flat_map flat (x ++ y)) = raw (flat_map flat x) ++ raw (flat_map flat y).
Proof. now rewrite flat_map_app, raw_app. Qed.
Lemma collapse_id s : no_dsp s = true -> collapse s = s.
Proof.
  induction s as [|t s IH]; [reflexivity|]. intros H.
  destruct t; destruct s as [|u s']; try reflexivity;
  try (cbn [collapse]; f_equal; apply IH; exact H).
  destruct u; try discriminate; cbn [collapse]; f_equal; apply IH; exact H.
Qed.
Definition raw_state (st : option str * list node) : str := oget (fst st) ++ raw (flat_map flat (snd st)).
Lemma raw_flat_set_tail l s : raw (flat (set_tail l (Some (oget (tail_of l) ++ s)))) = raw (flat l) ++ s.
Proof. destruct l as [k a sl tx ks tl]. cbn [set_tail tail_of]. rewrite !raw_flat. cbn [oget]. now rewrite !app_assoc. Qed.
Lemma append_piece_raw st p : append_ok st p = true ->
  raw_state (append_piece collapse st p) = raw_state st ++ praw p.
Proof.
  destruct st as [tx ks]. destruct p as [s|n]; cbn [append_ok append_piece praw]; intros H.
  - destruct (rev ks) as [|l rk] eqn:E.
    + assert (ks = []) by (destruct ks; [reflexivity|]; apply (f_equal (@length _)) in E; rewrite rev_length in E; discriminate).
      subst ks. unfold raw_state, add_text. cbn [fst snd oget flat_map]. rewrite collapse_id by exact H.
      change (raw []) with (@nil tok). now rewrite !app_nil_r.
    + assert (K : ks = rev rk ++ [l]) by (rewrite <- (rev_involutive ks), E; reflexivity).
      unfold raw_state, add_text. cbn [fst snd]. rewrite collapse_id by exact H.
      rewrite K. rewrite !raw_flat_map_app. cbn [flat_map]. rewrite !app_nil_r.
      rewrite raw_flat_set_tail. now rewrite !app_assoc.
  - unfold raw_state. cbn [fst snd]. rewrite raw_flat_map_app. cbn [flat_map]. rewrite app_nil_r. now rewrite app_assoc.
Qed.
Lemma fold_append_raw ps : forall st, fold_ok ps st = true ->
  raw_state (fold_left (append_piece collapse) ps st) = raw_state st ++ praws ps.
Proof.
  induction ps as [|p ps IH]; intros st H; [unfold praws; cbn; now rewrite app_nil_r|].
  cbn [fold_ok] in H. apply andb_true_iff in H as [H1 H2]. cbn [fold_left].
  rewrite IH by exact H2. rewrite append_piece_raw by exact H1.
  unfold praws. cbn [map concat]. now rewrite app_assoc.
Qed.

Theorem strip_raw sp pr : forall n protected, strip_ok sp pr protected n = true ->
  praws (fst (strip_ collapse sp pr protected n)) = raw (flat n).
Proof.
  induction n as [k a sel tx ks tl IH] using node_ind'. intros protected H.
  cbn [strip_ok] in H. apply andb_true_iff in H as [Hk H].
  assert (HK : praws (flat_map fst (map (strip_ collapse sp pr (pr k)) ks)) = raw (flat_map flat ks)).
  { clear H. induction ks as [|c ks IHks]; [reflexivity|].
    inversion IH as [|? ? Hc Hks]; subst. cbn [forallb] in Hk. apply andb_true_iff in Hk as [Hk1 Hk2].
    cbn [map flat_map]. rewrite praws_app, raw_app, (Hc _ Hk1), IHks; auto. }
  cbn [strip_]. rewrite raw_flat.
  destruct (negb protected && sp k sel).
  - cbn [fst]. change (PS (oget tx) :: ?x) with ([PS (oget tx)] ++ x). rewrite !praws_app, HK.
    unfold praws at 1. cbn [map concat praw]. rewrite app_nil_r. f_equal. f_equal.
    destruct tl; unfold praws; cbn; rewrite ?app_nil_r; reflexivity.
  - destruct (negb (existsb snd (map (strip_ collapse sp pr (pr k)) ks))).
    + cbn [fst]. unfold praws. cbn [map concat praw]. rewrite app_nil_r. apply raw_flat.
    + apply andb_true_iff in H as [H1 H2].
      pose proof (fold_append_raw _ _ H2) as F.
      destruct (fold_left (append_piece collapse) (flat_map fst (map (strip_ collapse sp pr (pr k)) ks))
                  (add_text collapse None (oget tx), [])) as [tx' ks'] eqn:E.
      cbn [fst]. unfold praws. cbn [map concat praw]. rewrite app_nil_r, raw_flat.
      unfold raw_state in F. cbn [fst snd] in F. rewrite app_assoc, F, HK.
      unfold add_text. cbn [oget app flat_map]. rewrite collapse_id by exact H1.
      unfold raw at 2. cbn [texts concat]. now rewrite app_nil_r, <- app_assoc.
Qed.
Lemma raw_content n : raw (flat n) = raw (content n) ++ oget (tail_of n).
Proof. destruct n as [k a s tx ks tl]. rewrite raw_flat. cbn [content tail_of]. now rewrite raw_app, raw_otxt, app_assoc. Qed.
Theorem strip_top_raw sp pr n n' : strip_ok sp pr false n = true -> strip_top collapse sp pr n = Some n' ->
  raw (content n') = raw (content n) /\ tail_of n' = tail_of n.
Proof.
  intros Hok H. unfold strip_top in H. pose proof (strip_raw sp pr n false Hok) as R.
  destruct (strip_ collapse sp pr false n) as [ps m] eqn:E. cbn [fst] in R.
  destruct ps as [|[s|x] [|p q]]; try discriminate. injection H as <-.
  unfold praws in R. cbn [map concat praw] in R. rewrite app_nil_r in R.
  assert (T : tail_of x = tail_of n).
  { destruct n as [k a sel tx ks tl]. cbn [strip_] in E.
    destruct (negb false && sp k sel).
    - injection E as E _. destruct tl; cbn in E; destruct (flat_map fst (map (strip_ collapse sp pr (pr k)) ks)); discriminate.
    - destruct (negb (existsb snd (map (strip_ collapse sp pr (pr k)) ks))).
      + injection E as <- _. reflexivity.
      + destruct (fold_left _ _ _) as [tx' ks']. injection E as <- _. reflexivity. }
  split; [|exact T]. rewrite !raw_content, T in R. now apply app_inv_tail in R.
Qed.

(* strip_tags on an element that is itself stripped: everything of the element, its own tail included, is in the new paragraph *)
Theorem strip_default_raw a0 sp pr n n' : sp (kind_of n) (match n with Node _ _ s _ _ _ => s end) = true ->
  strip_ok sp pr false n = true -> fold_ok (fst (strip_ collapse sp pr false n)) (None, []) = true ->
  strip_default collapse a0 sp pr n = Some n' -> raw (content n') = raw (flat n).
Proof.
  intros Hs Hok Hf H. unfold strip_default in H. pose proof (strip_raw sp pr n false Hok) as R.
  destruct (strip_ collapse sp pr false n) as [ps m] eqn:E. cbn [fst] in R, Hf.
  assert (M : m = true).
  { destruct n as [k a sel tx ks tl]. cbn [strip_ kind_of] in E. cbn [kind_of] in Hs. rewrite Hs in E. cbn [negb andb] in E. now injection E as _ <-. }
  subst m. rewrite Hs in H.
  assert (H' : (let '(tx, ks) := fold_left (append_piece collapse) ps (None, []) in Some (Node KP a0 false tx ks None)) = Some n')
    by (destruct ps as [|[s|x] [|p q]]; exact H).
  pose proof (fold_append_raw ps (None, []) Hf) as F.
  destruct (fold_left (append_piece collapse) ps (None, [])) as [tx' ks']. injection H' as <-.
  unfold raw_state in F. cbn [fst snd oget flat_map app] in F. cbn [content]. rewrite raw_app, raw_otxt, F, R.
  reflexivity.
Qed.
