#!/bin/bash
# usage: harness/applyfix.sh fixes/Fnn-x.diff "fix: message"   — one unguarded commit in /repo per genuine defect
set -e
d=$(readlink -f "$1"); msg="$2"
cd /repo
test -z "$(git status --porcelain --untracked-files=no)" || { echo "/repo not clean"; exit 2; }
git apply --whitespace=nowarn "$d" 2>/dev/null || patch -p1 --no-backup-if-mismatch -F3 < "$d"
git add -A src
git commit -q -m "$msg"
git log --oneline -1
h=$(git rev-parse --short HEAD)
/venv/bin/python - "$d" "$h" <<'PY'
import json, sys, os
f = "/verif/fixes/COMMITS.json"
m = json.load(open(f)) if os.path.exists(f) else {}
m[os.path.basename(sys.argv[1])] = sys.argv[2]
json.dump(m, open(f, "w"), indent=1)
PY
