(* Property C03 — statements only.  Each is closed by [exact] of a lemma proved elsewhere. *)
From Coq Require Import List ZArith Bool. Import ListNotations.
Require Import Package PkgManproof PkgZipproof.
Open Scope Z_scope.

(* _save_zip: under every name the zip holds exactly what the container holds (deleted and absent parts are absent) *)
Theorem C03_zip_writer_exact : forall (bytes : Type) (c : container bytes) es, save_zip bytes c = Some es ->
  forall n, lookup n (zip_plain bytes es) = lookup n (live bytes c).
Proof. exact save_zip_lookup. Qed.
Print Assumptions C03_zip_writer_exact.
