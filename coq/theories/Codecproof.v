(* Codecproof.v — decimal text layer and Duration: round trip, lexical form. *)
From Coq Require Import List ZArith NArith Lia Bool Arith DecimalN DecimalFacts ZifyBool.
Import ListNotations.
Require Import Codec.

(* ------------------------------------------------------------------ decimal text *)
Lemma chars_uint_chars u : chars_uint (uint_chars u) = u.
Proof. induction u; cbn; try congruence. Qed.
Lemma uint_chars_digits u : forallb is_digit (uint_chars u) = true.
Proof. induction u; cbn in *; auto. Qed.
Lemma read_digits_app d rest : forallb is_digit d = true -> starts_digit rest = false -> read_digits (d ++ rest) = (d, rest).
Proof.
  induction d as [|c d IH]; intros Hd Hr.
  - cbn [app]. destruct rest as [|c r]; [reflexivity|]. cbn in Hr |- *. now rewrite Hr.
  - cbn [forallb] in Hd. apply andb_true_iff in Hd as [Hc Hd]. cbn [app read_digits]. rewrite Hc, IH by assumption. reflexivity.
Qed.
Lemma to_uint_nonnil n : N.to_uint n <> Decimal.Nil.
Proof. destruct n; cbn; [discriminate|]. apply DecimalPos.Unsigned.to_uint_nonnil. Qed.
Lemma uint_chars_nonnil u : u <> Decimal.Nil -> uint_chars u <> [].
Proof. destruct u; cbn; congruence. Qed.
Lemma print_N_digits n : forallb is_digit (print_N n) = true.
Proof. apply uint_chars_digits. Qed.
Lemma print_N_nonempty n : print_N n <> [].
Proof. apply uint_chars_nonnil, to_uint_nonnil. Qed.
Lemma digits_val_print_N n : digits_val (print_N n) = n.
Proof. unfold digits_val, print_N. now rewrite chars_uint_chars, Unsigned.of_to. Qed.

Lemma print_N2_digits n : forallb is_digit (print_N2 n) = true.
Proof. unfold print_N2. destruct (n <? 10)%N; cbn [forallb]; rewrite ?print_N_digits; reflexivity. Qed.
Lemma print_N2_nonempty n : print_N2 n <> [].
Proof. unfold print_N2. destruct (n <? 10)%N; [discriminate | apply print_N_nonempty]. Qed.
Lemma digits_val_print_N2 n : digits_val (print_N2 n) = n.
Proof.
  unfold print_N2. destruct (n <? 10)%N; [|apply digits_val_print_N].
  unfold digits_val, print_N.
  change (48%N :: uint_chars (N.to_uint n)) with (uint_chars (Decimal.D0 (N.to_uint n))).
  rewrite chars_uint_chars.
  rewrite <- Unsigned.of_uint_norm.
  rewrite <- (Unsigned.of_to n) at 2. rewrite <- (Unsigned.of_uint_norm (N.to_uint n)).
  f_equal.
Qed.

Lemma read_N_digits d rest : d <> [] -> forallb is_digit d = true -> starts_digit rest = false ->
  read_N (d ++ rest) = Some (digits_val d, rest).
Proof.
  intros Hne Hd Hr. unfold read_N. rewrite read_digits_app by assumption.
  destruct d; [congruence | reflexivity].
Qed.
Theorem read_print_N n rest : starts_digit rest = false -> read_N (print_N n ++ rest) = Some (n, rest).
Proof.
  intros Hr. rewrite read_N_digits by (auto using print_N_digits, print_N_nonempty). now rewrite digits_val_print_N.
Qed.
Theorem read_print_N2 n rest : starts_digit rest = false -> read_N (print_N2 n ++ rest) = Some (n, rest).
Proof.
  intros Hr. rewrite read_N_digits by (auto using print_N2_digits, print_N2_nonempty). now rewrite digits_val_print_N2.
Qed.

(* the greedy reader returns exactly a decomposition *)
Lemma read_digits_spec s d rest : read_digits s = (d, rest) ->
  s = d ++ rest /\ forallb is_digit d = true /\ starts_digit rest = false.
Proof.
  revert d rest. induction s as [|c s IH]; intros d rest H.
  - cbn in H. inversion H. auto.
  - cbn [read_digits] in H. destruct (is_digit c) eqn:Hc.
    + destruct (read_digits s) as [d' rest'] eqn:E. inversion H; subst.
      destruct (IH d' rest eq_refl) as (-> & Hd & Hr). cbn [forallb app]. rewrite Hc, Hd. auto.
    + inversion H; subst. cbn. rewrite Hc. auto.
Qed.
Lemma read_N_spec s n rest : read_N s = Some (n, rest) ->
  exists d, s = d ++ rest /\ digit_str d /\ n = digits_val d /\ starts_digit rest = false.
Proof.
  unfold read_N. destruct (read_digits s) as [d r] eqn:E. destruct (read_digits_spec _ _ _ E) as (-> & Hd & Hr).
  destruct d as [|c d]; [discriminate|]. intros H; inversion H; subst.
  exists (c :: d). repeat split; auto. discriminate.
Qed.

(* fixed-width fields *)
Lemma print_fixed_length k n : length (print_fixed k n) = k.
Proof. induction k; cbn [print_fixed length]; congruence. Qed.
Lemma print_fixed_digits k n : forallb is_digit (print_fixed k n) = true.
Proof.
  induction k; cbn [print_fixed forallb]; [reflexivity|]. rewrite IHk, andb_true_r.
  unfold is_digit. pose proof (N.mod_upper_bound (n / 10 ^ N.of_nat k) 10 ltac:(lia)).
  generalize dependent ((n / 10 ^ N.of_nat k) mod 10)%N. intros; lia.
Qed.
Lemma read_fixed_acc_print k : forall n acc rest,
  read_fixed_acc k acc (print_fixed k n ++ rest) = Some ((acc * 10 ^ N.of_nat k + n mod 10 ^ N.of_nat k)%N, rest).
Proof.
  induction k as [|k IH]; intros n acc rest.
  - cbn [print_fixed app read_fixed_acc N.of_nat]. rewrite N.pow_0_r, N.mod_1_r. f_equal. f_equal. lia.
  - cbn [print_fixed app read_fixed_acc].
    pose proof (N.mod_upper_bound (n / 10 ^ N.of_nat k) 10 ltac:(lia)) as Hd.
    rewrite Nat2N.inj_succ, N.pow_succ_r'.
    assert (Hp : (10 ^ N.of_nat k <> 0)%N) by (apply N.pow_nonzero; lia).
    rewrite (N.mul_comm 10 (10 ^ N.of_nat k)), N.mod_mul_r by lia.
    set (dg := ((n / 10 ^ N.of_nat k) mod 10)%N) in *. set (p := (10 ^ N.of_nat k)%N) in *.
    set (lo := (n mod p)%N).
    replace (is_digit (48 + dg)) with true by (unfold is_digit; clearbody dg; lia).
    rewrite IH. fold p. fold lo. f_equal. f_equal.
    replace (48 + dg - 48)%N with dg by lia.
    clearbody dg p lo. nia.
Qed.
Theorem read_print_fixed k n rest : (n < 10 ^ N.of_nat k)%N -> read_fixed k (print_fixed k n ++ rest) = Some (n, rest).
Proof. intros H. unfold read_fixed. rewrite read_fixed_acc_print, N.mod_small by exact H. reflexivity. Qed.

Lemma frac6_print u : (u < 1000000)%N -> frac6 (print_fixed 6 u) = u.
Proof.
  intros H. unfold frac6. rewrite firstn_app, print_fixed_length, Nat.sub_diag.
  rewrite firstn_all2 by (rewrite print_fixed_length; lia). rewrite firstn_O.
  rewrite read_print_fixed by (cbn; lia). reflexivity.
Qed.


(* ------------------------------------------------------------------ Duration *)
Lemma opt_part_print2 c n rest : is_digit c = false -> opt_part c (print_N2 n ++ c :: rest) = Some (n, rest).
Proof. intros Hc. unfold opt_part. rewrite read_print_N2 by (cbn; exact Hc). now rewrite N.eqb_refl. Qed.
Lemma opt_part_nondigit c s : starts_digit s = false -> opt_part c s = None.
Proof.
  intros H. unfold opt_part, read_N. destruct s as [|x r]; [reflexivity|]. cbn in H. cbn [read_digits]. now rewrite H.
Qed.
Lemma opt_seconds_print2 n : opt_seconds (print_N2 n ++ [c_S]) = Some (n, 0%N, []).
Proof. unfold opt_seconds. rewrite read_print_N2 by reflexivity. reflexivity. Qed.
Lemma opt_seconds_print2_frac n f : (f < 1000000)%N ->
  opt_seconds (print_N2 n ++ c_dot :: print_fixed 6 f ++ [c_S]) = Some (n, f, []).
Proof.
  intros Hf. unfold opt_seconds. rewrite read_print_N2 by reflexivity.
  change (c_dot =? c_S)%N with false. change (c_dot =? c_dot)%N with true. cbn iota.
  rewrite read_digits_app by (auto using print_fixed_digits).
  destruct (print_fixed 6 f) as [|f0 fr] eqn:E.
  { pose proof (print_fixed_length 6 f) as L. rewrite E in L. discriminate. }
  change (c_S =? c_S)%N with true. cbn iota. rewrite <- E, frac6_print by exact Hf. reflexivity.
Qed.

(* truncation of a microsecond count to whole seconds, toward zero: what survived the pinned Duration.encode *)
Definition trunc_s (us : Z) : Z := (Z.quot us 1000000 * 1000000)%Z.

Lemma dur_arith (a : N) :
  let a1 := (a mod 3600000000)%N in let a2 := (a1 mod 60000000)%N in
  ((0 * 86400 + a / 3600000000 * 3600 + a1 / 60000000 * 60 + a2 / 1000000) * 1000000 + a2 mod 1000000 = a)%N.
Proof.
  intros a1 a2.
  pose proof (N.div_mod a 3600000000 ltac:(lia)) as H1. pose proof (N.mod_upper_bound a 3600000000 ltac:(lia)) as B1.
  pose proof (N.div_mod a1 60000000 ltac:(lia)) as H2. pose proof (N.mod_upper_bound a1 60000000 ltac:(lia)) as B2.
  pose proof (N.div_mod a2 1000000 ltac:(lia)) as H3. pose proof (N.mod_upper_bound a2 1000000 ltac:(lia)) as B3.
  fold a1 in H1, B1, H2. fold a2 in H2, B2, H3.
  generalize dependent (a / 3600000000)%N. generalize dependent (a1 / 60000000)%N. generalize dependent (a2 / 1000000)%N.
  generalize dependent (a2 mod 1000000)%N.
  clearbody a2. clearbody a1. intros. lia.
Qed.

Theorem dur_decode_encode (us : Z) : dur_decode (dur_encode us) = Some us.
Proof.
  unfold dur_encode. set (a := Z.to_N (Z.abs us)).
  set (h := (a / 3600000000)%N). set (a1 := (a mod 3600000000)%N).
  set (m := (a1 / 60000000)%N). set (a2 := (a1 mod 60000000)%N). set (sec := (a2 / 1000000)%N). set (f := (a2 mod 1000000)%N).
  set (tail := print_N2 sec ++ (if (f =? 0)%N then [] else c_dot :: print_fixed 6 f) ++ [c_S]).
  set (body := print_N2 h ++ c_H :: print_N2 m ++ c_M :: tail).
  assert (Hf : (f < 1000000)%N) by (unfold f; apply N.mod_upper_bound; lia).
  assert (Htail : tail <> [] /\ opt_seconds tail = Some (sec, f, [])).
  { unfold tail. split.
    - intros E. apply app_eq_nil in E as [E _]. now apply print_N2_nonempty in E.
    - destruct (N.eqb_spec f 0) as [E|Hne]; cbn [app]; [rewrite E; apply opt_seconds_print2 | now apply opt_seconds_print2_frac]. }
  destruct Htail as [Hne Hos].
  assert (Hdec : forall sg : Z, dur_body sg (c_P :: c_T :: body) = Some (sg * Z.of_N a)%Z).
  { intros sg. unfold dur_body. change (negb (c_P =? c_P)%N) with false. cbn iota.
    unfold part_or_zero at 1. rewrite opt_part_nondigit by reflexivity.
    change (negb (c_T =? c_T)%N) with false. cbn iota. unfold body.
    unfold part_or_zero. rewrite !opt_part_print2 by reflexivity.
    destruct tail as [|x l] eqn:E; [congruence|]. rewrite Hos. f_equal. f_equal. f_equal. apply dur_arith. }
  assert (Hq : forall sg : Z, (sg = if (us <? 0)%Z then -1 else 1)%Z -> (sg * Z.of_N a = us)%Z).
  { intros sg ->. unfold a. rewrite Z2N.id by lia. destruct (Z.ltb_spec us 0); lia. }
  unfold dur_decode. destruct (Z.ltb_spec us 0) as [Hneg|Hpos].
  - cbn [app]. change (c_minus =? c_minus)%N with true. cbn iota.
    fold tail. fold body. rewrite (Hdec (-1)%Z). f_equal. apply Hq. destruct (Z.ltb_spec us 0); [reflexivity | lia].
  - cbn [app]. change (c_P =? c_minus)%N with false. cbn iota.
    fold tail. fold body. rewrite (Hdec 1%Z). f_equal. apply Hq. destruct (Z.ltb_spec us 0); [lia | reflexivity].
Qed.

Theorem dur_roundtrip_s (s : Z) : dur_decode (dur_encode_s s) = Some (s * 1000000)%Z.
Proof. apply dur_decode_encode. Qed.

(* the pinned encoder drops the sub-second part: what comes back is the value truncated toward zero to whole seconds (F71) *)
Lemma dur_arith_trunc (a : N) :
  let a1 := (a mod 3600000000)%N in let a2 := (a1 mod 60000000)%N in
  ((0 * 86400 + a / 3600000000 * 3600 + a1 / 60000000 * 60 + a2 / 1000000) * 1000000 + 0 = a / 1000000 * 1000000)%N.
Proof.
  intros a1 a2.
  pose proof (N.div_mod a 3600000000 ltac:(lia)) as H1. pose proof (N.mod_upper_bound a 3600000000 ltac:(lia)) as B1.
  pose proof (N.div_mod a1 60000000 ltac:(lia)) as H2. pose proof (N.mod_upper_bound a1 60000000 ltac:(lia)) as B2.
  pose proof (N.div_mod a2 1000000 ltac:(lia)) as H3. pose proof (N.mod_upper_bound a2 1000000 ltac:(lia)) as B3.
  pose proof (N.div_mod a 1000000 ltac:(lia)) as H4. pose proof (N.mod_upper_bound a 1000000 ltac:(lia)) as B4.
  fold a1 in H1, B1, H2. fold a2 in H2, B2, H3.
  generalize dependent (a / 3600000000)%N. generalize dependent (a1 / 60000000)%N. generalize dependent (a2 / 1000000)%N.
  generalize dependent (a / 1000000)%N. generalize dependent (a2 mod 1000000)%N. generalize dependent (a mod 1000000)%N.
  clearbody a2. clearbody a1. intros. lia.
Qed.

Theorem dur_pinned_truncates (us : Z) : dur_decode (dur_encode_pinned us) = Some (trunc_s us).
Proof.
  unfold dur_encode_pinned. set (a := Z.to_N (Z.abs us)).
  set (h := (a / 3600000000)%N). set (a1 := (a mod 3600000000)%N).
  set (m := (a1 / 60000000)%N). set (a2 := (a1 mod 60000000)%N). set (sec := (a2 / 1000000)%N).
  set (body := print_N2 h ++ c_H :: print_N2 m ++ c_M :: print_N2 sec ++ [c_S]).
  assert (Hdec : forall sg : Z,
     (let '(d, t3, hd) := part_or_zero c_D (c_T :: body) in
      match t3 with
      | [] => if hd then Some (sg * Z.of_N (d * 86400 * 1000000))%Z else None
      | c' :: t4 =>
        if negb (c' =? c_T)%N then None else
        let '(h, t5, hh) := part_or_zero c_H t4 in
        let '(m, t6, hm) := part_or_zero c_M t5 in
        match t6 with
        | [] => if hh || hm then Some (sg * Z.of_N ((d * 86400 + h * 3600 + m * 60) * 1000000))%Z else None
        | _ => match opt_seconds t6 with
               | Some (sec, us, []) => Some (sg * Z.of_N ((d * 86400 + h * 3600 + m * 60 + sec) * 1000000 + us))%Z
               | _ => None
               end
        end
      end) = Some (sg * Z.of_N (a / 1000000 * 1000000))%Z).
  { intros sg. unfold part_or_zero at 1. rewrite opt_part_nondigit by reflexivity.
    change (negb (c_T =? c_T)%N) with false. cbn iota. unfold body.
    unfold part_or_zero. rewrite !opt_part_print2 by reflexivity.
    destruct (print_N2 sec ++ [c_S]) as [|x l] eqn:E.
    - apply app_eq_nil in E as [_ E]. discriminate.
    - rewrite <- E, opt_seconds_print2. f_equal. f_equal. f_equal. apply dur_arith_trunc. }
  assert (Hq : forall sg : Z, (sg = if (us <? 0)%Z then -1 else 1)%Z -> (sg * Z.of_N (a / 1000000 * 1000000) = trunc_s us)%Z).
  { intros sg ->. unfold trunc_s, a. rewrite N2Z.inj_mul, N2Z.inj_div, Z2N.id by lia. change (Z.of_N 1000000) with 1000000%Z.
    destruct (Z.ltb_spec us 0).
    - rewrite Z.abs_neq by lia. rewrite <- (Z.opp_involutive us) at 2. rewrite Z.quot_opp_l by lia.
      rewrite Z.quot_div_nonneg by lia. lia.
    - rewrite Z.abs_eq by lia. rewrite Z.quot_div_nonneg by lia. lia. }
  unfold dur_decode. destruct (Z.ltb_spec us 0) as [Hneg|Hpos].
  - cbn [app]. change (c_minus =? c_minus)%N with true. cbn iota. unfold dur_body.
    change (negb (c_P =? c_P)%N) with false. cbn iota.
    rewrite (Hdec (-1)%Z). f_equal. apply Hq. destruct (Z.ltb_spec us 0); [reflexivity | lia].
  - cbn [app]. change (c_P =? c_minus)%N with false. cbn iota. unfold dur_body.
    change (negb (c_P =? c_P)%N) with false. cbn iota.
    rewrite (Hdec 1%Z). f_equal. apply Hq. destruct (Z.ltb_spec us 0); [lia | reflexivity].
Qed.

