(* TableBchk.v — the checker of property C02 evaluated by vm_compute on every correspondence step.  No proofs.
   One observation = one step (a mutator or a cache-filling read) of a history driven on the implementation:
   the raw XML abstraction before and after, the PRIVATE state (maps, cached wrappers with their own maps and the
   position of their lxml element, cell / column caches) before, right after the step and after the observation
   reads, the same call performed on a fresh parse of the pre-state (the twin), the answers of the observation reads
   on the live object and on a fresh parse of the post-state, and (every k-th step) the table reloaded from a saved
   document with its answers. *)
From Coq Require Import List ZArith NArith Bool Arith.
Import ListNotations.
Require Import Vault Row Table Grid Tableabs Tablexml Tablechk Transform TableB TableBspan TableBabs.
Local Open Scope Z_scope.

(* what a step of a history was: a step of the layer-B model | one of rstrip / optimize_width / transpose (TableBx: the private
   state afterwards is that of a fresh parse) | an operation outside the model *)
Inductive cop := CModel (o : bop) | CXform | COpaque
| CRowRstrip (y : Z)        (* get_row(y, clone=False).rstrip(): TableBx.b_live_rstrip — the wrapper's map recomputed, its cell cache dropped *)
| CSetSpan (x y z t : Z) (ret : bool)     (* set_span((x, y, z, t)) that returned ret: TableBspan.b_set_span_given at the content found in the area afterwards *)
| CDelSpan (x y nc nr : Z) (ret : bool)   (* del_span((x, y)) on a cell spanning nc x nr: TableBspan.b_del_span_given *)
| CLiveCol (n : nat).       (* c = append_column(column); c.repeated = n: TableBx.b_live_column — both maps recomputed, caches kept *)
Inductive cdump := CD (tm cm : list Z) (tc : list (nat * rwrap)) (cc : list (nat * Z)).
Definition mkb (x : xtable) (d : cdump) : bstate :=
  let '(CD tm cm tc cc) := d in {| ax := to_tstate x; tmapB := tm; cmapB := cm; tcache := tc; ccache := cc |}.

Inductive obs2 := Obs2
  (pre : xtable) (pred : cdump)                 (* before the step *)
  (o : cop)
  (post : xtable) (postd : cdump) (raised : bool) (out : bans)     (* the live object right after the step; answer of a read step *)
  (twin : xtable) (twin_raised : bool) (twin_out : bans)            (* the same call on Element.from_tag(pre.serialize()) *)
  (live fresh : list (bread * bans))            (* observation reads on the live object / on a fresh parse of post *)
  (afterd : cdump)                              (* private state after the observation reads *)
  (reload : option (xtable * list (bread * bans))).    (* Document.save -> reopen: the table and its answers *)

(* exact equality of answers (live against fresh parse / reload) *)
Definition rowx_run_eqb (a b : nat * rowx) := run_eqb rowx_eqb a b.
Definition tans_eqb (a b : tans) : bool :=
  match a, b with
  | ASize w h, ASize w' h' => (w =? w') && (h =? h')
  | AValue v, AValue v' => v =? v'
  | AList l, AList l' => zl_eqb l l'
  | AMatrix l, AMatrix l' => list_eqb zl_eqb l l'
  | ACell c, ACell c' => cell_eqb c c'
  | _, _ => false end.
Definition bans_eqb (a b : bans) : bool :=
  match a, b with
  | BAns x, BAns y => tans_eqb x y
  | BARow r, BARow r' => rowx_run_eqb r r'
  | BACell c, BACell c' => run_eqb cell_eqb c c'
  | BARows l, BARows l' => list_eqb rowx_eqb l l'
  | BACol c, BACol c' => run_eqb Z.eqb c c'
  | BACols l, BACols l' => zl_eqb l l'
  | BFail, BFail => true
  | _, _ => false end.
(* specification answer (value ids) against the implementation's answer (value classes) *)
Definition gans_eqb (vcl : Z -> Z) (spec impl : gans) : bool :=
  match spec, impl with
  | GAns a, GAns a' => ans_eqb vcl a a'
  | GRow l, GRow l' => cells_eqb l l'
  | GCell c, GCell c' => cell_eqb c c'
  | GRows l, GRows l' => list_eqb cells_eqb l l'
  | GCol, GCol => true
  | GCols n, GCols n' => n =? n'
  | _, _ => false end.
Definition reads_eqb (a b : list (bread * bans)) : bool :=
  (length a =? length b)%nat && forallb (fun p : (bread * bans) * (bread * bans) => bans_eqb (snd (fst p)) (snd (snd p))) (combine a b).
Definition reads_spec (vcl : Z -> Z) (g : gridT) (l : list (bread * bans)) : bool :=
  forallb (fun qa : bread * bans => gans_eqb vcl (gb_read g (fst qa)) (proj (snd qa))) l.

(* which part of Coh fails: 0 none | 1 _tmap | 2 _cmap | 3 a cached row wrapper (position, _rmap or its cached cells) | 4 a cached column *)
Definition coh_code (b : bstate) : nat :=
  if negb (tmap_okb b) then 1 else if negb (cmap_okb b) then 2 else if negb (tcache_okb b) then 3
  else if negb (ccache_okb b) then 4 else 0.

(* C02.  0 agree
   | 10 the live call raised and the same call on a fresh parse did not (or conversely)
   | 3  the XML after the call differs from the XML after the same call on a fresh parse of the pre-state
   | 21..24 Coh false right after the step | 31..34 Coh false after the observation reads
   | 4  an answer of the live object differs from the expansion of its own XML (independent reader, Grid)
   | 6  an answer of the live object differs from the answer of a fresh parse of its XML
   | 7  the table reloaded from a saved document is not the table the caller was looking at (XML or answers)
   | 11 outside the modelled fragment
   | 8  (not C02) the grid after the call is not the grid step — C01's subject, reported as a note
   | 9  only the exact private state / answer differs from the layer-B model (fidelity) *)
Definition chk_c02 (vcl : Z -> Z) (ob : obs2) : nat :=
  let '(Obs2 pre pred o post postd raised out twin traised tout live fresh afterd reload) := ob in
  if negb (in_fragment pre && in_fragment post && in_fragment twin) then 11%nat
  else if negb (Bool.eqb raised traised) then 10%nat
  else if negb (tstate_eqb (to_tstate post) (to_tstate twin)) then 3%nat
  else
    let bpost := mkb post postd in
    let bafter := mkb post afterd in
    let g := abs_t (to_tstate post) in
    match coh_code bpost with
    | S k => (21 + k)%nat
    | O =>
    match coh_code bafter with
    | S k => (31 + k)%nat
    | O =>
      if raised then 0%nat
      else if negb (match o with CModel (BRead q) => gans_eqb vcl (gb_read g q) (proj out) | _ => true end && reads_spec vcl g live) then 4%nat
      else if negb (bans_eqb out tout && reads_eqb live fresh) then 6%nat
      else if negb (match reload with
                    | None => true
                    | Some (x, rl) => in_fragment x && tstate_eqb (to_tstate x) (to_tstate post) && reads_eqb live rl end) then 7%nat
      else
        match o with
        | COpaque => 0%nat
        | CXform => if bstate_eqb bpost (TableB.fresh (to_tstate post)) then 0%nat else 9%nat
        | CRowRstrip y =>
            let b0 := mkb pre pred in let tp := to_tstate post in
            let yy := bny y b0 in
            if bheight b0 <=? yy then (if bstate_eqb bpost (with_ax b0 tp) then 0%nat else 9%nat)
            else match get_wrap yy b0 with
                 | Some (i, w, b1) =>
                     match nth_error (rows tp) (Z.to_nat (w_pos w)) with
                     | Some (_, (_, cs')) =>
                         let w' := {| w_pos := w_pos w; w_rmap := cmap cs'; w_cells := [] |} in
                         if bstate_eqb bpost {| ax := tp; tmapB := tmapB b1; cmapB := cmapB b1; tcache := upsertn i w' (tcache b1); ccache := ccache b1 |}
                         then 0%nat else 9%nat
                     | None => 9%nat end
                 | None => 9%nat end
        | CSetSpan x y z t ret =>
            match b_set_span_given x y z t ret (area_cells x y z t (to_tstate post)) (mkb pre pred) with
            | Some b' => if bstate_eqb bpost b' then 0%nat else 9%nat
            | None => 9%nat end
        | CDelSpan x y nc nr ret =>
            match b_del_span_given x y ret (area_read x y (x + nc - 1) (y + nr - 1) (to_tstate post)) (mkb pre pred) with
            | Some b' => if bstate_eqb bpost b' then 0%nat else 9%nat
            | None => 9%nat end
        | CLiveCol n =>
            let b0 := mkb pre pred in let tp := to_tstate post in
            if bstate_eqb bpost {| ax := tp; tmapB := cmap (rows tp); cmapB := cmap (cols tp); tcache := tcache b0; ccache := ccache b0 |}
               && (length (cols tp) =? S (length (cols (to_tstate pre))))%nat
               && match rev (cols tp) with (k, _) :: _ => (k =? Nat.max 1 n)%nat | [] => false end
            then 0%nat else 9%nat
        | CModel o =>
        let want := match o with
                    | BMut m => g_step (abs_t (to_tstate pre)) m
                    | BRead _ => abs_t (to_tstate pre)
                    | BLive l => match a_live (to_tstate pre) l with Some t' => abs_t t' | None => abs_t (to_tstate pre) end end in
        if negb (grid_eqb g want) then 8%nat
        else
          let '(bm, am) := tB_step (mkb pre pred) o in
          if bstate_eqb bm bpost && match o with BRead (RQ _) => gans_eqb vcl (proj am) (proj out) | BRead _ => bans_eqb am out | _ => true end then 0%nat else 9%nat
        end
    end end.
