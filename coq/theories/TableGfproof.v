(* TableGfproof.v — every filtered getter returns exactly the filter of the answer of the unfiltered getter it is built on; that
   answer meets the (as-stored) specification on every well-formed table whose rows fit (TableGproof7), so the objects a
   filtered read returns still carry the coordinates of the addressed positions, their content, no repeat, and are Detached. *)
From Coq Require Import List ZArith Lia Bool Arith.
Import ListNotations.
Require Import Vault Row Table Grid Tableabs Tablexmlproof TableB TableG TableGspec TableGproof TableGproof7 TableGf.
Open Scope Z_scope.

Lemma flat_map_map {A B C} (g : A -> B) (h : B -> list C) l : flat_map h (map g l) = flat_map (fun a => h (g a)) l.
Proof. induction l as [|a l IH]; [reflexivity|]. cbn [map flat_map]. now rewrite IH. Qed.

Theorem filtered_is_filter (f : filt) (t : tstate) (g : fgetter) :
  m_fget f t g = apply_filter f g (m_get false false t (base_getter g)).
Proof.
  destruct g as [area flat|range|range|x complete|y rcl s e]; cbn [m_fget base_getter m_get apply_filter].
  - unfold m_get_cells, area_bounds. destruct area as [[[[x y] z] e]|]; cbv beta iota zeta; cbn [negb orb]; destruct flat; repeat f_equal; symmetry; apply List.map_map.
  - reflexivity.
  - reflexivity.
  - cbn [concat]. rewrite app_nil_r. unfold m_get_column_cells. rewrite flat_map_map. reflexivity.
  - cbn [concat]. rewrite app_nil_r. reflexivity.
Qed.

Theorem filtered_getters_hold (f : filt) (t : tstate) (g : fgetter) : WF t -> fits t = true ->
  exists r0, meets (promises_copy (base_getter g)) (expands (base_getter g)) r0 (spec_get false (abs_t t) (base_getter g)) = true /\
             m_fget f t g = apply_filter f g r0.
Proof.
  intros Hwf Hfit. exists (m_get false false t (base_getter g)). split; [apply (all_getters_as_stored t _ Hwf Hfit)|apply filtered_is_filter].
Qed.

(* whatever the filter, the returned objects are Detached and carry no repeat *)
Definition fres_cells (r : fres) : list cobj :=
  match r with FCells l => concat l | FFlat l => l | FOpt l => flat_map (fun o => match o with Some c => [c] | None => [] end) l | _ => [] end.
Lemma Forall_filter' {A} (P : A -> Prop) p l : Forall P l -> Forall P (filter p l).
Proof. induction 1; cbn [filter]; [constructor|]. destruct (p x); [constructor|]; assumption. Qed.
