"""Orchestration shared by the table checks: generate + drive histories on 16 processes, evaluate them in Coq,
decide (shrink, replay, known findings), write evidence."""
import json, multiprocessing, os, random, sys, time
from pathlib import Path
sys.path.insert(0, str(Path(__file__).resolve().parent))
import common
import tablelib as tl
import tableext as tx
import tablegrp as tg
import tablexf as tf

KINDS = ['empty', 'prefilled', 'rle', 'rle', 'sample']


def _worker(job):
    seed, kind, nsteps, kinds, maxw, maxh = job
    odfdo = common.use_repo()
    case, err = tl.gen_and_run(odfdo, seed, kind, nsteps, kinds, maxw, maxh)
    if err is not None:
        return case, err
    return case, tl.run_case(odfdo, case)


def _replay_worker(case):
    odfdo = common.use_repo()
    if case.get('family') == 'ext':
        return case, tx.run_case2(odfdo, case)
    if case.get('family') == 'grp':
        return case, tg.run_case3(odfdo, case)
    if case.get('family') == 'xf':
        return case, tf.run_case4(odfdo, case)
    return case, tl.run_case(odfdo, case)


def _worker2(job):
    seed, kind, nsteps, maxw, maxh, live = job
    odfdo = common.use_repo()
    return tx.gen_and_run2(odfdo, seed, kind, nsteps, maxw, maxh, live), None


def _worker3(job):
    seed, nsteps, kinds, maxw, maxh = job
    odfdo = common.use_repo()
    return tg.gen_and_run3(odfdo, seed, nsteps, kinds, maxw, maxh), None


def _worker4(job):
    seed, nsteps, kinds, maxw, maxh = job
    odfdo = common.use_repo()
    return tf.gen_and_run4(odfdo, seed, nsteps, kinds, maxw, maxh), None


def plan_xf(tier, rng, kinds):
    n = 200 if tier == 'quick' else 2500
    return [(rng.getrandbits(48), rng.randint(1, 5 if tier == 'quick' else 8), kinds, 8, 8) for _ in range(n)]


def plan_grp(tier, rng, kinds):
    n = 160 if tier == 'quick' else 1500
    return [(rng.getrandbits(48), rng.randint(1, 6 if tier == 'quick' else 10), kinds, 8, 8) for _ in range(n)]


def plan_ext(tier, rng, live):
    n = 220 if tier == 'quick' else 2000
    maxw, maxh = (8, 8) if tier == 'quick' else (12, 12)
    return [(rng.getrandbits(48), KINDS[i % len(KINDS)], rng.randint(1, 7 if tier == 'quick' else 10), maxw, maxh, live) for i in range(n)]


def drive(jobs, fn=_worker, procs=16):
    if len(jobs) <= 2:
        return [fn(j) for j in jobs]
    ctx = multiprocessing.get_context('fork')
    with ctx.Pool(procs) as pool:
        return pool.map(fn, jobs, chunksize=max(1, len(jobs) // (procs * 8)))


def plan(tier, rng, kinds):
    n = 700 if tier == 'quick' else 8000
    maxw, maxh = (8, 8) if tier == 'quick' else (12, 12)
    jobs = []
    for i in range(n):
        kind = KINDS[i % len(KINDS)]
        nsteps = rng.randint(1, 8 if tier == 'quick' else 12)
        jobs.append((rng.getrandbits(48), kind, nsteps, kinds, maxw, maxh))
    return jobs


def step_key(rec):
    return rec['op'][0]


def histogram(results):
    ops, kinds, sizes, raised, reps = {}, {}, {}, 0, {}
    for case, res in results:
        kinds[case['kind']] = kinds.get(case['kind'], 0) + 1
        for r in res.get('records', []):
            ops[r['op'][0]] = ops.get(r['op'][0], 0) + 1
            if r['raised']:
                raised += 1
            cols, rows = tl.shape_of(r['post'])
            h = sum(x for x, _ in rows)
            sizes[min(h, 12)] = sizes.get(min(h, 12), 0) + 1
    return dict(operations=ops, initial_kinds=kinds, post_heights=sizes, implementation_exceptions=raised)


def nontrivial(results):
    """distinct (shape of pre-state, operation kind, position class, repeat) tuples where the call changed the state or
    addressed a repeated run — counted by hashing"""
    seen = set()
    for case, res in results:
        pre = res.get('init')
        for r in res.get('records', []):
            post = r['post']
            if pre is not None:
                cols, rows = tl.shape_of(pre)
                touched_rep = any(x > 1 for x, _ in rows) or any(x > 1 for x, _ in cols) or any(c > 1 for _, cs in rows for c in cs)
                if post != pre or touched_rep:
                    seen.add(common.digest((cols, rows, r['abstract_op'])))
            pre = post
    return len(seen)


# ------------------------------------------------------------------ vault sweep at Row level (the three vault functions)

def _row_sweep_cases(tier, rng=None):
    """exhaustive: (<=3 runs [thorough: <=4], repeats <=3) x {set, insert, delete} x every position -1..width+1 x repeat 1..4;
    plus random Row-level histories of one step over the whole Row alphabet (append, set_cells, set_values, extend_cells, clear)"""
    import itertools
    maxruns = 3 if tier == 'quick' else 4
    cases = []
    for k in range(maxruns + 1):
        for reps in itertools.product((1, 2, 3), repeat=k):
            w = sum(reps)
            cells = [[r, i + 1, None] for i, r in enumerate(reps)]
            for x in list(range(0, w + 2)) + [-1]:
                for rep in (1, 2, 3, 4):
                    cases.append((cells, ['set', x, [rep, 9, None]])); cases.append((cells, ['ins', x, [rep, 9, None]]))
                cases.append((cells, ['del', x]))
    nexh = len(cases)
    if rng is not None:
        for _ in range(800 if tier == 'quick' else 20000):
            cells = [tl.g_cellspec(rng) for _ in range(rng.randint(0, 4))]
            w = sum(c[0] for c in cells)
            x = rng.choice([0, 0, 1, w - 1, w, w + 1, w + 2, -1, -2, rng.randint(0, w + 1)])
            k = rng.choice(['set', 'ins', 'del', 'app', 'set_cells', 'set_cells', 'set_values', 'set_values', 'extend', 'clear'])
            if k in ('set', 'ins'): op = [k, x, tl.g_cellspec(rng)]
            elif k == 'del': op = [k, x]
            elif k == 'app': op = [k, tl.g_cellspec(rng)]
            elif k == 'set_cells': op = [k, rng.random() < 0.5, x, [tl.g_cellspec(rng) for _ in range(rng.randint(0, 5))]]
            elif k == 'set_values': op = [k, x, [rng.choice(tl.VALUES) for _ in range(rng.randint(0, 5))], rng.choice([None, 's1'])]
            elif k == 'extend': op = [k, [tl.g_cellspec(rng) for _ in range(rng.randint(0, 3))]]
            else: op = [k]
            cases.append((cells, op))
    return cases, nexh


def _row_sweep_worker(chunk):
    odfdo = common.use_repo()
    out = []
    for cells, op in chunk:
        xml = '<table:table-row>%s</table:table-row>' % ''.join(tl.cell_xml(c) for c in cells)
        try:
            row = tl.timed(odfdo.Element.from_tag, xml)
            intern = tl.Intern()

            def absrow():
                el = tl.etree.fromstring('<r %s>%s</r>' % (tl.NSDECL, row.serialize()))[0]
                return [(tl.rep_val(c[1]), c[2], c[3]) for c in (intern.cell(e) for e in el)]

            def acell(c):
                f, r_, v, s = intern.cell(tl.etree.fromstring('<r %s>%s</r>' % (tl.NSDECL, c.serialize()))[0])
                return (tl.rep_val(r_), v, s)
            pre = absrow()
            k = op[0]
            if k in ('set', 'ins'):
                c = tl.mk_cell(odfdo, op[2]); a = acell(c)
                tl.timed(row.set_cell if k == 'set' else row.insert_cell, op[1], c)
                term = '%s (%d) %s' % ('RSet' if k == 'set' else 'RIns', op[1], tl.c_cellrun(a))
            elif k == 'del':
                tl.timed(row.delete_cell, op[1]); term = 'RDel (%d)' % op[1]
            elif k == 'app':
                c = tl.mk_cell(odfdo, op[1]); a = acell(c); tl.timed(row.append_cell, c); term = 'RApp %s' % tl.c_cellrun(a)
            elif k == 'set_cells':
                objs = [tl.mk_cell(odfdo, c) for c in op[3]]; a = [acell(c) for c in objs]
                tl.timed(row.set_cells, objs, op[2], op[1])
                term = 'RSetCells %s (%d) %s' % ('true' if op[1] else 'false', op[2], tl.c_cells(a))
            elif k == 'set_values':
                a = [acell(tl.mk_cell(odfdo, [1, v, op[3]])) for v in op[2]]
                tl.timed(row.set_values, op[2], op[1], style=op[3])
                term = 'RSetCells false (%d) %s' % (op[1], tl.c_cells(a))
            elif k == 'extend':
                objs = [tl.mk_cell(odfdo, c) for c in op[1]]; a = [acell(c) for c in objs]
                tl.timed(row.extend_cells, objs); term = 'RExtend %s' % tl.c_cells(a)
            else:
                tl.timed(row.clear); term = 'RClear'
            post = absrow()
            out.append('(%s, %s, %s, %s)' % (tl.c_cells(pre), term, tl.c_cells(post), tl.c_zlist(list(row._rmap))))
        except Exception as e:
            out.append('(%s, RClear, [(7%%nat,(7,7))], [])' % tl.c_cells([(c[0], 1, 0) for c in cells]))
    return out


ROW_HEADER = ('Require Import Vault Row Table Grid Tableabs Tablexml Tablechk.\n'
              'From Coq Require Import List ZArith NArith Bool Arith. Import ListNotations. Open Scope Z_scope.\n'
              'Definition chkrow (c : rruns * rop * rruns * list Z) : nat := let \'(pre, o, post, m) := c in chk_row pre o post m.\n')


def row_sweep(tier, only=None, rng=None):
    cases, nexh = ([only], 0) if only else _row_sweep_cases(tier, rng)
    if only:
        terms = _row_sweep_worker(cases)
        bad, errors = common.run_shards(ROW_HEADER, terms, 'chkrow', 'rowsweep')
        return cases, bad, errors, 0
    n = 16
    chunks = [cases[i::n] for i in range(n)]
    ctx = multiprocessing.get_context('fork')
    with ctx.Pool(n) as pool:
        outs = pool.map(_row_sweep_worker, chunks)
    terms, index = [], []
    for ci, out in enumerate(outs):
        for j, t in enumerate(out):
            terms.append(t); index.append(chunks[ci][j])
    bad, errors = common.run_shards(ROW_HEADER, terms, 'chkrow', 'rowsweep', shard=max(50, len(terms) // 16 + 1))
    return index, bad, errors, nexh


# ------------------------------------------------------------------ the check proper

def pre_xml_of(odfdo, case, step):
    """serialised table right before step `step` (for shrinking)"""
    d = tf.Driver4(odfdo, case['init_xml']) if case.get('family') == 'xf' else tx.Driver2(odfdo, case['init_xml'])
    for st in case['steps'][:step]:
        (d.apply4 if case.get('family') == 'xf' else d.apply2)(st['op'])
        for q in st.get('reads', []):
            try: d.read(q)
            except Exception: pass
        for q in st.get('reads2', []):
            try: d.read2(q)
            except Exception: pass
    return tl.timed(d.table.serialize)



def evaluate(cases, checker, tag):
    """run cases on the implementation and in Coq; returns (results, {index: code}, coq errors)"""
    results = drive(cases, fn=_replay_worker)
    out, errors = {}, []
    for fam, header, chk in (('main', tl.HEADER, checker), ('ext', tx.HEADER2, checker + 'x'), ('grp', tg.HEADER3, checker + 'g'),
                             ('xf', tf.HEADER4, checker + 'f')):
        terms, idx = [], []
        for i, (case, res) in enumerate(results):
            if res['term'] is not None and case.get('family', 'main') == fam:
                terms.append(res['term']); idx.append(i)
        if not terms:
            continue
        bad, errs = common.run_shards(header, terms, chk, tag + fam[0], shard=min(300, max(1, len(terms) // 16 + 1)))
        errors += errs
        out.update({idx[k]: c for k, c in bad.items()})
    return results, out, errors


def run_table_check(prop, tier, seed, replay, checker, layers, soft_codes, kinds, extra=None, trusted=(), modelled='', assumptions=(),
                    prebuild=None, extra_targets=()):
    """layers: code -> text of a property-level failure (a concrete failing input).  soft_codes: codes that are
    model/proof-level (no failing input by themselves).  extra(tier, rng) -> dict(violations=[(payload)], coverage={}, errors=[])"""
    t0 = time.time(); rng = random.Random(seed)
    odfdo = common.use_repo()
    gen_error = None
    if prebuild:
        try:
            prebuild(odfdo)
        except Exception as e:      # the translator met a shape it does not understand: correspondence failure, not a guess
            gen_error = 'generated tables: %r' % (e,)
    proofs = common.build_proofs(prop, extra_targets)
    known = {e['key']: e for e in common.known_findings(prop)}
    chk_proc = None
    if tier == 'thorough' and not replay and proofs['ok']:
        # independent re-check of the compiled proofs (and their whole dependency cone) by coqchk, in the background
        import subprocess
        chk_proc = subprocess.Popen('timeout 1500 coqchk -silent -o -R theories "" %s' % prop, shell=True, cwd=common.COQ,
                                    stdout=subprocess.PIPE, stderr=subprocess.STDOUT, text=True)
    corpus = []
    for f in sorted((common.ROOT / 'corpus' / prop).glob('*.json')):
        corpus.append(json.load(open(f))['case'])
    if replay:
        payload = json.load(open(replay))
        cases = [payload['case']] if 'case' in payload else []
        results, bad, errors = evaluate(cases, checker, prop.lower()) if cases else ([], {}, [])
        sweep = None
        if 'row_cells' in payload:
            sweep = row_sweep(tier, only=(payload['row_cells'], payload['operation']))
    else:
        jobs = plan(tier, rng, kinds)
        gen = drive(jobs)
        gen2 = drive(plan_ext(tier, rng, live=(prop == 'C01')), fn=_worker2)
        gen3 = drive(plan_grp(tier, rng, kinds), fn=_worker3)
        gen4 = drive(plan_xf(tier, rng, kinds), fn=_worker4)
        cases = corpus + [c for c, r in gen] + [c for c, r in gen2] + [c for c, r in gen3] + [c for c, r in gen4]
        results, bad, errors = evaluate(cases, checker, prop.lower())
        sweep = row_sweep(tier, rng=rng) if prop == 'C01' else None
    violations, known_seen, notes = [], [], []
    abstraction_failures = [(i, r['error']) for i, (c, r) in enumerate(results) if r['term'] is None]
    hard = {i: c for i, c in bad.items() if c != 9 and (c % 100) in layers}
    soft = {i: c for i, c in bad.items() if c != 9 and (c % 100) not in layers}
    seen_keys = set()
    for i in sorted(hard):
        code = hard[i]; step = code // 100 - 1; layer = code % 100
        case, res = results[i]
        rec = res['records'][step] if 0 <= step < len(res['records']) else None
        key = '%s/%s' % (rec['op'][0] if rec else 'initial-state', layers[layer][0])
        if key in seen_keys:
            continue
        seen_keys.add(key)
        # shrink: the single step from the serialised pre-state, else the prefix of the history
        small = dict(kind=case['kind'], family=case.get('family', 'main'), init_xml=case['init_xml'], steps=case['steps'][:step + 1])
        if rec is not None and not replay:
            try:
                one = dict(kind='shrunk', family=case.get('family', 'main'), init_xml=pre_xml_of(odfdo, case, step), steps=[case['steps'][step]])
                r2, b2, e2 = evaluate([one], checker, prop.lower() + 's')
                if b2 and list(b2.values())[0] % 100 == layer:
                    small = one
            except Exception:
                pass
        payload = dict(layer=layers[layer][1], code=layer, key=key, step=len(small['steps']) - 1, case=small,
                       operation=rec['op'] if rec else None, implementation_raised=rec['raised'] if rec else None,
                       implementation_post=rec['post'] if rec else None,
                       theorem_or_correspondence='coq/theories/%s.v + Tablechk.%s' % (prop, checker),
                       known_finding_key=key if key in known else None)
        if key in known:
            known_seen.append('%s (%s)' % (key, known[key]['description'][:100]))
            common.write_replay(prop, seed, 'known-' + common.digest(key)[:8], payload)
        else:
            violations.append((common.write_replay(prop, seed, common.digest((key, i))[:8], payload), False))
        if len(violations) >= 12:
            break
    # the vault sweep (C01): exhaustive small scope at Row level
    sweep_cov = {}
    if sweep is not None:
        index, sbad, serr, nexh = sweep
        errors += serr
        shard = {k: c for k, c in sbad.items() if c in (2, 5)}
        sweep_cov = dict(vault_sweep_cases=len(index), vault_sweep_exhaustive_prefix=nexh,
                         vault_sweep_rule='exhaustive prefix: Row.set_cell/insert_cell/delete_cell on every run list with <=%d runs of repeats <=3, every position 0..width+1 and -1, argument repeats 1..4; '
                                          'then random single Row-level calls over the whole Row alphabet (set/insert/delete/append cell, set_cells with and without clone, set_values, extend_cells, clear) on styled, valued rows' % (3 if tier == 'quick' else 4),
                         vault_sweep_failures=len(shard), vault_sweep_shape_only=sum(1 for c in sbad.values() if c == 9))
        for k in sorted(shard)[:1]:
            cells, op = index[k]
            key = 'Row.%s/%s' % (op[0], 'expanded-cells' if shard[k] == 2 else 'map')
            payload = dict(layer='vault sweep: ' + ('expanded cells differ from the list operation' if shard[k] == 2 else '_rmap is not the map of the XML'),
                           key=key, row_cells=cells, operation=op, known_finding_key=key if key in known else None,
                           how='Row built from XML with cells [repeat, value, style] = row_cells; then the Row call `operation`')
            if key in known:
                known_seen.append(key)
            else:
                violations.append((common.write_replay(prop, seed, 'vault-' + common.digest(key)[:8], payload), False))
        soft.update({('sweep', k): c for k, c in sbad.items() if c in (3, 8)})
    if extra and not replay:
        ex = extra(tier, rng, odfdo, known)
    elif extra and replay and 'name' in payload:
        ex = extra(tier, rng, odfdo, known, only=(payload['kind'], payload['name']))
    else:
        ex = dict(violations=[], coverage={}, errors=[], known_seen=[])
    if gen_error:
        ex['errors'] = list(ex['errors']) + [gen_error]
    violations += ex['violations']; errors += ex['errors']; known_seen += ex.get('known_seen', [])
    coqchk_cov = {}
    if chk_proc is not None:
        out = chk_proc.communicate()[0]
        summ = out[out.find('CONTEXT SUMMARY'):] if 'CONTEXT SUMMARY' in out else out[-600:]
        coqchk_cov = dict(coqchk_cmd='cd coq && coqchk -silent -o -R theories "" %s' % prop, coqchk_exit=chk_proc.returncode,
                          coqchk_summary=' '.join(summ.split()))
        if chk_proc.returncode != 0 or 'Axioms: <none>' not in ' '.join(summ.split()):
            errors.append('coqchk: ' + ' '.join(summ.split())[:400])
    # model-level / abstraction-level trouble: look for a concrete failing input with the direct Python reference
    soft_msgs = []
    found_by_oracle = False
    if soft or abstraction_failures or not proofs['ok'] or errors:
        for i, (case, res) in enumerate(results):
            st = tl.python_oracle(res) if (res.get('term') and case.get('family', 'main') == 'main') else None
            if st is not None:
                found_by_oracle = True
                payload = dict(layer='direct Python reference (search phase)', key='oracle/%s' % res['records'][st]['op'][0],
                               case=dict(kind=case['kind'], init_xml=case['init_xml'], steps=case['steps'][:st + 1]), step=st)
                violations.append((common.write_replay(prop, seed, 'oracle-%d' % i, payload), False))
                break
        for i, c in list(soft.items())[:5]:
            soft_msgs.append('case %s: code %s (%s)' % (i, c, soft_codes.get(c % 100 if isinstance(c, int) else c, 'model-level')))
        for i, e in abstraction_failures[:5]:
            soft_msgs.append('case %d: %s' % (i, e))
    violations += common.proof_violation(prop, seed, proofs, errors + soft_msgs, bool(hard) or found_by_oracle or bool(ex['violations']))
    steps = sum(len(r['records']) for c, r in results)
    fid = sum(1 for c in bad.values() if c == 9)
    cov = dict(
        trusted_base=list(trusted),
        evaluations=steps, histories=len(results), distinct_nontrivial=nontrivial(results),
        rule='initial tables {empty, Table(w,h), random run-length shapes written as XML text, tables of tests/samples/*.ods with repeats clamped to 3 and at most 8 rows x 8 cells}; '
             'histories of 1-%d operations drawn from %d kinds with positions around every run boundary of the current state (first/middle/last of a run, the edge, +1, +2, negative), repeats 1-4; '
             'after every step: raw lxml abstraction, private maps, reads (size, full matrix, 2 single values, a row, a column, a row width); corpus first. '
             'distinct_nontrivial = distinct (pre-state run shape, abstract operation) where the call changed the XML or the table holds a repeated run'
             % (8 if tier == 'quick' else 12, len(set(kinds))),
        samples=[dict(initial=c['init_xml'][:400], steps=c['steps'][:2]) for c, r in results[len(corpus):len(corpus) + 3]],
        corpus_cases=len(corpus), fidelity_divergences=fid, fidelity_ratio=round(1 - fid / max(1, len(results)), 4),
        modelled=modelled, exhaustive=False, known_findings_reobserved=len(known_seen))
    cov.update(histogram(results)); cov.update(sweep_cov); cov.update(ex['coverage']); cov.update(coqchk_cov)
    if fid:
        print('NOTE: %d histories where only the exact run-length shape differs from the model (fidelity, not an alarm)' % fid)
    return common.finish(prop, tier, seed, proofs, cov, violations, known_seen, t0, assumptions=list(assumptions))
