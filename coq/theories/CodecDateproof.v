(* CodecDateproof.v — Date / DateTime: round trip through isoformat / fromisoformat (ODF subset), lexical form. *)
From Coq Require Import List ZArith NArith Lia Bool Arith ZifyBool.
Import ListNotations.
Require Import Codec Codecproof.

Lemma str_eqb_refl s : str_eqb s s = true.
Proof. induction s; cbn; [reflexivity|]. now rewrite N.eqb_refl. Qed.
Lemma str_eqb_eq a b : str_eqb a b = true -> a = b.
Proof.
  revert b. induction a as [|x a IH]; intros [|y b] H; cbn in H; try discriminate; [reflexivity|].
  apply andb_true_iff in H as [H1 H2]. apply N.eqb_eq in H1. f_equal; auto.
Qed.

Lemma skipn_app_exact {A} (X Y : list A) : skipn (length (X ++ Y) - length Y) (X ++ Y) = Y.
Proof. rewrite app_length. replace (length X + length Y - length Y)%nat with (length X) by lia. now rewrite skipn_app, skipn_all, Nat.sub_diag. Qed.
Lemma ends_with_app X Y : ends_with (X ++ Y) Y = true.
Proof.
  unfold ends_with. rewrite skipn_app_exact, str_eqb_refl. cbn. rewrite app_length. apply Nat.leb_le. lia.
Qed.
(* the suffix test only looks at a long enough tail *)
Lemma ends_with_tail X B suf : (length suf <= length B)%nat -> ends_with (X ++ B) suf = ends_with B suf.
Proof.
  intros H. unfold ends_with. rewrite app_length.
  replace (length X + length B - length suf)%nat with (length X + (length B - length suf))%nat by lia.
  rewrite skipn_app. rewrite skipn_all2 by lia. cbn [app].
  replace (length X + (length B - length suf) - length X)%nat with (length B - length suf)%nat by lia.
  f_equal. destruct (Nat.leb_spec (length suf) (length B)), (Nat.leb_spec (length suf) (length X + length B)); auto; lia.
Qed.
Lemma firstn_app_exact {A} (X Y : list A) : firstn (length (X ++ Y) - length Y) (X ++ Y) = X.
Proof. rewrite app_length. replace (length X + length Y - length Y)%nat with (length X) by lia. rewrite firstn_app, firstn_all, Nat.sub_diag. cbn. apply app_nil_r. Qed.

Lemma expect_cons c r : expect c (c :: r) = Some r.
Proof. unfold expect. now rewrite N.eqb_refl. Qed.

(* every whole-second offset strictly between -24h and +24h: checked by computation over the 172 799 values *)
Definition offset_ok (z : Z) : bool :=
  let B := format_offset (Some z) in
  match parse_tz B with Some (Some z') => (z' =? z)%Z | _ => false end &&
  negb (starts_digit B) && negb (match B with c :: _ => (c =? c_dot)%N | [] => true end) &&
  (6 <=? length B)%nat && Bool.eqb (ends_with B s_utc) (z =? 0)%Z &&
  (if (z mod 60000000 =? 0)%Z then tz_lexical B else true).
Fixpoint zrange (s : Z) (n : nat) : list Z := match n with O => [] | S k => s :: zrange (s + 1) k end.
Lemma in_zrange n : forall s z, (s <= z < s + Z.of_nat n)%Z -> In z (zrange s n).
Proof.
  induction n as [|n IH]; intros s z H; [lia|]. cbn [zrange]. destruct (Z.eq_dec s z); [now left|]. right. apply IH. lia.
Qed.
Definition offsets : list Z := map (fun k => (k * 1000000)%Z) (zrange (-86399) (Z.to_nat 172799)).
Lemma offsets_sweep : forallb offset_ok offsets = true.
Proof. vm_compute. reflexivity. Qed.
Lemma offset_all z : valid_tz (Some z) = true -> offset_ok z = true.
Proof.
  unfold valid_tz. intros H. apply andb_true_iff in H as [H Hm]. apply andb_true_iff in H as [H1 H2]. apply Z.eqb_eq in Hm.
  apply Z.mod_divide in Hm; [|lia]. destruct Hm as [k ->].
  pose proof offsets_sweep as S. rewrite forallb_forall in S. apply S. unfold offsets. apply (in_map (fun k0 => (k0 * 1000000)%Z)). apply in_zrange. rewrite Z2Nat.id by lia. lia.
Qed.

Definition frac_of (u : N) : str := if (u =? 0)%N then [] else c_dot :: print_fixed 6 u.
Definition prefix_of (y m d h mn sc : N) (tl : str) : str :=
  print_fixed 4 y ++ c_minus :: print_fixed 2 m ++ c_minus :: print_fixed 2 d ++ c_T ::
  print_fixed 2 h ++ c_colon :: print_fixed 2 mn ++ c_colon :: print_fixed 2 sc ++ tl.

Lemma isoformat_shape d :
  isoformat d = prefix_of (yr d) (mo d) (dy d) (hh d) (mi d) (ss d) (frac_of (us d) ++ format_offset (tz d)).
Proof.
  unfold isoformat, format_date, prefix_of, frac_of.
  repeat (rewrite <- ?app_assoc; rewrite <- ?app_comm_cons). reflexivity.
Qed.

Lemma valid_date_bounds y m d : valid_date y m d = true -> (y < 10000 /\ m < 100 /\ d < 100)%N.
Proof.
  unfold valid_date. intros H. repeat (apply andb_true_iff in H as [H ?]).
  assert (days_in_month y m <= 31)%N by (unfold days_in_month; destruct (m =? 2)%N; [destruct (is_leap y)|destruct (_ || _)]; lia).
  lia.
Qed.

Definition frac_tz_parse (tl : str) : option (N * option Z) :=
  let '(usec, t6, okf) :=
    match tl with
    | c5 :: t5' => if (c5 =? c_dot)%N
                   then let '(f, r) := read_digits t5' in
                        match f with [] => (0%N, tl, false) | _ => (frac6 f, r, true) end
                   else (0%N, tl, true)
    | [] => (0%N, tl, true)
    end in
  if negb okf then None else match parse_tz t6 with Some z => Some (usec, z) | None => None end.

Lemma parse_iso_prefix y m d h mn sc tl :
  valid_date y m d = true -> (h < 24)%N -> (mn < 60)%N -> (sc < 60)%N ->
  parse_iso (prefix_of y m d h mn sc tl) =
  match frac_tz_parse tl with Some (u, z) => Some (mkdt y m d h mn sc u z) | None => None end.
Proof.
  intros Hv Hh Hm Hs. destruct (valid_date_bounds _ _ _ Hv) as (By & Bm & Bd).
  unfold parse_iso, prefix_of.
  rewrite read_print_fixed by (cbn; lia). rewrite expect_cons.
  rewrite read_print_fixed by (cbn; lia). rewrite expect_cons.
  rewrite read_print_fixed by (cbn; lia). rewrite Hv. cbn [negb].
  change (negb (c_T =? c_T)%N) with false. cbn iota.
  rewrite read_print_fixed by (cbn; lia). rewrite expect_cons.
  rewrite read_print_fixed by (cbn; lia). rewrite expect_cons.
  rewrite read_print_fixed by (cbn; lia).
  unfold frac_tz_parse.
  assert (Hb : ((h <? 24) && (mn <? 60) && (sc <? 60))%N = true) by lia.
  destruct tl as [|c5 t5'].
  - cbn [negb]. destruct (parse_tz []); [rewrite Hb|]; reflexivity.
  - destruct (c5 =? c_dot)%N.
    + destruct (read_digits t5') as [f r]. destruct f as [|f0 f]; cbn [negb]; [reflexivity|].
      destruct (parse_tz r); [rewrite Hb|]; reflexivity.
    + cbn [negb]. destruct (parse_tz (c5 :: t5')); [rewrite Hb|]; reflexivity.
Qed.

Lemma frac_tz_parse_gen u B : (u < 1000000)%N -> starts_digit B = false ->
  match B with c :: _ => (c =? c_dot)%N | [] => false end = false ->
  frac_tz_parse (frac_of u ++ B) = match parse_tz B with Some z => Some (u, z) | None => None end.
Proof.
  intros Hu Hd Hdot. unfold frac_of. destruct (N.eqb_spec u 0) as [->|Hne].
  - cbn [app]. unfold frac_tz_parse. destruct B as [|c5 r]; [reflexivity|]. rewrite Hdot. reflexivity.
  - cbn [app]. unfold frac_tz_parse. change (c_dot =? c_dot)%N with true. cbn iota.
    rewrite read_digits_app by (auto using print_fixed_digits).
    destruct (print_fixed 6 u) as [|f0 f] eqn:E.
    { pose proof (print_fixed_length 6 u) as L. rewrite E in L. discriminate. }
    rewrite <- E, frac6_print by exact Hu. reflexivity.
Qed.

Lemma ends_with_time X mn sc : ends_with (X ++ c_colon :: print_fixed 2 mn ++ c_colon :: print_fixed 2 sc) s_utc = false.
Proof. rewrite ends_with_tail by (cbn; lia). reflexivity. Qed.
Lemma ends_with_frac X u : ends_with (X ++ print_fixed 6 u) s_utc = false.
Proof.
  rewrite ends_with_tail by (rewrite print_fixed_length; cbn; lia).
  unfold ends_with. rewrite print_fixed_length. cbn [length s_utc Nat.sub skipn print_fixed str_eqb].
  pose proof (N.mod_upper_bound (u / 10 ^ N.of_nat 5) 10 ltac:(lia)).
  generalize dependent ((u / 10 ^ N.of_nat 5) mod 10)%N. intros x Hx.
  destruct (N.eqb_spec (48 + x) 43); [lia|]. reflexivity.
Qed.

Theorem datetime_roundtrip_lemma d : valid_dt d = true -> datetime_decode (datetime_encode d) = Some d.
Proof.
  intros Hv. destruct d as [y m dd h mn sc u z]. unfold valid_dt in Hv. cbn [yr mo dy hh mi ss us tz] in Hv.
  do 5 (apply andb_true_iff in Hv as [Hv ?]). rename Hv into Hvd.
  assert (Hh : (h < 24)%N) by lia. assert (Hm : (mn < 60)%N) by lia. assert (Hs : (sc < 60)%N) by lia. assert (Hu : (u < 1000000)%N) by lia.
  unfold datetime_decode, datetime_encode. rewrite isoformat_shape. cbn [yr mo dy hh mi ss us tz].
  destruct z as [z|].
  - (* aware *)
    assert (Hz : valid_tz (Some z) = true) by assumption.
    pose proof (offset_all z Hz) as Ho. unfold offset_ok in Ho.
    repeat (apply andb_true_iff in Ho as [Ho ?]).
    set (B := format_offset (Some z)) in *.
    assert (Hlen : (length s_utc <= length B)%nat) by (cbn [length s_utc]; apply Nat.leb_le; assumption).
    assert (Hew : ends_with (prefix_of y m dd h mn sc (frac_of u ++ B)) s_utc = ends_with B s_utc).
    { unfold prefix_of. repeat (rewrite ?app_assoc; rewrite ?app_comm_cons). apply ends_with_tail. exact Hlen. }
    rewrite Hew.
    match goal with Hx : Bool.eqb (ends_with B s_utc) _ = true |- _ => apply Bool.eqb_prop in Hx; rewrite Hx end.
    destruct (Z.eqb_spec z 0) as [->|Hnz].
    + (* +00:00 becomes Z *)
      assert (HB : B = s_utc) by reflexivity.
      assert (Hsplit : prefix_of y m dd h mn sc (frac_of u ++ B) = prefix_of y m dd h mn sc (frac_of u) ++ s_utc).
      { rewrite HB. unfold prefix_of. repeat (rewrite <- ?app_assoc; rewrite <- ?app_comm_cons). reflexivity. }
      rewrite Hsplit. change 6%nat with (length s_utc). rewrite firstn_app_exact.
      assert (Hre : prefix_of y m dd h mn sc (frac_of u) ++ [c_Z] = prefix_of y m dd h mn sc (frac_of u ++ [c_Z])).
      { unfold prefix_of. repeat (rewrite <- ?app_assoc; rewrite <- ?app_comm_cons). reflexivity. }
      rewrite Hre, parse_iso_prefix by assumption.
      rewrite frac_tz_parse_gen by (assumption || reflexivity). reflexivity.
    + rewrite parse_iso_prefix by assumption.
      rewrite frac_tz_parse_gen; [ | assumption | | ].
      * destruct (parse_tz B) as [[z'|]|]; try discriminate. f_equal. f_equal. f_equal. lia.
      * destruct (starts_digit B); [discriminate | reflexivity].
      * destruct B as [|c r]; [reflexivity|]. destruct (c =? c_dot)%N; [discriminate | reflexivity].
  - (* naive *)
    cbn [format_offset]. rewrite app_nil_r.
    assert (Hew : ends_with (prefix_of y m dd h mn sc (frac_of u)) s_utc = false).
    { unfold frac_of. destruct (u =? 0)%N.
      - unfold prefix_of. rewrite app_nil_r.
        replace (print_fixed 4 y ++ c_minus :: print_fixed 2 m ++ c_minus :: print_fixed 2 dd ++ c_T :: print_fixed 2 h ++ c_colon :: print_fixed 2 mn ++ c_colon :: print_fixed 2 sc)
          with ((print_fixed 4 y ++ c_minus :: print_fixed 2 m ++ c_minus :: print_fixed 2 dd ++ c_T :: print_fixed 2 h) ++ c_colon :: print_fixed 2 mn ++ c_colon :: print_fixed 2 sc)
          by (repeat (rewrite <- ?app_assoc; rewrite <- ?app_comm_cons); reflexivity).
        apply ends_with_time.
      - unfold prefix_of.
        replace (print_fixed 4 y ++ c_minus :: print_fixed 2 m ++ c_minus :: print_fixed 2 dd ++ c_T :: print_fixed 2 h ++ c_colon :: print_fixed 2 mn ++ c_colon :: print_fixed 2 sc ++ c_dot :: print_fixed 6 u)
          with ((print_fixed 4 y ++ c_minus :: print_fixed 2 m ++ c_minus :: print_fixed 2 dd ++ c_T :: print_fixed 2 h ++ c_colon :: print_fixed 2 mn ++ c_colon :: print_fixed 2 sc ++ [c_dot]) ++ print_fixed 6 u)
          by (repeat (rewrite <- ?app_assoc; rewrite <- ?app_comm_cons); reflexivity).
        apply ends_with_frac. }
    rewrite Hew.
    rewrite <- (app_nil_r (frac_of u)), parse_iso_prefix by assumption.
    rewrite frac_tz_parse_gen by (assumption || reflexivity). reflexivity.
Qed.

(* ---- date *)
Theorem date_roundtrip_lemma y m d : valid_date y m d = true -> date_decode (date_encode y m d) = Some (mkdt y m d 0 0 0 0 None).
Proof.
  intros Hv. destruct (valid_date_bounds _ _ _ Hv) as (By & Bm & Bd).
  unfold date_decode, date_encode, format_date, parse_iso.
  rewrite read_print_fixed by (cbn; lia). rewrite expect_cons.
  rewrite read_print_fixed by (cbn; lia). rewrite expect_cons.
  rewrite <- (app_nil_r (print_fixed 2 d)), read_print_fixed by (cbn; lia). rewrite Hv. reflexivity.
Qed.

(* ---- lexical form *)
Fixpoint pds (k : nat) : list pat := match k with O => [] | S k' => PD :: pds k' end.
Lemma match_pat_fixed k n p s : match_pat (pds k ++ p) (print_fixed k n ++ s) = match_pat p s.
Proof.
  induction k as [|k IH]; [reflexivity|]. cbn [pds app print_fixed match_pat].
  pose proof (N.mod_upper_bound (n / 10 ^ N.of_nat k) 10 ltac:(lia)).
  replace (is_digit (48 + (n / 10 ^ N.of_nat k) mod 10)) with true
    by (generalize dependent ((n / 10 ^ N.of_nat k) mod 10)%N; intros; unfold is_digit; lia).
  exact IH.
Qed.
Lemma match_pat_char c p s : match_pat (PC c :: p) (c :: s) = match_pat p s.
Proof. cbn [match_pat]. now rewrite N.eqb_refl. Qed.

Theorem date_lexical_lemma y m d : date_lexical (date_encode y m d) = true.
Proof.
  unfold date_lexical, date_encode, format_date.
  change pat_date with (pds 4 ++ PC c_minus :: pds 2 ++ PC c_minus :: pds 2 ++ []).
  rewrite match_pat_fixed, match_pat_char, match_pat_fixed, match_pat_char.
  rewrite <- (app_nil_r (print_fixed 2 d)), match_pat_fixed. reflexivity.
Qed.

Lemma match_prefix y m d h mn sc tl : match_pat (pat_date ++ pat_time) (prefix_of y m d h mn sc tl) = Some tl.
Proof.
  unfold prefix_of.
  change (pat_date ++ pat_time) with (pds 4 ++ PC c_minus :: pds 2 ++ PC c_minus :: pds 2 ++ PC c_T :: pds 2 ++ PC c_colon :: pds 2 ++ PC c_colon :: pds 2 ++ []).
  repeat (rewrite match_pat_fixed || rewrite match_pat_char). reflexivity.
Qed.

Definition whole_minute (o : option Z) : bool := match o with None => true | Some z => (z mod 60000000 =? 0)%Z end.

Lemma lexical_tail u B : (u < 1000000)%N -> starts_digit B = false -> tz_lexical B = true ->
  match B with c :: _ => (c =? c_dot)%N | [] => false end = false ->
  match frac_of u ++ B with
  | c :: r' => if (c =? c_dot)%N then let '(f, r'') := read_digits r' in negb (match f with [] => true | _ => false end) && tz_lexical r''
               else tz_lexical (frac_of u ++ B)
  | [] => true end = true.
Proof.
  intros Hu Hd Hl Hdot. unfold frac_of. destruct (u =? 0)%N.
  - cbn [app]. destruct B as [|c r]; [reflexivity|]. now rewrite Hdot.
  - cbn [app]. change (c_dot =? c_dot)%N with true. cbn iota.
    rewrite read_digits_app by (auto using print_fixed_digits).
    destruct (print_fixed 6 u) eqn:E; [pose proof (print_fixed_length 6 u) as L; rewrite E in L; discriminate|].
    cbn [negb andb]. exact Hl.
Qed.

Theorem datetime_lexical_lemma d : valid_dt d = true -> whole_minute (tz d) = true -> datetime_lexical (datetime_encode d) = true.
Proof.
  intros Hv Hw. destruct d as [y m dd h mn sc u z]. unfold valid_dt in Hv. cbn [yr mo dy hh mi ss us tz] in Hv, Hw.
  do 5 (apply andb_true_iff in Hv as [Hv ?]). assert (Hu : (u < 1000000)%N) by lia.
  unfold datetime_encode. rewrite isoformat_shape. cbn [yr mo dy hh mi ss us tz].
  destruct z as [z|].
  - assert (Hz : valid_tz (Some z) = true) by assumption.
    pose proof (offset_all z Hz) as Ho. unfold offset_ok in Ho. cbn [whole_minute] in Hw. rewrite Hw in Ho.
    repeat (apply andb_true_iff in Ho as [Ho ?]).
    set (B := format_offset (Some z)) in *.
    assert (Hlen : (length s_utc <= length B)%nat) by (cbn [length s_utc]; apply Nat.leb_le; assumption).
    assert (Hew : ends_with (prefix_of y m dd h mn sc (frac_of u ++ B)) s_utc = ends_with B s_utc).
    { unfold prefix_of. repeat (rewrite ?app_assoc; rewrite ?app_comm_cons). apply ends_with_tail. exact Hlen. }
    rewrite Hew.
    match goal with Hx : Bool.eqb (ends_with B s_utc) _ = true |- _ => apply Bool.eqb_prop in Hx; rewrite Hx end.
    assert (HdB : starts_digit B = false) by (destruct (starts_digit B); [discriminate | reflexivity]).
    assert (HdotB : match B with c :: _ => (c =? c_dot)%N | [] => false end = false).
    { destruct B as [|c r]; [reflexivity|]. destruct (c =? c_dot)%N; [discriminate | reflexivity]. }
    destruct (Z.eqb_spec z 0) as [->|Hnz].
    + assert (HB : B = s_utc) by reflexivity.
      assert (Hsplit : prefix_of y m dd h mn sc (frac_of u ++ B) = prefix_of y m dd h mn sc (frac_of u) ++ s_utc).
      { rewrite HB. unfold prefix_of. repeat (rewrite <- ?app_assoc; rewrite <- ?app_comm_cons). reflexivity. }
      rewrite Hsplit. change 6%nat with (length s_utc). rewrite firstn_app_exact.
      assert (Hre : prefix_of y m dd h mn sc (frac_of u) ++ [c_Z] = prefix_of y m dd h mn sc (frac_of u ++ [c_Z])).
      { unfold prefix_of. repeat (rewrite <- ?app_assoc; rewrite <- ?app_comm_cons). reflexivity. }
      rewrite Hre. unfold datetime_lexical. rewrite match_prefix. apply lexical_tail; auto.
    + unfold datetime_lexical. rewrite match_prefix. apply lexical_tail; auto.
  - cbn [format_offset]. rewrite app_nil_r.
    assert (Hew : ends_with (prefix_of y m dd h mn sc (frac_of u)) s_utc = false).
    { unfold frac_of. destruct (u =? 0)%N.
      - unfold prefix_of. rewrite app_nil_r.
        replace (print_fixed 4 y ++ c_minus :: print_fixed 2 m ++ c_minus :: print_fixed 2 dd ++ c_T :: print_fixed 2 h ++ c_colon :: print_fixed 2 mn ++ c_colon :: print_fixed 2 sc)
          with ((print_fixed 4 y ++ c_minus :: print_fixed 2 m ++ c_minus :: print_fixed 2 dd ++ c_T :: print_fixed 2 h) ++ c_colon :: print_fixed 2 mn ++ c_colon :: print_fixed 2 sc)
          by (repeat (rewrite <- ?app_assoc; rewrite <- ?app_comm_cons); reflexivity).
        apply ends_with_time.
      - unfold prefix_of.
        replace (print_fixed 4 y ++ c_minus :: print_fixed 2 m ++ c_minus :: print_fixed 2 dd ++ c_T :: print_fixed 2 h ++ c_colon :: print_fixed 2 mn ++ c_colon :: print_fixed 2 sc ++ c_dot :: print_fixed 6 u)
          with ((print_fixed 4 y ++ c_minus :: print_fixed 2 m ++ c_minus :: print_fixed 2 dd ++ c_T :: print_fixed 2 h ++ c_colon :: print_fixed 2 mn ++ c_colon :: print_fixed 2 sc ++ [c_dot]) ++ print_fixed 6 u)
          by (repeat (rewrite <- ?app_assoc; rewrite <- ?app_comm_cons); reflexivity).
        apply ends_with_frac. }
    rewrite Hew. unfold datetime_lexical. rewrite match_prefix.
    rewrite <- (app_nil_r (frac_of u)). apply lexical_tail; auto.
Qed.

(* ---- 'T' tells a dateTime from a date (used by the typed readers) *)
Lemma has_T_app a b : has_T (a ++ b) = has_T a || has_T b.
Proof. unfold has_T. apply existsb_app. Qed.
Lemma has_T_digits s : forallb is_digit s = true -> has_T s = false.
Proof.
  induction s as [|c s IH]; [reflexivity|]. cbn [forallb]. intros H. apply andb_true_iff in H as [Hc Hs].
  unfold has_T in *. cbn [existsb]. rewrite IH by exact Hs. unfold is_digit in Hc. unfold c_T.
  destruct (N.eqb_spec c 84); [lia | reflexivity].
Qed.
Lemma has_T_date y m d : has_T (date_encode y m d) = false.
Proof.
  unfold date_encode, format_date.
  rewrite has_T_app, (has_T_digits (print_fixed 4 y)) by apply print_fixed_digits.
  change (c_minus :: print_fixed 2 m ++ c_minus :: print_fixed 2 d) with ([c_minus] ++ print_fixed 2 m ++ [c_minus] ++ print_fixed 2 d).
  rewrite !has_T_app, (has_T_digits (print_fixed 2 m)), (has_T_digits (print_fixed 2 d)) by apply print_fixed_digits. reflexivity.
Qed.
Lemma has_T_datetime d : has_T (datetime_encode d) = true.
Proof.
  assert (Hiso : forall tl, has_T (prefix_of (yr d) (mo d) (dy d) (hh d) (mi d) (ss d) tl) = true).
  { intros tl. unfold prefix_of.
    change (c_minus :: print_fixed 2 (mo d) ++ c_minus :: print_fixed 2 (dy d) ++ c_T :: print_fixed 2 (hh d) ++ c_colon :: print_fixed 2 (mi d) ++ c_colon :: print_fixed 2 (ss d) ++ tl)
      with ([c_minus] ++ print_fixed 2 (mo d) ++ [c_minus] ++ print_fixed 2 (dy d) ++ [c_T] ++ print_fixed 2 (hh d) ++ c_colon :: print_fixed 2 (mi d) ++ c_colon :: print_fixed 2 (ss d) ++ tl).
    rewrite !has_T_app. cbn. rewrite !orb_true_r. reflexivity. }
  unfold datetime_encode. rewrite isoformat_shape.
  destruct (ends_with _ s_utc) eqn:E; [|apply Hiso].
  (* the text ends with +00:00, so dropping six characters keeps the T *)
  set (tl := frac_of (us d) ++ format_offset (tz d)) in *.
  unfold prefix_of in *.
  set (P := print_fixed 4 (yr d) ++ c_minus :: print_fixed 2 (mo d) ++ c_minus :: print_fixed 2 (dy d)).
  set (Q := print_fixed 2 (hh d) ++ c_colon :: print_fixed 2 (mi d) ++ c_colon :: print_fixed 2 (ss d) ++ tl).
  assert (Hshape : print_fixed 4 (yr d) ++ c_minus :: print_fixed 2 (mo d) ++ c_minus :: print_fixed 2 (dy d) ++ c_T :: Q = (P ++ [c_T]) ++ Q).
  { unfold P. repeat (rewrite <- ?app_assoc; rewrite <- ?app_comm_cons). reflexivity. }
  fold Q. rewrite Hshape.
  assert (HQ : (6 <= length Q)%nat).
  { unfold Q. rewrite !app_length; cbn [length]. rewrite !app_length; cbn [length]. rewrite !print_fixed_length. lia. }
  rewrite app_length. replace (length (P ++ [c_T]) + length Q - 6)%nat with (length (P ++ [c_T]) + (length Q - 6))%nat by lia.
  rewrite firstn_app_2, !has_T_app. cbn. rewrite !orb_true_r. reflexivity.
Qed.
