From Coq Require Import List Arith Bool Lia.
Import ListNotations.
Require Import WS.

Lemma readable_app a b : readable (a ++ b) = readable a ++ readable b.
Proof. induction a as [|[s|n| | |i t] a IH]; simpl; rewrite ?IH, ?app_assoc; reflexivity. Qed.

Lemma merge_text_cons2 x y r t : merge_text (x :: y :: r) t = x :: merge_text (y :: r) t.
Proof. destruct x; reflexivity. Qed.

Lemma readable_merge_text res t : readable (merge_text res t) = readable res ++ t.
Proof.
  induction res as [|x res IH]; [simpl; now rewrite app_nil_r|].
  destruct res as [|y res'].
  - destruct x; simpl; rewrite ?app_nil_r, <- ?app_assoc; reflexivity.
  - rewrite merge_text_cons2.
    change (x :: merge_text (y :: res') t) with ([x] ++ merge_text (y :: res') t).
    change (x :: y :: res') with ([x] ++ (y :: res')).
    rewrite !readable_app, IH, app_assoc. reflexivity.
Qed.

Lemma concat_chunks s : concat (chunks s) = s.
Proof.
  induction s as [|t s IH]; [reflexivity|].
  cbn [chunks]. destruct (chunks s) as [|c cs] eqn:E.
  - simpl in *. now rewrite <- IH.
  - destruct c as [|u c'].
    + simpl in *. now rewrite <- IH.
    + destruct (Bool.eqb (is_sp t) (is_sp u)); simpl in *; now rewrite <- IH.
Qed.

Lemma all_sp_repeat c : all_sp c = true -> c = repeat Sp (length c).
Proof. induction c as [|t c IH]; simpl; [reflexivity|]. destruct t; simpl; try discriminate. intros H. now rewrite <- IH. Qed.

Lemma readable_mid_step res c : readable (mid_step res c) = readable res ++ c.
Proof.
  unfold mid_step. destruct ((1 <? length c) && all_sp c) eqn:E.
  - apply andb_true_iff in E as [E1 E2]. apply Nat.ltb_lt in E1.
    rewrite readable_app, readable_merge_text. simpl. rewrite app_nil_r, <- app_assoc. f_equal.
    rewrite (all_sp_repeat c E2) at 2. destruct (length c); [lia|]. simpl. now rewrite Nat.sub_0_r.
  - apply readable_merge_text.
Qed.

Lemma readable_fold_mid cs res : readable (fold_left mid_step cs res) = readable res ++ concat cs.
Proof.
  revert res; induction cs as [|c cs IH]; intros res; simpl; [now rewrite app_nil_r|].
  now rewrite IH, readable_mid_step, app_assoc.
Qed.

Lemma concat_snoc {A} (l : list (list A)) x : concat (l ++ [x]) = concat l ++ x.
Proof. rewrite concat_app. simpl. now rewrite app_nil_r. Qed.

Theorem readable_sub_merge s : readable (sub_merge_spaces s) = s.
Proof.
  unfold sub_merge_spaces. rewrite <- (concat_chunks s) at 2.
  destruct (chunks s) as [|c0 rest]; [reflexivity|].
  assert (H0 : readable (if all_sp c0 then [IS (length c0)] else [IStr c0]) = c0).
  { destruct (all_sp c0) eqn:E; simpl; rewrite app_nil_r; [symmetry; now apply all_sp_repeat|reflexivity]. }
  destruct (rev rest) as [|last rmid] eqn:Er.
  - assert (rest = []) by (destruct rest; [reflexivity|]; simpl in Er; destruct (rev rest); discriminate).
    subst. simpl. rewrite app_nil_r. exact H0.
  - assert (Hrest : rest = rev rmid ++ [last]).
    { rewrite <- (rev_involutive rest), Er. reflexivity. }
    rewrite Hrest. cbn [concat]. rewrite concat_app. cbn [concat]. rewrite (app_nil_r last).
    destruct (all_sp last) eqn:El.
    + rewrite readable_app, readable_fold_mid, H0. simpl. rewrite app_nil_r, <- app_assoc.
      f_equal. f_equal. symmetry. now apply all_sp_repeat.
    + rewrite readable_merge_text, readable_fold_mid, H0, <- app_assoc. reflexivity.
Qed.

Lemma readable_split_tl cur s : readable (split_tl cur s) = rev cur ++ s.
Proof.
  revert cur; induction s as [|t s IH]; intros cur.
  - destruct cur; simpl; now rewrite ?app_nil_r.
  - destruct t; cbn [split_tl].
    + rewrite IH. simpl. now rewrite <- app_assoc.
    + rewrite readable_app. cbn [readable]. rewrite IH. destruct cur; simpl; rewrite ?app_nil_r, <- ?app_assoc; reflexivity.
    + rewrite readable_app. cbn [readable]. rewrite IH. destruct cur; simpl; rewrite ?app_nil_r, <- ?app_assoc; reflexivity.
    + rewrite IH. simpl. now rewrite <- app_assoc.
Qed.

Lemma readable_replace_tabs its : readable (replace_tabs_lb its) = readable its.
Proof.
  induction its as [|it its IH]; [reflexivity|].
  unfold replace_tabs_lb in *. cbn [flat_map]. rewrite readable_app, IH.
  destruct it; cbn [readable]; rewrite ?readable_split_tl; cbn [rev app readable]; rewrite ?app_nil_r; reflexivity.
Qed.
Lemma readable_merge_spaces its : readable (merge_spaces its) = readable its.
Proof.
  induction its as [|it its IH]; [reflexivity|].
  unfold merge_spaces in *. cbn [flat_map]. rewrite readable_app, IH.
  destruct it; cbn [readable]; rewrite ?readable_sub_merge; cbn [app readable]; rewrite ?app_nil_r; reflexivity.
Qed.

Lemma readable_expand_fold its res :
  readable (fold_left (fun res it => match it with
                     | IStr s => merge_text res s
                     | IS n => merge_text res (repeat Sp n)
                     | _ => res ++ [it] end) its res) = readable res ++ readable its.
Proof.
  revert res; induction its as [|it its IH]; intros res; simpl; [now rewrite app_nil_r|].
  rewrite IH. destruct it; rewrite ?readable_merge_text, ?readable_app; simpl; rewrite <- ?app_assoc; simpl; rewrite ?app_nil_r; reflexivity.
Qed.

Theorem C05_text_step its added : readable (append_plain_text its added) = readable its ++ added.
Proof.
  unfold append_plain_text, expand_spaces.
  rewrite readable_replace_tabs, readable_merge_spaces, readable_merge_text, readable_expand_fold. reflexivity.
Qed.

Theorem C05_text pieces : readable (fold_left append_plain_text pieces []) = concat pieces.
Proof.
  assert (G : forall its, readable (fold_left append_plain_text pieces its) = readable its ++ concat pieces).
  { induction pieces as [|p ps IH]; intros its; simpl; [now rewrite app_nil_r|].
    now rewrite IH, C05_text_step, app_assoc. }
  apply G.
Qed.
Print Assumptions C05_text.
