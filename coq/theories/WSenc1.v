From Coq Require Import List Arith Bool Lia.
Import ListNotations.
Require Import WS WSnfproof.

(* ---- facts about chunks ---- *)
Definition nosp (c : str) := forallb (fun t => negb (is_sp t)) c.
Definition homog (c : str) := all_sp c || nosp c.

Lemma chunks_nonempty s : Forall (fun c => c <> []) (chunks s).
Proof.
  induction s as [|t s IH]; [constructor|].
  cbn [chunks]. destruct (chunks s) as [|c cs]; [repeat constructor; discriminate|].
  inversion IH; subst. destruct c as [|u c']; [congruence|].
  destruct (Bool.eqb (is_sp t) (is_sp u)); repeat constructor; auto; discriminate.
Qed.

Lemma chunks_homog s : Forall (fun c => homog c = true) (chunks s).
Proof.
  induction s as [|t s IH]; [constructor|].
  cbn [chunks]. destruct (chunks s) as [|c cs].
  - constructor; [|constructor]. unfold homog, all_sp, nosp. cbn. destruct (is_sp t); reflexivity.
  - inversion IH as [|? ? Hc Hcs]; subst. destruct c as [|u c'].
    + constructor; auto. unfold homog, all_sp, nosp. cbn. destruct (is_sp t); reflexivity.
    + destruct (Bool.eqb (is_sp t) (is_sp u)) eqn:E.
      * constructor; auto. apply eqb_prop in E.
        unfold homog, all_sp, nosp in *. cbn [forallb] in *. rewrite E.
        destruct (is_sp u); cbn in *; auto.
      * constructor; [|constructor; auto]. unfold homog, all_sp, nosp. cbn. destruct (is_sp t); reflexivity.
Qed.

(* kind of a chunk = kind of its first token *)
Definition ksp (c : str) := match c with t :: _ => is_sp t | [] => false end.
Fixpoint alternate (cs : list str) : Prop :=
  match cs with c1 :: ((c2 :: _) as r) => ksp c1 <> ksp c2 /\ alternate r | _ => True end.
Lemma chunks_alt s : alternate (chunks s).
Proof.
  induction s as [|t s IH]; [exact I|].
  cbn [chunks]. destruct (chunks s) as [|c cs] eqn:E; [exact I|].
  destruct c as [|u c'].
  - pose proof (chunks_nonempty s) as H. rewrite E in H. inversion H; congruence.
  - destruct (Bool.eqb (is_sp t) (is_sp u)) eqn:Eb.
    + apply eqb_prop in Eb. destruct cs as [|c2 cs']; [exact I|]. cbn [alternate] in *. cbn [ksp] in *. rewrite Eb. exact IH.
    + cbn [alternate]. split; [|exact IH]. cbn [ksp]. intros Heq. rewrite Heq, eqb_reflx in Eb. discriminate.
Qed.

Lemma homog_ksp c : c <> [] -> homog c = true -> all_sp c = ksp c.
Proof.
  destruct c as [|t c]; [congruence|]. intros _ H. unfold homog, all_sp, nosp in *. cbn [forallb ksp] in *.
  destruct (is_sp t); cbn in *; [now rewrite orb_false_r in H|reflexivity].
Qed.
