(* Registry.v -- executable model of odfdo's element-class registry (src/odfdo/element.py):
     _decode_qname / _get_lxml_tag          qname "prefix:name" -> lxml tag "{uri}name"
     _register_element_class(cls, qname)    first registrant wins  (`if tag not in _class_registry`)
     Element.from_tag / from_tag_for_clone  `_class_registry.get(elem.tag, cls)`
   Definitions only; lemmas are in Registryproof.v.  Class names and tags are strings; the data (namespaces, the sequence
   of registration calls, the live registry) come from Gen_Registry.v, regenerated from the sources on every run. *)
From Coq Require Import String List Bool Ascii. Import ListNotations. Open Scope string_scope.

Definition assoc {B} (k : string) (l : list (string * B)) : option B :=
  match find (fun p => String.eqb (fst p) k) l with Some p => Some (snd p) | None => None end.

Definition has_key {B} (k : string) (l : list (string * B)) : bool :=
  existsb (fun p => String.eqb (fst p) k) l.

(* "prefix:name".split(":")  -- the text before the first colon and the text after it (None: no colon).
   (odfdo raises for two colons; tags with two colons do not occur in the table, see C12_tags_wellformed.) *)
Fixpoint split_colon (s : string) : option (string * string) :=
  match s with
  | EmptyString => None
  | String c r => if Ascii.eqb c ":"%char then Some (EmptyString, r)
                  else match split_colon r with Some (p, n) => Some (String c p, n) | None => None end
  end.

(* _get_lxml_tag: None models the KeyError/ValueError of an unknown prefix or a name without prefix *)
Definition lxml_tag (ns : list (string * string)) (qname : string) : option string :=
  match split_colon qname with
  | Some (p, n) => match assoc p ns with Some uri => Some ("{" ++ uri ++ "}" ++ n) | None => None end
  | None => None
  end.

(* _register_element_class on the dict seen as an association list in insertion order *)
Definition register (reg : list (string * string)) (tc : string * string) : list (string * string) :=
  if has_key (fst tc) reg then reg else reg ++ [tc].

Definition build (calls : list (string * string)) : list (string * string) := fold_left register calls [].

(* the calls as made in the sources use qnames; the dict is keyed by lxml tags *)
Definition to_lxml_calls ns (calls : list (string * string)) : option (list (string * string)) :=
  fold_right (fun tc acc => match lxml_tag ns (fst tc), acc with
                            | Some t, Some l => Some ((t, snd tc) :: l) | _, _ => None end) (Some []) calls.

(* Element.from_tag(elem) called on class [cls] (the base class "Element" in every call site of the library) *)
Definition from_tag (reg : list (string * string)) (cls : string) (tag : string) : string :=
  match assoc tag reg with Some k => k | None => cls end.

Definition Element := "Element".

(* A class whose own tag was already taken when it registered is not reachable by parsing.  The pinned sources contain
   exactly one such registration, which the check accepts as the documented first registrant:
   toc.py registers TabStopStyle for style:tab-stop after style.py registered Style for it (TabStopStyle is a subclass of
   Style adding only a constructor).  (class, own tag, winner) *)
Definition documented_first_registrants : list (string * (string * string)) :=
  [("TabStopStyle", ("style:tab-stop", "Style"))].

Definition is_documented (c t w : string) : bool :=
  existsb (fun x => String.eqb (fst x) c && String.eqb (fst (snd x)) t && String.eqb (snd (snd x)) w) documented_first_registrants.

(* same finite map? (order-insensitive: the dict order depends on the hash seed, a set is iterated in style.py) *)
Definition submap (a b : list (string * string)) : bool :=
  forallb (fun p => match assoc (fst p) b with Some c => String.eqb c (snd p) | None => false end) a.
Definition same_map a b := submap a b && submap b a.

Fixpoint nodupb (l : list string) : bool :=
  match l with [] => true | x :: r => negb (existsb (String.eqb x) r) && nodupb r end.

(* ------------------------------------------------------------------------------------------------------------------
   Access paths.  A document is a tree of tagged nodes; a wrapper is a Python object: its class and the node it wraps
   (the node is named by its position in the document).  Every access path of the library ends in one of two factories:
     Element.from_tag(node)  /  Element.from_tag_for_clone(node, cache)     -- called ON THE BASE CLASS: fallback "Element"
     self.from_tag(copy)      in Element.clone                               -- called on the wrapper's own class
   (that this is so in the sources is the generated table wrap_sites + C12_wrap_sites_as_modelled).
   children / parent / root / get_element(s) / xpath / typed finders / traverse: the node reached varies, the factory does not. *)
Inductive xtree := XNode (tag : string) (kids : list xtree).
Definition xtag (t : xtree) : string := match t with XNode g _ => g end.
Definition xkids (t : xtree) : list xtree := match t with XNode _ k => k end.

Fixpoint node_at (t : xtree) (pos : list nat) : option xtree :=
  match pos with
  | [] => Some t
  | i :: r => match nth_error (xkids t) i with Some c => node_at c r | None => None end
  end.

Record wrapper := mkW { w_cls : string; w_pos : list nat }.

Inductive access :=
| AChild (i : nat)              (* children[i] *)
| AParent                       (* parent *)
| ARoot                         (* root *)
| ASelect (pos : list nat)      (* any node an XPath / get_elements / get_element / typed finder / traverse returns *)
| AClone.                       (* clone: a copy of the same node, wrapped by self.from_tag *)

Definition wrap_at (reg : list (string * string)) (fallback : string) (doc : xtree) (pos : list nat) : option wrapper :=
  match node_at doc pos with Some n => Some (mkW (from_tag reg fallback (xtag n)) pos) | None => None end.

Definition access_step (reg : list (string * string)) (doc : xtree) (w : wrapper) (a : access) : option wrapper :=
  match a with
  | AChild i => wrap_at reg Element doc (w_pos w ++ [i])
  | AParent => match w_pos w with [] => None | _ => wrap_at reg Element doc (removelast (w_pos w)) end
  | ARoot => wrap_at reg Element doc []
  | ASelect pos => wrap_at reg Element doc pos
  | AClone => wrap_at reg (w_cls w) doc (w_pos w)
  end.

Fixpoint access_run (reg : list (string * string)) (doc : xtree) (w : wrapper) (l : list access) : option wrapper :=
  match l with
  | [] => Some w
  | a :: r => match access_step reg doc w a with Some w' => access_run reg doc w' r | None => None end
  end.

(* the class the registry gives to the node a wrapper wraps *)
Definition consistent (reg : list (string * string)) (doc : xtree) (w : wrapper) : Prop :=
  exists n, node_at doc (w_pos w) = Some n /\ w_cls w = from_tag reg Element (xtag n).

(* a wrapper-creation site of the sources is one the model knows: the base class everywhere, self in clone, the two
   direct constructions inside the factories themselves *)
Definition site_ok (x : string * (string * (string * string))) : bool :=
  let fn := fst (snd x) in let recv := fst (snd (snd x)) in let fac := snd (snd (snd x)) in
  if String.eqb fac "direct" then (String.eqb fn "from_tag" || String.eqb fn "from_tag_for_clone") && String.eqb recv "klass"
  else String.eqb recv "Element" || (String.eqb fn "clone" && String.eqb recv "self" && String.eqb fac "from_tag").
