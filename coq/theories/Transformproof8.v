(* Transformproof8.v — set_span on the grid: the explicit form of the result (exactly the cells of the area are marked,
   every other coordinate reads as before), and what follows from the laws of the cell algebra. *)
From Coq Require Import List ZArith Lia Bool Arith.
Import ListNotations.
Require Import Vault Vaultproof Row Table Grid Tableabs Tableproof Tableproof8 Transform Transformspec Transformproof4
               Transformproof6 Transformproof7.
Open Scope Z_scope.

Lemma zrange_length n : forall s, length (zrange s n) = n.
Proof. induction n; intros; cbn [zrange length]; auto. Qed.
Lemma nth_zrange n : forall s k d, (k < n)%nat -> nth k (zrange s n) d = s + Z.of_nat k.
Proof.
  induction n as [|n IH]; intros s k d Hk; [lia|]. cbn [zrange]. destruct k; cbn [nth]; [lia|].
  rewrite IH by lia. lia.
Qed.

(* the area as a block of cells *)
Lemma area_cells_length x y z t g : length (g_area_cells x y z t g) = Z.to_nat (t + 1 - y).
Proof. unfold g_area_cells. rewrite map_length. apply zrange_length. Qed.
Lemma area_cells_row x y z t g j' : (j' < Z.to_nat (t + 1 - y))%nat ->
  nth j' (g_area_cells x y z t g) [] = map (fun xx => gcell xx (y + Z.of_nat j') g) (zrange x (Z.to_nat (z + 1 - x))).
Proof.
  intros Hj. unfold g_area_cells.
  rewrite (nth_indep _ [] ((fun yy => map (fun xx => gcell xx yy g) (zrange x (Z.to_nat (z + 1 - x)))) 0)) by (rewrite map_length, zrange_length; exact Hj).
  rewrite (map_nth (fun yy => map (fun xx => gcell xx yy g) (zrange x (Z.to_nat (z + 1 - x)))) (zrange y (Z.to_nat (t + 1 - y))) 0 j').
  rewrite nth_zrange by exact Hj. reflexivity.
Qed.
Lemma area_cells_nth x y z t g i' j' : (j' < Z.to_nat (t + 1 - y))%nat -> (i' < Z.to_nat (z + 1 - x))%nat ->
  nth i' (nth j' (g_area_cells x y z t g) []) empty_cell = gcell (x + Z.of_nat i') (y + Z.of_nat j') g.
Proof.
  intros Hj Hi. rewrite area_cells_row by exact Hj.
  rewrite (nth_indep _ empty_cell ((fun xx => gcell xx (y + Z.of_nat j') g) 0)) by (rewrite map_length, zrange_length; exact Hi).
  rewrite (map_nth (fun xx => gcell xx (y + Z.of_nat j') g) (zrange x (Z.to_nat (z + 1 - x))) 0 i').
  rewrite nth_zrange by exact Hi. reflexivity.
Qed.
Lemma area_cells_row_length x y z t g j' : (j' < Z.to_nat (t + 1 - y))%nat ->
  length (nth j' (g_area_cells x y z t g) []) = Z.to_nat (z + 1 - x).
Proof. intros Hj. rewrite area_cells_row by exact Hj. rewrite map_length. apply zrange_length. Qed.

Section Span.
Variable a : calg.

(* marking keeps the shape of the block; the first cell of the first row gets the attributes, every other the covered tag *)
Lemma mark_span_length nc nr cells : length (mark_span a nc nr cells) = length cells.
Proof. destruct cells as [|r0 rs]; [reflexivity|]. cbn [mark_span length]. rewrite map_length. reflexivity. Qed.
Lemma mark_span_row_length nc nr cells j' : length (nth j' (mark_span a nc nr cells) []) = length (nth j' cells []).
Proof.
  destruct cells as [|r0 rs]; [reflexivity|]. cbn [mark_span]. destruct j' as [|j']; cbn [nth].
  - destruct r0; [reflexivity|]. cbn [length]. rewrite map_length. reflexivity.
  - change (@nil cell) with (map (cov a) []) at 1. rewrite map_nth. apply map_length.
Qed.
Lemma mark_span_nth nc nr cells i' j' : (j' < length cells)%nat -> (i' < length (nth j' cells []))%nat ->
  nth i' (nth j' (mark_span a nc nr cells) []) empty_cell =
    let c := nth i' (nth j' cells []) empty_cell in
    if ((i' =? 0) && (j' =? 0))%nat then (ca_add_span a (fst c) nc nr, snd c) else cov a c.
Proof.
  intros Hj Hi. destruct cells as [|r0 rs]; [cbn in Hj; lia|]. cbn [mark_span]. destruct j' as [|j']; cbn [nth] in *.
  - destruct r0 as [|c r']; [cbn in Hi; lia|]. destruct i' as [|i']; cbn [nth Nat.eqb andb]; [reflexivity|].
    cbn [length] in Hi. rewrite (nth_indep _ empty_cell (cov a empty_cell)) by (rewrite map_length; lia). apply map_nth.
  - rewrite Bool.andb_false_r.
    rewrite (nth_indep _ [] (map (cov a) [])) by (rewrite map_length; cbn [length] in Hj; lia). rewrite map_nth.
    rewrite (nth_indep _ empty_cell (cov a empty_cell)) by (rewrite map_length; exact Hi). apply map_nth.
Qed.

(* the explicit form of set_span(area, merge=False) when it is not refused *)
Theorem g_set_span_explicit x y z t mid g g' : 0 <= x <= z -> 0 <= y <= t ->
  g_set_span a x y z t false mid g = (g', true) ->
  forall i j, 0 <= i -> 0 <= j ->
  gcell i j g' =
    let c := gcell i j g in
    if in_area x y z t i j then
      (if (i =? x) && (j =? y) then (ca_add_span a (fst c) (z - x + 1) (t - y + 1), snd c) else cov a c)
    else c.
Proof.
  intros Hx Hy H i j Hi Hj. unfold g_set_span in H.
  destruct ((x =? z) && (y =? t)); [inversion H|].
  destruct (any_spanned a (g_area_cells x y z t g)); [inversion H|]. injection H as Hg. subst g'.
  set (cells := g_area_cells x y z t g).
  rewrite !norm_coord_id by lia. rewrite gcell_set_lines by lia. cbv zeta.
  assert (Hlen : length cells = Z.to_nat (t + 1 - y)) by apply area_cells_length.
  unfold in_block, in_area. rewrite mark_span_length, Hlen.
  destruct (Z.leb_spec y j); destruct (Z.leb_spec j t); destruct (Z.ltb_spec j (y + Z.of_nat (Z.to_nat (t + 1 - y))));
    try lia; cbn [andb]; try (rewrite !Bool.andb_false_r; reflexivity).
  - assert (Hj' : (Z.to_nat (j - y) < Z.to_nat (t + 1 - y))%nat) by lia.
    rewrite mark_span_row_length. unfold cells at 1. rewrite area_cells_row_length by exact Hj'.
    destruct (Z.leb_spec x i); destruct (Z.leb_spec i z); destruct (Z.ltb_spec i (x + Z.of_nat (Z.to_nat (z + 1 - x))));
      try lia; cbn [andb]; try reflexivity.
    assert (Hi' : (Z.to_nat (i - x) < Z.to_nat (z + 1 - x))%nat) by lia.
    rewrite mark_span_nth by (unfold cells; rewrite ?area_cells_length, ?area_cells_row_length by exact Hj'; lia).
    cbv zeta. unfold cells. rewrite area_cells_nth by assumption.
    replace (x + Z.of_nat (Z.to_nat (i - x))) with i by lia. replace (y + Z.of_nat (Z.to_nat (j - y))) with j by lia.
    destruct (Z.eqb_spec i x); destruct (Z.eqb_spec j y); destruct (Nat.eqb_spec (Z.to_nat (i - x)) 0); destruct (Nat.eqb_spec (Z.to_nat (j - y)) 0);
      cbn [andb]; try reflexivity; lia.
Qed.

(* refused exactly when the area is one cell or holds a spanned cell; then nothing changes *)
Theorem g_set_span_refuses x y z t m mid g :
  ((x =? z) && (y =? t)) || any_spanned a (g_area_cells x y z t g) = true -> g_set_span a x y z t m mid g = (g, false).
Proof.
  intros H. unfold g_set_span. destruct ((x =? z) && (y =? t)); [reflexivity|]. cbn [orb] in H. rewrite H. reflexivity.
Qed.
Theorem g_set_span_accepts x y z t m mid g :
  ((x =? z) && (y =? t)) || any_spanned a (g_area_cells x y z t g) = false -> snd (g_set_span a x y z t m mid g) = true.
Proof.
  intros H. unfold g_set_span. destruct ((x =? z) && (y =? t)); [discriminate|]. cbn [orb] in H. rewrite H. reflexivity.
Qed.
End Span.
