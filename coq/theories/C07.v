(* Property C07 — the table XML stays structurally valid and repeat-consistent after every operation;
   the table names and named-range names accepted are the ones office applications accept.
   Statements only.  Raw XML abstraction, XmlOK, canonical writer: Tablexml.v; names: Names.v. *)
From Coq Require Import List ZArith NArith Lia Bool Arith.
Import ListNotations.
Require Import Vault Vaultproof Row Table Grid Tableabs Tablexml Tablexmlproof Tableproof6 Names Namesproof Namesproof2 Names2 Names2proof TableLive TableLiveproof Tablexml2 Tablexml2proof Transform TableXf TableXfproof.
Open Scope Z_scope.

(* ---- full statement (structural part): from any well-formed state whose rows fit the declared columns, after any
        history of the C01 alphabet the model does not fail, and the XML it writes satisfies XmlOK (every repeat
        attribute absent or an integer >= 2, rows contain only cells, columns precede rows, no row wider than the
        declared columns), reads back as the same state, reports the sums of the repeats as its size; and a table
        without rows has a declared column as soon as rows are added ---- *)
Definition C07_full : Prop :=
  (forall (os : list top) (t : tstate), WF t -> fits t = true -> Forall op_ok os ->
     exists t', t_run t os = Some t' /\ WF t' /\ fits t' = true /\ XmlOK (render t') = true /\ to_tstate (render t') = t' /\
                t_read t' QSize = ASize (Z.of_nat (list_sum (map fst (cols t')))) (Z.of_nat (list_sum (map fst (rows t')))))
  /\ (forall (t : tstate) (o : top) (t' : tstate), WF t -> fits t = true -> op_ok o -> theight t = 0 ->
        t_step t o = Some t' -> 0 < theight t' -> 1 <= twidth t').

Theorem C07_structure_after_every_history : C07_full.
Proof. exact (conj xml_full_history first_row_model). Qed.
Print Assumptions C07_structure_after_every_history.

Theorem C07_inv : forall (t : tstate) (o : top), WF t -> fits t = true -> op_ok o ->
  exists t', t_step t o = Some t' /\ WF t' /\ fits t' = true /\ XmlOK (render t') = true.
Proof. exact xmlok_step. Qed.
Print Assumptions C07_inv.

Theorem C07_history : forall (os : list top) (t : tstate), WF t -> fits t = true -> Forall op_ok os ->
  exists t', t_run t os = Some t' /\ WF t' /\ fits t' = true /\ XmlOK (render t') = true.
Proof. exact xmlok_history. Qed.
Print Assumptions C07_history.

Theorem C07_xml_reads_back : forall t : tstate, WF t -> to_tstate (render t) = t.
Proof. exact to_tstate_render. Qed.
Print Assumptions C07_xml_reads_back.

Theorem C07_valid_xml_of_valid_state : forall t : tstate, WF t -> fits t = true -> XmlOK (render t) = true.
Proof. exact XmlOK_render. Qed.
Print Assumptions C07_valid_xml_of_valid_state.

(* proved once on the specification and transported by C01_step: no row wider than the declared columns *)
Theorem C07_rows_fit_columns : forall (g : gridT) (o : top), GOK g -> GOK (g_step g o).
Proof. exact GOK_step. Qed.
Print Assumptions C07_rows_fit_columns.

Theorem C07_first_row_declares_columns : forall (g : gridT) (o : top),
  GOK g -> gheight g = 0 -> 0 < gheight (g_step g o) -> 1 <= ncols (g_step g o).
Proof. exact first_row_declares_columns. Qed.
Print Assumptions C07_first_row_declares_columns.

(* a table WITH rows keeps a declared column under every operation except a delete_column (which may remove the last one) *)
Theorem C07_columns_stay_declared : forall (g : gridT) (o : top), GOK g -> (0 < gheight g -> 1 <= ncols g) ->
  (forall x, o <> ODeleteColumn x) -> 0 < gheight (g_step g o) -> 1 <= ncols (g_step g o).
Proof. exact hcr_step. Qed.
Print Assumptions C07_columns_stay_declared.

Theorem C07_size_is_sum_of_repeats : forall t : tstate,
  t_read t QSize = ASize (Z.of_nat (list_sum (map fst (cols t)))) (Z.of_nat (list_sum (map fst (rows t)))).
Proof. exact size_is_sum. Qed.
Print Assumptions C07_size_is_sum_of_repeats.

(* ---- names.  _table_name_check accepts exactly the sheet names of the independent specification, for ALL strings,
        whenever the three classes of _RE_TABLE_NAME (read from the live pattern into Gen_Names.v; the finite
        obligations same_set ... = true are discharged in Gen_Namesok.v on every run) denote the specification's sets.
        sp = the class removed by str.strip(), arbitrary. ---- *)
Theorem C07_table_name : forall fa ff fl sp : list N,
  same_set fa lo_forbidden = true -> same_set ff [39%N] = true -> same_set fl [39%N] = true ->
  forall s : str, table_name_ok fa ff fl sp s = lo_tab_name_ok sp s.
Proof. exact table_name_equiv. Qed.
Print Assumptions C07_table_name.

Example C07_table_name_classes_inhabited :
  same_set [10;92;47;42;63;58;93;91]%N lo_forbidden = true /\
  table_name_ok [10;92;47;42;63;58;93;91]%N [39%N] [39%N] [32%N] [32;97;39;98;32]%N = true /\      (* " a'b " *)
  table_name_ok [10;92;47;42;63;58;93;91]%N [39%N] [39%N] [32%N] [32;39;98;32]%N = false.          (* " 'b "  *)
Proof. repeat split; reflexivity. Qed.

(* ---- named-range names.  The REPAIRED NamedRange.name setter (fixes/F36, F60) accepts exactly the range names of the
        independent specification (letters, digits, '_' only — non-ASCII left to the application —, not digit-first,
        not of A1 or R1C1 shape), for ALL strings, whenever the two classes it consults denote string.ascii_letters
        and string.digits (finite obligations, discharged for the generated classes in Gen_Namesok.v on every run) ---- *)
Theorem C07_named_range_name : forall letters digits sp : list N,
  same_set letters lit_letters = true -> same_set digits lit_digits = true ->
  forall s : str, nr_name_ok_fixed letters digits sp s = lo_range_name_ok sp s.
Proof. exact nr_fixed_equiv. Qed.
Print Assumptions C07_named_range_name.

(* refuted for the PINNED setter: it accepts "1a", "R1C1" and "a\x01b", which the specification rejects (F36, F60) *)
Theorem C07_named_range_pinned_refuted : forall s, In s [[49;97]; [82;49;67;49]; [97;1;98]]%N ->
  nr_name_ok lit_nrf lit_letters lit_digits [32%N] s = true /\ lo_range_name_ok [32%N] s = false.
Proof. exact nr_pinned_refuted_w. Qed.
Print Assumptions C07_named_range_pinned_refuted.

Example C07_named_range_classes_inhabited :
  same_set lit_letters lit_letters = true /\ nr_name_ok_fixed lit_letters lit_digits [32%N] [32;97;95;49;32]%N = true /\   (* " a_1 " *)
  nr_name_ok_fixed lit_letters lit_digits [32%N] [65;66;49;50]%N = false.                                              (* "AB12" *)
Proof. repeat split; vm_compute; reflexivity. Qed.

(* refuted for live row handles (get_row(y, clone=False) then Row.append_cell ...): the row is edited in place and the
   column declarations are not grown, so the XML can be left with a row wider than the declared columns *)
Theorem C07_live_row_handle_breaks_fit_refuted : exists (t : tstate) (y : Z) (os : list rop) t',
  WF t /\ fits t = true /\ Forall live_ok os /\ t_live_row y os t = Some t' /\ XmlOK (render t') = false.
Proof. exact live_row_breaks_fit_w. Qed.
Print Assumptions C07_live_row_handle_breaks_fit_refuted.

(* ---- tables with wrapper elements (table:table-header-rows / table-rows / table-header-columns / table-columns) and
        groups: XmlOK2 (Tablexml2.v) is conservative over XmlOK on tables without them, and implies XmlOK of the table
        odfdo sees (flatten); the correspondence (family "grp") checks on every step that a call either refuses and
        leaves the raw table untouched or leaves XmlOK2 ---- *)
Theorem C07_wrappers_conservative : forall x : xtable, XmlOK2 (map Y1 x) = XmlOK x.
Proof. exact XmlOK2_plain. Qed.
Print Assumptions C07_wrappers_conservative.
Theorem C07_wrappers_visible_table_valid : forall x : xtable2, XmlOK2 x = true -> XmlOK (flatten x) = true.
Proof. exact XmlOK2_visible. Qed.
Print Assumptions C07_wrappers_visible_table_valid.

(* ---- the NamedRange.name rule AS DERIVED FROM THE LIVE SETTER on every run (harness/gen_names.py: the per-character
        tests are evaluated on every code point, the first-character test likewise, each shape test — a
        re.fullmatch(pattern, name) or the hand-written letters-then-digits scanner — becomes a sequence of
        (class, once | one-or-more) items): if that data is the specification's data, the setter accepts exactly the
        specification's range names, for ALL strings.  The instance (Gen_Namesok.gen_setter_rule_is_lo) is re-proved on
        every run by [reflexivity] on the generated data; a rule that changed (e.g. \d for [0-9]) makes it fail. ---- *)
Theorem C07_named_range_rule_from_source : forall (sp : list N) (charrej firstrej : ranges) (shapes : list (list ritem)),
  charrej = lit_charrej -> firstrej = lit_firstrej ->
  (shapes = [lit_shape_r1c1; lit_shape_a1] \/ shapes = [lit_shape_a1; lit_shape_r1c1]) ->
  forall s : str, nr_rule_ok sp charrej firstrej shapes s = lo_range_name_ok sp s.
Proof. exact nr_rule_equiv. Qed.
Print Assumptions C07_named_range_rule_from_source.

(* ---- whole-table transformations as history steps (round 4; model of C17, Transform.v, same state type): rstrip(aggressive)
        and transpose() keep well-formedness and "rows fit the declared columns", hence XmlOK of the XML written.
        optimize_width(): well-formedness is C17_optimize_width_removes_only_trailing_empties; that its rows fit the
        columns is not proved — XmlOK and "reported size = sums of the repeats" are evaluated on the implementation's
        XML after every such step by the correspondence (family "xf"), as after every other step. ---- *)
Theorem C07_rstrip_keeps_xml_valid : forall (a : calg) (aggr : bool) (t : tstate), WF t -> fits t = true ->
  WF (t_rstrip a aggr t) /\ fits (t_rstrip a aggr t) = true /\ XmlOK (render (t_rstrip a aggr t)) = true.
Proof. exact rstrip_keeps_xmlok. Qed.
Print Assumptions C07_rstrip_keeps_xml_valid.
Theorem C07_transpose_keeps_xml_valid : forall t : tstate, WF t ->
  WF (t_transpose t) /\ fits (t_transpose t) = true /\ XmlOK (render (t_transpose t)) = true.
Proof. exact transpose_keeps_xmlok. Qed.
Print Assumptions C07_transpose_keeps_xml_valid.
