(* TableExtchk.v — checker for histories over both alphabets, the second read alphabet and live row handles
   (evaluated by vm_compute on every correspondence step; no proofs). *)
From Coq Require Import List ZArith NArith Bool Arith.
Import ListNotations.
Require Import Vault Row Table Grid Tableabs Tablexml Tablechk Coord TableExt TableLive.
Local Open Scope Z_scope.

Inductive eop := E1 (o : top) | E2 (o : top2) | EL (o : lop).
Inductive xobs := XObs (pre : xtable) (o : eop) (post : xtable) (raised : bool)
                       (tmap cmap_ : list Z) (rmaps : list (nat * list Z))
                       (reads : list (tread * tans)) (reads2 : list (tread2 * tans2)).

Definition ans2_eqb (vcl : Z -> Z) (m i : tans2) : bool :=
  match m, i with
  | T1 a, T1 a' => ans_eqb vcl a a'
  | A2Cells l, A2Cells l' => list_eqb cells_eqb l l'
  | A2Raise, A2Raise => true
  | _, _ => false end.
Definition reads_ok (vcl : Z -> Z) (g : gridT) (reads : list (tread * tans)) (reads2 : list (tread2 * tans2)) : bool :=
  forallb (fun qa : tread * tans => ans_eqb vcl (g_read g (fst qa)) (snd qa)) reads &&
  forallb (fun qa : tread2 * tans2 => ans2_eqb vcl (g_read2 g (fst qa)) (snd qa)) reads2.
Definition mreads_ok (vcl : Z -> Z) (t : tstate) (reads : list (tread * tans)) (reads2 : list (tread2 * tans2)) : bool :=
  forallb (fun qa : tread * tans => ans_eqb vcl (t_read t (fst qa)) (snd qa)) reads &&
  forallb (fun qa : tread2 * tans2 => ans2_eqb vcl (t_read2 t (fst qa)) (snd qa)) reads2.

(* 0 agree | 2 grid after the call differs | 4 a read differs | 5 a private map is not the map of the XML | 10 raised
   | 13 the call was accepted although the argument does not resolve (or the list has the wrong length)
   | 14 live handle: the table is not "the stored run rewritten, nothing else"
   | 3 model fails | 8 model's grid / reads differ from the specification's | 9 exact shape only | 11 outside the fragment *)
Definition chk_ext (vcl : Z -> Z) (ob : xobs) : nat :=
  let '(XObs pre o post raised tm cm rmaps reads reads2) := ob in
  if negb (in_fragment pre && in_fragment post) then 11%nat else
  let tpre := to_tstate pre in let tpost := to_tstate post in
  match o with
  | EL lo =>
      if raised then 10%nat else
      match t_live_step tpre lo with
      | None => 3%nat
      | Some tm' =>
        if negb (grid_eqb (abs_t tpost) (abs_t tm')) then 14%nat
        else if negb (maps_ok tpost tm cm rmaps) then 5%nat
        else if negb (reads_ok vcl (abs_t tm') reads reads2) then 4%nat
        else if tstate_eqb tm' tpost then 0%nat else 9%nat
      end
  | _ =>
      let xo := match o with E1 a => inl a | E2 b => inr b | EL _ => inl OClear end in
      match gx_step (abs_t tpre) xo with
      | None => if raised then (if grid_eqb (abs_t tpost) (abs_t tpre) then 0%nat else 2%nat) else 13%nat
      | Some want =>
        if raised then 10%nat
        else if negb (grid_eqb (abs_t tpost) want) then 2%nat
        else if negb (maps_ok tpost tm cm rmaps) then 5%nat
        else if negb (reads_ok vcl want reads reads2) then 4%nat
        else match x_step tpre xo with
             | None => 3%nat
             | Some tm' => if negb (grid_eqb (abs_t tm') want && mreads_ok vcl tm' reads reads2) then 8%nat
                           else if tstate_eqb tm' tpost then 0%nat else 9%nat
             end
      end
  end.
