(* Transformproof.v — list lemmas about strip_end (the reversed(...) / break loops of rstrip) *)
From Coq Require Import List ZArith Lia Bool Arith.
Import ListNotations.
Require Import Vault Row Table Transform.

Lemma strip_end_cons {A} (p : A -> bool) x l :
  strip_end p (x :: l) = match strip_end p l with [] => if p x then [] else [x] | r' => x :: r' end.
Proof. reflexivity. Qed.

Lemma strip_end_nil_iff {A} (p : A -> bool) l : strip_end p l = [] <-> forallb p l = true.
Proof.
  induction l as [|x l IH]; [split; reflexivity|].
  rewrite strip_end_cons. cbn [forallb]. destruct (strip_end p l) eqn:E.
  - destruct (p x); cbn [andb]; [tauto|]. split; discriminate.
  - split; [discriminate|]. intros H. apply andb_prop in H. destruct H as [_ H]. apply IH in H. discriminate.
Qed.

Lemma strip_end_idem {A} (p : A -> bool) l : strip_end p (strip_end p l) = strip_end p l.
Proof.
  induction l as [|x l IH]; [reflexivity|].
  rewrite strip_end_cons. destruct (strip_end p l) as [|y r] eqn:E.
  - destruct (p x) eqn:Px; [reflexivity|]. cbn. rewrite Px. reflexivity.
  - rewrite strip_end_cons. rewrite IH. reflexivity.
Qed.
