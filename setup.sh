#!/bin/bash
# offline build of the whole Coq development (full .vo build), plus hygiene scan
set -e
cd "$(dirname "$0")"
/venv/bin/python - <<'PY'
import sys; sys.path.insert(0, "harness")
import common
common.WORK.mkdir(exist_ok=True)
common.coq_project()
bad = common.forbidden_scan()
if bad:
    print("forbidden constructs:", bad); sys.exit(1)
PY
cd coq && timeout 3000 make -j16
