"""Run every registered check (quick by default) and summarise: python harness/runall.py [--thorough] [-j N] [C01 C05 …]"""
import json, subprocess, sys, time
from concurrent.futures import ThreadPoolExecutor
from pathlib import Path
ROOT = Path(__file__).resolve().parent.parent
m = json.loads((ROOT / "MANIFEST.json").read_text())
tier = "thorough_cmd" if "--thorough" in sys.argv else "quick_cmd"
j = int(sys.argv[sys.argv.index("-j") + 1]) if "-j" in sys.argv else 1
only = [a for a in sys.argv[1:] if a.startswith("C")]


def one(c):
    t0 = time.time()
    p = subprocess.run(c[tier], shell=True, cwd=ROOT, capture_output=True, text=True)
    lines = [l for l in p.stdout.splitlines() if l.startswith(("VIOLATION", "KNOWN-FINDING"))]
    return c["property_id"], p.returncode, round(time.time() - t0, 1), lines, p.stderr[-800:] if p.returncode not in (0, 1) else ""


checks = [c for c in m["checks"] if not only or c["property_id"] in only]
bad = 0
with ThreadPoolExecutor(j) as ex:
    for pid, rc, dt, lines, err in ex.map(one, checks):
        print("%s rc=%s %6.1fs %s" % (pid, rc, dt, "; ".join(lines)[:400]), err, flush=True)
        bad += rc != 0
sys.exit(1 if bad else 0)
