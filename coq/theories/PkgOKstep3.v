(* PkgOKstep3.v — PkgOK through Document.save, reopen, clone, new-from-template; every package in the file system stays
   coherent (AllGood) *)
From Coq Require Import List ZArith Bool Arith Lia.
Import ListNotations.
Require Import Package PkgManproof PkgZipproof PkgOKproof Pkgproof Pkgproof2 Pkgproof3 Pkgproof4 Pkgproof5
               PkgStepWF PkgStepWF2 PkgStepWF3 PkgStepWF4 PkgOKstep PkgOKstep2.
Open Scope Z_scope.

Section O3.
Variable xml bytes kid : Type.
Variable ser : xml -> bytes.
Variable par : bytes -> xml.
Variable pretty stamp : xml -> xml.
Variable entries : xml -> mentries.
Variable with_entries : mentries -> xml -> xml.
Variable kids : xml -> list kid.
Variable mime : bytes -> mtype.
Variable mime_bytes : mtype -> bytes.
Variable rdf0 : bytes.
Hypothesis par_ser : forall x, par (ser x) = x.
Hypothesis entries_with : forall es x, entries (with_entries es x) = es.
Hypothesis entries_pretty : forall x, entries (pretty x) = entries x.
Hypothesis mime_mime_bytes : forall m, mime (mime_bytes m) = m.
Notation container := (container bytes).
Notation document := (document xml bytes).
Notation fsys := (fsys bytes kid).
Notation cB := (cB bytes kid).
Notation WFc := (WFc bytes kid).
Notation dB := (dB xml bytes kid).
Notation dX := (dX xml bytes kid par).
Notation WFd := (WFd xml bytes kid).
Notation FsOK := (FsOK bytes kid).
Notation SInv := (SInv xml bytes kid).
Notation disk_lookup := (disk_lookup bytes kid).
Notation disk_entries := (disk_entries bytes kid).
Notation d_tree := (d_tree xml bytes kid par FIXED).
Notation PkgOK := (PkgOK xml bytes kid par entries mime).
Notation files := (files xml bytes kid).
Notation d_save := (d_save xml bytes kid ser par pretty stamp entries kids mime rdf0 FIXED).
Notation ser_loop := (ser_loop xml bytes kid ser par pretty FIXED).
Notation check_rdf := (check_rdf xml bytes kid par entries rdf0 FIXED).
Notation c_save := (c_save xml bytes kid par kids mime FIXED).

(* every zip / folder of the file system opens as a coherent package *)
Definition AllGood (fs : fsys) : Prop := forall p b c, c_open bytes kid fs p b = Some c -> PkgOK fs (mkD c []).

Lemma m_get_In : forall p es m, m_get p es = Some m -> In (p, m) es.
Proof.
  induction es as [|[q m0] r IH]; cbn [m_get]; intros m H; [discriminate|].
  destruct ((q =? p) && negb (m0 =? NOMT)) eqn:E.
  - apply andb_true_iff in E as [E _]. apply Z.eqb_eq in E. subst q. inversion H; subst. left; reflexivity.
  - right. auto.
Qed.

(* ---- _check_manifest_rdf ---- *)
Lemma check_rdf_pkgok : forall fs (d : document), WFd fs d -> PkgOK fs d -> PkgOK fs (fst (check_rdf fs d)).
Proof.
  intros fs d W H. unfold Package.check_rdf.
  pose proof H as H0. apply PkgOK_obs in H0 as [xm [mb [A [B [[C1 C2] [D F]]]]]].
  pose proof (d_tree_sem xml bytes kid par fs MANIFEST d W is_xml_MANIFEST) as [T1 [T2 [T3 [W1 _]]]].
  destruct (d_tree fs MANIFEST d) as [d1 ox]. cbn [fst snd] in *. rewrite A in T1. subst ox.
  assert (H1 : PkgOK fs d1) by (apply (PkgOK_same_obs xml bytes kid par entries mime fs d); [exact H|exact T2|apply T3]).
  assert (Hsame : forall c', (forall m, cB fs c' m = None <-> cB fs (cont _ _ d1) m = None) ->
                             (forall m, m <> RDF -> cB fs c' m = cB fs (cont _ _ d1) m) -> PkgOK fs (d_with_cont _ _ d1 c')).
  { intros c' He Hs. apply (PkgOK_transfer xml bytes kid par entries mime fs d1 fs _ H1).
    - exact He.
    - intros mb0 Hb. exists mb0. split; [|reflexivity]. unfold Pkgproof.dB. cbn [cont d_with_cont]. rewrite Hs by discriminate. exact Hb.
    - intros xm0 Hx. exists xm0. split; [|reflexivity]. rewrite <- Hx. unfold Pkgproof.dX, Pkgproof.dB. cbn [cont xps d_with_cont].
      rewrite Hs by discriminate. reflexivity. }
  assert (Hrdf : dB fs d RDF <> None <-> In RDF (map fst (entries xm))).
  { split.
    - intros Hb. assert (X : In RDF (declared (entries xm))).
      { apply C2. split; [reflexivity|]. unfold PkgOKstep.files. cbn. destruct (dB fs d RDF); [reflexivity|congruence]. }
      apply in_declared in X. tauto.
    - intros Hi. assert (X : In RDF (declared (entries xm))) by (apply in_declared; auto).
      apply C2 in X as [_ X]. unfold PkgOKstep.files in X. cbn in X. destruct (dB fs d RDF); [discriminate|discriminate]. }
  unfold rdf_listed. cbn [fx42 FIXED orb].
  destruct (m_get RDF (entries xm)) as [m|] eqn:G.
  - (* listed: the part exists *)
    destruct (memz RDF (c_listing bytes kid FIXED fs (cont _ _ d1))); cbn [fst]; [exact H1|].
    destruct (c_set_part_sem bytes kid fs RDF rdf0 (cont _ _ d1) (wfd_c _ _ _ _ _ W1)) as [S1 _].
    apply Hsame.
    + intros k. rewrite S1. destruct (k =? RDF) eqn:E; [|reflexivity]. apply Z.eqb_eq in E. subst k.
      split; [discriminate|]. intros X. exfalso. apply (proj2 Hrdf (m_get_in _ _ _ G)). transitivity (dB fs d1 RDF); [symmetry; apply T2|exact X].
    + intros k Hk. rewrite S1. destruct (k =? RDF) eqn:E; [apply Z.eqb_eq in E; congruence|reflexivity].
  - (* not listed: the part does not exist; deleting it again changes nothing *)
    destruct (memz RDF (c_listing bytes kid FIXED fs (cont _ _ d1))); cbn [fst]; [|exact H1].
    destruct (c_del_part_sem bytes kid fs RDF (cont _ _ d1) (wfd_c _ _ _ _ _ W1)) as [S1 _].
    assert (Hno : dB fs d RDF = None).
    { destruct (dB fs d RDF) eqn:Eb; [|reflexivity]. exfalso.
      apply (m_get_none_notin RDF (entries xm) (typed_all_mt _ F) G). apply Hrdf. discriminate. }
    apply Hsame.
    + intros k. rewrite S1. destruct (k =? RDF) eqn:E; [|reflexivity]. apply Z.eqb_eq in E. subst k.
      split; [intros _; transitivity (dB fs d RDF); [apply T2|exact Hno]|reflexivity].
    + intros k Hk. rewrite S1. destruct (k =? RDF) eqn:E; [apply Z.eqb_eq in E; congruence|reflexivity].
Qed.

(* ---- the serialisation loops keep existence, non-XML bytes and trees ---- *)
Lemma LInv_obs : forall pty fs (d3 d4 : document), WFd fs d3 ->
  LInv xml bytes kid ser par pretty pty fs (dX fs d3) (dB fs d3) (cpath _ (cont _ _ d3)) (pkg _ (cont _ _ d3)) d4 ->
  (forall m, dX fs d4 m = dX fs d3 m) /\ (forall m, is_xml m = false -> dB fs d4 m = dB fs d3 m)
  /\ (forall m, dB fs d4 m = None <-> dB fs d3 m = None).
Proof.
  intros pty fs d3 d4 W I. split; [apply (li_x _ _ _ _ _ _ _ _ _ _ _ _ _ I)|]. split; [apply (li_b _ _ _ _ _ _ _ _ _ _ _ _ _ I)|].
  intros m. destruct (is_xml m) eqn:Xm; [|rewrite (li_b _ _ _ _ _ _ _ _ _ _ _ _ _ I m Xm); reflexivity].
  destruct (li_bx _ _ _ _ _ _ _ _ _ _ _ _ _ I m Xm) as [Hb|[x [Hx Hb]]]; [rewrite Hb; reflexivity|].
  rewrite Hb. split; [discriminate|]. intros Hn. exfalso.
  unfold Pkgproof.dX in Hx. destruct (lookup m (xps _ _ d3)) as [[y|]|] eqn:L.
  - apply (wfd_live _ _ _ _ _ W m y L). exact Hn.
  - fold (dB fs d3 m) in Hx. rewrite Hn in Hx. discriminate.
  - fold (dB fs d3 m) in Hx. rewrite Hn in Hx. discriminate.
Qed.

Lemma loops_obs : forall (pty : bool) (pk : packaging) fs (d3 d4 : document) ok4, WFd fs d3 ->
  (if pty && negb (pk_eqb pk PXml)
   then let '(da, oka) := ser_loop fs true (map fst (xps _ _ d3)) d3 in
        let '(db, okb) := ser_loop fs true (filter (fun n => match lookup n (xps _ _ da) with Some _ => false | None => true end)
                                                   [CONTENT; META; SETTINGS; STYLES]) da in
        (db, oka && okb)
   else ser_loop fs false (map fst (xps _ _ d3)) d3) = (d4, ok4) ->
  (forall m, dX fs d4 m = dX fs d3 m) /\ (forall m, is_xml m = false -> dB fs d4 m = dB fs d3 m)
  /\ (forall m, dB fs d4 m = None <-> dB fs d3 m = None).
Proof.
  intros pty pk fs d3 d4 ok4 W H.
  assert (Hk : forall n, In n (map fst (xps _ _ d3)) -> is_xml n = true) by (apply (wfd_x _ _ _ _ _ W)).
  destruct (pty && negb (pk_eqb pk PXml)).
  - rewrite !ser_loop_is_fold in H.
    destruct (fold_body_inv xml bytes kid ser par pretty true fs _ _ _ _ (map fst (xps _ _ d3)) (d3, true) Hk (LInv_start xml bytes kid ser par pretty true fs d3 W)) as [I1 _].
    destruct (fold_left (body xml bytes kid ser par pretty true fs) (map fst (xps _ _ d3)) (d3, true)) as [da oka] eqn:E1. cbn [fst snd] in *.
    match type of H with context [ser_loop fs true ?l da] => set (ns2 := l) in H end.
    assert (Hk2 : forall n, In n ns2 -> is_xml n = true).
    { intros n Hn. unfold ns2 in Hn. apply filter_In in Hn as [Hn _]. cbn in Hn. repeat (destruct Hn as [<-|Hn]; [reflexivity|]). destruct Hn. }
    destruct (fold_body_inv xml bytes kid ser par pretty true fs _ _ _ _ ns2 (da, true) Hk2 I1) as [I2 _].
    rewrite ser_loop_is_fold in H.
    destruct (fold_left (body xml bytes kid ser par pretty true fs) ns2 (da, true)) as [db okb] eqn:E2. cbn [fst snd] in *.
    inversion H; subst. apply (LInv_obs true fs d3 d4 W I2).
  - rewrite ser_loop_is_fold in H.
    destruct (fold_body_inv xml bytes kid ser par pretty false fs _ _ _ _ (map fst (xps _ _ d3)) (d3, true) Hk (LInv_start xml bytes kid ser par pretty false fs d3 W)) as [I1 _].
    rewrite H in I1. cbn [fst] in I1. apply (LInv_obs false fs d3 d4 W I1).
Qed.

Lemma obs_pkgok : forall fs (d d' : document), PkgOK fs d ->
  (forall m, dX fs d' m = dX fs d m) -> (forall m, is_xml m = false -> dB fs d' m = dB fs d m) ->
  (forall m, dB fs d' m = None <-> dB fs d m = None) -> PkgOK fs d'.
Proof.
  intros fs d d' H HX HB HE. apply (PkgOK_transfer xml bytes kid par entries mime fs d fs d' H HE).
  - intros mb Hb. exists mb. rewrite HB by reflexivity. auto.
  - intros xm Hx. exists xm. rewrite HX. auto.
Qed.
End O3.
