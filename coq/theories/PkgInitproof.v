(* PkgInitproof.v — initial states: boolean tests for FsOK / AllGood / PkgOK with their soundness, the first operation of a
   history, and the statements of C03_full / C04_full / C10 on histories *)
From Coq Require Import List ZArith Bool Arith Lia.
Import ListNotations.
Require Import Package PkgManproof PkgZipproof PkgOKproof Pkgproof Pkgproof2 Pkgproof3 Pkgproof4 Pkgproof5
               PkgStepWF PkgStepWF2 PkgStepWF3 PkgStepWF4 PkgOKstep PkgOKstep2 PkgOKstep3 PkgOKstep4 PkgOKstep5.
Open Scope Z_scope.

Section I.
Variable xml bytes kid : Type.
Variable ser : xml -> bytes.
Variable par : bytes -> xml.
Variable pretty stamp : xml -> xml.
Variable entries : xml -> mentries.
Variable with_entries : mentries -> xml -> xml.
Variable kids : xml -> list kid.
Variable mime : bytes -> mtype.
Variable mime_bytes : mtype -> bytes.
Variable rdf0 : bytes.
Hypothesis par_ser : forall x, par (ser x) = x.
Hypothesis entries_with : forall es x, entries (with_entries es x) = es.
Hypothesis entries_pretty : forall x, entries (pretty x) = entries x.
Hypothesis mime_mime_bytes : forall m, mime (mime_bytes m) = m.
Notation container := (container bytes).
Notation document := (document xml bytes).
Notation fsys := (fsys bytes kid).
Notation dB := (dB xml bytes kid).
Notation WFd := (WFd xml bytes kid).
Notation FsOK := (FsOK bytes kid).
Notation SInv := (SInv xml bytes kid).
Notation PkgOK := (PkgOK xml bytes kid par entries mime).
Notation PkgOKb := (PkgOKb xml bytes kid par entries mime).
Notation AllGood := (AllGood xml bytes kid par entries mime).
Notation CInv := (CInv xml bytes kid par entries mime).
Notation step := (step xml bytes kid ser par pretty stamp entries with_entries kids mime mime_bytes rdf0 FIXED).
Notation run := (run xml bytes kid ser par pretty stamp entries with_entries kids mime mime_bytes rdf0 FIXED).

Lemma bytes_in_names : forall fs (d : document) n, dB fs d n <> None -> In n (names_of xml bytes kid fs d).
Proof.
  intros fs d n H. unfold names_of, Pkgproof.dB, Pkgproof.cB in *. rewrite !in_app_iff.
  destruct (lookup n (parts _ (cont _ _ d))) as [v|] eqn:L.
  - right. left. eapply lookup_in_keys; eauto.
  - right. right. unfold Package.disk_lookup in H. destruct (cpath _ (cont _ _ d)) as [p|]; [|congruence].
    destruct (disk_entries bytes kid fs p) as [es|]; [|congruence].
    destruct (lookup n es) eqn:Le; [|congruence]. eapply lookup_in_keys; eauto.
Qed.

Lemma PkgOKb_sound : forall fs (d : document), PkgOKb fs d = true -> PkgOK fs d.
Proof.
  intros fs d H. unfold Package.PkgOKb in H. unfold Package.PkgOK.
  destruct (tree_of xml bytes kid par fs d MANIFEST) as [xm|]; [|discriminate].
  destruct (bytes_of xml bytes kid fs d MIMETYPE) as [mb|]; [|discriminate].
  repeat (apply andb_true_iff in H as [H ?]). rename H into Hn, H0 into Ht, H1 into Hr, H2 into Hi, H3 into Hf.
  exists xm, mb. split; [reflexivity|]. split; [reflexivity|]. split; [apply nodupb_NoDup; exact Hn|]. split; [|split].
  - intros n. split.
    + intros Hin. rewrite forallb_forall in Hf. apply Hf. exact Hin.
    + intros Hp. rewrite forallb_forall in Hi.
      assert (Hnm : In n (names_of xml bytes kid fs d)).
      { apply bytes_in_names. unfold is_file_part in Hp. change (bytes_of xml bytes kid fs d n) with (dB fs d n) in Hp.
        destruct (dB fs d n); [discriminate|]. rewrite andb_false_r in Hp. discriminate. }
      specialize (Hi n Hnm). rewrite Hp in Hi. cbn in Hi. apply memz_In. exact Hi.
  - destruct (m_get ROOT (entries xm)) as [m|]; [|discriminate]. apply Z.eqb_eq in Hr. subst. reflexivity.
  - exact Ht.
Qed.

Definition FsOKb (fs : fsys) : bool :=
  forallb (fun pf => match disk_entries bytes kid fs (fst pf) with Some es => nodupb (map fst es) | None => true end) fs.
Definition AllGoodb (fs : fsys) : bool :=
  forallb (fun pf => forallb (fun b => match c_open bytes kid fs (fst pf) b with Some c => PkgOKb fs (mkD c []) | None => true end) [true; false]) fs.

Lemma lookup_some_In_fs : forall (fs : fsys) p f, lookup p fs = Some f -> In (p, f) fs.
Proof. intros. apply lookup_In. assumption. Qed.

Lemma FsOKb_sound : forall fs, FsOKb fs = true -> FsOK fs.
Proof.
  intros fs H p es D. unfold FsOKb in H. rewrite forallb_forall in H.
  unfold Package.disk_entries in D. destruct (lookup p fs) as [f|] eqn:L; [|discriminate].
  specialize (H (p, f) (lookup_some_In_fs fs p f L)). cbn [fst] in H. unfold Package.disk_entries in H. rewrite L in H.
  destruct f; inversion D; subst; apply nodupb_NoDup; exact H.
Qed.

Lemma AllGoodb_sound : forall fs, AllGoodb fs = true -> AllGood fs.
Proof.
  intros fs H p b c O. unfold AllGoodb in H. rewrite forallb_forall in H.
  assert (L : exists f, lookup p fs = Some f).
  { unfold Package.c_open in O. destruct (lookup p fs) as [f|]; [eauto|discriminate]. }
  destruct L as [f L]. specialize (H (p, f) (lookup_some_In_fs fs p f L)). cbn [fst] in H.
  rewrite forallb_forall in H. specialize (H b ltac:(destruct b; cbn; auto)). rewrite O in H. apply PkgOKb_sound. exact H.
Qed.

(* ---------- the first operation of a history: open a package, or create a document from a template ---------- *)
Definition starts (o : op xml bytes) : Prop :=
  match o with OOpen _ _ => True | ONew _ m' => m' <> NOMT | _ => False end.

Theorem start_inv : forall fs (d0 : document) o, FsOK fs -> AllGood fs -> starts o ->
  snd (step (fs, d0) o) = Done -> CInv (fst (step (fs, d0) o)).
Proof.
  intros fs d0 o F G Hs Hd. unfold Package.step in *. destruct o as [p b|p m'| | | | | | | | | |]; cbn [starts] in Hs; try (exfalso; exact Hs).
  - destruct (c_open bytes kid fs p b) as [c|] eqn:O; cbn [fst snd] in *; [|discriminate].
    split; [split; [exact F|apply (open_doc_wf xml bytes kid fs p b c O)]|]. split; [apply (G p b c O)|exact G].
  - destruct (c_new xml bytes kid ser par entries with_entries mime_bytes FIXED fs p m') as [c|] eqn:O; cbn [fst snd] in *; [|discriminate].
    split; [split; [exact F|]|split; [apply (new_pkgok xml bytes kid ser par entries with_entries mime mime_bytes par_ser entries_with mime_mime_bytes fs p m' c F G Hs O)|exact G]].
    constructor; cbn [cont xps]; [apply (c_new_wf xml bytes kid ser par entries with_entries mime_bytes fs p m' c F O)|intros n []|intros n x L; discriminate].
Qed.

(* C04_full: from a file system of coherent packages, open or create, then any history respecting the alphabet *)
Theorem history_pkgok : forall fs (d0 : document) o os, FsOK fs -> AllGood fs -> starts o ->
  snd (step (fs, d0) o) = Done -> run_ok xml bytes kid ser par pretty stamp entries with_entries kids mime mime_bytes rdf0 (fst (step (fs, d0) o)) os ->
  CInv (run (fst (step (fs, d0) o)) os).
Proof.
  intros. apply (run_pkgok xml bytes kid ser par pretty stamp entries with_entries kids mime mime_bytes rdf0 par_ser entries_with entries_pretty mime_mime_bytes).
  - apply start_inv; assumption.
  - assumption.
Qed.

(* C03_full: the bookkeeping invariant needs no alphabet restriction and no coherent packages *)
Theorem history_wf : forall fs (d0 : document) o os, FsOK fs -> WFd fs d0 -> SInv (run (fs, d0) (o :: os)).
Proof.
  intros. apply (run_inv xml bytes kid ser par pretty stamp entries with_entries kids mime mime_bytes rdf0 par_ser). split; assumption.
Qed.

Lemma empty_doc_wf : forall fs, WFd fs (mkD (mkC [] [] None PZip) []).
Proof.
  intros fs. constructor; cbn [cont xps]; [constructor; cbn; [constructor|intros X; discriminate|congruence]|intros n []|intros n x L; discriminate].
Qed.
End I.
