"""C14: anything is found again under the name it was given, whatever the name contains.

Theorems: coq/theories/C14.v (model XPathLit.v: the text pasted into XPath queries by the pinned and by the repaired
code; specification: reader of XPath 1.0 string expressions, predicate reader, whole-query lexer `skeleton`).

Correspondence: identifiers over an alphabet rich in XPath/XML-significant characters go through every lookup entry
point that takes a name or an id.  For each (site, identifier) three objects are stored (the identifier, a
near-identical decoy, "plain"), the lookup is executed, and
  (i)  every XPath query string the implementation built during the lookup (captured by wrapping, from this
       harness, odfdo's own Python-level query functions) is handed to Coq together with the identifier and the
       queries the same site builds for the benign identifier "plain": Coq lexes both (XPathLit.skeleton) and
       requires the same structure, with the identifier as the value of every string token that is "plain" in
       the benign query;
       and, absolutely, that the identifier predicate constrains every branch of every union (XPathLit.covered);
  (ii) the objects returned are identified by a marker attribute read from the underlying lxml node (never through
       odfdo getters): exactly the stored object, never the decoy, no exception.  Decoys of every element kind the
       site's query can return are placed before and after the target; the target is also tried as each kind; and an
       identifier that is not stored at all must find nothing.
"""
import sys, os, json, random, itertools, time, signal, re
from pathlib import Path
sys.path.insert(0, str(Path(__file__).resolve().parent))
import common
from lxml import etree

PROP = "C14"
MARK = "{urn:org:documentfoundation:names:experimental:office:xmlns:loext:1.0}verif-role"   # a namespace odfdo knows, so that attribute copying code is not disturbed
ROLE_CODE = {"stored": 1, "decoy": 2, "plain": 3, "new": 4}


def role_code(r):
    return 2 if str(r).startswith("decoy") else ROLE_CODE.get(r, 0)
SIGNIFICANT = set("\"'&<>[]()=, {}$@/|*:")
LETTERS = "abcxyzABZ019_-."
RICH = list("\"'&<>[]()=, é中{}$@/|*:") + ['"', "'", '"', "'"]   # quotes weighted
CALL_LIMIT_S = 5

LAYER = {1: "query: the XPath text built for the identifier does not lex (unterminated literal = XPathSyntaxError)",
         2: "query: a string token of the query is not the identifier",
         3: "query: the structure of the query depends on the identifier (injection)",
         4: "lookup: the stored object was not returned (nothing, something else, or an exception)",
         5: "lookup: an object stored under a different identifier was returned",
         6: "harness: the benign query of the site does not lex",
         7: "xml: the attribute value written is not read back as the identifier",
         8: "query: the identifier predicate does not constrain every branch of a union (an object can be selected whatever its identifier)",
         9: "fidelity: query text differs from the model's although it denotes the same string (not an alarm)"}


class CallTimeout(Exception):
    pass


def _alarm(signum, frame):
    raise CallTimeout("implementation call exceeded %ss" % CALL_LIMIT_S)


def limited(f, *a, **k):
    signal.signal(signal.SIGALRM, _alarm)
    signal.setitimer(signal.ITIMER_REAL, CALL_LIMIT_S)
    try:
        return f(*a, **k)
    finally:
        signal.setitimer(signal.ITIMER_REAL, 0)


# ------------------------------------------------------------------------------------------ query capture

CAP = []


def install_capture():
    """Record every query string that reaches odfdo's Python-level XPath functions.  Done from the harness:
    nothing is added to odfdo and nothing depends on the ODFDO_VERIF guard."""
    import odfdo.element as E
    orig_compile, orig_XPath = E.xpath_compile, E.XPath

    def rec_compile(path):
        CAP.append(str(path))
        return orig_compile(path)

    def rec_XPath(path, *a, **k):
        CAP.append(str(path))
        return orig_XPath(path, *a, **k)

    for name, mod in list(sys.modules.items()):
        if name == "odfdo" or name.startswith("odfdo."):
            for attr, val in list(vars(mod).items()):
                if val is orig_compile:
                    setattr(mod, attr, rec_compile)
                elif val is orig_XPath:
                    setattr(mod, attr, rec_XPath)

    def wrap(cls, meth):
        orig = getattr(cls, meth)

        def w(self, q, *a, **k):
            if isinstance(q, str):
                CAP.append(q)
            return orig(self, q, *a, **k)
        w.__name__ = meth
        setattr(cls, meth, w)

    for meth in ("get_element", "_get_element_idx", "xpath", "get_elements"):
        wrap(E.Element, meth)
    import odfdo.element_cached as EC
    for cname in ("CachedElement", "ElementCached"):            # subclasses overriding get_elements (Table, Row)
        cls = getattr(EC, cname, None)
        if cls is not None and "get_elements" in vars(cls):
            wrap(cls, "get_elements")


def dedupe(qs):
    seen, out = set(), []
    for q in qs:
        if q not in seen:
            seen.add(q); out.append(q)
    return out


# ------------------------------------------------------------------------------------------ sites

def node(el):
    return el._Element__element          # the lxml node, by private name (independent of the getters)


def mark(el, role):
    for n in node(el).iter():
        if isinstance(n.tag, str):
            n.set(MARK, role)


def role_of(x):
    if x is None:
        return None
    if hasattr(x, "_Element__element"):
        return node(x).get(MARK) or "other"
    if isinstance(x, etree._Element):
        return x.get(MARK) or "other"
    s = str(x)
    if s.startswith("role/"):
        s = s[5:]
    if s in ROLE_CODE or s.startswith("decoy"):
        return s
    return "other"


def roles(res):
    if res is None:
        return []
    if isinstance(res, (list, tuple)):
        return [role_of(x) for x in res if x is not None]
    return [role_of(res)]


def _mentions(code, const):
    return any(c == const or (hasattr(c, "co_consts") and _mentions(c, const)) for c in code.co_consts)


class Site:
    def __init__(self, key, attr, make, look, host="p", expect=("stored",), heavy=False, main=False):
        self.key, self.attr, self.make, self.look, self.host = key, attr, make, look, host
        self.expect, self.heavy, self.main = list(expect), heavy, main
        self.benign = None
        self.benign_absent = None
        self.kinds = []          # other element kinds (prefixed tags) the site's identifier query can return
        self.needs_stored = _mentions(look.__code__, "stored")    # the lookup is a method of the stored object


def build_sites(o):
    """o = the odfdo module.  Every lookup entry point of the library that takes a name or an id.
    make(ident, role) -> element (built through the public constructor / setter);
    look(host, ident, objs) -> what the lookup returned."""
    from odfdo.element import ODF_NAMESPACES as NSM
    E = o.Element

    def ck(q):
        p, l = q.split(":")
        return "{%s}%s" % (NSM[p], l)

    S, sites = Site, []

    def add(*a, **k):
        sites.append(S(*a, **k))

    def anno(i, r):
        a = o.Annotation("t"); a.name = i; return a

    def chg(cls):
        def mk(i, r):
            e = cls(); e.set_id(i); return e
        return mk

    def frame_img(i, r):
        f = o.Frame(name=i); f.append(o.DrawImage("Pictures/%s.png" % r)); return f

    # --- text-level objects, each wrapped in its own paragraph of an office:text
    add("get_frame/name", ck("draw:name"), lambda i, r: o.Frame(name=i), lambda h, i, ob: h.get_frame(name=i), main=True)
    add("get_image/name", ck("draw:name"), frame_img, lambda h, i, ob: h.get_image(name=i))
    add("get_note/note_id", ck("text:id"), lambda i, r: o.Note(note_id=i), lambda h, i, ob: h.get_note(note_id=i))
    add("get_annotation/name", ck("office:name"), anno, lambda h, i, ob: h.get_annotation(name=i))
    add("get_annotation_end/name", ck("office:name"), lambda i, r: o.AnnotationEnd(name=i), lambda h, i, ob: h.get_annotation_end(name=i))
    add("get_variable_decl", ck("text:name"), lambda i, r: o.VarDecl(i, "string"), lambda h, i, ob: h.get_variable_decl(i))
    add("get_variable_set", ck("text:name"), lambda i, r: o.VarSet(i, value=r), lambda h, i, ob: h.get_variable_set(i))
    add("get_variable_sets", ck("text:name"), lambda i, r: o.VarSet(i, value=r), lambda h, i, ob: h.get_variable_sets(i))
    add("get_variable_set_value", ck("text:name"), lambda i, r: o.VarSet(i, value=r), lambda h, i, ob: h.get_variable_set_value(i))
    add("get_user_field_decl", ck("text:name"), lambda i, r: o.UserFieldDecl(i, value=r), lambda h, i, ob: h.get_user_field_decl(i))
    add("get_user_field_value", ck("text:name"), lambda i, r: o.UserFieldDecl(i, value=r), lambda h, i, ob: h.get_user_field_value(i))
    add("get_user_defined", ck("text:name"), lambda i, r: o.UserDefined(i, value=r), lambda h, i, ob: h.get_user_defined(i))
    add("get_user_defined_value", ck("text:name"), lambda i, r: o.UserDefined(i, value=r), lambda h, i, ob: h.get_user_defined_value(i))
    add("get_link/name", ck("office:name"), lambda i, r: o.Link("http://x/" + r, name=i), lambda h, i, ob: h.get_link(name=i))
    add("get_links/name", ck("office:name"), lambda i, r: o.Link("http://x/" + r, name=i), lambda h, i, ob: h.get_links(name=i))
    add("get_link/title", ck("office:title"), lambda i, r: o.Link("http://x/" + r, title=i), lambda h, i, ob: h.get_link(title=i))
    add("get_bookmark", ck("text:name"), lambda i, r: o.Bookmark(i), lambda h, i, ob: h.get_bookmark(name=i), main=True)
    add("get_bookmark_start", ck("text:name"), lambda i, r: o.BookmarkStart(i), lambda h, i, ob: h.get_bookmark_start(name=i))
    add("get_bookmark_end", ck("text:name"), lambda i, r: o.BookmarkEnd(i), lambda h, i, ob: h.get_bookmark_end(name=i))
    add("get_reference_mark_single", ck("text:name"), lambda i, r: o.ReferenceMark(i), lambda h, i, ob: h.get_reference_mark_single(name=i))
    add("get_reference_mark_start", ck("text:name"), lambda i, r: o.ReferenceMarkStart(i), lambda h, i, ob: h.get_reference_mark_start(name=i))
    add("get_reference_mark_end", ck("text:name"), lambda i, r: o.ReferenceMarkEnd(i), lambda h, i, ob: h.get_reference_mark_end(name=i))
    add("get_reference_mark/single", ck("text:name"), lambda i, r: o.ReferenceMark(i), lambda h, i, ob: h.get_reference_mark(name=i), main=True)
    add("get_reference_mark/start", ck("text:name"), lambda i, r: o.ReferenceMarkStart(i), lambda h, i, ob: h.get_reference_mark(name=i))
    add("get_references", ck("text:ref-name"), lambda i, r: o.Reference(i), lambda h, i, ob: h.get_references(name=i), main=True)
    add("get_draw_group/name", ck("draw:name"), lambda i, r: o.DrawGroup(name=i), lambda h, i, ob: h.get_draw_group(name=i))
    add("get_draw_line/id", ck("draw:id"), lambda i, r: o.LineShape(draw_id=i), lambda h, i, ob: h.get_draw_line(id=i))
    add("get_draw_rectangle/id", ck("draw:id"), lambda i, r: o.RectangleShape(draw_id=i), lambda h, i, ob: h.get_draw_rectangle(id=i))
    add("get_draw_ellipse/id", ck("draw:id"), lambda i, r: o.EllipseShape(draw_id=i), lambda h, i, ob: h.get_draw_ellipse(id=i))
    add("get_draw_connector/id", ck("draw:id"), lambda i, r: o.ConnectorShape(draw_id=i), lambda h, i, ob: h.get_draw_connector(id=i))
    add("get_text_change_deletion/idx", ck("text:change-id"), chg(o.TextChange), lambda h, i, ob: h.get_text_change_deletion(idx=i))
    add("get_text_change_start/idx", ck("text:change-id"), chg(o.TextChangeStart), lambda h, i, ob: h.get_text_change_start(idx=i))
    add("get_text_change_end/idx", ck("text:change-id"), chg(o.TextChangeEnd), lambda h, i, ob: h.get_text_change_end(idx=i))
    add("get_text_change/deletion", ck("text:change-id"), chg(o.TextChange), lambda h, i, ob: h.get_text_change(idx=i), main=True)
    add("get_text_change/start", ck("text:change-id"), chg(o.TextChangeStart), lambda h, i, ob: h.get_text_change(idx=i))
    # styles used by content
    add("get_paragraphs/style", ck("text:style-name"), lambda i, r: o.Paragraph(r, style=i), lambda h, i, ob: h.get_paragraphs(style=i), host="flat")
    add("get_spans/style", ck("text:style-name"), lambda i, r: o.Span(r, style=i), lambda h, i, ob: h.get_spans(style=i))
    add("get_headers/style", ck("text:style-name"), _header(o), lambda h, i, ob: h.get_headers(style=i), host="flat")
    add("get_lists/style", ck("text:style-name"), lambda i, r: o.List([r], style=i), lambda h, i, ob: h.get_lists(style=i), host="flat")
    add("get_sections/style", ck("text:style-name"), lambda i, r: o.Section(style=i, name=r), lambda h, i, ob: h.get_sections(style=i), host="flat")
    add("get_frames/style", ck("draw:style-name"), lambda i, r: o.Frame(name=r, style=i), lambda h, i, ob: h.get_frames(style=i))
    add("get_draw_pages/style", ck("draw:style-name"), lambda i, r: o.DrawPage("id" + r, name=r, style=i), lambda h, i, ob: h.get_draw_pages(style=i), host="flat")
    add("get_draw_lines/draw_style", ck("draw:style-name"), lambda i, r: o.LineShape(style=i, draw_id=r), lambda h, i, ob: h.get_draw_lines(draw_style=i))
    add("get_draw_rectangles/draw_text_style", ck("draw:text-style-name"), lambda i, r: o.RectangleShape(text_style=i, draw_id=r),
        lambda h, i, ob: h.get_draw_rectangles(draw_text_style=i))
    add("get_styled_elements", ck("text:style-name"), lambda i, r: o.Paragraph(r, style=i), lambda h, i, ob: h.get_styled_elements(i), host="flat", main=True)
    add("get_draw_page/name", ck("draw:name"), lambda i, r: o.DrawPage("id" + r, name=i), lambda h, i, ob: h.get_draw_page(name=i), host="flat")
    # tracked changes
    def region(i, r):
        e = o.TextChangedRegion(); e.set_id(i); return e
    add("get_changed_region/text_id", ck("text:id"), region, lambda h, i, ob: h.get_changed_region(text_id=i), host="tracked")
    add("TextChangeEnd.get_start", ck("text:change-id"), lambda i, r: _pair(o, o.TextChangeStart, o.TextChangeEnd, i, r),
        lambda h, i, ob: ob["stored"].get_elements("descendant::text:change-end")[0].get_start(), host="flat")
    add("TextChangeStart.get_end", ck("text:change-id"), lambda i, r: _pair(o, o.TextChangeStart, o.TextChangeEnd, i, r),
        lambda h, i, ob: ob["stored"].get_elements("descendant::text:change-start")[0].get_end(), host="flat")
    add("TextChangeStart.get_inserted", ck("text:change-id"), lambda i, r: _pair(o, o.TextChangeStart, o.TextChangeEnd, i, r),
        lambda h, i, ob: _words(ob["stored"].get_elements("descendant::text:change-start")[0].get_inserted(as_text=True)), host="flat")
    # styles: the container of styles, and the document-level API
    add("Element.get_style/name", ck("style:name"), lambda i, r: o.Style("paragraph", name=i), lambda h, i, ob: h.get_style("paragraph", i), host="styles", main=True)
    add("Element.get_style/display_name", ck("style:display-name"), lambda i, r: o.Style("paragraph", name="n" + r, display_name=i),
        lambda h, i, ob: h.get_style("paragraph", display_name=i), host="styles")
    add("Element.get_style/text-family", ck("style:name"), lambda i, r: o.Style("text", name=i), lambda h, i, ob: h.get_style("text", i), host="styles")
    add("Document.get_style", ck("style:name"), lambda i, r: o.Style("paragraph", name=i), lambda h, i, ob: h.get_style("paragraph", i), host="doc-styles", heavy=True)
    add("Document.get_style/automatic", ck("style:name"), lambda i, r: o.Style("paragraph", name=i), lambda h, i, ob: h.get_style("paragraph", i), host="doc-auto", heavy=True)
    add("Document.insert_style/replace", ck("style:name"), lambda i, r: o.Style("paragraph", name=i),
        lambda h, i, ob: _removed(h.styles.root, lambda: h.insert_style(o.Style("paragraph", name=i))), host="doc-styles", heavy=True)
    add("Document.get_styled_elements", ck("text:style-name"), lambda i, r: o.Paragraph(r, style=i), lambda h, i, ob: h.get_styled_elements(i), host="doc-body", heavy=True)
    add("Document.get_parent_style", ck("style:name"), lambda i, r: o.Style("paragraph", name=i),
        lambda h, i, ob: h.get_parent_style(o.Style("paragraph", name="child", parent_style=i)), host="doc-styles", heavy=True)
    # tables and named ranges
    add("get_table/name", ck("table:name"), lambda i, r: o.Table(i), lambda h, i, ob: h.get_table(name=i), host="sheet", main=True)
    add("get_tables/style", ck("table:style-name"), lambda i, r: o.Table("T" + r, style=i), lambda h, i, ob: h.get_tables(style=i), host="sheet")
    add("get_named_range", ck("table:name"), lambda i, r: o.NamedRange(i, "A1", "T"), lambda h, i, ob: h.get_named_range(i), host="ranges")
    add("append_named_range/replace", ck("table:name"), lambda i, r: o.NamedRange(i, "A1", "T"),
        lambda h, i, ob: _removed(h, lambda: h.append_named_range(o.NamedRange(i, "B2", "T"))), host="ranges")
    add("delete_named_range", ck("table:name"), lambda i, r: o.NamedRange(i, "A1", "T"),
        lambda h, i, ob: _removed(h, lambda: h.delete_named_range(i)), host="ranges")
    add("Table.get_named_range", ck("table:name"), lambda i, r: o.NamedRange(i, "A1", "T"),
        lambda h, i, ob: h.body.get_table(name="T").get_named_range(i), host="doc-ranges", heavy=True)
    add("Table.set_named_range/replace", ck("table:name"), lambda i, r: o.NamedRange(i, "A1", "T"),
        lambda h, i, ob: _removed(h.body, lambda: h.body.get_table(name="T").set_named_range(i, "B2")), host="doc-ranges", heavy=True)
    add("Table.delete_named_range", ck("table:name"), lambda i, r: o.NamedRange(i, "A1", "T"),
        lambda h, i, ob: _removed(h.body, lambda: h.body.get_table(name="T").delete_named_range(i)), host="doc-ranges", heavy=True)
    # reference marks: text between, by name
    def ref_range(i, r):
        return _pair(o, o.ReferenceMarkStart, o.ReferenceMarkEnd, i, r)
    def bm_range(i, r):
        return _pair(o, o.BookmarkStart, o.BookmarkEnd, i, r)
    first = lambda el, q: el.get_elements(q)[0]
    add("ReferenceMarkStart.referenced_text", ck("text:name"), ref_range,
        lambda h, i, ob: _words(first(ob["stored"], "descendant::text:reference-mark-start").referenced_text()), host="flat", main=True)
    add("ReferenceMarkEnd.referenced_text", ck("text:name"), ref_range,
        lambda h, i, ob: _words(first(ob["stored"], "descendant::text:reference-mark-end").referenced_text()), host="flat")
    add("ReferenceMarkStart.get_referenced", ck("text:name"), ref_range,
        lambda h, i, ob: _words(_text_of(first(ob["stored"], "descendant::text:reference-mark-start").get_referenced())), host="flat")
    add("Reference.update", ck("text:name"), ref_range, lambda h, i, ob: _ref_update(o, h, i), host="flat")
    add("remove_reference_mark", ck("text:name"), ref_range,
        lambda h, i, ob: _removed(h, lambda: o.reference.remove_reference_mark(h, name=i), dedupe_roles=True), host="flat")
    add("ReferenceMarkStart.delete", ck("text:name"), ref_range,
        lambda h, i, ob: _removed(h, lambda: first(ob["stored"], "descendant::text:reference-mark-start").delete(), only=ck("text:reference-mark-end")), host="flat")
    add("get_between/bookmarks", ck("text:name"), bm_range,
        lambda h, i, ob: _words(h.get_between(first(ob["stored"], "descendant::text:bookmark-start"), first(ob["stored"], "descendant::text:bookmark-end"), as_text=True)),
        host="flat", main=True)
    add("get_between/reference-marks", ck("text:name"), ref_range,
        lambda h, i, ob: _words(h.get_between(first(ob["stored"], "descendant::text:reference-mark-start"), first(ob["stored"], "descendant::text:reference-mark-end"), as_text=True)),
        host="flat")
    # manifest (entries are created through lxml, so that these sites are independent of make_file_entry)
    add("Manifest.get_media_type", "{urn:oasis:names:tc:opendocument:xmlns:manifest:1.0}full-path", None, lambda h, i, ob: h.get_media_type(i), host="manifest", main=True)
    add("Manifest.set_media_type", "{urn:oasis:names:tc:opendocument:xmlns:manifest:1.0}full-path", None,
        lambda h, i, ob: _changed(h, lambda: h.set_media_type(i, "x/changed")), host="manifest")
    add("Manifest.del_full_path", "{urn:oasis:names:tc:opendocument:xmlns:manifest:1.0}full-path", None,
        lambda h, i, ob: _removed(h.root, lambda: h.del_full_path(i)), host="manifest")
    add("Manifest.add_full_path/existing", "{urn:oasis:names:tc:opendocument:xmlns:manifest:1.0}full-path", None,
        lambda h, i, ob: _changed(h, lambda: h.add_full_path(i, "x/changed")), host="manifest")
    return sites


def _header(o):
    def mk(i, r):
        h = o.Header(1, r); h.style = i; return h          # (the constructor drops style=, F17)
    return mk


def _pair(o, cls_start, cls_end, ident, role):
    """<text:p>before <start ident/>ROLE<end ident/> after</text:p>"""
    p = o.Paragraph()
    n = node(p)
    n.text = "before"
    s, e = cls_start(), cls_end()
    if hasattr(s, "set_id") and "change" in s.tag:
        s.set_id(ident); e.set_id(ident)
    else:
        s.name = ident; e.name = ident
    n.append(node(s)); node(s).tail = role
    n.append(node(e)); node(e).tail = "after"
    return p


def _words(text):
    if text is None:
        return []
    return [w for w in str(text).split() if w]


def _text_of(el):
    if el is None:
        return ""
    if isinstance(el, (list, tuple)):
        return " ".join(_text_of(x) for x in el)
    if isinstance(el, str):
        return el
    return " ".join(node(el).itertext())


def _marked(root, only=None):
    out = []
    for n in node(root).iter():
        if isinstance(n.tag, str) and n.get(MARK) and (only is None or n.tag == only):
            out.append(n.get(MARK))
    return out


def _removed(root, action, dedupe_roles=False, only=None):
    """roles of the marked nodes that disappeared from the tree while `action` ran (independent lxml walk)"""
    before = _marked(root, only)
    action()
    after = _marked(root, only)
    gone = list(before)
    for r in after:
        if r in gone:
            gone.remove(r)
    # a stored object may consist of several marked nodes: report each role once
    return sorted(set(gone), key=gone.index)


def _changed(manifest, action):
    MT = "{urn:oasis:names:tc:opendocument:xmlns:manifest:1.0}media-type"
    snap = lambda: {n.get(MARK): n.get(MT) for n in node(manifest.root).iter() if isinstance(n.tag, str) and n.get(MARK)}
    before = snap(); action(); after = snap()
    return [r for r in before if after.get(r) != before[r]]


def _ref_update(o, host, ident):
    ref = o.Reference(ident, ref_format="text")
    p = o.Paragraph(); p.append(ref); host.append(p)
    ref.update()
    return _words(node(ref).text)


MANIFEST_NS = "urn:oasis:names:tc:opendocument:xmlns:manifest:1.0"


def make_host(o, site, objs):
    """objs: list of (role, element-or-name).  Returns the object on which the lookup is called."""
    kind = site.host
    E = o.Element
    if kind in ("p", "flat"):
        h = E.from_tag("office:text")
        for role, el in objs:
            mark(el, role)
            if kind == "p":
                p = o.Paragraph(); node(p).append(node(el)); node(h).append(node(p))
            else:
                node(h).append(node(el))
        return h
    if kind == "tracked":
        h = o.TrackedChanges()
        for role, el in objs:
            mark(el, role); node(h).append(node(el))
        return h
    if kind == "styles":
        h = E.from_tag("office:styles")
        for role, el in objs:
            mark(el, role); node(h).append(node(el))
        return h
    if kind == "sheet":
        h = E.from_tag("office:spreadsheet")
        for role, el in objs:
            mark(el, role); node(h).append(node(el))
        return h
    if kind == "ranges":
        h = E.from_tag("office:spreadsheet")
        h.append(o.Table("T"))
        ne = E.from_tag("table:named-expressions"); node(h).append(node(ne))
        for role, el in objs:
            mark(el, role); node(ne).append(node(el))
        return h
    if kind == "doc-ranges":
        d = o.Document("spreadsheet")
        b = d.body
        b.clear()
        b.append(o.Table("T"))
        ne = E.from_tag("table:named-expressions"); node(b).append(node(ne))
        for role, el in objs:
            mark(el, role); node(ne).append(node(el))
        return d
    if kind in ("doc-styles", "doc-auto", "doc-body"):
        d = o.Document("text")
        if kind == "doc-styles":
            tgt = node(d.styles.root).find("{urn:oasis:names:tc:opendocument:xmlns:office:1.0}styles")
        elif kind == "doc-auto":
            tgt = node(d.content.root).find("{urn:oasis:names:tc:opendocument:xmlns:office:1.0}automatic-styles")
        else:
            tgt = node(d.body)
        for role, el in objs:
            mark(el, role); tgt.append(node(el))
        return d
    if kind == "manifest":
        d = o.Document("text")
        m = d.manifest
        r = node(m.root)
        for child in list(r):            # the template's own entries (one of them is "/") would collide with identifiers
            r.remove(child)
        for role, name in objs:
            n = etree.SubElement(r, "{%s}file-entry" % MANIFEST_NS)
            n.set("{%s}full-path" % MANIFEST_NS, name)
            n.set("{%s}media-type" % MANIFEST_NS, "role/" + role)
            n.set(MARK, role)
        return m
    raise ValueError(kind)


def stored_name(site, el):
    """the identifier actually stored, read from the lxml node (first node carrying the attribute)"""
    if isinstance(el, str):
        return el
    for n in node(el).iter():
        if isinstance(n.tag, str) and n.get(site.attr) is not None:
            return n.get(site.attr)
    return None


def valid_xml_text(s):
    try:
        etree.Element("x").set("a", s)
        return True
    except ValueError:
        return False


def result_tags(query):
    """prefixed tags named by the last step of every union branch of a query (harness-side, for generating decoys only)"""
    q = re.sub(r'"[^"]*"|\'[^\']*\'', '""', query)
    while re.search(r"\[[^\[\]]*\]", q):
        q = re.sub(r"\[[^\[\]]*\]", "", q)
    q = q.replace("(", " ").replace(")", " ")
    tags = []
    for b in q.split("|"):
        m = re.search(r"([A-Za-z][\w-]*:[A-Za-z][\w.-]*)\s*$", b.strip())
        if m and m.group(1) not in tags:
            tags.append(m.group(1))
    return tags


def derive_kinds(o, site, queries):
    """the element kinds other than the site's own that its identifier query can return"""
    from odfdo.element import ODF_NAMESPACES as NSM
    if site.make is None:
        return []
    tags = []
    for q in queries:
        if '"plain"' in q or "'plain'" in q:
            for t in result_tags(q):
                if t.split(":")[0] in NSM and t not in tags:
                    tags.append(t)
    try:
        own = site.make("plain", "plain").tag
    except Exception:
        return []
    if own not in tags:
        return []           # the site does not return the object itself (ranges, text between marks ...)
    return [t for t in tags if t != own]


def retag(o, el, tag):
    """the same element under another tag (lxml level): same attributes and children"""
    from odfdo.element import ODF_NAMESPACES as NSM
    import copy
    n = node(el)
    pfx, local = tag.split(":")
    new = etree.Element("{%s}%s" % (NSM[pfx], local), nsmap=n.nsmap)
    for k, v in n.attrib.items():
        new.set(k, v)
    new.text = n.text
    for c in n:
        new.append(copy.deepcopy(c))
    return o.Element.from_tag(new)


ABSENT_OK = (KeyError, ValueError)      # "not found" answers of lookups that do not return None


def run_case(o, site, ident, decoy, third="plain", mode="present", kind=0, variant=0):
    """Store, in document order: decoys (one of every kind the site can return) / the identifier (as kind `kind`) /
    decoys of every kind again / the benign object; then look the identifier up.  mode "absent": the identifier is
    not stored at all and the lookup must return nothing.  Returns a dict; 'rejected' when the API does not accept
    the identifier."""
    out = dict(site=site.key, ident=ident, decoy=decoy, third=third, mode=mode, as_kind=kind, rejected=False, raised=None, found=[], queries=[])
    if not ident or not valid_xml_text(ident):
        out["rejected"] = True; out["why"] = "empty or not XML text"; return out
    if mode == "absent" and site.needs_stored:
        out["rejected"] = True; out["why"] = "the lookup is a method of the stored object"; return out
    if kind > len(site.kinds):
        out["rejected"] = True; out["why"] = "no such kind at this site"; return out
    kinds = [None] + list(site.kinds)
    # identifiers of the decoys: before / after the target, per kind
    dnames, v = [], variant
    for _ in range(2 * len(kinds)):
        d = decoy if not dnames else decoy_of(ident, v)
        tries = 0
        while (d in dnames or d == ident or d == third) and tries < 8:
            v += 1; tries += 1; d = decoy_of(ident, v)
        if d in dnames or d == ident or d == third:
            d = ident + "x" * (len(dnames) + 1)
        dnames.append(d); v += 1
    plan = []
    for k, kt in enumerate(kinds):
        plan.append(("decoy" if k == 0 else "decoy-b%d" % k, dnames[2 * k], kt))
    plan.append(("stored", ident, kinds[kind]))
    for k, kt in enumerate(kinds):
        plan.append(("decoy-a%d" % k, dnames[2 * k + 1], kt))
    plan.append(("plain", third, None))
    objs, seen_names = [], []
    for role, name, kt in plan:
        if name is None:
            continue
        if site.make is None:
            if role == "stored" and mode == "absent":
                continue
            if role != "stored" and (name == ident or name in seen_names):
                continue
            seen_names.append(name); objs.append((role, name)); continue
        try:
            el = limited(site.make, name, role)
            if kt is not None:
                el = retag(o, el, kt)
        except CallTimeout:
            raise
        except Exception as e:
            if role == "stored":
                out["rejected"] = True; out["why"] = "setter: %r" % (e,); return out
            continue
        actual = stored_name(site, el)
        if role == "stored":
            if actual is None:
                out["rejected"] = True; out["why"] = "identifier not stored"; return out
            if actual != ident:
                out["normalised_from"] = ident
                ident = actual; out["ident"] = actual
                objs = [(r, e2) for r, e2 in objs if stored_name(site, e2) != ident]
            if mode == "absent":
                continue
        elif actual is None or actual == ident:
            continue
        objs.append((role, el))
    if ident == third:
        out["rejected"] = True; out["why"] = "normalises to the benign name"; return out
    out["stored_roles"] = [r for r, _ in objs]
    out["layout"] = [(r, n if isinstance(n, str) else stored_name(site, n), None if isinstance(n, str) else n.tag) for r, n in objs]
    try:
        host = make_host(o, site, objs)
    except Exception as e:
        out["rejected"] = True; out["why"] = "host: %r" % (e,); return out
    ob = dict(objs)
    del CAP[:]
    try:
        res = limited(site.look, host, ident, ob)
        out["found"] = roles(res)
    except CallTimeout as e:
        out["raised"] = repr(e)
    except Exception as e:
        if mode == "absent" and isinstance(e, ABSENT_OK) and not isinstance(e, etree.Error):
            out["absent_answer"] = "%s: %s" % (type(e).__name__, str(e)[:100])
        else:
            out["raised"] = "%s: %s" % (type(e).__name__, str(e)[:200])
    out["queries"] = dedupe(CAP)
    del CAP[:]
    return out


# ------------------------------------------------------------------------------------------ identifiers

def decoy_of(ident, variant):
    """a near-identical identifier (deterministic in (ident, variant))"""
    swap = {'"': "'", "'": '"'}
    k = variant % 5
    if k == 0 and any(c in swap for c in ident):
        d = "".join(swap.get(c, c) for c in ident)
    elif k == 1 and len(ident) > 1:
        d = ident[:-1]
    elif k == 2:
        d = ident + ident[-1:]
    elif k == 3 and len(ident) > 1:
        d = ident[1:]
    else:
        j = variant % max(1, len(ident))
        d = ident[:j] + ("y" if ident[j:j + 1] != "y" else "z") + ident[j + 1:]
    if d == ident or not d or d == "plain":
        d = ident + "x"
    return d


EDGE = ['"', "'", '""', "''", '"\'', '\'"', '"\'"', '\'"\'', '"abc', 'abc"', "'abc", "abc'", '"a\'', '\'a"', 'a"b', "a'b",
        'a"b\'c', 'a\'b"c', '""""', "''''", '"\'"\'"\'', 'a""b\'', '\'""', '""\'', 'x"\'', 'x\'"', '"x\'y"', "'x\"y'",
        'concat("a","b")', "concat('a',\"b\")", 'x concat(', 'concat(', '",\'"\',"', "a\",'\"',\"b'",
        '"] | //*[@x="', "'] | //*[@x='", '"]|//*["', 'a" or "1"="1', "a' or '1'='1", '") or ("', "') or ('", 'a"][1', "a'][1",
        'plain"', "plain'", '"plain', 'pla"in', "pla'in\"", 'a&b', 'a<b', 'a>b', 'a&amp;b', 'a&quot;b', '&#34;', 'a]b', 'a[b', 'a]]>b',
        'a(b)', 'a=b', 'a,b', 'a b', 'a  b', 'é', '中"文', "中'文\"", 'a{b}', '{$x}', '$v', '@a', 'a/b', '//', 'a|b', 'a*', 'a:b', '::',
        'text()', 'a"b"c\'d\'e', '\'"\'"', '"a"', "'a'", '"a\'b"', 'a\\"b', "a\\'b\"", 'Tab le', 'x="y"', "x='y'"]


def gen_idents(rng, n_random, n_long=2):
    out = list(EDGE)
    for _ in range(n_random):
        L = rng.choice([1, 2, 2, 3, 3, 4, 5, 6, 8, 12])
        s = "".join(rng.choice(RICH) if rng.random() < 0.45 else rng.choice(LETTERS) for _ in range(L))
        out.append(s)
    for _ in range(n_long):
        L = rng.randint(60, 200)
        out.append("".join(rng.choice(RICH) if rng.random() < 0.3 else rng.choice(LETTERS) for _ in range(L)))
    # words with quotes inserted at random places
    for _ in range(n_random // 3):
        w = list(rng.choice(["name", "Table 1", "réf", "id-7", "a.b", "中文"]))
        for _ in range(rng.randint(1, 3)):
            w.insert(rng.randint(0, len(w)), rng.choice('"\'"\'&<]'))
        out.append("".join(w))
    return out


def ident_class(s):
    dq, sq = '"' in s, "'" in s
    if dq and sq:
        return "both-quote-kinds-in-value"
    if dq:
        return "double-quote-in-value"
    if sq:
        return "single-quote-in-value"
    if any(c in "&<>" for c in s):
        return "xml-special-in-value"
    return "no-quote-in-value"


# ------------------------------------------------------------------------------------------ Coq side

def cs(s):
    return "([" + ";".join(str(ord(c)) for c in s) + "] : str)"


HEADER = r'''Require Import XPathLit. From Coq Require Import List NArith Bool Arith. Import ListNotations.
Open Scope N_scope.
Set Printing Width 1000000.   (* the (index, code) pairs are read back by a regular expression: no line breaks inside them *)
Definition plain : str := [112;108;97;105;110].
Fixpoint cmp_toks (v : str) (tq tb : list tok) : nat :=
  match tq, tb with
  | [], [] => 0%nat
  | TOther x :: tq', TOther y :: tb' => if str_eqb x y then cmp_toks v tq' tb' else 3%nat
  | TStr x :: tq', TStr y :: tb' =>
      if str_eqb y plain then (if str_eqb x v then cmp_toks v tq' tb' else 2%nat)
      else if str_eqb x y then cmp_toks v tq' tb' else 2%nat
  | _, _ => 3%nat
  end.
Definition is_plain_tok (t : tok) : bool := match t with TStr y => str_eqb y plain | _ => false end.
(* 8: the query carries the identifier (its benign form has the literal plain) but some union branch is not
   constrained by a predicate on it *)
Definition chk_q (v q b : str) : nat :=
  match skeleton q with
  | None => 1%nat
  | Some tq => match skeleton b with
               | None => 6%nat
               | Some tb => match cmp_toks v tq tb with
                            | O => if existsb is_plain_tok tb && negb (covered v tq) then 8%nat else 0%nat
                            | k => k
                            end
               end
  end.
Fixpoint chk_qs (v : str) (qs bs : list str) (raised : bool) : nat :=
  match qs, bs with
  | [], [] => 0%nat
  | q :: qs', b :: bs' => match chk_q v q b with O => chk_qs v qs' bs' raised | k => k end
  | [], _ :: _ => if raised then 0%nat else 3%nat
  | _ :: _, [] => 3%nat
  end.
(* the model's text: the benign query with every literal "plain" / 'plain' replaced by quote v *)
Fixpoint subst (rep : str) (skip : nat) (s : str) : str :=
  match s with
  | [] => []
  | c :: r =>
    match skip with
    | S k => subst rep k r
    | O => match strip_prefix (dq_lit plain) s, strip_prefix (sq_lit plain) s with
           | None, None => c :: subst rep 0 r
           | _, _ => rep ++ subst rep 6 r
           end
    end
  end.
Fixpoint fid (v : str) (qs bs : list str) : bool :=
  match qs, bs with
  | q :: qs', b :: bs' => str_eqb q (subst (quote v) 0 b) && fid v qs' bs'
  | _, _ => true
  end.
Fixpoint ns_eqb (a b : list N) : bool :=
  match a, b with [], [] => true | x :: a', y :: b' => (x =? y) && ns_eqb a' b' | _, _ => false end.
(* case = (identifier, queries built, benign queries of the site, roles found, roles expected, raised) *)
Definition chk (c : str * list str * list str * list N * list N * bool) : nat :=
  let '(v, qs, bs, found, expected, raised) := c in
  match chk_qs v qs bs raised with
  | O => if existsb (fun r => negb (existsb (N.eqb r) expected)) found then 5%nat
         else if raised || negb (ns_eqb found expected) then 4%nat
         else if fid v qs bs then 0%nat else 9%nat
  | k => k
  end.
(* direct call of make_xpath_query(prefix, **{attribute: identifier}):  (prefix, attribute, identifier, query).
   Property level: the query lexes to  prefix[@attribute=  <the identifier as one string token>  ]  (white space
   between tokens is immaterial in XPath).  Exact text = prefix ++ pred attribute identifier, read back by
   parse_pred: fidelity only. *)
Definition chk_pred (c : str * str * str * str) : nat :=
  let '(pre, a, v, q) := c in
  match skeleton q with
  | None => 1%nat
  | Some [TOther x; TStr v'; TOther y] =>
      if negb (str_eqb x (nows (pre ++ [LBRA; AT] ++ a ++ [EQS])) && str_eqb y [RBRA]) then 3%nat
      else if negb (str_eqb v' v) then 2%nat
      else match strip_prefix pre q with
           | Some p => match parse_pred p with
                       | Some (a', v'') => if str_eqb a' a && str_eqb v'' v && str_eqb p (pred a v) then 0%nat else 9%nat
                       | None => 9%nat
                       end
           | None => 9%nat
           end
  | Some _ => 3%nat
  end.
(* Manifest.make_file_entry: (identifier, attribute value read by lxml, raw text between the quotes in the serialisation, raised) *)
Definition chk_xml (c : str * str * str * bool) : nat :=
  let '(v, got, raw, raised) := c in
  if raised then 4%nat
  else if negb (str_eqb got v) then 7%nat
  else match xml_unescape raw with
       | Some v' => if str_eqb v' v then 0%nat else 7%nat     (* the serializer may also use character references: no fidelity layer here *)
       | None => 7%nat
       end.
'''


def coq_case(res, site):
    found = "([" + ";".join(str(role_code(r)) for r in res["found"]) + "] : list N)"
    expect = expected_roles(site, res)
    expected = "([" + ";".join(str(ROLE_CODE[r]) for r in expect) + "] : list N)"
    return "(%s, ([%s] : list str), B%s%d, %s, %s, %s)" % (cs(res["ident"]), ";".join(cs(q) for q in res["queries"]),
                                           "A" if res.get("mode") == "absent" else "", site.index, found, expected, "true" if res["raised"] else "false")


def expected_roles(site, res):
    if res.get("mode") == "absent":
        return []
    return [r for r in site.expect if r in res.get("stored_roles", site.expect)]


def site_defs(sites):
    return "".join("Definition B%d : list str := [%s].\nDefinition BA%d : list str := [%s].\n"
                   % (s.index, ";".join(cs(q) for q in (s.benign or [])), s.index, ";".join(cs(q) for q in (s.benign_absent or []))) for s in sites)


# ------------------------------------------------------------------------------------------ direct sites

PRED_ATTRS = [("text_name", "text:name"), ("draw_name", "draw:name"), ("table_name", "table:name"), ("style_name", "style:name"),
              ("change_id", "text:change-id"), ("office_title", "office:title")]


def pred_case(o, ident, k):
    """make_xpath_query called directly; also evaluates the literal with libxml2 (validation of the reader)"""
    from odfdo.utils import make_xpath_query
    kw, attr = PRED_ATTRS[k % len(PRED_ATTRS)]
    pre = "descendant::x:y"
    rec = dict(kind="pred", site="make_xpath_query", ident=ident, attr=attr, raised=None, query=None, lxml_value=None)
    try:
        q = limited(make_xpath_query, pre, **{kw: ident})
        rec["query"] = q
    except Exception as e:
        rec["raised"] = repr(e); rec["query"] = ""
        return rec, "(%s, %s, %s, %s)" % (cs(pre), cs(attr), cs(ident), cs(""))
    head = pre + "[@" + attr + "="
    if q.startswith(head) and q.endswith("]"):
        try:
            rec["lxml_value"] = etree.XPath(q[len(head):-1])(etree.Element("r"))
        except Exception as e:
            rec["lxml_value"] = None; rec["lxml_error"] = type(e).__name__
    return rec, "(%s, %s, %s, %s)" % (cs(pre), cs(attr), cs(ident), cs(q))


def xml_case(o, ident, as_media=False):
    """Manifest.make_file_entry(ident, media) / (path, ident): attribute read back by lxml and its serialised text"""
    rec = dict(kind="xml", site="Manifest.make_file_entry/" + ("media_type" if as_media else "full_path"), ident=ident, raised=None)
    attr = "media-type" if as_media else "full-path"
    try:
        e = limited(o.Manifest.make_file_entry, *(("p/x", ident) if as_media else (ident, "m/x")))
        n = node(e)
        got = n.get("{%s}%s" % (MANIFEST_NS, attr))
        ser = etree.tostring(n, encoding="utf-8").decode("utf-8")
        m = re.search(r'manifest:%s="([^"]*)"' % attr, ser)
        raw = m.group(1) if m else None
        if got is None or raw is None:
            raise ValueError("attribute not written: " + ser[:200])
        other = n.get("{%s}%s" % (MANIFEST_NS, "full-path" if as_media else "media-type"))
        if other != ("p/x" if as_media else "m/x") or len(n.attrib) != 2 or len(n):
            rec["raised"] = "the entry has other attributes or children than the two given: " + ser[:200]
        rec["got"], rec["raw"] = got, raw
    except Exception as e:
        rec["raised"] = "%s: %s" % (type(e).__name__, str(e)[:200])
    if rec["raised"]:
        return rec, "(%s, %s, %s, true)" % (cs(ident), cs(""), cs(""))
    return rec, "(%s, %s, %s, false)" % (cs(ident), cs(rec["got"]), cs(rec["raw"]))


# ------------------------------------------------------------------------------------------ main

TIMES = {}


def significant(s):
    return any(c in SIGNIFICANT for c in s)


def evaluate(o, sites, work):
    """work: list of dicts {kind: lookup|pred|xml, site, ident, decoy/variant...}.  Runs the implementation, then Coq.
    Returns list of (work item, result record, code) and Coq errors."""
    by_key = {s.key: s for s in sites}
    recs, lookup_cases, pred_cases, xml_cases = [], [], [], []
    t_impl = time.time()
    for w in work:
        if w["kind"] == "lookup":
            site = by_key[w["site"]]
            res = run_case(o, site, w["ident"], w.get("decoy"), mode=w.get("mode", "present"), kind=w.get("as_kind", 0), variant=w.get("variant", 0))
            res["kind"] = "lookup"
            recs.append((w, res))
            if not res["rejected"]:
                lookup_cases.append((len(recs) - 1, coq_case(res, site)))
        elif w["kind"] == "pred":
            rec, term = pred_case(o, w["ident"], w.get("k", 0))
            recs.append((w, rec)); pred_cases.append((len(recs) - 1, term))
        else:
            rec, term = xml_case(o, w["ident"], w.get("as_media", False))
            recs.append((w, rec)); xml_cases.append((len(recs) - 1, term))
    TIMES["impl"] = TIMES.get("impl", 0) + time.time() - t_impl
    t_coq = time.time()
    codes, errors = {}, []
    header = HEADER + site_defs(sites)
    for cases, checker, tag in ((lookup_cases, "chk", "c14"), (pred_cases, "chk_pred", "c14p"), (xml_cases, "chk_xml", "c14x")):
        if not cases:
            continue
        bad, errs = common.run_shards(header, [t for _, t in cases], checker, tag, shard=max(100, min(600, -(-len(cases) // 16))))      # one round of at most 16 coqc processes when possible
        errors += errs
        for j, code in bad.items():
            codes[cases[j][0]] = code
    TIMES["coq"] = TIMES.get("coq", 0) + time.time() - t_coq
    out = []
    by_key = {s.key: s for s in sites}
    for idx, (w, rec) in enumerate(recs):
        code = codes.get(idx, 0)
        if errors and code == 0 and rec.get("kind") == "lookup" and not rec.get("rejected"):
            # the Coq evaluation broke: direct Python oracle of the property on the implementation's answer
            exp = expected_roles(by_key[rec["site"]], rec)
            if any(r not in exp for r in rec["found"]):
                code = 5
            elif rec["raised"] or rec["found"] != exp:
                code = 4
        if rec.get("kind") == "pred" and rec.get("raised"):
            code = 4
        out.append((w, rec, code))
    return out, errors


def key_of(rec):
    extra = ""
    if rec.get("mode") == "absent":
        extra += "/identifier-not-stored"
    if rec.get("as_kind"):
        extra += "/stored-as-other-kind"
    return "%s%s/%s" % (rec["site"], extra, ident_class(rec["ident"]))


def shrink(o, sites, w, code, budget_rounds=8):
    """drop characters while the same site still fails with a property-level code"""
    cur = dict(w)
    for _ in range(budget_rounds):
        ident = cur["ident"]
        if len(ident) <= 1:
            break
        cands = []
        for j in range(len(ident)):
            c = ident[:j] + ident[j + 1:]
            if c and c not in [x["ident"] for x in cands]:
                d = dict(cur, ident=c)
                if cur["kind"] == "lookup":
                    d["decoy"] = decoy_of(c, cur.get("variant", 0))
                cands.append(d)
        cands = cands[:40]
        res, errs = evaluate(o, sites, cands)
        nxt = None
        for cw, rec, k in res:
            if k not in (0, 9) and not rec.get("rejected"):
                nxt = dict(cw, ident=rec["ident"]); break
        if nxt is None:
            break
        cur = nxt
    return cur


def run(tier, seed, replay=None):
    t0 = time.time(); rng = random.Random(seed)
    o = common.use_repo()
    import odfdo.reference, odfdo.tracked_changes  # noqa
    install_capture()
    proofs = common.build_proofs("C14")
    sites = build_sites(o)
    for k, s in enumerate(sites):
        s.index = k
    by_key = {s.key: s for s in sites}
    errors = []
    # benign run of every site: the queries it builds for "plain" (decoys "plaim"..., last object "other"); the
    # kinds of element its identifier query can return are read off those queries, then the benign runs are redone
    # with decoys of every kind; the same with the identifier not stored
    for s in sites:
        res = run_case(o, s, "plain", "plaim", third="other")
        s.kinds = derive_kinds(o, s, res.get("queries") or [])
        for kind in range(len(s.kinds), -1, -1):
            res = run_case(o, s, "plain", "plaim", third="other", kind=kind)
            exp = expected_roles(s, res)
            if res["rejected"] or res["raised"] or res["found"] != exp:
                errors.append("benign lookup fails at site %s (stored as kind %d of %r): %r" % (s.key, kind, s.kinds, res))
        s.benign = res.get("queries") or []
        if not s.needs_stored:
            ra = run_case(o, s, "plain", "plaim", third="other", mode="absent")
            if ra["rejected"] or ra["raised"] or ra["found"]:
                errors.append("benign lookup of an identifier that is not stored fails at site %s: %r" % (s.key, ra))
            s.benign_absent = ra.get("queries") or []
    corpus = []
    for f in sorted((common.ROOT / "corpus" / PROP).glob("*.json")):
        c = json.load(open(f))
        corpus.append(c["case"])
    work = []
    if replay:
        work = [json.load(open(replay))["case"]]
    else:
        work += [dict(c) for c in corpus if c.get("site") in by_key or c["kind"] != "lookup"]
        quick = tier == "quick"
        pool = gen_idents(rng, 60 if quick else 1500, 2 if quick else 12)
        # exhaustive small-alphabet sweep at the main sites
        small = []
        for n in range(1, (3 if quick else 4) + 1):
            for tup in itertools.product('a"\' ]', repeat=n):
                small.append("".join(tup))
        exhaustive_n = 0
        shorter = [i for i in pool[len(EDGE):] if len(i) < 40]
        for s in sites:
            if s.heavy:
                ids = EDGE[::3] + rng.sample(shorter, 6 if quick else 40)
            elif s.main:
                ids = EDGE + rng.sample(pool[len(EDGE):], 25 if quick else 350)
            else:
                ids = (EDGE[s.index % 3::3] + rng.sample(shorter, 8)) if quick else (EDGE + rng.sample(shorter, 200))
            if s.main and (not quick or s.key in ("get_table/name", "get_bookmark", "Manifest.get_media_type", "get_reference_mark/single",
                                                   "ReferenceMarkStart.referenced_text", "get_between/bookmarks")):
                ids = small + ids; exhaustive_n += len(small)
            for i in ids:
                v = rng.randrange(1000)
                work.append(dict(kind="lookup", site=s.key, ident=i, decoy=decoy_of(i, v), variant=v))
            # the identifier stored as each other kind of element the site's query can return
            for kk in range(1, len(s.kinds) + 1):
                for i in (ids[::2] if quick else ids):
                    v = rng.randrange(1000)
                    work.append(dict(kind="lookup", site=s.key, ident=i, decoy=decoy_of(i, v), variant=v, as_kind=kk))
            # the identifier not stored at all: the lookup must return nothing
            if not s.needs_stored:
                for i in ["absent"] + (ids[s.index % 5::5] if quick else ids[s.index % 3::3]):
                    v = rng.randrange(1000)
                    work.append(dict(kind="lookup", site=s.key, ident=i, decoy=decoy_of(i, v), variant=v, mode="absent"))
        for k, i in enumerate(small + pool):
            work.append(dict(kind="pred", ident=i, k=k))
        for k, i in enumerate(small[:160] + pool[:len(EDGE) + (60 if quick else 800)]):
            work.append(dict(kind="xml", ident=i, as_media=bool(k % 2)))
    results, errs = evaluate(o, sites, work)
    errors += errs
    # ---- decision
    hist_site, hist_code, rejected, fidelity, no_query, lexer_disagree = {}, {}, {}, 0, 0, []
    failing = []
    for w, rec, code in results:
        k = rec["site"]
        if rec.get("rejected"):
            rejected[k] = rejected.get(k, 0) + 1; continue
        hist_site[k] = hist_site.get(k, 0) + 1
        hist_code[code] = hist_code.get(code, 0) + 1
        if rec.get("kind") == "lookup" and not rec["queries"]:
            no_query += 1
        if rec.get("kind") == "pred" and not rec.get("raised"):
            # validation of the specification reader against libxml2 on the literal the implementation wrote
            coq_ok = code in (0, 9)
            lx_ok = rec.get("lxml_value") == rec["ident"]
            if coq_ok != lx_ok:
                lexer_disagree.append(dict(ident=rec["ident"], query=rec["query"], coq_code=code, lxml=rec.get("lxml_value"), err=rec.get("lxml_error")))
        if code == 9:
            fidelity += 1
        elif code == 6:
            errors.append("benign query of %s does not lex" % k)
        elif code:
            failing.append((w, rec, code))
    # the lookup layer on its own (whatever the query layer said): wrong object / nothing / exception
    lookup_layer = {"wrong object returned": 0, "stored object not returned or exception": 0}
    for w, rec, code in results:
        if rec.get("kind") == "lookup" and not rec.get("rejected"):
            exp = expected_roles(by_key[rec["site"]], rec)
            if any(r not in exp for r in rec["found"]):
                lookup_layer["wrong object returned"] += 1; rec["lookup_layer"] = "an object with another identifier was returned"
            elif rec["raised"] or rec["found"] != exp:
                lookup_layer["stored object not returned or exception"] += 1; rec["lookup_layer"] = "the stored object was not returned"
    for d in lexer_disagree[:3]:
        errors.append("specification reader and libxml2 disagree on %r" % (d,))
    known = {e["key"]: e for e in common.known_findings(PROP)}
    violations, known_seen, groups = [], [], {}
    for w, rec, code in failing:
        groups.setdefault(key_of(rec), []).append((w, rec, code))
    n_reported = 0
    prio = ["get_table/name", "make_xpath_query", "ReferenceMarkStart.referenced_text", "Manifest.get_media_type", "Manifest.make_file_entry/full_path"]
    main_keys = [x.key for x in sites if x.main]

    def rank(k):
        site = k.rsplit("/", 1)[0]
        return (k in known, prio.index(site) if site in prio else len(prio) + (0 if site in main_keys else 1), k)
    for key in sorted(groups, key=rank):
        w, rec, code = min(groups[key], key=lambda t: len(t[1]["ident"]))
        if key in known:
            known_seen.append("%s (%d cases; e.g. %r)" % (key, len(groups[key]), rec["ident"]))
            continue
        if n_reported >= 3 and not replay:
            continue
        if not replay and len(rec["ident"]) > 1:
            w2 = shrink(o, sites, dict(w, ident=rec["ident"]), code, budget_rounds=4 if n_reported else 8)
            r2, _ = evaluate(o, sites, [w2])
            if r2 and r2[0][2] not in (0, 9) and not r2[0][1].get("rejected") and key_of(r2[0][1]) == key:
                w, rec, code = r2[0]
        payload = dict(layer=LAYER.get(code, str(code)), code=code, known_finding_key=None, key=key,
                       case=dict(w, ident=rec["ident"]), identifier_codepoints=[ord(c) for c in rec["ident"]],
                       impl=dict(queries=rec.get("queries") or rec.get("query"), found=rec.get("found"), raised=rec.get("raised"),
                                 stored_roles=rec.get("stored_roles"), layout=rec.get("layout"), lookup_layer=rec.get("lookup_layer", "right object"),
                                 got=rec.get("got"), raw=rec.get("raw")),
                       benign_queries=by_key[rec["site"]].benign if rec["site"] in by_key else None,
                       other_failing_keys=len(groups), cases_failing_with_this_key=len(groups[key]))
        tag = re.sub(r"[^A-Za-z0-9]+", "_", key)[:60] + "-%d" % n_reported
        if replay and Path(replay).stem.startswith("%s-%s-" % (PROP, seed)):
            tag = Path(replay).stem[len("%s-%s-" % (PROP, seed)):]          # a replay rewrites its own file
        violations.append((common.write_replay(PROP, seed, tag, payload), False))
        n_reported += 1
    if replay and not failing and not errors:
        print("replay: no violation on this tree (code 0)")
    violations += common.proof_violation(PROP, seed, proofs, errors, bool(failing))
    done = [(w, rec, code) for w, rec, code in results if not rec.get("rejected")]
    distinct = len({common.digest((rec["site"], rec["ident"], rec.get("mode"), rec.get("as_kind"))) for w, rec, code in done if significant(rec["ident"])})
    modes = {}
    for w, rec, code in done:
        if rec.get("kind") == "lookup":
            m = "identifier not stored" if rec.get("mode") == "absent" else ("stored as another kind" if w.get("as_kind") else "stored")
            modes[m] = modes.get(m, 0) + 1
    samples = []
    for w, rec, code in done:
        if rec.get("kind") == "lookup" and '"' in rec["ident"] and "'" in rec["ident"] and len(samples) < 3:
            samples.append(dict(site=rec["site"], identifier=rec["ident"], decoy=rec.get("decoy"), queries=rec["queries"], found=rec["found"], code=code))
    if not samples:
        samples = [dict(site=rec["site"], identifier=rec["ident"], code=code) for w, rec, code in done[:3]]
    coverage = dict(
        trusted_base=["libxml2's XPath 1.0 tokenizer reads string literals as XPathLit.lex does (a quote opens a literal that ends at the next identical quote; no escapes); "
                      "validated on this run: the literal written by make_xpath_query for every generated identifier is evaluated by lxml and compared with the verdict of the Coq reader",
                      "libxml2's XPath engine (attribute equality, axes, union) and lxml's XML parser/serialiser",
                      "query capture: wrappers installed by the harness around odfdo.element.xpath_compile / XPath (every importing module) and Element.get_element/_get_element_idx/xpath/get_elements",
                      "modelled in XPathLit.v: utils/xpath_query.py xpath_string_literal and the predicate text of make_xpath_query (repaired code), the pinned pasting between double / single quotes, "
                      "XML attribute escaping of Manifest.make_file_entry"],
        evaluations=len(done), distinct_nontrivial=distinct,
        rule="identifiers = fixed edge list (%d shapes: only quotes, both kinds, quote first/last, many quotes, concat( inside, injection shapes, XML specials, non-ASCII) + random strings over "
             "%d significant symbols and letters/digits (length 1-12, a few 60-200) + words with quotes inserted, all from one random.Random(seed); all strings of length <= %d over {a,\",',space,]} "
             "at the main sites and through make_xpath_query; every (site, identifier) stores identifier + near-identical decoy + 'plain' and looks the identifier up. "
             "non-trivial = identifier contains an XPath/XML-significant character; distinct = distinct (site, identifier actually stored)" % (len(EDGE), len(set(RICH)), 3 if tier == "quick" else 4),
        samples=samples, sites=len(sites) + 3, cases_per_site=hist_site, codes={str(k): v for k, v in sorted(hist_code.items())},
        lookup_layer_failures=lookup_layer, lookup_modes=modes, kinds_per_site={x.key: x.kinds for x in sites if x.kinds}, rejected_by_setter=rejected, fidelity_divergences=fidelity, lookups_without_captured_query=no_query,
        reader_vs_libxml2_disagreements=len(lexer_disagree), corpus_cases=len(corpus), failing_keys=sorted(groups),
        implementation_wall_s=round(TIMES.get("impl", 0), 1), coq_evaluation_wall_s=round(TIMES.get("coq", 0), 1),
        exhaustive=False)
    if fidelity:
        print("NOTE: %d case(s) where the query text differs from the model's text but denotes the same string (fidelity)" % fidelity)
    evf = common.ROOT / "evidence" / ("%s.json" % PROP)
    keep = evf.read_text() if (replay and evf.exists()) else None      # a replay does not replace the evidence of the last full run
    try:
        return _finish(tier, seed, proofs, coverage, violations, known_seen, t0)
    finally:
        if keep is not None:
            evf.write_text(keep)


def _finish(tier, seed, proofs, coverage, violations, known_seen, t0):
    return common.finish(PROP, tier, seed, proofs, coverage, violations, known_seen, t0,
                         assumptions=["an identifier is in the property's domain when the constructor/setter accepts it and it is XML text (no control characters); "
                                      "when the setter normalises it (Table strips white space) the normalised name is the identifier",
                                      "the empty identifier is outside the domain (the lookups treat it as 'no filter')",
                                      "regular-expression arguments (content=, url=, title= of frames) are not identifiers"])


if __name__ == "__main__":
    common.main(run)
