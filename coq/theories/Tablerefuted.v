(* Tablerefuted.v — the faithful model of the PINNED (unrepaired) code violates the refinement statements:
   concrete witnesses, computed by the kernel.  Each witness replayed on the pinned implementation is a finding
   (F1, F2, F3, F4, F6); the pinned model reproduces the pinned implementation's XML exactly on 2997 of 3000
   single-step correspondence cases (notes/C01.md). *)
From Coq Require Import List ZArith Lia Bool Arith.
Import ListNotations.
Require Import Vault Row Table Grid Tableabs.
Open Scope Z_scope.

(* F1: Row [7, 2x2], set_cell(0, Cell(9, repeated=2)): the pinned overlap loop deletes the whole following run *)
Lemma vault_set_pinned_refuted_w : exists (v : rruns) (p : Z) (x : nat * cell),
  wf v /\ 0 <= p < Z.of_nat (width v) /\ (1 <= fst x)%nat /\
  exists v', set_item_pinned 0 p x v (cmap v) = Some v' /\
    expand v' <> firstn (Z.to_nat p) (expand v) ++ repeat (snd x) (fst x) ++ skipn (Z.to_nat p + fst x) (expand v).
Proof.
  exists [(1%nat, (7, 0)); (2%nat, (2, 0))], 0, (2%nat, (9, 0)).
  split; [repeat constructor|]. split; [cbn; lia|]. split; [cbn; lia|].
  eexists. split; [vm_compute; reflexivity|]. vm_compute. discriminate.
Qed.

(* F1, map half: Row [1, 2x3, 3], same call: the XML is right but the pinned map update erases one ENTRY per
   overlapped POSITION, so _rmap is no longer the map of the XML (live reads then address the wrong cells) *)
Lemma vault_set_map_pinned_refuted_w : exists (v : rruns) (p : Z) (x : nat * cell),
  wf v /\ 0 <= p < Z.of_nat (width v) /\ (1 <= fst x)%nat /\
  exists v' m', set_item_pinned 0 p x v (cmap v) = Some v' /\ set_map_pinned p (fst x) (cmap v) = Some m' /\ m' <> cmap v'.
Proof.
  exists [(1%nat, (1, 0)); (3%nat, (2, 0)); (1%nat, (3, 0))], 0, (2%nat, (9, 0)).
  split; [repeat constructor; cbn; lia|]. split; [cbn; lia|]. split; [cbn; lia|].
  eexists. eexists. split; [vm_compute; reflexivity|]. split; [vm_compute; reflexivity|]. vm_compute. discriminate.
Qed.

(* F6: in a table the pinned loop addresses rows by CHILD index (the column elements shift it):
   rows [empty; (_,5)] under one column element, set_row(0, Row(repeated=2)) leaves 3 rows instead of 2 *)
Lemma set_row_pinned_refuted_w : exists (t : tstate) (y : Z) (rep : nat) (r : rowx),
  WF t /\ 0 <= y /\ (1 <= rep)%nat /\ rwf r /\
  exists t', set_row_pinned y rep r t = Some t' /\ abs_t t' <> g_set_row y rep (grow_of r) (abs_t t).
Proof.
  exists {| cols := [(2%nat, 0)]; rows := [(1%nat, (0, [])); (1%nat, (0, [(1%nat, (0, 0)); (1%nat, (5, 0))]))] |}, 0, 2%nat, (0, []).
  split; [repeat split; repeat constructor; cbn; lia|]. split; [lia|]. split; [lia|]. split; [constructor|].
  eexists. split; [vm_compute; reflexivity|]. vm_compute. discriminate.
Qed.

(* F3: append_cell(1, c) on a 3-times repeated row writes all three rows *)
Lemma append_cell_pinned_refuted_w : exists (t : tstate) (y : Z) (c : nat * cell),
  WF t /\ 0 <= y /\ (1 <= fst c)%nat /\
  exists t', t_append_cell_pinned y c t = Some t' /\ abs_t t' <> g_append_cell y c (abs_t t).
Proof.
  exists {| cols := [(2%nat, 0)]; rows := [(3%nat, (0, [(1%nat, (5, 0))]))] |}, 1, (1%nat, (9, 0)).
  split; [repeat split; repeat constructor; cbn; lia|]. split; [lia|]. split; [cbn; lia|].
  eexists. split; [vm_compute; reflexivity|]. vm_compute. discriminate.
Qed.

(* F4: delete_cell((0,1)) on a 3-times repeated row deletes in every repetition *)
Lemma delete_cell_pinned_refuted_w : exists (t : tstate) (x y : Z),
  WF t /\ 0 <= x /\ 0 <= y /\
  exists t', t_delete_cell_pinned x y t = Some t' /\ abs_t t' <> g_delete_cell x y (abs_t t).
Proof.
  exists {| cols := [(2%nat, 0)]; rows := [(3%nat, (0, [(1%nat, (5, 0))]))] |}, 0, 1.
  split; [repeat split; repeat constructor; cbn; lia|]. split; [lia|]. split; [lia|].
  eexists. split; [vm_compute; reflexivity|]. vm_compute. discriminate.
Qed.

(* F2: delete_column(0) skips rows narrower than the NEW width: the row [8,8] under 5 columns keeps both cells *)
Lemma delete_column_pinned_refuted_w : exists (t : tstate) (x : Z),
  WF t /\ 0 <= x /\
  exists t', t_delete_column_pinned x t = Some t' /\ abs_t t' <> g_delete_column x (abs_t t).
Proof.
  exists {| cols := [(5%nat, 0)];
            rows := [(1%nat, (0, [(2%nat, (8, 0))])); (3%nat, (0, [(1%nat, (2, 0)); (1%nat, (4, 0)); (3%nat, (1, 0))]))] |}, 0.
  split; [repeat split; repeat constructor; cbn; lia|]. split; [lia|].
  eexists. split; [vm_compute; reflexivity|]. vm_compute. discriminate.
Qed.
