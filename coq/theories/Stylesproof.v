(* Lemmas about Styles.v (parametric in the tables) *)
From Coq Require Import List ZArith Bool Arith Lia.
Require Import Styles.
Import ListNotations.
Open Scope Z_scope.

(* ------------------------------------------------------------------ generic list / slot facts *)
Lemma get_set_same (st : store) s l : (s < length st)%nat -> get_slot (set_slot st s l) s = Some l.
Proof. unfold get_slot. revert s; induction st as [|x r IH]; intros [|s] H; cbn in *; try lia; auto. apply IH. lia. Qed.
Lemma get_set_other (st : store) s s' l : s <> s' -> get_slot (set_slot st s l) s' = get_slot st s'.
Proof.
  unfold get_slot. revert s s'; induction st as [|x r IH]; intros s s' H.
  - destruct s; reflexivity.
  - destruct s as [|s], s' as [|s']; cbn [set_slot nth]; try congruence; try reflexivity.
    apply IH. congruence.
Qed.
Lemma set_slot_length (st : store) s l : length (set_slot st s l) = length st.
Proof. revert s; induction st as [|x r IH]; intros [|s]; cbn; auto. Qed.
Lemma get_slot_some_lt (st : store) s l : get_slot st s = Some l -> (s < length st)%nat.
Proof.
  unfold get_slot. revert s; induction st as [|x r IH]; intros [|s] H; cbn in *; try discriminate; try lia.
  apply IH in H. lia.
Qed.

Lemma find_idx_some {A} (p : A -> bool) l i :
  find_idx p l = Some i -> exists x, nth_error l i = Some x /\ p x = true /\ forall j y, (j < i)%nat -> nth_error l j = Some y -> p y = false.
Proof.
  revert i; induction l as [|a r IH]; intros i H; cbn in H; [discriminate|].
  destruct (p a) eqn:E.
  - inversion H; subst. exists a. repeat split; auto. intros; lia.
  - destruct (find_idx p r) as [k|] eqn:F; [|discriminate]. cbn in H. inversion H; subst.
    destruct (IH k eq_refl) as (x & H1 & H2 & H3). exists x. repeat split; auto.
    intros [|j] y Hj Hy; cbn in Hy; [congruence|]. eapply H3; eauto. lia.
Qed.
Lemma find_idx_none {A} (p : A -> bool) l : find_idx p l = None -> forall x, In x l -> p x = false.
Proof.
  induction l as [|a r IH]; intros H x Hin; [destruct Hin|]. cbn in H. destruct (p a) eqn:E; [discriminate|].
  destruct (find_idx p r) eqn:F; [discriminate|]. destruct Hin as [->|Hin]; auto.
Qed.
Lemma find_idx_app_last {A} (p : A -> bool) l x :
  (forall y, In y l -> p y = false) -> p x = true -> find_idx p (l ++ [x]) = Some (length l).
Proof.
  induction l as [|a r IH]; intros H Hx; cbn; [now rewrite Hx|].
  rewrite (H a (or_introl eq_refl)). rewrite IH; auto. intros y Hy. apply H. now right.
Qed.
Lemma remove_nth_In {A} (l : list A) i x : In x (remove_nth l i) -> In x l.
Proof. revert i; induction l as [|a r IH]; intros [|i] H; cbn in *; auto. destruct H; auto. right. eapply IH; eauto. Qed.
Lemma remove_nth_length {A} (l : list A) i : (i < length l)%nat -> length (remove_nth l i) = (length l - 1)%nat.
Proof. revert i; induction l as [|a r IH]; intros [|i] H; cbn in *; try lia. rewrite IH by lia. lia. Qed.

Section Proofs.
Variable T : tables.

(* the containers searched by Document.get_style for a family *)
Definition lookup_slots (f : Z) : list nat := part_slots T false f ++ part_slots T true f.
(* does the lookup search the container where insert_style puts a style of family f in mode m ? *)
Definition covers (f : Z) (m : mode) : bool := existsb (Nat.eqb (required_slot T f m)) (lookup_slots f).

(* ------------------------------------------------------------------ uniqueness on lists *)
Lemma uniq_list_app_inv l1 l2 : uniq_list T (l1 ++ l2) = true -> uniq_list T l1 = true /\ uniq_list T l2 = true.
Proof.
  induction l1 as [|e r IH]; cbn [app uniq_list]; intros H; [split; auto|].
  apply andb_true_iff in H as [H1 H2]. destruct (IH H2) as [H3 H4]. split; auto.
  apply andb_true_iff. split; auto.
  apply orb_true_iff in H1 as [H1|H1]; apply orb_true_iff; [left; exact H1|right].
  apply negb_true_iff in H1. apply negb_true_iff. rewrite existsb_app in H1. apply orb_false_iff in H1. tauto.
Qed.
Lemma uniq_list_remove l i : uniq_list T l = true -> uniq_list T (remove_nth l i) = true.
Proof.
  revert i; induction l as [|e r IH]; intros [|i] H; cbn [remove_nth uniq_list] in *; auto.
  - apply andb_true_iff in H. tauto.
  - apply andb_true_iff in H as [H1 H2]. apply andb_true_iff. split; [|now apply IH].
    apply orb_true_iff in H1 as [H1|H1]; apply orb_true_iff; [left; exact H1|right].
    apply negb_true_iff in H1. apply negb_true_iff.
    destruct (existsb (same_key T e) (remove_nth r i)) eqn:E; [|reflexivity].
    apply existsb_exists in E as (x & Hx & Hk). apply remove_nth_In in Hx.
    assert (existsb (same_key T e) r = true) by (apply existsb_exists; eauto). congruence.
Qed.
Lemma same_key_sym a b : same_key T a b = same_key T b a.
Proof.
  unfold same_key. rewrite (Z.eqb_sym (etag a)). f_equal; [f_equal|].
  - destruct (entry_family T a), (entry_family T b); cbn; auto using Z.eqb_sym.
  - destruct (ename a) as [x|], (ename b) as [y|]; cbn; auto.
    destruct x, y; cbn; auto using Z.eqb_sym. now rewrite (Z.eqb_sym n), (Z.eqb_sym id).
Qed.
Lemma uniq_list_snoc l x :
  uniq_list T l = true -> (forall e, In e l -> keyed T e = true -> same_key T e x = false) -> uniq_list T (l ++ [x]) = true.
Proof.
  induction l as [|e r IH]; intros H Hx; cbn [app uniq_list].
  - cbn. now rewrite orb_true_r.
  - cbn [uniq_list] in H. apply andb_true_iff in H as [H1 H2]. apply andb_true_iff. split.
    + destruct (keyed T e) eqn:K; cbn [negb orb] in *; [|reflexivity].
      apply negb_true_iff in H1. apply negb_true_iff. rewrite existsb_app, H1. cbn. rewrite orb_false_r.
      apply Hx; [now left|exact K].
    + apply IH; auto. intros e' He'. apply Hx. now right.
Qed.


(* ------------------------------------------------------------------ booleans to propositions *)
Lemma sname_eqb_eq a b : sname_eqb a b = true <-> a = b.
Proof.
  destruct a, b; cbn; split; intros H; try discriminate; try (apply Z.eqb_eq in H; congruence);
    try (inversion H; subst; apply Z.eqb_refl).
  - apply andb_true_iff in H as [H1 H2]. apply Z.eqb_eq in H1, H2. congruence.
  - inversion H; subst. now rewrite !Z.eqb_refl.
Qed.
Lemma opt_sname_eq a b : opt_eqb sname_eqb a b = true <-> a = b.
Proof.
  destruct a, b; cbn; split; intros H; try discriminate; try reflexivity.
  - apply sname_eqb_eq in H. congruence.
  - inversion H; subst. now apply sname_eqb_eq.
Qed.
Lemma opt_Z_eq a b : opt_eqb Z.eqb a b = true <-> a = b.
Proof.
  destruct a, b; cbn; split; intros H; try discriminate; try reflexivity.
  - apply Z.eqb_eq in H. congruence.
  - inversion H; subst. apply Z.eqb_refl.
Qed.
Lemma same_key_spec a b :
  same_key T a b = true <-> etag a = etag b /\ entry_family T a = entry_family T b /\ ename a = ename b.
Proof.
  unfold same_key. rewrite !andb_true_iff, Z.eqb_eq, opt_Z_eq, opt_sname_eq. tauto.
Qed.
Lemma zassoc_in {A} k (l : list (Z * A)) v : zassoc k l = Some v -> In (k, v) l.
Proof.
  induction l as [|[k' v'] r IH]; cbn; [discriminate|]. destruct (k =? k') eqn:E.
  - intros H; inversion H; subst. apply Z.eqb_eq in E; subst. now left.
  - intros H. right. now apply IH.
Qed.
Lemma zmem_in k l : zmem k l = true <-> In k l.
Proof.
  unfold zmem. rewrite existsb_exists. split.
  - intros (x & Hx & E). apply Z.eqb_eq in E. now subst.
  - intros H. exists k. split; auto. apply Z.eqb_refl.
Qed.

(* ------------------------------------------------------------------ well-formedness *)
(* conditions on the tables read from the source (checked by vm_compute on the generated tables) *)
Definition wf_tables : bool :=
  forallb (fun p => negb (fst p =? t_default T) && negb (fst p =? t_style T)) (false_rev T)
  && forallb (fun f => opt_eqb Z.eqb (zassoc f (family_tag T)) (Some (t_style T))) (std T)
  && forallb (fun p => is_std T (fst p) || opt_eqb Z.eqb (zassoc (snd p) (false_rev T)) (Some (fst p))) (family_tag T)
  && negb (t_default T =? t_style T).
(* default styles carry no name *)
Definition wf_entry (e : entry) : bool :=
  negb ((etag e =? t_default T) && (match ename e with Some _ => true | None => false end)).
Definition wf_store (st : store) : bool :=
  forallb (fun c => match c with Some l => forallb wf_entry l | None => true end) st.
(* the style handed to insert_style: its tag is the tag of its family *)
Definition wf_style (s : entry) (f : Z) : Prop :=
  entry_family T s = Some f /\ zassoc f (family_tag T) = Some (etag s).

Lemma false_rev_not_style f : wf_tables = true -> zassoc (t_style T) (false_rev T) = Some f -> False.
Proof.
  unfold wf_tables. rewrite !andb_true_iff. intros (((H1 & _) & _) & _) H. apply zassoc_in in H.
  rewrite forallb_forall in H1. apply H1 in H. cbn in H. rewrite Z.eqb_refl in H. now rewrite andb_false_r in H.
Qed.
Lemma false_rev_not_default f : wf_tables = true -> zassoc (t_default T) (false_rev T) = Some f -> False.
Proof.
  unfold wf_tables. rewrite !andb_true_iff. intros (((H1 & _) & _) & _) H. apply zassoc_in in H.
  rewrite forallb_forall in H1. apply H1 in H. cbn in H. now rewrite Z.eqb_refl in H.
Qed.
Lemma std_tag f : wf_tables = true -> is_std T f = true -> zassoc f (family_tag T) = Some (t_style T).
Proof.
  unfold wf_tables. rewrite !andb_true_iff. intros (((_ & H2) & _) & _) H. apply zmem_in in H.
  rewrite forallb_forall in H2. apply H2 in H. now apply opt_Z_eq in H.
Qed.
Lemma nonstd_rev f tg : wf_tables = true -> is_std T f = false -> zassoc f (family_tag T) = Some tg ->
  zassoc tg (false_rev T) = Some f.
Proof.
  unfold wf_tables. rewrite !andb_true_iff. intros (((_ & _) & H3) & _) Hs H. apply zassoc_in in H.
  rewrite forallb_forall in H3. apply H3 in H. cbn in H. rewrite Hs in H. cbn in H. now apply opt_Z_eq in H.
Qed.

(* the lookup pattern of (f, n) selects exactly the entries with the key of the style being inserted *)
Lemma match_named_same_key s f n e :
  wf_tables = true -> wf_style s f -> ename s = Some n -> wf_entry e = true ->
  match_named T f (etag s) n e = same_key T e s.
Proof.
  intros WT [Hf Ht] Hn We.
  destruct (same_key T e s) eqn:K.
  - apply same_key_spec in K as (K1 & K2 & K3). unfold match_named. rewrite K1, Z.eqb_refl. cbn [orb andb].
    rewrite K3, Hn. replace (opt_eqb sname_eqb (Some n) (Some n)) with true by (symmetry; now apply opt_sname_eq).
    rewrite andb_true_r. unfold fam_ok. destruct (is_std T f) eqn:S; [|reflexivity].
    apply opt_Z_eq. pose proof (std_tag f WT S) as Hs. rewrite Ht in Hs. inversion Hs as [Hs'].
    rewrite Hf in K2. unfold entry_family in K2. rewrite K1, Hs' in K2.
    destruct (zassoc (t_style T) (false_rev T)) eqn:Z; [exfalso; eapply false_rev_not_style; eauto|exact K2].
  - destruct (match_named T f (etag s) n e) eqn:M; [|reflexivity]. exfalso.
    unfold match_named in M. rewrite !andb_true_iff in M. destruct M as ((M1 & M2) & M3).
    apply opt_sname_eq in M3.
    assert (K' : same_key T e s = true); [|congruence].
    apply same_key_spec. apply orb_true_iff in M1 as [M1|M1].
    + apply Z.eqb_eq in M1. repeat split; [exact M1| |congruence].
      rewrite Hf. unfold entry_family. rewrite M1.
      destruct (is_std T f) eqn:S.
      * pose proof (std_tag f WT S) as Hs. rewrite Ht in Hs. inversion Hs as [Hs']. rewrite Hs'.
        destruct (zassoc (t_style T) (false_rev T)) eqn:Z; [exfalso; eapply false_rev_not_style; eauto|].
        unfold fam_ok in M2. rewrite S in M2. now apply opt_Z_eq in M2.
      * now rewrite (nonstd_rev f (etag s) WT S Ht).
    + apply andb_true_iff in M1 as [_ M1]. unfold wf_entry in We. rewrite M1, M3 in We. discriminate.
Qed.


(* ------------------------------------------------------------------ uniqueness: positions *)
Lemma keyed_same_key a b : keyed T a = true -> same_key T a b = true -> keyed T b = true.
Proof.
  intros K S. apply same_key_spec in S as (S1 & _ & S3). unfold keyed in *. now rewrite <- S1, <- S3.
Qed.
Lemma uniq_list_nth l : uniq_list T l = true ->
  forall i j a b, (i < j)%nat -> nth_error l i = Some a -> nth_error l j = Some b -> keyed T a = true -> same_key T a b = false.
Proof.
  induction l as [|e r IH]; intros H i j a b Hij Ha Hb K; [destruct i; discriminate|].
  cbn [uniq_list] in H. apply andb_true_iff in H as [H1 H2].
  destruct i as [|i], j as [|j]; try lia; cbn [nth_error] in Ha, Hb.
  - inversion Ha; subst. rewrite K in H1. cbn in H1. apply negb_true_iff in H1.
    destruct (same_key T a b) eqn:S; [|reflexivity].
    assert (existsb (same_key T a) r = true) by (apply existsb_exists; exists b; split; [eapply nth_error_In; eauto|exact S]).
    congruence.
  - eapply (IH H2 i j); eauto. lia.
Qed.
Lemma uniq_list_distinct l i j a b : uniq_list T l = true -> i <> j ->
  nth_error l i = Some a -> nth_error l j = Some b -> keyed T a = true -> same_key T a b = false.
Proof.
  intros U Hij Ha Hb K. destruct (Nat.lt_ge_cases i j) as [L|L].
  - eapply uniq_list_nth; eauto.
  - destruct (same_key T a b) eqn:S; [|reflexivity].
    assert (Kb : keyed T b = true) by (eapply keyed_same_key; eauto).
    assert (Hji : (j < i)%nat) by lia.
    pose proof (uniq_list_nth l U j i b a Hji Hb Ha Kb) as F. rewrite same_key_sym in F. congruence.
Qed.
Lemma In_remove_nth {A} (l : list A) i e : In e (remove_nth l i) -> exists j, j <> i /\ nth_error l j = Some e.
Proof.
  revert i; induction l as [|a r IH]; intros [|i] H; cbn [remove_nth] in H; try destruct H.
  - apply In_nth_error in H as [j Hj]. exists (S j). split; [lia|exact Hj].
  - subst. exists 0%nat. split; [lia|reflexivity].
  - apply IH in H as (j & Hj & E). exists (S j). split; [lia|exact E].
Qed.

Lemma uniq_set_slot st c l : uniq T st = true -> uniq_list T l = true -> uniq T (set_slot st c l) = true.
Proof.
  unfold uniq. revert c; induction st as [|x r IH]; intros [|c] H Hl; cbn [set_slot forallb] in *; auto.
  - apply andb_true_iff in H as [_ H]. now rewrite Hl, H.
  - apply andb_true_iff in H as [H1 H]. rewrite H1. now apply IH.
Qed.
Lemma uniq_get_slot st c l : uniq T st = true -> get_slot st c = Some l -> uniq_list T l = true.
Proof.
  unfold uniq, get_slot. revert c; induction st as [|x r IH]; intros [|c] H G; cbn in *; try discriminate.
  - subst. now apply andb_true_iff in H as [H _].
  - apply andb_true_iff in H as [_ H]. eapply IH; eauto.
Qed.
Lemma wf_set_slot st c l : wf_store st = true -> forallb wf_entry l = true -> wf_store (set_slot st c l) = true.
Proof.
  unfold wf_store. revert c; induction st as [|x r IH]; intros [|c] H Hl; cbn [set_slot forallb] in *; auto.
  - apply andb_true_iff in H as [_ H]. now rewrite Hl, H.
  - apply andb_true_iff in H as [H1 H]. rewrite H1. now apply IH.
Qed.
Lemma wf_get_slot st c l : wf_store st = true -> get_slot st c = Some l -> forallb wf_entry l = true.
Proof.
  unfold wf_store, get_slot. revert c; induction st as [|x r IH]; intros [|c] H G; cbn in *; try discriminate.
  - subst. now apply andb_true_iff in H as [H _].
  - apply andb_true_iff in H as [_ H]. eapply IH; eauto.
Qed.

(* ------------------------------------------------------------------ the lookup over a list of containers *)
Lemma slots_get_style_named st slots f tg n : zassoc f (family_tag T) = Some tg ->
  match slots_get_style T st slots f (Some n) with
  | Err => False
  | Ok None => forall s l, In s slots -> get_slot st s = Some l -> find_idx (match_named T f tg n) l = None
  | Ok (Some (sl, i)) => In sl slots /\ exists l, get_slot st sl = Some l /\ find_idx (match_named T f tg n) l = Some i
  end.
Proof.
  intros Ht. induction slots as [|s r IH]; cbn [slots_get_style]; [intros ? ? []|].
  destruct (get_slot st s) as [l|] eqn:G.
  - unfold elem_get_style. rewrite Ht. destruct (find_idx (match_named T f tg n) l) as [i|] eqn:F.
    + split; [now left|]. exists l. split; auto.
    + destruct (slots_get_style T st r f (Some n)) as [[[sl i]|]|]; auto.
      * destruct IH as [H1 H2]. split; [now right|exact H2].
      * intros s' l' [<-|Hin] G'; [congruence|eauto].
  - destruct (slots_get_style T st r f (Some n)) as [[[sl i]|]|]; auto.
    + destruct IH as [H1 H2]. split; [now right|exact H2].
    + intros s' l' [<-|Hin] G'; [congruence|eauto].
Qed.

(* ------------------------------------------------------------------ delete-existing-then-append keeps the invariant *)
(* the common shape of every named insertion path: the existing style is looked up in [slots] (which contain the
   destination container c) under the key of the style s being inserted *)
Theorem replace_append_named st slots c f n s ex st' :
  wf_tables = true -> wf_style s f -> ename s = Some n -> wf_entry s = true ->
  uniq T st = true -> wf_store st = true -> In c slots ->
  slots_get_style T st slots f (Some n) = Ok ex ->
  delete_then_append st c ex s = Done st' ->
  exists l', get_slot st' c = Some (l' ++ [s])
    /\ (forall k, k <> c -> get_slot st' k = get_slot st k)
    /\ (exists l, get_slot st c = Some l /\ (l' = l \/ exists i, l' = remove_nth l i))
    /\ uniq T st' = true /\ wf_store st' = true
    /\ elem_get_style T (l' ++ [s]) f (Some n) = Ok (Some (length l')).
Proof.
  intros WT WS Hn We U WF Hc HL HD.
  pose proof (slots_get_style_named st slots f (etag s) n (proj2 WS)) as SP. rewrite HL in SP.
  unfold delete_then_append in HD. destruct (get_slot st c) as [l|] eqn:G; [|discriminate].
  pose proof (uniq_get_slot _ _ _ U G) as Ul. pose proof (wf_get_slot _ _ _ WF G) as Wl.
  pose proof (get_slot_some_lt _ _ _ G) as Lt.
  assert (KEY : forall l', (forall e, In e l' -> In e l) ->
                (forall e, In e l' -> match_named T f (etag s) n e = false) -> uniq_list T l' = true ->
                st' = set_slot st c (l' ++ [s]) ->
                get_slot st' c = Some (l' ++ [s]) /\ (forall k, k <> c -> get_slot st' k = get_slot st k)
                /\ uniq T st' = true /\ wf_store st' = true
                /\ elem_get_style T (l' ++ [s]) f (Some n) = Ok (Some (length l'))).
  { intros l' Sub NM Ul' ->. rewrite forallb_forall in Wl.
    assert (Ms : match_named T f (etag s) n s = true).
    { rewrite (match_named_same_key s f n s WT WS Hn We). apply same_key_spec. auto. }
    repeat split.
    - now apply get_set_same.
    - intros k Hk. apply get_set_other. congruence.
    - apply uniq_set_slot; auto. apply uniq_list_snoc; auto. intros e He _.
      rewrite <- (match_named_same_key s f n e WT WS Hn (Wl e (Sub e He))). now apply NM.
    - apply wf_set_slot; auto. rewrite forallb_app. cbn. rewrite We, andb_true_r.
      apply forallb_forall. intros e He. apply Wl. now apply Sub.
    - unfold elem_get_style. rewrite (proj2 WS). f_equal. f_equal. apply find_idx_app_last; auto. }
  destruct ex as [[sl i]|].
  - destruct (Nat.eqb sl c) eqn:E; [|discriminate]. apply Nat.eqb_eq in E; subst sl. inversion HD; subst st'; clear HD.
    destruct SP as [_ (l0 & G0 & F)]. rewrite G in G0. inversion G0; subst l0.
    apply find_idx_some in F as (x & Hx & Mx & _).
    exists (remove_nth l i).
    destruct (KEY (remove_nth l i)) as (K1 & K2 & K3 & K4 & K5); auto.
    + intros e. apply remove_nth_In.
    + intros e He. apply In_remove_nth in He as (j & Hj & Ej).
      destruct (match_named T f (etag s) n e) eqn:M; [|reflexivity]. exfalso.
      rewrite forallb_forall in Wl.
      assert (Se : same_key T e s = true) by (rewrite <- (match_named_same_key s f n e WT WS Hn); auto; apply Wl; eapply nth_error_In; eauto).
      assert (Sx : same_key T x s = true) by (rewrite <- (match_named_same_key s f n x WT WS Hn); auto; apply Wl; eapply nth_error_In; eauto).
      assert (Kx : keyed T x = true).
      { apply same_key_spec in Sx as (_ & _ & S3). unfold keyed. rewrite S3, Hn. apply orb_true_r. }
      assert (Sxe : same_key T x e = true).
      { apply same_key_spec in Se as (A1 & A2 & A3), Sx as (B1 & B2 & B3). apply same_key_spec. repeat split; congruence. }
      pose proof (uniq_list_distinct l i j x e Ul (fun H => Hj (eq_sym H)) Hx Ej Kx). congruence.
    + now apply uniq_list_remove.
    + repeat split; auto. exists l. split; auto. right. now exists i.
  - inversion HD; subst st'; clear HD. exists l.
    destruct (KEY l) as (K1 & K2 & K3 & K4 & K5); auto.
    + intros e He. eapply find_idx_none; [|exact He]. eapply SP; eauto.
    + repeat split; auto. exists l. split; auto.
Qed.


(* ------------------------------------------------------------------ insert_style, named paths (repaired code) *)
Definition final_style (s0 : entry) (name_arg : option sname) : entry :=
  match name_arg with Some n => with_name s0 (Some n) | None => s0 end.
Definition mode_of_flags (automatic default : bool) : mode :=
  if default then MDefault else if automatic then MAutomatic else MCommon.
Definition special (f : Z) : bool := (f =? f_master T) || (f =? f_font T) || (f =? f_page_layout T).
(* the destination container is among the containers in which its own part looks the family up *)
Definition covers_part (f : Z) (m : mode) : bool :=
  existsb (Nat.eqb (required_slot T f m)) (part_slots T (slot_in_styles_part (required_slot T f m)) f).

Lemma covers_part_In f m : covers_part f m = true ->
  In (required_slot T f m) (part_slots T (slot_in_styles_part (required_slot T f m)) f).
Proof.
  unfold covers_part. rewrite existsb_exists. intros (x & Hx & E). apply Nat.eqb_eq in E. now subst.
Qed.

Theorem insert_named_ok st s0 name_arg automatic default f n st' ret :
  let s := final_style s0 name_arg in
  let m := mode_of_flags automatic default in
  wf_tables = true -> wf_style s f -> ename s = Some n -> wf_entry s = true ->
  uniq T st = true -> wf_store st = true ->
  covers_part f m = true ->
  (special f = true \/ default = false) ->
  insert_style T false st s0 name_arg automatic default = Done (st', ret) ->
  ret = Some n /\
  exists l', get_slot st' (required_slot T f m) = Some (l' ++ [s])
    /\ (forall k, k <> required_slot T f m -> get_slot st' k = get_slot st k)
    /\ (exists l, get_slot st (required_slot T f m) = Some l /\ (l' = l \/ exists i, l' = remove_nth l i))
    /\ uniq T st' = true /\ wf_store st' = true
    /\ elem_get_style T (l' ++ [s]) f (Some n) = Ok (Some (length l')).
Proof.
  intros s m WT WS Hn We U WF CP SD H.
  assert (Hname : match name_arg with Some n0 => Some n0 | None => ename s end = Some n).
  { subst s. destruct name_arg; cbn in *; auto. }
  unfold insert_style in H. cbn [negb] in H.
  change (match name_arg with Some n0 => with_name s0 (Some n0) | None => s0 end) with s in H.
  rewrite (proj1 WS), Hname in H.
  pose proof (covers_part_In f m CP) as CI.
  assert (GEN : forall p c, c = required_slot T f m -> p = slot_in_styles_part c ->
                match part_get_style T st p f (Some n) with
                | Err => Crashed
                | Ok e => match delete_then_append st c e s with
                          | Done st'0 => Done (st'0, ename s) | Rejected => Rejected | Crashed => Crashed end
                end = Done (st', ret) ->
                ret = Some n /\
                exists l', get_slot st' (required_slot T f m) = Some (l' ++ [s])
                  /\ (forall k, k <> required_slot T f m -> get_slot st' k = get_slot st k)
                  /\ (exists l, get_slot st (required_slot T f m) = Some l /\ (l' = l \/ exists i, l' = remove_nth l i))
                  /\ uniq T st' = true /\ wf_store st' = true
                  /\ elem_get_style T (l' ++ [s]) f (Some n) = Ok (Some (length l'))).
  { intros p c -> -> G. unfold part_get_style in G.
    destruct (slots_get_style T st _ f (Some n)) as [ex|] eqn:L; [|discriminate].
    destruct (delete_then_append st _ ex s) as [st2| |] eqn:D; try discriminate.
    inversion G; subst st2 ret; clear G. split; [exact Hn|].
    eapply replace_append_named; eauto. }
  unfold m, mode_of_flags, required_slot in *.
  destruct (f =? f_master T) eqn:E1.
  { apply (GEN true (slot_of true 2)); auto. }
  destruct (f =? f_font T) eqn:E2.
  { destruct default.
    - apply (GEN true (slot_of true 3)); auto.
    - destruct automatic; apply (GEN false (slot_of false 3)); auto. }
  destruct (f =? f_page_layout T) eqn:E3.
  { apply (GEN true (slot_of true 1)); auto. }
  destruct SD as [SD|SD]; [unfold special in SD; rewrite E1, E2, E3 in SD; discriminate|]. subst default.
  rewrite (proj2 WS) in H.
  destruct automatic.
  - (* automatic, named: style.name = name is the name it already carries *)
    replace (with_name s (Some n)) with s in H by (destruct s; cbn in *; now subst).
    apply (GEN false (slot_of false 1)); auto.
  - apply (GEN true (slot_of true 0)); auto.
Qed.


(* ------------------------------------------------------------------ found again *)
Definition no_match_in (st : store) (slots : list nat) (f tg : Z) (n : sname) : Prop :=
  forall s l, In s slots -> get_slot st s = Some l -> find_idx (match_named T f tg n) l = None.

Lemma slots_get_style_app st a b f n :
  slots_get_style T st (a ++ b) f n =
  match slots_get_style T st a f n with
  | Err => Err
  | Ok (Some x) => Ok (Some x)
  | Ok None => slots_get_style T st b f n
  end.
Proof.
  induction a as [|s r IH]; cbn [app slots_get_style]; [reflexivity|].
  destruct (get_slot st s); [|exact IH]. destruct (elem_get_style T l f n) as [[i|]|]; auto.
Qed.
Lemma doc_get_style_slots st f n : doc_get_style T st f n = slots_get_style T st (lookup_slots f) f n.
Proof. unfold doc_get_style, part_get_style, lookup_slots. now rewrite slots_get_style_app. Qed.

Lemma slots_get_style_skip st before c after f tg n l i :
  zassoc f (family_tag T) = Some tg -> no_match_in st before f tg n ->
  get_slot st c = Some l -> find_idx (match_named T f tg n) l = Some i ->
  slots_get_style T st (before ++ c :: after) f (Some n) = Ok (Some (c, i)).
Proof.
  intros Ht NM G F. induction before as [|s r IH]; cbn [app slots_get_style].
  - rewrite G. unfold elem_get_style. now rewrite Ht, F.
  - destruct (get_slot st s) as [l0|] eqn:G0.
    + unfold elem_get_style. rewrite Ht, (NM s l0 (or_introl eq_refl) G0). apply IH.
      intros s' l' Hin. apply NM. now right.
    + apply IH. intros s' l' Hin. apply NM. now right.
Qed.

(* Document.get_style finds exactly the inserted style under the returned name, provided no container searched
   before the destination holds a style with that key (see the finding "shadowed") *)
Theorem found_again st' f n s c l' before after :
  wf_style s f ->
  lookup_slots f = before ++ c :: after -> no_match_in st' before f (etag s) n ->
  get_slot st' c = Some (l' ++ [s]) ->
  elem_get_style T (l' ++ [s]) f (Some n) = Ok (Some (length l')) ->
  doc_get_style T st' f (Some n) = Ok (Some (c, length l')) /\ entry_at st' (c, length l') = Some s.
Proof.
  intros WS LS NM G E. split.
  - rewrite doc_get_style_slots, LS. unfold elem_get_style in E. rewrite (proj2 WS) in E.
    eapply slots_get_style_skip; eauto. exact (proj2 WS). now inversion E.
  - unfold entry_at. cbn [fst snd]. rewrite G. rewrite nth_error_app2 by lia. now rewrite Nat.sub_diag.
Qed.


(* ------------------------------------------------------------------ generated automatic names are fresh *)
Lemma max_auto_ge l : forall acc m, max_auto false l acc = Ok m ->
  acc <= m /\ forall e n, In e l -> (ename e = Some (NAuto n) \/ exists id, ename e = Some (NAutoX n id)) -> n <= m.
Proof.
  induction l as [|e r IH]; intros acc m H; cbn [max_auto] in H.
  - inversion H; subst. split; [lia|]. intros ? ? [].
  - destruct (ename e) as [[k|k id|k|id]|] eqn:E;
      apply IH in H as [H1 H2]; (split; [lia|]); intros e' n [<-|Hin] Hn; eauto;
      destruct Hn as [Hn|[id' Hn]]; rewrite E in Hn; try discriminate; inversion Hn; subst; lia.
Qed.

Theorem fresh_auto_name st f nm :
  set_automatic_name T false st f = Ok nm ->
  exists tg k, zassoc f (family_tag T) = Some tg /\ nm = NAuto k /\
    forall e, In e (family_entries T st (auto_scope T false f) f tg) -> ename e <> Some nm.
Proof.
  unfold set_automatic_name. destruct (zassoc f (family_tag T)) as [tg|]; [|discriminate].
  destruct (max_auto false _ 0) as [m|] eqn:M; [|discriminate]. intros H; inversion H; subst.
  exists tg, (m + 1). repeat split; auto. intros e He E.
  apply max_auto_ge in M as [_ M]. specialize (M e (m + 1) He (or_introl E)). lia.
Qed.

(* ------------------------------------------------------------------ delete_styles keeps the invariant *)
Lemma uniq_list_filter p l : uniq_list T l = true -> uniq_list T (filter p l) = true.
Proof.
  induction l as [|e r IH]; intros H; [reflexivity|]. cbn [uniq_list] in H. apply andb_true_iff in H as [H1 H2].
  cbn [filter]. destruct (p e); [|auto]. cbn [uniq_list]. rewrite IH by auto. rewrite andb_true_r.
  destruct (keyed T e); cbn [negb orb] in *; [|reflexivity].
  apply negb_true_iff in H1. apply negb_true_iff.
  destruct (existsb (same_key T e) (filter p r)) eqn:X; [|reflexivity].
  apply existsb_exists in X as (x & Hx & Sx). apply filter_In in Hx as [Hx _].
  assert (existsb (same_key T e) r = true) by (apply existsb_exists; eauto). congruence.
Qed.
Lemma forallb_filter {A} (q p : A -> bool) l : forallb q l = true -> forallb q (filter p l) = true.
Proof.
  intros H. apply forallb_forall. intros x Hx. apply filter_In in Hx as [Hx _]. rewrite forallb_forall in H. auto.
Qed.

Theorem delete_styles_inv st : uniq T st = true -> wf_store st = true ->
  uniq T (fst (delete_styles T st)) = true /\ wf_store (fst (delete_styles T st)) = true.
Proof.
  unfold delete_styles. generalize (all_slots) as sl. generalize 0 as cnt.
  intros cnt sl. revert st cnt. induction sl as [|s r IH]; intros st cnt U W; cbn [fold_left fst]; [auto|].
  destruct (get_slot st s) as [l|] eqn:G; cbn [fst snd].
  - apply IH.
    + apply uniq_set_slot; auto. apply uniq_list_filter. eapply uniq_get_slot; eauto.
    + apply wf_set_slot; auto. apply forallb_filter. eapply wf_get_slot; eauto.
  - apply IH; auto.
Qed.

(* ------------------------------------------------------------------ merge_styles_from *)
Theorem merge_other_unchanged self other self' other' :
  merge_styles_from T false self other = Done (self', other') -> other' = other.
Proof.
  unfold merge_styles_from. destruct (merge_list T false self (all_styles T other)); try discriminate.
  intros H; now inversion H.
Qed.

(* each style of the other document ends up as the last child of the same container of this document *)
Theorem merge_one_lands pinned st sl e st' :
  merge_one T pinned st sl e = Done st' -> exists l', get_slot st' sl = Some (l' ++ [e]).
Proof.
  unfold merge_one. destruct (get_slot st sl) eqn:G; [|discriminate].
  match goal with |- context [if pinned then ?a else ?b] => destruct (if pinned then a else b) as [d|] end; [|discriminate].
  destruct (get_slot (match d with Some loc => remove_at st loc | None => st end) sl) as [l1|] eqn:G1; [|discriminate].
  intros H; inversion H; subst. exists l1. apply get_set_same. eapply get_slot_some_lt; eauto.
Qed.


(* ------------------------------------------------------------------ insert_style, automatic style without a name *)
Lemma match_named_family f tg n e : match_named T f tg n e = true -> match_family T f tg e = true /\ ename e = Some n.
Proof.
  unfold match_named, match_family. rewrite !andb_true_iff. intros ((A & B) & C). apply opt_sname_eq in C. auto.
Qed.
Lemma family_entries_In st slots f tg c l e :
  In c slots -> get_slot st c = Some l -> In e l -> match_family T f tg e = true -> In e (family_entries T st slots f tg).
Proof.
  intros Hc G He M. unfold family_entries. apply in_flat_map. exists c. split; auto. rewrite G. apply filter_In. auto.
Qed.

Theorem insert_auto_unnamed_ok st s0 f st' ret :
  wf_tables = true -> uniq T st = true -> wf_store st = true ->
  entry_family T s0 = Some f -> zassoc f (family_tag T) = Some (etag s0) -> ename s0 = None ->
  negb (etag s0 =? t_default T) = true -> special f = false ->
  In (slot_of false 1) (part_slots T false f) ->
  insert_style T false st s0 None true false = Done (st', ret) ->
  exists k, ret = Some (NAuto k) /\
    let s := with_name s0 ret in
    (* fresh among the styles of the family in every container searched for it *)
    (forall e, In e (family_entries T st (auto_scope T false f) f (etag s0)) -> ename e <> ret) /\
    exists l', get_slot st' (slot_of false 1) = Some (l' ++ [s])
      /\ (forall c, c <> slot_of false 1 -> get_slot st' c = get_slot st c)
      /\ uniq T st' = true /\ wf_store st' = true
      /\ elem_get_style T (l' ++ [s]) f (Some (NAuto k)) = Ok (Some (length l')).
Proof.
  intros WT U WF Hf Ht Hn Hd Sp Hin H.
  unfold insert_style in H. cbn [negb] in H. rewrite Hf in H.
  unfold special in Sp. apply orb_false_iff in Sp as [Sp E3]. apply orb_false_iff in Sp as [E1 E2].
  rewrite E1, E2, E3, Ht, Hn in H.
  destruct (set_automatic_name T false st f) as [nm|] eqn:SA; [|discriminate].
  destruct (fresh_auto_name st f nm SA) as (tg & k & Ht' & -> & Fresh). rewrite Ht in Ht'. inversion Ht'; subst tg.
  destruct (delete_then_append st (slot_of false 1) None (with_name s0 (Some (NAuto k)))) as [st2| |] eqn:D; try discriminate.
  inversion H; subst st2 ret; clear H. cbn [ename with_name].
  exists k. split; [reflexivity|]. split; [exact Fresh|].
  set (s := with_name s0 (Some (NAuto k))).
  assert (WS : wf_style s f) by (split; [exact Hf|exact Ht]).
  assert (We : wf_entry s = true).
  { unfold wf_entry, s. cbn [etag with_name]. apply negb_true_iff in Hd. now rewrite Hd. }
  assert (L : slots_get_style T st [slot_of false 1] f (Some (NAuto k)) = Ok None).
  { cbn [slots_get_style]. destruct (get_slot st (slot_of false 1)) as [l|] eqn:G; [|reflexivity].
    unfold elem_get_style. rewrite Ht.
    destruct (find_idx (match_named T f (etag s0) (NAuto k)) l) as [i|] eqn:F; [|reflexivity]. exfalso.
    apply find_idx_some in F as (x & Hx & Mx & _). apply match_named_family in Mx as [Mf Mn].
    apply (Fresh x); [|exact Mn].
    eapply family_entries_In; eauto; [|eapply nth_error_In; eauto].
    unfold auto_scope. apply in_or_app. now left. }
  destruct (replace_append_named st [slot_of false 1] (slot_of false 1) f (NAuto k) s None st' WT WS eq_refl We U WF
              (or_introl eq_refl) L D) as (l' & G1 & G2 & _ & G4 & G5 & G6).
  exists l'. repeat split; auto.
Qed.

End Proofs.
