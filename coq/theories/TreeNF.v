(* TreeNF.v — definitions only: the normal-form predicate of C05 (WSnfproof.NFb) read on the containers of a tree,
   used by C16 (replace(formatted=True)) both in the theorems and on the implementation's post-states. *)
From Coq Require Import List Arith Bool.
Import ListNotations.
Require Import WS WSnfproof Tree.

Section Flags.
  Variable subn : str -> str * nat.
  (* preorder over the elements that are not text:s / tab / line-break:
     "this element is a p / h / span and one of its OWN text nodes (text, tails of its children) was changed" *)
  Fixpoint own_flags (n : node) : list bool :=
    match n with
    | Node k _ _ tx ks _ =>
        let own := snd (osubn subn tx) + list_sum (map (fun c => snd (osubn subn (tail_of c))) ks) in
        (if ws_kind k then [] else [container k && (0 <? own)]) ++ flat_map own_flags ks
    end.
End Flags.
(* same traversal: "the content of this element is in white-space normal form" *)
Fixpoint nf_flags (n : node) : list bool :=
  match n with
  | Node k _ _ tx ks _ => (if ws_kind k then [] else [NFb true (items_of tx ks)]) ++ flat_map nf_flags ks
  end.
Fixpoint implied (a b : list bool) : bool :=
  match a, b with
  | [], [] => true
  | x :: r, y :: q => implb x y && implied r q
  | _, _ => false
  end.

(* ---------------------------------------------------------------- the guard of C09_strip_keeps (finding F16) *)
(* [Element.__append] passes every concatenated string through [_add_text], i.e. [collapse]; the guard says that
   none of the strings handed to [_add_text] while [_strip_tags] rebuilds elements contains two adjacent spaces *)
Definition append_ok (st : option str * list node) (p : piece) : bool :=
  let '(tx, ks) := st in
  match p with
  | PN _ => true
  | PS s => match rev ks with [] => no_dsp (oget tx ++ s) | l :: _ => no_dsp (oget (tail_of l) ++ s) end
  end.
Fixpoint fold_ok (ps : list piece) (st : option str * list node) : bool :=
  match ps with [] => true | p :: r => append_ok st p && fold_ok r (append_piece collapse st p) end.
Fixpoint strip_ok (sp : kind -> bool -> bool) (pr : kind -> bool) (protected : bool) (n : node) : bool :=
  match n with
  | Node k a sel tx ks tl =>
      let res := map (strip_ collapse sp pr (pr k)) ks in
      forallb (strip_ok sp pr (pr k)) ks &&
      (if negb protected && sp k sel then true
       else if negb (existsb snd res) then true
       else no_dsp (oget tx) && fold_ok (flat_map fst res) (add_text collapse None (oget tx), []))
  end.

(* text:s elements are leaves without character data: the shape every parser / odfdo itself produces (append_plain_text
   replaces a text:s by its count of spaces and drops whatever it contains) *)
Fixpoint wsl (n : node) : bool :=
  match n with
  | Node k _ _ tx ks _ =>
      (if is_spacer k then is_nil ks && match tx with None => true | Some _ => false end else true)
      && forallb wsl ks
  end.


(* white-space elements carry no character data of their own (the tree-level reading of [in_domain]) *)
Fixpoint wsnt (n : node) : bool :=
  match n with
  | Node k _ _ tx ks _ => (if ws_kind k then match tx with None => true | Some _ => false end else true) && forallb wsnt ks
  end.
Definition spans_wf (spans : list (list (nat * nat))) : bool :=
  forallb (forallb (fun m : nat * nat => fst m <=? snd m)) spans.
