"""C15: reading, searching and exporting a document never changes it, and calling twice gives the same answer.

PARTIAL for this technique by design (DESIGN.md section 5/C15 and section 9):

  proved (coq/theories/C15.v): for the reads modelled in the libraries of this tree -- inner_text / ODF consumer /
  length on the paragraph model (WS.v) and the effect of the Markdown / RST table exporters on the live table
  (Readers.v) -- reads are pure and repeatable in any order; the pinned Markdown export is refuted (F20).
  The modelled reads are tied to the implementation on every run: paragraphs and tables of the documents are abstracted
  by an lxml walk before and after the implementation's reads and Coq evaluates purity / the model's answers on them.

  NOT proved -- TESTING, labelled `level_note` in the evidence: the several hundred other read-only entry points.
  Snapshot-diff harness: over the four templates, every sample (the three sheets declaring ~10^6 repeated rows are
  skipped) and generated documents, the read-only entry points of Document, Body, Meta, the XML parts, Table, Row, Cell
  and the element classes found in the document are enumerated by introspection (every property; every method whose
  name says it reads -- get_*, is_*, search*, match, to_*, as_*, show_*, serialize, traverse, __str__ ... -- that can be
  called without arguments) plus an explicit list of calls with arguments.  Snapshot = for every part of the package:
  C14N of the lxml tree held in memory (reached through the private fields, never through odfdo's serializer), or the
  bytes; compared after EVERY call; each call is made twice (same answer) and again in a shuffled order (same answer)."""
import sys, os, json, random, time, re, traceback, signal, zipfile, itertools, hashlib, io, inspect
from pathlib import Path
sys.path.insert(0, str(Path(__file__).resolve().parent))
import common
from lxml import etree
from c12 import c14n, priv, with_timeout, Alarm, norm

PROP = "C15"
BIG = {"styled_table.ods", "test_col_cell.ods", "test_col_cell_blue.ods"}     # ~10^6 declared rows: never expanded
QUICK_SKIP = {"big.ods"}
CALL_TIMEOUT = 8

# ------------------------------------------------------------------------------------------------ Coq side

HEADER = r'''Require Import WS Readers.
From Coq Require Import List Arith Bool. Import ListNotations.
Definition item_eqb (a b : item) : bool :=
  match a, b with
  | IStr x, IStr y => str_eqb x y | IS n, IS m => Nat.eqb n m | ITab, ITab | ILb, ILb => true
  | IElem i x, IElem j y => Nat.eqb i j && str_eqb x y | _, _ => false end.
Definition items_eqb (a b : list item) := Nat.eqb (length a) (length b) && forallb (fun p => item_eqb (fst p) (snd p)) (combine a b).
Inductive case :=
| Para (before after : list item) (txt1 txt2 : str)
| Tab (before after_md after_rst after_csv shrunk : ctable).
(* 1 a modelled read changed the abstracted state;  3 the second answer differs from the first;
   4 (fidelity, not an alarm) the implementation's answer / shrunk table differs from the model's *)
Definition chk (c : case) : nat :=
  match c with
  | Para b a t1 t2 =>
      if negb (items_eqb (fst (prun b [RInnerText; RInnerText; RLength])) a) then 1
      else if negb (str_eqb t1 t2) then 3
      else if str_eqb (readable b) t1 then 0 else 4
  | Tab b amd arst acsv shrunk =>
      if negb (ctable_eqb b amd && ctable_eqb b arst && ctable_eqb b acsv) then 1
      else if ctable_eqb (optimize_rows b) shrunk then 0 else 4
  end.'''

T_NS = "urn:oasis:names:tc:opendocument:xmlns:text:1.0"; T = "{%s}" % T_NS
TB = "{urn:oasis:names:tc:opendocument:xmlns:table:1.0}"
OFFICE = "{urn:oasis:names:tc:opendocument:xmlns:office:1.0}"


class Alphabet:
    """characters -> small numbers (WS.Ch n), per run"""
    def __init__(self):
        self.m = {}

    def tok(self, c):
        if c == " ": return "Sp"
        if c == "\t": return "Tb"
        if c == "\n": return "Nl"
        if c not in self.m:
            self.m[c] = len(self.m)
        return "Ch %d" % self.m[c]

    def s(self, text):
        return "[" + ";".join(self.tok(c) for c in text) + "]"


def py_inner_text(node):
    """independent reading of a text element (what Element.inner_text is specified to return)"""
    out = [node.text or ""]
    for c in node:
        if c.tag == T + "s":
            out.append(" " * int(c.get(T + "c") or 1))
        elif c.tag == T + "tab":
            out.append("\t")
        elif c.tag == T + "line-break":
            out.append("\n")
        else:
            out.append(py_inner_text(c))
        out.append(c.tail or "")
    return "".join(out)


SIMPLE_INLINE = {T + "span", T + "s", T + "tab", T + "line-break"}      # (text:a is rendered with its URL by Link.__str__: outside WS.v)


def simple_paragraph(node):
    return all(d.tag in SIMPLE_INLINE for d in node.iterdescendants() if isinstance(d.tag, str)) and \
        all(isinstance(d.tag, str) for d in node.iterdescendants())


def abs_items(node, al):
    items = []
    if node.text: items.append("IStr " + al.s(node.text))
    for k, c in enumerate(node):
        if c.tag == T + "s": items.append("IS %d" % int(c.get(T + "c") or 1))
        elif c.tag == T + "tab": items.append("ITab")
        elif c.tag == T + "line-break": items.append("ILb")
        else: items.append("IElem %d %s" % (k, al.s(py_inner_text(c))))
        if c.tail: items.append("IStr " + al.s(c.tail))
    return "[" + ";".join(items) + "]"


def rep(node, attr):
    """the repeat count as every consumer reads it: absent, "1", "0" or garbage count once"""
    try:
        return max(int(node.get(TB + attr) or 1), 1)
    except ValueError:
        return 1


def cell_flags(c):
    """(soft empty, hard empty) by an independent rule: no children, no value attributes, not spanned; soft also: no style"""
    OF = OFFICE
    has_val = any(c.get(OF + a) is not None for a in ("value", "date-value", "time-value", "boolean-value", "string-value"))
    spanned = c.get(TB + "number-columns-spanned") is not None or c.get(TB + "number-rows-spanned") is not None
    hard = not (len(c) or has_val or spanned or (c.text or "").strip())
    soft = hard and c.get(TB + "style-name") is None
    return soft, hard


def abs_table(tnode):
    rows = []
    for r in tnode.iter(TB + "table-row"):
        anc = r.getparent()
        inner = False
        while anc is not None and anc is not tnode:
            if anc.tag == TB + "table":
                inner = True
            anc = anc.getparent()
        if inner:
            continue
        cells = []
        for c in r:
            if c.tag in (TB + "table-cell", TB + "covered-table-cell"):
                s, h = cell_flags(c)
                cells.append("mkCell %d %s %s" % (rep(c, "number-columns-repeated"), "true" if s else "false", "true" if h else "false"))
        rows.append("mkRow %d [%s]" % (rep(r, "number-rows-repeated"), ";".join(cells)))
    return "[" + ";".join(rows) + "]"


def table_small(tnode, limit=400):
    n = 0
    for r in tnode.iter(TB + "table-row"):
        n += rep(r, "number-rows-repeated")
        for c in r:
            if rep(c, "number-columns-repeated") > 3000:
                return False
        if n > limit:
            return False
    return True


# ------------------------------------------------------------------------------------------------ documents

def gen_document(odfdo, spec):
    """deterministic generated documents (spec = {gen: kind, seed})"""
    from odfdo import (Document, Paragraph, Header, Span, List, ListItem, Table, Row, Cell, Note, Annotation, TOC, Frame,
                       Section, Link, Bookmark, VarSet, UserFieldDecl, LineBreak, Spacer, Tab, Column)
    rng = random.Random(spec["seed"])
    words = ["alpha", "beta  gamma", "déjà vu", "a\tb", "x < y & z", "line\nbreak", "The quick brown fox", "  lead", "trail  ", "中文"]
    if spec["gen"] == "text":
        doc = Document("text"); body = doc.body; body.clear()
        toc = TOC(); body.append(toc)
        for i in range(rng.randint(3, 7)):
            body.append(Header(rng.randint(1, 3), rng.choice(words)))
            p = Paragraph(rng.choice(words) + " " + rng.choice(words), style="Standard")
            body.append(p)
            if rng.random() < .5:
                p.append(Span(rng.choice(words), style="Emphasis")); p.append_plain_text(" tail  text")
            if rng.random() < .4:
                p.insert_note(after=p.inner_text.split()[0] if p.inner_text.split() else None, note_id="n%d" % i, citation=str(i), body="note " + rng.choice(words))
            if rng.random() < .3:
                p.insert_annotation(after=None, body="ann", creator="me")
            if rng.random() < .4:
                body.append(List([rng.choice(words), rng.choice(words)]))
        # tables that the exporters would shrink: trailing empty rows / cells, repeats, styled empties
        for k in range(rng.randint(1, 3)):
            t = Table("T%d" % k)
            w = rng.randint(1, 4)
            for r in range(rng.randint(1, 4)):
                row = Row()
                for c in range(w):
                    row.append_cell(Cell(rng.choice([1, "txt", None, 2.5, True, "a b"])))
                if rng.random() < .6:
                    row.append_cell(Cell(repeated=rng.randint(2, 5)))
                t.append_row(row)
            for _ in range(rng.randint(0, 3)):
                t.append_row(Row(width=rng.randint(1, 5), repeated=rng.choice([None, 2, 3])))
            body.append(t)
        try:
            toc.fill(doc)
        except Exception:
            pass
        doc.meta.title = "generated %d" % spec["seed"]
        doc.meta.set_user_defined_metadata("k", "v")
        # meta elements as other producers write them: the xlink attributes that have defaults are absent (F55)
        from datetime import timedelta
        doc.meta.set_auto_reload(timedelta(seconds=30), "http://example.org/next")
        doc.meta.set_template(None, "http://example.org/t.ott", "tmpl")
        doc.meta.set_hyperlink_behaviour("_blank", "new")
        for node in doc.meta._XmlPart__tree.iter():
            if isinstance(node.tag, str) and node.tag.split("}")[1] in ("auto-reload", "template"):
                for a in list(node.attrib):
                    if a.split("}")[1] in ("actuate", "show", "type"):
                        del node.attrib[a]
        return doc
    if spec["gen"] == "sheet":
        doc = Document("spreadsheet"); body = doc.body; body.clear()
        for k in range(rng.randint(1, 3)):
            t = Table("Sheet%d" % k)
            h, w = rng.randint(1, 6), rng.randint(1, 6)
            for r in range(h):
                row = Row()
                for c in range(w):
                    v = rng.choice([None, None, 1, 3.5, "s", "true", True])
                    row.append_cell(Cell(v, repeated=rng.choice([None, None, 2, 3])))
                if rng.random() < .5:
                    row.append_cell(Cell(repeated=rng.randint(2, 50)))
                if rng.random() < .3:
                    row.repeated = rng.randint(2, 4)
                t.append_row(row)
            for _ in range(rng.randint(0, 3)):
                t.append_row(Row(width=rng.randint(1, 8), repeated=rng.choice([None, 2, 20])))
            body.append(t)
            if rng.random() < .5:
                try:
                    t.set_named_range("nr%d" % k, "A1:B2")
                except Exception:
                    pass
        return doc
    if spec["gen"] in ("rawtext", "rawsheet"):
        return raw_document(odfdo, spec, rng)
    raise ValueError(spec)


RAW_NS = ('xmlns:text="urn:oasis:names:tc:opendocument:xmlns:text:1.0" xmlns:table="urn:oasis:names:tc:opendocument:xmlns:table:1.0" '
          'xmlns:office="urn:oasis:names:tc:opendocument:xmlns:office:1.0" xmlns:xlink="http://www.w3.org/1999/xlink" '
          'xmlns:draw="urn:oasis:names:tc:opendocument:xmlns:drawing:1.0" xmlns:svg="urn:oasis:names:tc:opendocument:xmlns:svg-compatible:1.0"')


OPTIONAL_CONTAINERS = {
    "meta.xml": ["meta"],                                         # office:meta is optional in office:document-meta
    "content.xml": ["automatic-styles", "font-face-decls", "scripts"],
    "styles.xml": ["master-styles", "automatic-styles", "font-face-decls"],
    "settings.xml": ["settings"],
}


def sparse_bytes(data, body_too=True):
    """the same package with the OPTIONAL containers removed (valid ODF; other producers leave them out), rewritten with lxml and
    zipfile only: meta.xml without office:meta, content.xml without automatic-styles / font-face-decls / scripts (and the body
    without text:sequence-decls / variable-decls / user-field-decls), styles.xml without master-styles / automatic-styles"""
    src = zipfile.ZipFile(io.BytesIO(data))
    out = io.BytesIO()
    with zipfile.ZipFile(out, "w") as z:
        for info in src.infolist():
            raw = src.read(info.filename)
            if info.filename in OPTIONAL_CONTAINERS:
                tree = etree.fromstring(raw)
                for child in list(tree):
                    if isinstance(child.tag, str) and child.tag.startswith(OFFICE) and child.tag[len(OFFICE):] in OPTIONAL_CONTAINERS[info.filename]:
                        tree.remove(child)
                if info.filename == "content.xml" and body_too:
                    for d in list(tree.iter(T + "sequence-decls", T + "variable-decls", T + "user-field-decls")):
                        d.getparent().remove(d)
                raw = etree.tostring(tree, xml_declaration=True, encoding="UTF-8")
            z.writestr(info, raw, compress_type=zipfile.ZIP_STORED if info.filename == "mimetype" else zipfile.ZIP_DEFLATED)
    return out.getvalue()


def raw_table(rng, name, tight):
    """a table as other producers write them.  tight: exactly as wide as its content -- the last row and the last column are
    in use while inner rows END WITH EXPLICIT EMPTY CELLS (or are ragged); otherwise padded: more columns declared than used,
    repeated empty runs at the end of rows, empty rows below"""
    def cell(v):
        if v is None:
            return "<table:table-cell/>"
        return '<table:table-cell office:value-type="string"><text:p>%s</text:p></table:table-cell>' % v
    h, w = rng.randint(2, 5), rng.randint(2, 5)
    rows = []
    for r in range(h):
        vals = [rng.choice(["a", "b  c", "1", None]) for _ in range(w)]
        cells = [cell(v) for v in vals]
        last_row = r == h - 1
        if not last_row:
            k = rng.choice([1, 1, 2]) if tight else rng.choice([0, 1, 2])
            k = min(k, w - 1)
            cells = cells[:w - k] + ["<table:table-cell/>"] * k                                # explicit empty cells at the end
            if not tight and rng.random() < .5:
                cells.append('<table:table-cell table:number-columns-repeated="%d"/>' % rng.randint(2, 4))
            if rng.random() < .2:
                cells = cells[:rng.randint(1, len(cells))]                                     # ragged
        elif tight:
            cells[0] = cell("first")
            cells[-1] = cell("end")
        rep = ' table:number-rows-repeated="2"' if (rng.random() < .2 and not last_row) else ""
        rows.append("<table:table-row%s>%s</table:table-row>" % (rep, "".join(cells)))
    if not tight:
        for _ in range(rng.randint(0, 2)):
            rows.append('<table:table-row><table:table-cell table:number-columns-repeated="%d"/></table:table-row>' % w)
    return '<table:table table:name="%s"><table:table-column table:number-columns-repeated="%d"/>%s</table:table>' % (
        name, w if tight else w + 4, "".join(rows))


def foreign_table(name):
    """valid-but-not-odfdo spellings other producers write (explicit repeat counts of 1, explicit default attributes, covered cells,
    table:table-rows / table-header-rows / table-columns wrappers, trailing empty cells) and, in the last rows, the malformed
    repeat counts "0" and garbage that a tolerant reader counts once"""
    return ('<table:table table:name="%s"><table:table-columns><table:table-column table:number-columns-repeated="1"/>'
            '<table:table-column table:number-columns-repeated="3" table:default-cell-style-name="Default"/></table:table-columns>'
            '<table:table-header-rows><table:table-row table:number-rows-repeated="1"><table:table-cell office:value-type="string" '
            'table:number-columns-repeated="1" table:number-columns-spanned="1" table:number-rows-spanned="1"><text:p>head</text:p></table:table-cell>'
            '<table:table-cell table:number-columns-repeated="3"/></table:table-row></table:table-header-rows>'
            '<table:table-rows><table:table-row><table:table-cell office:value-type="string" table:number-columns-spanned="2"><text:p>span</text:p></table:table-cell>'
            '<table:covered-table-cell table:number-columns-repeated="1"/><table:table-cell table:number-columns-repeated="2"><text:p>r</text:p></table:table-cell></table:table-row>'
            '<table:table-row table:number-rows-repeated="2"><table:table-cell office:value-type="float" office:value="1"><text:p>1</text:p></table:table-cell>'
            '<table:table-cell/><table:table-cell/><table:table-cell/></table:table-row></table:table-rows>'
            '<table:table-row table:number-rows-repeated="0"><table:table-cell table:number-columns-repeated="0"><text:p>zero</text:p></table:table-cell>'
            '<table:table-cell table:number-columns-repeated="x"/><table:table-cell table:number-columns-repeated="2"/></table:table-row>'
            '<table:table-row table:number-rows-repeated="1"><table:table-cell table:number-columns-repeated="1"><text:p>last</text:p></table:table-cell>'
            '<table:table-cell table:number-columns-repeated="3"/></table:table-row></table:table>') % name


def raw_document(odfdo, spec, rng):
    """content that is NOT in the shape odfdo itself writes: reading must not normalise it"""
    from odfdo import Document
    text = spec["gen"] == "rawtext"
    doc = Document("text" if text else "spreadsheet")
    body = doc.body
    body.clear()
    node = body._Element__element
    parts = []
    if text:
        raw_paragraphs = [
            '<text:p>two  spaces and   three, a\ttab and a\nnewline in one text node</text:p>',
            '<text:p>ends with a space <text:span>before a span</text:span> and  after  it </text:p>',
            '<text:p> leading space, <text:span></text:span>empty span, <text:span> </text:span> blank span</text:p>',
            '<text:p><text:span>Hello</text:span> <text:span>World</text:span>\n  <text:span>indented</text:span>\n</text:p>',
            '<text:h text:outline-level="1">A  heading  with  runs <text:s/> and an s after a space</text:h>',
            '<text:p>a<text:s text:c="1"/><text:s/> b<text:tab/>\t<text:line-break/>\n c</text:p>',
            '<text:p/>', '<text:p>   </text:p>',
            '<text:list><text:list-item><text:p>item  one </text:p></text:list-item><text:list-item><text:p> item\ttwo</text:p></text:list-item></text:list>',
            '<text:section text:name="S  1"><text:p>in  a  section<text:a xlink:href="http://x/ y">a  link </text:a> tail  </text:p></text:section>',
        ]
        rng.shuffle(raw_paragraphs)
        parts += raw_paragraphs[:rng.randint(6, len(raw_paragraphs))]
        for k in range(rng.randint(2, 3)):
            parts.insert(rng.randint(0, len(parts)), raw_table(rng, "Raw%d" % k, tight=(k == 0 or rng.random() < .5)))
    else:
        for k in range(rng.randint(2, 3)):
            parts.append(raw_table(rng, "Raw%d" % k, tight=(k == 0 or rng.random() < .5)))
    # constructs spelled as OTHER producers write them (valid, but not odfdo's own spelling): wrapping must not normalise them
    parts.insert(0 if not text else rng.randint(0, len(parts)), foreign_table("Foreign"))
    if text:
        parts.append('<text:p>before<text:note text:note-class="footnote" text:id="ftnE1"><text:note-citation/><text:note-body><text:p>empty citation</text:p>'
                     '</text:note-body></text:note> middle<text:note text:note-class="endnote" text:id="ftnE2"><text:note-citation></text:note-citation>'
                     '<text:note-body><text:p>again</text:p></text:note-body></text:note> after</text:p>')
        parts.append('<text:h text:outline-level="2">title<text:note text:note-class="footnote" text:id="ftnE3"><text:note-citation/>'
                     '<text:note-body><text:p>in a heading</text:p></text:note-body></text:note></text:h>')
        parts.append('<text:p><draw:frame svg:width="1cm" svg:height="1cm"><draw:image xlink:href="Pictures/none.png"/></draw:frame>'
                     '<draw:frame><draw:image xlink:href=""/></draw:frame></text:p>')
        parts.append('<text:p text:style-name="Style_20_with space &amp; é">styled <draw:frame draw:name="f 1" svg:width="10mm" svg:height="0.3937in" '
                     'text:anchor-type="as-char" draw:z-index="0"><draw:text-box><text:p>in a box</text:p></draw:text-box></draw:frame></text:p>')
        parts.append('<text:p><text:date text:date-value="2024-02-29" text:fixed="true">29/02/24</text:date> <text:s text:c="1"/>'
                     '<text:bookmark text:name="a&quot;b\'c"/><text:note text:note-class="endnote" text:id="ftn0"><text:note-citation>i</text:note-citation>'
                     '<text:note-body><text:p>n</text:p></text:note-body></text:note></text:p>')
    else:
        parts.append('<table:named-expressions>'
                     '<table:named-range table:name="relative" table:base-cell-address="Raw0.A1" table:cell-range-address="Raw0.A1:.B2"/>'
                     '<table:named-range table:name="foreign_base" table:base-cell-address="$Raw0.$C$5" table:cell-range-address="$Raw0.$A$1:.$B$2" table:range-usable-as="print-range filter"/>'
                     '<table:named-range table:name="quoted" table:base-cell-address="$\'Raw0\'.$A$1" table:cell-range-address="$\'Raw0\'.$A$1:.$C$1"/>'
                     '<table:named-range table:name="two_sheets" table:base-cell-address="$Raw0.$A$1" table:cell-range-address="$Raw0.$A$1:$Raw1.$B$2"/>'
                     '</table:named-expressions>')
    frag = etree.fromstring("<r %s>%s</r>" % (RAW_NS, "".join(parts)))
    for child in list(frag):
        node.append(child)
    try:        # meta values in other valid lexical forms: date without time, duration with only seconds
        mt = doc.meta._XmlPart__tree if doc.meta._XmlPart__tree is not None else doc.meta._get_tree()
        for e in mt.iter():
            if isinstance(e.tag, str) and e.tag.endswith("}creation-date"):
                e.text = "2024-02-29"
            if isinstance(e.tag, str) and e.tag.endswith("}editing-duration"):
                e.text = "PT3723S"
    except Exception:
        pass
    return doc


_GEN_CACHE = {}


def open_source(odfdo, src):
    """-> (document, origin bytes of the parts as stored on disk, read independently with zipfile)"""
    from odfdo import Document
    kind = src["kind"]
    if kind == "template":
        return Document(src["name"]), {}
    if kind == "generated":
        key = json.dumps(src["spec"], sort_keys=True)
        if key not in _GEN_CACHE:       # frozen once: every (re)load of a generated document sees the same bytes
            buf = io.BytesIO()
            spec = dict(src["spec"])
            sparse = spec.pop("sparse", False)
            if spec["gen"] == "template":
                Document(spec["name"]).save(buf)
            else:
                gen_document(odfdo, spec).save(buf)
            _GEN_CACHE[key] = sparse_bytes(buf.getvalue()) if sparse else buf.getvalue()
        data = _GEN_CACHE[key]
        origin = {}
        with zipfile.ZipFile(io.BytesIO(data)) as z:
            for n in z.namelist():
                origin[n] = z.read(n)
        return Document(io.BytesIO(data)), origin
    path = src["path"]
    origin = {}
    with zipfile.ZipFile(path) as z:
        for n in z.namelist():
            origin[n] = z.read(n)
    return Document(path), origin


_BYTES_DIGEST = {}     # id(bytes object) -> (the object, digest): unloaded / binary parts are digested once


def _bytes_digest(p, data):
    if isinstance(data, str):
        data = data.encode("utf-8")
    k = id(data)
    hit = _BYTES_DIGEST.get(k)
    if hit is not None and hit[0] is data:
        return hit[1]
    d = None
    if p.endswith(".xml") and data:
        try:
            d = hashlib.md5(etree.tostring(etree.parse(io.BytesIO(data)), method="c14n")).hexdigest()
        except etree.XMLSyntaxError:
            d = None
    if d is None:
        d = hashlib.md5(data or b"").hexdigest()
    _BYTES_DIGEST[k] = (data, d)
    return d


def snapshot(doc, origin, canonical=True, only=None):
    """logical content of every part, independent of what is loaded / cached and of odfdo's serializer.
    canonical=True: C14N of the in-memory trees.  canonical=False: plain lxml serialisation of the trees (14x faster on
    big.ods); equal plain serialisations imply equal infosets, unequal ones are re-examined with C14N by `changed`."""
    xmlparts = doc._Document__xmlparts
    cparts = doc.container._Container__parts
    snap = {}
    for p in (sorted(set(cparts) | set(xmlparts) | set(origin)) if only is None else only):
        xp = xmlparts.get(p)
        tree = getattr(xp, "_XmlPart__tree", None) if xp is not None else None
        if tree is not None:
            snap[p] = ("tree", hashlib.md5(etree.tostring(tree, method="c14n") if canonical else etree.tostring(tree)).hexdigest())
            continue
        if p in cparts:
            data = cparts[p]
            if data is None:
                snap[p] = ("deleted", "")
                continue
        else:
            data = origin.get(p)
        snap[p] = ("bytes", _bytes_digest(p, data))
    return snap


class Base:
    """the reference state of a document: canonical and fast digests of every part"""
    def __init__(self, doc, origin):
        self.canon = snapshot(doc, origin, True)
        self.fast = snapshot(doc, origin, False)

    def changed(self, doc, origin):
        """parts whose logical content differs from the reference (empty list = unchanged)"""
        cur = snapshot(doc, origin, False)
        suspects = [p for p in set(cur) | set(self.fast) if cur.get(p) != self.fast.get(p)]
        if not suspects:
            return []
        # a part that was bytes and is now a parsed tree (lazy load), or whose plain serialisation differs: decide by C14N
        canon = snapshot(doc, origin, True, only=[p for p in suspects if p in cur])
        out = []
        for p in suspects:
            a, b = self.canon.get(p), canon.get(p)
            if a is None or b is None or a[1] != b[1] or (a[0] == "deleted") != (b[0] == "deleted"):
                out.append(p)
            else:
                self.fast[p] = cur[p]      # same infoset under another representation: remember the new fast digest
        return sorted(out)


# ------------------------------------------------------------------------------------------------ entry points

READ_NAME = re.compile(r"^(get_|is_|search|match$|replace$|to_|as_|show_|serialize$|pretty_serialize$|traverse|iter_|__str__$|__repr__$|"
                       r"minimized_width$|last_cell$|clone$|elements_repeated_sequence$|text_at$|check_validity$|referenced_text$|"
                       r"get$)")
# names that match the pattern but are not claimed read-only by anybody (they create things on purpose) or need a live context
NOT_READ = set()


def ctx_dict(doc, rst):
    return {"document": doc, "footnotes": [], "endnotes": [], "annotations": [], "rst_mode": rst, "img_counter": 0, "images": [], "no_img_level": 0}


def explicit_calls(kind):
    """calls with arguments: (label, lambda doc, obj: ...)"""
    E = [
        ("replace('a')", lambda d, o: o.replace("a")),
        ("replace('[a-z]+ ')", lambda d, o: o.replace("[a-z]+ ")),
        ("replace('é|中', None)", lambda d, o: o.replace("é|中", None)),
        ("search('a')", lambda d, o: o.search("a")),
        ("search_all('[aeiou]')", lambda d, o: o.search_all("[aeiou]")),
        ("search_first('e')", lambda d, o: o.search_first("e")),
        ("match('a')", lambda d, o: o.match("a")),
        ("text_at(0, 5)", lambda d, o: o.text_at(0, 5)),
        ("get_formatted_text(ctx)", lambda d, o: o.get_formatted_text(ctx_dict(d, False))),
        ("get_formatted_text(ctx rst)", lambda d, o: o.get_formatted_text(ctx_dict(d, True))),
        ("get_elements('descendant::text:p')", lambda d, o: o.get_elements("descendant::text:p")),
        ("get_element('descendant::text:span')", lambda d, o: o.get_element("descendant::text:span")),
        ("xpath('descendant::text()')", lambda d, o: o.xpath("descendant::text()")),
        ("get_attribute('text:style-name')", lambda d, o: o.get_attribute("text:style-name")),
        ("get_attribute_string('table:name')", lambda d, o: o.get_attribute_string("table:name")),
        ("serialize(pretty=True)", lambda d, o: o.serialize(pretty=True)),
        ("serialize(with_ns=True)", lambda d, o: o.serialize(with_ns=True)),
        ("str()", lambda d, o: str(o)),
        ("repr()", lambda d, o: repr(o)),
        ("get_paragraphs(content='a')", lambda d, o: o.get_paragraphs(content="a")),
        ("get_paragraph(position=0)", lambda d, o: o.get_paragraph(position=0)),
        ("get_headers(outline_level=1)", lambda d, o: o.get_headers(outline_level=1)),
        ("get_spans(style='x')", lambda d, o: o.get_spans(style="x")),
        ("get_styled_elements('Standard')", lambda d, o: o.get_styled_elements("Standard")),
        ("get_bookmark(name='x')", lambda d, o: o.get_bookmark(name="x")),
        ("get_note(note_id='n1')", lambda d, o: o.get_note(note_id="n1")),
        ("get_link(name='x')", lambda d, o: o.get_link(name="x")),
        ("get_user_field_value('x')", lambda d, o: o.get_user_field_value("x")),
        ("get_variable_set_value('x')", lambda d, o: o.get_variable_set_value("x")),
        ("get_table(position=0)", lambda d, o: o.get_table(position=0)),
        ("get_frame(position=0)", lambda d, o: o.get_frame(position=0)),
        ("get_image(position=0)", lambda d, o: o.get_image(position=0)),
        ("get_list(position=0)", lambda d, o: o.get_list(position=0)),
        ("get_section(position=0)", lambda d, o: o.get_section(position=0)),
        ("get_toc(position=0)", lambda d, o: o.get_toc(position=0)),
        ("get_draw_page(position=0)", lambda d, o: o.get_draw_page(position=0)),
        ("_md_format() with the export context set", lambda d, o: md_call(d, o)),
    ]
    TBL = [
        ("get_values()", lambda d, o: o.get_values()),
        ("get_values(flat=True)", lambda d, o: o.get_values(flat=True)),
        ("get_values(cell_type='all', complete=False)", lambda d, o: o.get_values(cell_type="all", complete=False)),
        ("get_values(get_type=True)", lambda d, o: o.get_values(get_type=True)),
        ("get_values('A1:C3')", lambda d, o: o.get_values("A1:C3")),
        ("get_cells()", lambda d, o: o.get_cells()),
        ("get_cells(flat=True, cell_type='string')", lambda d, o: o.get_cells(flat=True, cell_type="string")),
        ("get_rows()", lambda d, o: o.get_rows()),
        ("get_rows(content='a')", lambda d, o: o.get_rows(content="a")),
        ("get_row(0)", lambda d, o: o.get_row(0)),
        ("get_row(0, clone=False)", lambda d, o: o.get_row(0, clone=False)),
        ("get_row_values(0)", lambda d, o: o.get_row_values(0)),
        ("get_row_sub_elements(0)", lambda d, o: o.get_row_sub_elements(0)),
        ("get_cell('A1')", lambda d, o: o.get_cell("A1")),
        ("get_cell((1, 0), clone=False)", lambda d, o: o.get_cell((1, 0), clone=False)),
        ("get_value('B2')", lambda d, o: o.get_value("B2")),
        ("get_value((0, 0), get_type=True)", lambda d, o: o.get_value((0, 0), get_type=True)),
        ("get_columns()", lambda d, o: o.get_columns()),
        ("get_column(0)", lambda d, o: o.get_column(0)),
        ("get_column_cells(0)", lambda d, o: o.get_column_cells(0)),
        ("get_column_values(0)", lambda d, o: o.get_column_values(0)),
        ("to_csv()", lambda d, o: o.to_csv()),
        ("get_formatted_text(ctx)", lambda d, o: o.get_formatted_text(ctx_dict(d, False))),
        ("get_formatted_text(ctx rst)", lambda d, o: o.get_formatted_text(ctx_dict(d, True))),
        ("_md_format() with the export context set", lambda d, o: md_call(d, o)),
        ("is_empty(aggressive=True)", lambda d, o: o.is_empty(aggressive=True)),
        ("is_row_empty(0)", lambda d, o: o.is_row_empty(0)),
        ("is_column_empty(0)", lambda d, o: o.is_column_empty(0)),
        ("get_named_range('nr0')", lambda d, o: o.get_named_range("nr0")),
        ("iter over traverse()", lambda d, o: list(itertools.islice(o.traverse(), 200))),
        ("iter over traverse_columns()", lambda d, o: list(itertools.islice(o.traverse_columns(), 200))),
    ]
    ROW = [
        ("get_cells()", lambda d, o: o.get_cells()),
        ("get_cell(0)", lambda d, o: o.get_cell(0)),
        ("get_cell(0, clone=False)", lambda d, o: o.get_cell(0, clone=False)),
        ("get_value(0)", lambda d, o: o.get_value(0)),
        ("get_values()", lambda d, o: o.get_values()),
        ("get_values(cell_type='all', complete=False)", lambda d, o: o.get_values(cell_type="all", complete=False)),
        ("get_sub_elements()", lambda d, o: o.get_sub_elements()),
        ("is_empty(aggressive=True)", lambda d, o: o.is_empty(aggressive=True)),
        ("iter over traverse()", lambda d, o: list(itertools.islice(o.traverse(), 200))),
    ]
    DOC = [
        ("get_formatted_text()", lambda d, o: o.get_formatted_text()),
        ("get_formatted_text(rst_mode=True)", lambda d, o: o.get_formatted_text(rst_mode=True)),
        ("to_markdown()", lambda d, o: o.to_markdown()),
        ("get_formated_meta()", lambda d, o: o.get_formated_meta()),
        ("show_styles()", lambda d, o: o.show_styles()),
        ("show_styles(automatic=False)", lambda d, o: o.show_styles(automatic=False)),
        ("show_styles(common=False, properties=True)", lambda d, o: o.show_styles(common=False, properties=True)),
        ("get_styles()", lambda d, o: o.get_styles()),
        ("get_styles(family='paragraph')", lambda d, o: o.get_styles(family="paragraph")),
        ("get_style('paragraph', 'Standard')", lambda d, o: o.get_style("paragraph", "Standard")),
        ("get_style('paragraph')", lambda d, o: o.get_style("paragraph")),
        ("get_style_properties('paragraph', 'Standard')", lambda d, o: o.get_style_properties("paragraph", "Standard")),
        ("get_styled_elements('Standard')", lambda d, o: o.get_styled_elements("Standard")),
        ("get_part('content.xml')", lambda d, o: o.get_part("content.xml")),
        ("get_part('styles')", lambda d, o: o.get_part("styles")),
        ("get_part('meta')", lambda d, o: o.get_part("meta")),
        ("get_part('settings')", lambda d, o: o.get_part("settings")),
        ("get_part('manifest')", lambda d, o: o.get_part("manifest")),
        ("get_part('mimetype')", lambda d, o: o.get_part("mimetype")),
        ("get_part('Pictures/none.png')", lambda d, o: o.get_part("Pictures/none.png")),
        ("get_parts()", lambda d, o: o.get_parts()),
        ("get_type()", lambda d, o: o.get_type()),
        ("str()", lambda d, o: str(o)),
        ("repr()", lambda d, o: repr(o)),
        ("get_table_displayed(0)", lambda d, o: o.get_table_displayed(0)),
        ("get_table_style(0)", lambda d, o: o.get_table_style(0)),
        ("get_cell_background_color(0, 'A1')", lambda d, o: o.get_cell_background_color(0, "A1")),
        ("get_cell_style_properties(0, 'A1')", lambda d, o: o.get_cell_style_properties(0, "A1")),
        ("sorted(clone.get_parts())", lambda d, o: sorted(o.clone.get_parts())),
    ]
    META = [
        ("as_dict()", lambda d, o: o.as_dict()), ("as_dict(full=True)", lambda d, o: o.as_dict(full=True)),
        ("as_json()", lambda d, o: o.as_json()), ("as_json(full=True)", lambda d, o: o.as_json(full=True)),
        ("as_text()", lambda d, o: o.as_text()),
        ("get_user_defined_metadata_of_name('k')", lambda d, o: o.get_user_defined_metadata_of_name("k")),
        ("serialize()", lambda d, o: o.serialize()), ("serialize(pretty=True)", lambda d, o: o.serialize(pretty=True)),
        ("get_elements('//dc:title')", lambda d, o: o.get_elements("//dc:title")),
    ]
    PART = [
        ("serialize()", lambda d, o: o.serialize()), ("serialize(pretty=True)", lambda d, o: o.serialize(pretty=True)),
        ("pretty_serialize()", lambda d, o: o.pretty_serialize()),
        ("get_elements('//style:style')", lambda d, o: o.get_elements("//style:style")),
        ("get_element('//office:body')", lambda d, o: o.get_element("//office:body")),
        ("xpath('//text()')", lambda d, o: o.xpath("//text()")),
        ("get_styles()", lambda d, o: o.get_styles()),
        ("get_style('paragraph', 'Standard')", lambda d, o: o.get_style("paragraph", "Standard")),
        ("get_paths()", lambda d, o: o.get_paths()),
        ("get_media_type('content.xml')", lambda d, o: o.get_media_type("content.xml")),
        ("get_path_medias()", lambda d, o: o.get_path_medias()),
    ]
    return dict(element=E, table=TBL + E[:6] + E[14:19], row=ROW + E[13:19], cell=E[:10] + E[13:19], doc=DOC, meta=META + PART, part=PART)[kind]


def md_call(doc, obj):
    import odfdo.mixin_md as mm
    mm._set_global(doc)           # what MDDocument._markdown_export does around the export ...
    try:
        return obj._md_format()
    finally:
        mm._set_global(None)      # ... and after it (the list counters live in this module-level context)


def locators(doc, tier, rng):
    """objects whose readers are exercised: (locator tuple, kind)"""
    out = [(("doc",), "doc"), (("body",), "element"), (("meta",), "meta"), (("part", "styles"), "part"), (("part", "content"), "part"),
           (("part", "manifest"), "part"), (("part", "settings"), "part")]
    root = priv(doc.body)
    k = 3 if tier == "quick" else 5
    ntab = 0
    for i, t in enumerate(root.iter(TB + "table")):
        if not table_small(t):
            continue
        if ntab >= k:
            break
        ntab += 1
        out.append((("table", i), "table"))
        rows = [r for r in t.iter(TB + "table-row")]
        rep_rows = [k for k, r in enumerate(rows) if any(rep(c, "number-columns-repeated") > 1 and (len(c) or set(c.attrib.keys()) - {TB + "number-columns-repeated"})
                                                           for c in r)] or \
                   [k for k, r in enumerate(rows) if any(rep(c, "number-columns-repeated") > 1 for c in r)]
        for ri in rep_rows[:1]:          # a row with a repeated run, as a wrapper of the live node and as table.get_row(y, clone=False)
            out.append((("row", i, ri), "row"))
            out.append((("rowlive", i, ri), "row"))
        for ri in sorted(set([0, len(rows) - 1]))[:2]:
            if 0 <= ri < len(rows):
                out.append((("row", i, ri), "row"))
                if ri == 0 and len(rows[ri]):
                    out.append((("cell", i, ri, 0), "cell"))
    seen = {}
    els = []
    for node in root.iter():
        if not isinstance(node.tag, str) or node.tag in (TB + "table", TB + "table-row", TB + "table-cell"):
            continue
        n = seen.get(node.tag, 0)
        if n >= (1 if tier == "quick" else 2):
            continue
        seen[node.tag] = n + 1
        els.append((("el", node.tag, n), "element"))
    if tier == "quick" and len(els) > 10:       # a seeded sample of the tags; the thorough tier takes them all
        rng.shuffle(els)
        els = sorted(els[:10])
    # per text container tag (p, h, list, section, table-cell content): also the RICHEST element -- the one with the most
    # distinct descendant tags (notes with empty citations, frames, images without names, fields ...), never sampled away
    for tag in (T + "p", T + "h", T + "list", T + "section"):
        best, bi, n = -1, None, 0
        for node in root.iter(tag):
            k = len({d.tag for d in node.iterdescendants() if isinstance(d.tag, str)})
            if k > best:
                best, bi = k, n
            n += 1
        for idx in {0, bi} - {None}:
            if n and (("el", tag, idx), "element") not in els:
                els.append((("el", tag, idx), "element"))
    out += els
    # elements of the styles part (Style objects and friends): first of every tag, a seeded sample in the quick tier
    try:
        sroot = priv(doc.get_part("styles").root)
    except Exception:
        sroot = None
    if sroot is not None:
        seen, sels = {}, []
        for node in sroot.iter():
            if not isinstance(node.tag, str) or node.tag in seen:
                continue
            seen[node.tag] = 1
            sels.append((("sel", node.tag, 0), "element"))
        if tier == "quick" and len(sels) > 5:
            rng.shuffle(sels)
            sels = sorted(sels[:5])
        out += sels
    return out


def resolve(doc, loc):
    kind = loc[0]
    if kind == "doc": return doc
    if kind == "body": return doc.body
    if kind == "meta": return doc.meta
    if kind == "part": return doc.get_part(loc[1])
    from odfdo import Element
    root = priv(doc.body)
    if kind == "rowlive":      # the live row object the table itself hands out (shares the table's maps)
        t = list(root.iter(TB + "table"))[loc[1]]
        r = list(t.iter(TB + "table-row"))[loc[2]]
        y = 0
        for prev in list(t.iter(TB + "table-row"))[:loc[2]]:
            y += rep(prev, "number-rows-repeated")
        return Element.from_tag(t).get_row(y, clone=False)
    if kind in ("table", "row", "cell"):
        t = list(root.iter(TB + "table"))[loc[1]]
        if kind == "table":
            return Element.from_tag(t)
        r = list(t.iter(TB + "table-row"))[loc[2]]
        if kind == "row":
            return Element.from_tag(r)
        return Element.from_tag(r[loc[3]])
    if kind == "sel":
        root = priv(doc.get_part("styles").root)
    if kind in ("el", "sel"):
        n = 0
        for node in root.iter(loc[1]):
            if n == loc[2]:
                return Element.from_tag(node)
            n += 1
    raise LookupError(loc)


# standard arguments for required parameters, by parameter name (a reader whose required parameter has no entry is listed as skipped)
STD_ARGS = {
    "pattern": "a", "regex": "a", "content": "a", "text": "a", "title": "a", "url": "a", "style": "a", "value": "a",
    "name": "x", "note_id": "x", "draw_id": "x", "text_id": "x", "tag_value": "x", "creator": "x", "idx": "x", "change_id": "x",
    "position": 0, "x": 0, "y": 0, "index": 0, "level": 1, "outline_level": 1, "start": 0, "end": 5, "offset": 0, "row": 0, "column": 0,
    "coord": "A1", "coordinates": "A1:B2", "area": "A1:B2", "crange": "A1:B2",
    "xpath_query": "descendant::*", "query": "descendant::*", "xpath_instance": None,
    "family": "paragraph", "path": "content.xml", "tag": "text:p", "qname": "text:p", "attr_name": "text:style-name",
    "context": "<ctx>", "table": 0,
}
# optional parameters that select a RANGE or filter: the reader is also called with each candidate (wrong-typed ones raise: harmless)
OPT_ARGS = {
    "coord": ["A1:C3", "B:D", (1, 3), (0, 0, 2, 2), "B2", (1, 1)],
    "start": [1], "end": [3], "area": ["A1:C3"], "cell_type": ["all", "string"], "content": ["a"], "style": ["x"],
}
NO_CALL = {"get_between"}      # needs two elements.  (get_formatted_text: also called WITHOUT a context -- its default context
                               # must be fresh on every call, C15-7 -- besides the hand-written entries with both context modes)


def _lab(v):
    return "ctx" if v == "<ctx>" else repr(v)


def extent(obj):
    """(width, height) of a table / (width, 1) of a row, counted on the lxml node"""
    n = getattr(obj, "_Element__element", None)
    if n is None:
        return None
    if n.tag == TB + "table":
        rows = [r for r in n.iter(TB + "table-row")]
        h = sum(rep(r, "number-rows-repeated") for r in rows)
        w = max([sum(rep(c, "number-columns-repeated") for c in r) for r in rows] or [0])
        return w, h
    if n.tag == TB + "table-row":
        return sum(rep(c, "number-columns-repeated") for c in n), 1
    return None


def a1(x, y):
    s, x = "", x + 1
    while x:
        x, r = divmod(x - 1, 26)
        s = chr(65 + r) + s
    return "%s%d" % (s, y + 1)


def edge_values(obj):
    """coordinate arguments AT the edge, one and several PAST it, and negative beyond the start (C08: reading outside the
    populated area returns an empty cell or row instead of failing or growing the table)"""
    e = extent(obj)
    if not e:
        return {}
    w, h = e
    ys = [max(h - 1, 0), h, h + 3, -1, -h - 2]
    xs = [max(w - 1, 0), w, w + 3, -1, -w - 2]
    out = {"y": ys, "row": ys, "x": xs, "column": xs, "idx": xs if priv(obj).tag == TB + "table-row" else ys, "index": ys,
           "position": ys if priv(obj).tag == TB + "table" else xs}
    out["coord"] = [(w, h), (w + 2, h + 3), a1(w, h), a1(0, h), a1(w, 0), a1(w + 3, h + 3), (max(w - 1, 0), h), (-w - 2, 0), (0, -h - 2),
                    "%s:%s" % (a1(max(w - 1, 0), max(h - 1, 0)), a1(w + 1, h + 1)), (w, h + 2) if priv(obj).tag == TB + "table-row" else (0, h, w + 1, h + 2)]
    out["coordinates"] = out["coord"]; out["area"] = out["coord"]
    return out


def introspected_calls(obj):
    """(label, callable(doc, obj)): every property; every method whose name says it reads, called with standard arguments for its
    required parameters (STD_ARGS, by parameter name) and, one at a time, with every boolean keyword parameter flipped
    (formatted=True, aggressive=True, full=True, clone=False ...): the non-default modes of a reader are readers too."""
    out, skipped = [], []
    cls = type(obj)
    for name in sorted(set(dir(cls))):
        if name.startswith("__") and name not in ("__str__", "__repr__"):
            continue
        d = inspect.getattr_static(cls, name, None)
        if isinstance(d, property):
            if name.startswith("_"):
                continue
            out.append(("." + name, (lambda n: (lambda doc, o: getattr(o, n)))(name)))
            continue
        if not READ_NAME.match(name) or name in NOT_READ:
            if not name.startswith("_") and callable(d):
                skipped.append(name)
            continue
        fn = getattr(obj, name, None)
        if not callable(fn) or name in NO_CALL:
            continue
        try:
            sig = inspect.signature(fn)
        except (TypeError, ValueError):
            continue
        req, flags, ok = [], [], True
        for p in sig.parameters.values():
            if p.kind in (p.VAR_POSITIONAL, p.VAR_KEYWORD):
                continue
            if p.default is inspect.Parameter.empty:
                if p.name in STD_ARGS:
                    req.append((p.name, STD_ARGS[p.name]))
                else:
                    ok = False
            elif isinstance(p.default, bool):
                flags.append((p.name, not p.default))
        if not ok:
            skipped.append(name + "(needs arguments)")
            continue
        variants = [dict(req)] + [dict(req, **{k: v}) for k, v in flags]
        edges = edge_values(obj)
        for pn, _v in req:          # required coordinate arguments: out-of-area values too
            for ev in edges.get(pn, []):
                variants.append(dict(req, **{pn: ev}))
                for k, fv in flags:
                    if k in ("clone", "create", "keep_repeated"):
                        variants.append(dict(req, **{pn: ev, k: fv}))
        opt = [p.name for p in sig.parameters.values() if p.default is not inspect.Parameter.empty and p.name in OPT_ARGS
               and p.kind not in (p.VAR_POSITIONAL, p.VAR_KEYWORD)]
        for pn in opt:
            for v in OPT_ARGS[pn] + edges.get(pn, []):
                variants.append(dict(req, **{pn: v}))
                for k, fv in flags[:2]:
                    variants.append(dict(req, **{pn: v, k: fv}))
        if "start" in opt and "end" in opt:
            variants += [dict(req, start=1, end=3), dict(req, start=0, end=1), dict(req, start=2, end=2)]
        if name == "replace":       # count-only: `new` stays None
            variants = [dict(v) for v in variants]
        for kw in variants:
            label = name + "(" + ", ".join("%s=%s" % (k, _lab(v)) for k, v in kw.items()) + ")"

            def call(doc, o, n=name, kw=kw):
                a = {k: (ctx_dict(doc, False) if v == "<ctx>" else v) for k, v in kw.items()}
                return consume(getattr(o, n)(**a))
            out.append((label, call))
    return out, skipped


def consume(r):
    if inspect.isgenerator(r) or isinstance(r, (map, filter, zip)) or (hasattr(r, "__next__") and not isinstance(r, (str, bytes))):
        return list(itertools.islice(r, 2000))
    return r


ADDR = re.compile(r" at 0x[0-9a-fA-F]+")


def answer_digest(r):
    try:
        n = norm(consume(r))
    except Exception as e:
        n = ("<norm-exc>", type(e).__name__)
    return hashlib.md5(ADDR.sub("", repr(n)).encode("utf-8", "replace")).hexdigest()


def call_entry(doc, obj, fn):
    """-> ('ok', digest) | ('exc', type) | ('timeout',)"""
    try:
        r = with_timeout(lambda: fn(doc, obj), CALL_TIMEOUT)
        return ("ok", answer_digest(r))
    except Alarm:
        return ("timeout",)
    except Exception as e:
        return ("exc", type(e).__name__)


def entries_for(doc, tier, rng):
    ents = []
    skipped_names = set()
    for loc, kind in locators(doc, tier, rng):
        try:
            obj = resolve(doc, loc)
        except Exception:
            continue
        if obj is None:
            continue
        intro, skipped = introspected_calls(obj)
        skipped_names.update("%s.%s" % (defining_class(obj, s), s) for s in skipped)
        for label, fn in intro:
            ents.append((loc, kind, defining_class(obj, label), label, fn))
        for label, fn in explicit_calls(kind):
            ents.append((loc, kind, defining_class(obj, label), label, fn))
    return ents, skipped_names


def defining_class(obj, label):
    """the class of the MRO that defines the entry point (so that an inherited reader has ONE name)"""
    name = re.match(r"^\.?([A-Za-z_]\w*)", label)
    name = name.group(1) if name else ""
    if name in ("str", "repr"):
        name = "__%s__" % name
    for k in type(obj).__mro__:
        if name in k.__dict__:
            return k.__name__
    return type(obj).__name__


# which theorem of C15.v speaks about an exercised reader (by defining class and name); everything else is testing only.
# The tie between these Python entry points and the Gallina reads is made by the correspondences of the owning properties
# (C02/C08: table reads through the caches, C16: searches and count-only replace, C03: get_part, C13: get_style) and, for the
# paragraph reads and the table exporters, by the Para / Tab cases of this check.
T_TABLE = "C15_table_reads_pure / C15_table_reads_in_any_order (TableB.b_read)"
T_EXPORT = "C15_table_export_pure"
T_TREE = "C15_tree_reads_pure (Tree.v)"
T_PKG = "C15_package_reads_pure (Package.d_tree)"
THEOREM_OF = {
    ("Table", n): T_TABLE for n in ("size", "width", "height", "get_value", "get_values", "get_row_values", "get_column_values", "get_cell",
                                    "get_row", "traverse", "rows", "get_rows", "get_column", "columns", "get_columns", "traverse_columns",
                                    "iter_values", "get_cells", "get_column_cells")}
THEOREM_OF.update({("Row", n): T_TABLE for n in ("width", "get_value", "get_values", "get_cell", "get_cells", "traverse", "cells")})
THEOREM_OF.update({("Table", "to_csv"): T_EXPORT, ("Table", "__str__"): T_EXPORT, ("Table", "str"): T_EXPORT,
                   ("Table", "get_formatted_text"): "C15_table_export_pure / C15_rst_pure", ("MDTable", "_md_format"): "C15_md_fixed_pure (C15_md_refuted on the pinned code)"})
THEOREM_OF.update({("Element", n): T_TREE for n in ("search", "search_first", "search_all", "match", "replace", "inner_text", "text_recursive")})
THEOREM_OF.update({("Document", n): T_PKG for n in ("get_part", "content", "styles", "meta", "manifest", "body")})
THEOREM_OF.update({("Document", "get_style"): "C15_style_lookup_pure (Styles.doc_get_style)"})
THEOREM_OF.update({("ParagraphBase", "inner_text"): "C15_read_pure / C15_reads_in_any_order (WS.readable)"})


def theorem_for(cname, label):
    m = re.match(r"^\.?([A-Za-z_]\w*)", label)
    name = m.group(1) if m else ""
    return THEOREM_OF.get((cname, name))


def diff_parts(a, b):
    return sorted(p for p in set(a) | set(b) if a.get(p) != b.get(p))


def run_document(src, tier, seed, only=None):
    """worker: all readers of one document.  -> dict(failures=[...], stats, coq cases)"""
    odfdo = common.use_repo()
    rng = random.Random("%s-%s" % (seed, src["id"]))
    res = dict(id=src["id"], calls_by_cover={}, failures=[], budget_exhausted=False, entries_done=0, calls=0, distinct=set(), timeouts=0, exceptions=0, entries=0, skipped=set(), hist={}, cases=[], reloads=0)
    try:
        doc, origin = open_source(odfdo, src)
    except Exception as e:
        res["failures"].append(dict(kind="open-failed", key="open/%s" % src["id"], detail=repr(e)[:300], source=src))
        return finish_res(res)
    base = Base(doc, origin)
    ents, skipped = entries_for(doc, tier, random.Random("loc-%s-%s" % (seed, src["id"])))
    if base.changed(doc, origin):
        res["failures"].append(dict(kind="mutation", key="mutation/enumeration", detail="locating the objects changed the document", source=src))
    res["skipped"] = skipped
    if only is not None:
        ents = [e for e in ents if list(e[0]) == list(only["locator"]) and e[3] == only["call"]]
    res["entries"] = len(ents)
    answers = {}

    def one(idx, ent, check_twice):
        nonlocal doc, origin, base
        loc, kind, cname, label, fn = ent
        try:
            obj = resolve(doc, loc)
        except Exception:
            return
        a1 = call_entry(doc, obj, fn)
        res["calls"] += 1
        res["hist"][kind] = res["hist"].get(kind, 0) + 1
        if a1[0] == "timeout": res["timeouts"] += 1
        if a1[0] == "exc": res["exceptions"] += 1
        ch = base.changed(doc, origin)
        case = dict(source=src, locator=list(loc), cls=cname, call=label)
        if ch:
            res["failures"].append(dict(kind="mutation", key="mutation/%s%s" % (cname, label if label.startswith(".") else "." + label),
                                        detail="parts changed: %s (answer %s)" % (ch, a1[0]), case=case))
            doc, origin = open_source(odfdo, src); base = Base(doc, origin); res["reloads"] += 1
            return
        if a1[0] != "ok":
            return
        res["distinct"].add((cname, label))
        th = theorem_for(cname, label)
        res["calls_by_cover"]["theorem" if th else "testing"] = res["calls_by_cover"].get("theorem" if th else "testing", 0) + 1
        if check_twice:
            a2 = call_entry(doc, obj, fn)
            res["calls"] += 1
            ch = base.changed(doc, origin)
            if ch:
                res["failures"].append(dict(kind="mutation", key="mutation-2nd/%s.%s" % (cname, label.lstrip(".")),
                                            detail="second call changed parts: %s" % ch, case=case))
                doc, origin = open_source(odfdo, src); base = Base(doc, origin); res["reloads"] += 1
                return
            if a2[0] == "timeout":      # a loaded machine: not an answer, not judged
                res["timeouts"] += 1
                return
            if a2 != a1:
                res["failures"].append(dict(kind="nondeterministic", key="twice/%s.%s" % (cname, label.lstrip(".")),
                                            detail="first call %s, second call %s" % (a1, a2), case=case))
                return
            answers[idx] = a1
        else:
            if idx in answers and a1[0] == "ok" and answers[idx] != a1:
                res["failures"].append(dict(kind="order-dependent", key="order/%s.%s" % (cname, label.lstrip(".")),
                                            detail="answer in the first pass %s, after other reads %s" % (answers[idx], a1), case=case))

    # CPU budget per document (big.ods: every snapshot is a C14N of a 1.5 MB tree): what is not reached is counted
    t_start = time.process_time()
    total = 24 if tier == "quick" else 80
    first_pass = total * 2 / 3
    for idx, ent in enumerate(ents):
        if only is None and time.process_time() - t_start > first_pass:
            res["budget_exhausted"] = True
            break
        one(idx, ent, True)
        res["entries_done"] += 1
    orders = 1 if tier == "quick" else 2
    for _ in range(orders if only is None else 0):
        order = [i for i in range(len(ents)) if i in answers]; rng.shuffle(order)
        for idx in order:
            if time.process_time() - t_start > total:
                res["budget_exhausted"] = True
                break
            one(idx, ents[idx], False)
    # modelled reads: paragraphs (inner_text) and tables (exporters), abstracted before / after, judged in Coq
    if only is None:
        try:
            res["cases"] = modelled_cases(odfdo, src, tier)
        except Exception as e:
            res["failures"].append(dict(kind="abstraction", key="abstraction/%s" % src["id"], detail=traceback.format_exc()[-400:], source=src))
    return finish_res(res)


def finish_res(res):
    res["distinct"] = sorted("%s%s" % (c, l if l.startswith(".") else "." + l) for c, l in res["distinct"])
    res["skipped"] = sorted(res["skipped"])
    return res


def modelled_cases(odfdo, src, tier):
    from odfdo import Element
    import odfdo.mixin_md as mm
    doc, origin = open_source(odfdo, src)
    root = priv(doc.body)
    al = Alphabet()
    cases = []
    n = 0
    for node in root.iter(T + "p", T + "h"):
        if n >= (15 if tier == "quick" else 60):
            break
        if not simple_paragraph(node) or len(py_inner_text(node)) > 300 or "\r" in py_inner_text(node):
            continue
        n += 1
        before = abs_items(node, al)
        e = Element.from_tag(node)
        t1 = e.inner_text
        _ = str(e); _ = e.text_recursive; _ = e.get_formatted_text(ctx_dict(doc, False)); _ = e.search("a"); _ = e.replace("a")
        _ = e.replace("a", formatted=True); _ = e.replace(" +", None, True)        # count-only, in the non-default mode too
        t2 = e.inner_text
        after = abs_items(node, al)
        cases.append("Para %s %s %s %s" % (before, after, al.s(t1), al.s(t2)))
    nt = 0
    for tnode in root.iter(TB + "table"):
        if nt >= (3 if tier == "quick" else 8):
            break
        if not table_small(tnode, 200):
            continue
        nt += 1
        t = Element.from_tag(tnode)
        before = abs_table(tnode)
        try:
            with_timeout(lambda: md_call(doc, t), CALL_TIMEOUT)
        except Exception:
            pass
        amd = abs_table(tnode)
        try:
            with_timeout(lambda: t.get_formatted_text(ctx_dict(doc, True)), CALL_TIMEOUT)
        except Exception:
            pass
        arst = abs_table(tnode)
        try:
            with_timeout(lambda: (t.to_csv(), str(t)), CALL_TIMEOUT)
        except Exception:
            pass
        acsv = abs_table(tnode)
        # fidelity of the model of optimize_width: what the implementation's optimize_width does to a copy
        try:
            c = t.clone
            with_timeout(lambda: c.optimize_width(), CALL_TIMEOUT)
            shrunk = abs_table(priv(c))
        except Exception:
            shrunk = "[]"
        cases.append("Tab %s %s %s %s %s" % (before, amd, arst, acsv, shrunk))
    return cases


# ------------------------------------------------------------------------------------------------ main

def sources(tier, seed):
    out = []
    for name in ("text", "spreadsheet", "presentation", "drawing"):
        out.append(dict(id="template:" + name, kind="template", name=name))
    samples = sorted(p for p in (common.REPO / "tests" / "samples").iterdir() if p.suffix in (".odt", ".ods", ".odp", ".odg", ".ott", ".ots"))
    skipped = [p.name for p in samples if p.name in BIG]
    samples = [p for p in samples if p.name not in BIG]
    if tier == "quick":        # big.ods (3.8 MB of content.xml): thorough tier only, under its CPU budget
        skipped += [p.name + " (quick tier)" for p in samples if p.name in QUICK_SKIP]
        samples = [p for p in samples if p.name not in QUICK_SKIP]
    for p in samples:
        out.append(dict(id="sample:" + p.name, kind="sample", path=str(p)))
    ngen = 3 if tier == "quick" else 8
    for i in range(ngen):
        out.append(dict(id="generated:text:%d" % i, kind="generated", spec=dict(gen="text", seed=seed * 1000 + i)))
        out.append(dict(id="generated:sheet:%d" % i, kind="generated", spec=dict(gen="sheet", seed=seed * 1000 + i)))
    # documents whose OPTIONAL containers are absent (a getter that creates one is a writer)
    for name in ("text", "spreadsheet", "presentation"):
        out.append(dict(id="generated:sparse:" + name, kind="generated", spec=dict(gen="template", name=name, sparse=True, seed=0)))
    for i in range(1 if tier == "quick" else 3):
        out.append(dict(id="generated:sparse:rawtext:%d" % i, kind="generated", spec=dict(gen="rawtext", seed=seed * 1000 + 50 + i, sparse=True)))
    nraw = 3 if tier == "quick" else 6
    for i in range(nraw):
        out.append(dict(id="generated:rawtext:%d" % i, kind="generated", spec=dict(gen="rawtext", seed=seed * 1000 + i)))
        out.append(dict(id="generated:rawsheet:%d" % i, kind="generated", spec=dict(gen="rawsheet", seed=seed * 1000 + i)))
    return out, skipped


def _empty_result(src, failures):
    return dict(id=src["id"], calls_by_cover={}, failures=failures, budget_exhausted=False, entries_done=0, calls=0, distinct=[], timeouts=0, exceptions=0, entries=0, skipped=[], hist={}, cases=[], reloads=0)


def worker_main(job_file, out_file):
    """one document in one interpreter (a reader that crashes the interpreter cannot take the whole check down)"""
    job = json.load(open(job_file))
    try:
        res = run_document(job["src"], job["tier"], job["seed"], job["only"])
    except Exception:
        res = _empty_result(job["src"], [dict(kind="harness", key="harness/%s" % job["src"]["id"], detail=traceback.format_exc()[-600:], source=job["src"])])
    res["cpu_s"] = round(time.process_time(), 1)
    Path(out_file).write_text(json.dumps(res, default=list))


def run_jobs(jobs, tier):
    """subprocess per document, at most 14 at a time, each under a time limit; a lost worker is retried once"""
    import subprocess
    tmp = common.WORK / ("c15-%d" % os.getpid())
    if tmp.exists():
        import shutil; shutil.rmtree(tmp)
    tmp.mkdir(parents=True)
    limit = 600 if tier == "quick" else 1500
    pending = []
    for i, (src, t, seed, only) in enumerate(jobs):
        jf = tmp / ("job_%d.json" % i)
        jf.write_text(json.dumps(dict(src=src, tier=t, seed=seed, only=only)))
        pending.append((i, 0))
    results, lost, running = {}, [], []
    env = common.repo_env()
    while pending or running:
        while pending and len(running) < 14:
            i, attempt = pending.pop(0)
            out = tmp / ("out_%d.json" % i)
            if out.exists():
                out.unlink()
            p = subprocess.Popen([common.PY, str(Path(__file__).resolve()), "--worker", str(tmp / ("job_%d.json" % i)), str(out)],
                                 env=env, stdout=subprocess.DEVNULL, stderr=subprocess.PIPE, text=True)
            running.append((i, attempt, p, time.time(), out))
        still = []
        for i, attempt, p, t0, out in running:
            rc = p.poll()
            if rc is None:
                if time.time() - t0 > limit:
                    p.kill(); p.wait()
                    rc = -9
                else:
                    still.append((i, attempt, p, t0, out)); continue
            if rc == 0 and out.exists():
                results[i] = json.loads(out.read_text())
            elif attempt == 0:
                pending.append((i, 1))
            else:
                err = (p.stderr.read() or "")[-400:] if p.stderr else ""
                lost.append("document %s: worker lost twice (rc=%s) %s" % (jobs[i][0]["id"], rc, err))
                results[i] = _empty_result(jobs[i][0], [])
        running = still
        if running:
            time.sleep(0.1)
    import shutil; shutil.rmtree(tmp, ignore_errors=True)
    return [results[i] for i in range(len(jobs))], lost


def run(tier, seed, replay=None):
    t0 = time.time()
    proofs = common.build_proofs("C15")
    common.use_repo()
    known = {e["key"]: e for e in common.known_findings(PROP)}
    srcs, skipped_big = sources(tier, seed)
    corpus = []
    for f in sorted((common.ROOT / "corpus" / PROP).glob("*.json")):
        corpus.append(json.load(open(f))["case"])
    jobs = []
    if replay:
        case = json.load(open(replay))["case"]
        jobs = [(case["source"], tier, seed, case if "call" in case else None)]
    else:
        jobs = [(c["source"], tier, seed, c) for c in corpus] + [(s, tier, seed, None) for s in srcs]
    results, lost = run_jobs(jobs, tier)
    cases, owner = [], []
    for i, r in enumerate(results):
        for c in r["cases"]:
            cases.append(c); owner.append(i)
    bad, errors = common.run_shards(HEADER, cases, "chk", "c15", shard=200) if cases else ({}, [])
    violations, known_seen, reported = [], [], set()
    fidelity = sum(1 for c in bad.values() if c == 4)

    def report(key, payload):
        if key in reported:
            return
        reported.add(key)
        if key in known:
            known_seen.append("%s (%s)" % (key, known[key]["description"][:120]))
            return
        if len(violations) >= 15:
            return
        rp = common.write_replay(PROP, seed, re.sub(r"[^A-Za-z0-9_.-]+", "_", key)[:90], payload)
        violations.append((rp, False))

    nfail = 0
    for r in results:
        for f in r["failures"]:
            if f["kind"] in ("harness", "open-failed", "abstraction"):
                # the harness itself could not work on this document (environment, import error): not a verdict on the
                # property -- reported as a correspondence failure (no failing input), never as a violation of C15
                lost.append("%s: %s" % (f["key"], f["detail"][-300:]))
                continue
            nfail += 1
            report(f["key"], dict(layer="snapshot-diff (testing): " + f["kind"], key=f["key"], detail=f["detail"],
                                  case=f.get("case") or dict(source=f.get("source")), known_finding_key=None))
    for ci, code in sorted(bad.items()):
        if code == 4:
            continue
        src = jobs[owner[ci]][0]
        kind = "Para" if cases[ci].startswith("Para") else "Tab"
        key = "modelled-read/%s/%s" % ({1: "state-changed", 3: "second-answer-differs"}[code], "paragraph.inner_text" if kind == "Para" else "table-exporters")
        report(key, dict(layer="modelled read evaluated in Coq (code %d)" % code, key=key, detail=cases[ci][:600],
                         case=dict(source=src), known_finding_key=None))
    violations += common.proof_violation(PROP, seed, proofs, errors + lost, bool(violations))
    distinct = set()
    for r in results:
        distinct.update(r["distinct"])
    skipped_names = set()
    for r in results:
        skipped_names.update(r["skipped"])
    hist = {}
    for r in results:
        for k, v in r["hist"].items():
            hist[k] = hist.get(k, 0) + v
    calls = sum(r["calls"] for r in results)
    covered, testing_only = {}, 0
    for d in distinct:
        cname, _, label = d.partition(".")
        th = theorem_for(cname, label)
        if th:
            covered[th] = covered.get(th, 0) + 1
        else:
            testing_only += 1
    calls_cover = {}
    for r in results:
        for k, v in r.get("calls_by_cover", {}).items():
            calls_cover[k] = calls_cover.get(k, 0) + v
    samples = []
    for r in results:
        if r["distinct"] and len(samples) < 3:
            samples.append(dict(document=r["id"], entry_points=r["distinct"][:6]))
    coverage = dict(
        trusted_base=["lxml C14N of the in-memory trees reached through the private fields _Document__xmlparts / _XmlPart__tree / _Container__parts, zipfile for the bytes on disk: the snapshot is independent of odfdo's serializer",
                      "the classification of an entry point as read-only is by NAME (get_*, is_*, search*, match, to_*, as_*, show_*, serialize, traverse, __str__, __repr__, clone ... and every property getter) plus the explicit list in harness/c15.py",
                      "modelled in Readers.v / WS.v: Element.inner_text on paragraphs with span/a/s/tab/line-break content; Table.optimize_width on run-length rows (trim_rows, minimized_width, force_width) as called by MDTable._md_format"],
        partial=True,
        level_note="TESTING, not proof, for the unmodelled readers: snapshot-diff over documents x introspected entry points; only the paragraph reads of WS.v and the table exporters' effect on the live table are theorems (C15.v)",
        proved=["paragraph reads (WS.v): C15_read_pure, C15_deterministic, C15_reads_in_any_order",
                "table reads and getters through the wrapper caches (TableB.v, the C02/C08 read alphabet): C15_table_reads_pure, C15_table_reads_in_any_order -- Coh kept, XML runs unchanged, answer repeats",
                "exporters that are functions of a table read (to_csv, str, plain text): C15_table_export_pure; Markdown / RST exporters' effect on the live table: C15_md_fixed_pure, C15_rst_pure, C15_md_refuted (F20, pinned), C15_md_pinned_repeatable_small",
                "tree searches and count-only replace (Tree.v, re abstract): C15_tree_reads_pure; replace with a replacement is a write: C15_tree_replace_is_a_write",
                "Document.get_part of XML parts (Package.v, repaired code): C15_package_reads_pure -- bytes and trees of every part unchanged, WFd kept, answer repeats",
                "Document.get_style (Styles.v): C15_style_lookup_pure; heading listing / TOC entries (Toc.v): C15_heading_listing_pure",
                "all of them side by side, any history of valid reads in any order: C15_modelled_reads_pure (ReadFam.family_run over the product family)"],
        not_proved=["every other read-only entry point (see entry_points_testing_only): element finders get_*, properties of the ~90 element classes, Meta export, show_styles, to_markdown of non-table content, get_formatted_text of non-table content, serialize: exercised by the snapshot-diff harness, not proved",
                    "that the Python entry points tagged in entry_points_by_theorem ARE the Gallina reads is the business of the owning properties' correspondences (C02/C08, C16, C03, C13); here only the paragraph reads and the table exporters are tied by Coq-evaluated cases"],
        evaluations=calls + len(cases), distinct_nontrivial=len(distinct),
        entry_points_covered_by_a_theorem=sum(covered.values()), entry_points_testing_only=testing_only,
        entry_points_by_theorem=dict(sorted(covered.items())), first_pass_calls_by_cover=calls_cover,
        rule="documents: 4 templates, every sample (minus %s: ~10^6 declared rows), %d generated text documents and %d generated sheets with trailing empty / repeated rows and cells; "
             "objects per document: the document, body, meta, styles/content/manifest/settings parts, the first tables (first and last row, first cell), the first element(s) of every tag; "
             "plus %d raw-XML text documents and %d raw-XML sheets NOT in odfdo's canonical shape (double spaces / tabs / newlines in text nodes, space before a span, blank spans, tight and padded ragged tables with explicit trailing empty cells); "
             "per object: every property + every method whose name matches the read pattern, with standard arguments for required parameters and with every boolean keyword flipped one at a time + the explicit argument list; every call twice, then again in %d shuffled order(s); snapshot compared after EVERY call. "
             "distinct_nontrivial = distinct (class, entry point) pairs that returned normally at least once"
             % (sorted(BIG), sum(1 for s in srcs if s["id"].startswith("generated:text")), sum(1 for s in srcs if s["id"].startswith("generated:sheet")),
                sum(1 for s in srcs if s["id"].startswith("generated:rawtext")), sum(1 for s in srcs if s["id"].startswith("generated:rawsheet")), 1 if tier == "quick" else 2),
        samples=samples, documents=len(jobs), big_sheets_skipped=skipped_big, calls=calls, coq_cases=len(cases),
        objects_by_kind=dict(sorted(hist.items())), timeouts=sum(r["timeouts"] for r in results), reader_exceptions=sum(r["exceptions"] for r in results),
        slowest_documents=sorted(((r.get("cpu_s", 0), r["id"]) for r in results), reverse=True)[:5], documents_lost=lost, documents_cut_by_cpu_budget=[dict(document=r["id"], entries_done=r.get("entries_done"), entries=r["entries"]) for r in results if r.get("budget_exhausted")],
        reloads_after_mutation=sum(r["reloads"] for r in results), failures=nfail, fidelity_divergences=fidelity,
        public_methods_not_classified_read_only=len(skipped_names), not_classified_sample=sorted(skipped_names)[:40],
        corpus_cases=len(corpus), known_findings_reobserved=known_seen, exhaustive=False)
    return common.finish(PROP, tier, seed, proofs, coverage, violations, known_seen, t0,
                         assumptions=["a reader that raises is not a violation as long as the document is unchanged",
                                      "loading a part lazily (container cache None -> bytes, XmlPart tree parsed) is not a change: the snapshot compares the logical content of each part",
                                      "answers are compared through a normal form (elements by C14N, containers recursively, object addresses masked)"])


if __name__ == "__main__":
    if len(sys.argv) > 3 and sys.argv[1] == "--worker":
        worker_main(sys.argv[2], sys.argv[3])
    else:
        common.main(run)
