(* C14 — XML attribute escaping read back *)
From Coq Require Import List NArith Bool Lia Arith.
Import ListNotations.
Require Import XPathLit XPathLitproof.
Open Scope N_scope.

Lemma read_special (c : chr) f rest acc :
  In c [38; 60; 62; 34; 9; 10; 13] ->
  xml_attr_read (S f) (xml_escape_char c ++ rest) acc = xml_attr_read f rest (c :: acc).
Proof.
  intros H. cbn [In] in H.
  repeat (destruct H as [<-|H]; [reflexivity|]). contradiction.
Qed.

Lemma read_plain (c : chr) f rest acc :
  ~ In c [38; 60; 62; 34; 9; 10; 13] ->
  xml_attr_read (S f) (xml_escape_char c ++ rest) acc = xml_attr_read f rest (c :: acc).
Proof.
  intros H. cbn [In] in H.
  assert (E : forall k, (k = c -> False) -> (c =? k) = false) by (intros k Hk; apply N.eqb_neq; congruence).
  unfold xml_escape_char.
  rewrite (E 38), (E 60), (E 62), (E 34), (E 9), (E 10), (E 13) by tauto.
  cbn [app xml_attr_read]. rewrite (E 34), (E 60), (E 38) by tauto. reflexivity.
Qed.

Lemma in_dec_special (c : chr) : {In c [38; 60; 62; 34; 9; 10; 13]} + {~ In c [38; 60; 62; 34; 9; 10; 13]}.
Proof. apply in_dec. apply N.eq_dec. Qed.

Lemma read_escape : forall v fuel rest acc, (length v < fuel)%nat ->
  xml_attr_read fuel (xml_attr_escape v ++ 34 :: rest) acc = Some (rev acc ++ v, rest).
Proof.
  induction v as [|c v IH]; intros fuel rest acc Hf.
  - destruct fuel as [|f]; [cbn in Hf; lia|]. cbn [xml_attr_escape app xml_attr_read]. rewrite N.eqb_refl.
    now rewrite app_nil_r.
  - destruct fuel as [|f]; [cbn in Hf; lia|]. cbn [xml_attr_escape]. rewrite <- app_assoc.
    destruct (in_dec_special c) as [H|H].
    + rewrite read_special by exact H. rewrite IH by (cbn [length] in Hf; lia). cbn [rev]. now rewrite <- app_assoc.
    + rewrite read_plain by exact H. rewrite IH by (cbn [length] in Hf; lia). cbn [rev]. now rewrite <- app_assoc.
Qed.

Lemma escape_char_length c : (1 <= length (xml_escape_char c))%nat.
Proof. unfold xml_escape_char. repeat (destruct (c =? _); [cbn; lia|]). cbn; lia. Qed.

Lemma escape_length v : (length v <= length (xml_attr_escape v))%nat.
Proof. induction v as [|c v IH]; [cbn; lia|]. cbn [xml_attr_escape length]. rewrite app_length.
  pose proof (escape_char_length c). lia. Qed.

Theorem xml_roundtrip v : xml_unescape (xml_attr_escape v) = Some v.
Proof.
  unfold xml_unescape. rewrite read_escape by (pose proof (escape_length v); lia). reflexivity.
Qed.

(* the escaped text contains neither a double quote nor a less-than sign: it cannot end the attribute or open a tag *)
Lemma escape_char_no (k c : chr) : k = 34 \/ k = 60 -> has k (xml_escape_char c) = false.
Proof.
  intros Hk. unfold xml_escape_char.
  destruct (c =? 38); [destruct Hk; subst; reflexivity|]. destruct (c =? 60) eqn:E60; [destruct Hk; subst; reflexivity|].
  destruct (c =? 62); [destruct Hk; subst; reflexivity|]. destruct (c =? 34) eqn:E34; [destruct Hk; subst; reflexivity|].
  destruct (c =? 9); [destruct Hk; subst; reflexivity|]. destruct (c =? 10); [destruct Hk; subst; reflexivity|].
  destruct (c =? 13); [destruct Hk; subst; reflexivity|].
  unfold has. cbn [existsb]. rewrite orb_false_r. destruct Hk; subst; rewrite N.eqb_sym; assumption.
Qed.
Lemma escape_no (k : chr) v : k = 34 \/ k = 60 -> has k (xml_attr_escape v) = false.
Proof.
  intros Hk. induction v as [|c v IH]; [reflexivity|].
  change (xml_attr_escape (c :: v)) with (xml_escape_char c ++ xml_attr_escape v).
  unfold has in *. rewrite existsb_app. apply orb_false_iff. split; [apply (escape_char_no k c Hk)|exact IH].
Qed.
