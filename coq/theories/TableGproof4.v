(* TableGproof4.v — C08 for the expanding loops on EVERY well-formed run list: Row.traverse(start, end) and
   traverse_columns(start, end) return exactly the positions max(0,start) .. min(end, width-1), in order, each stamped with
   its own position, without a repeat, holding the item of that position of the expansion. *)
From Coq Require Import List ZArith Lia Bool Arith.
Import ListNotations.
Require Import Vault Vaultproof Vaultproof2 Vaultproof3 Vaultproof4 Vaultproof5 Row Table Grid Tableabs Tableproof8 TableB TableBproof TableG TableGspec TableGproof TableGproof2.
Open Scope Z_scope.

Definition zrange (a : Z) (n : nat) : list Z := map (fun d : nat => a + Z.of_nat d) (seq 0 n).
Lemma zint_zrange a b : zint a b = zrange a (Z.to_nat (b - a + 1)).
Proof. reflexivity. Qed.
Lemma zrange_length a n : length (zrange a n) = n.
Proof. unfold zrange. now rewrite map_length, seq_length. Qed.
Lemma map_seq_shift {B} (f : nat -> B) m : forall n, map f (seq n m) = map (fun d => f (n + d)%nat) (seq 0 m).
Proof.
  revert f; induction m as [|m IH]; intros f n; [reflexivity|]. cbn [seq map]. rewrite Nat.add_0_r. f_equal.
  rewrite (IH f (S n)), (IH (fun d => f (n + d)%nat) 1%nat). apply map_ext. intros d. f_equal. lia.
Qed.
Lemma zrange_app a n m : zrange a (n + m) = zrange a n ++ zrange (a + Z.of_nat n) m.
Proof.
  unfold zrange. rewrite seq_app, map_app. f_equal. cbn [Nat.add].
  rewrite map_seq_shift. apply map_ext. intros d. lia.
Qed.
Lemma zrange_S a n : zrange a (S n) = a :: zrange (a + 1) n.
Proof. change (S n) with (1 + n)%nat. rewrite zrange_app. cbn. f_equal. now rewrite Z.add_0_r. Qed.
Lemma nth_zrange n : forall a d, (d < n)%nat -> nth d (zrange a n) 0 = a + Z.of_nat d.
Proof.
  induction n as [|n IH]; intros a d H; [lia|]. rewrite zrange_S. destruct d as [|d]; cbn [nth]; [lia|].
  rewrite IH by lia. lia.
Qed.

Section TO.
Variable A : Type.
Notation triple := (Z * nat * A)%type.
Definition xs_of (l : list triple) : list Z := map (fun p => fst (fst p)) l.
Definition pay_of (l : list triple) : list A := map (fun p => snd p) l.

Lemma map_const_seq {B} (c : B) k : forall s, map (fun _ : nat => c) (seq s k) = repeat c k.
Proof. induction k; intros s; cbn; [reflexivity|]. now rewrite IHk. Qed.

Lemma trav_objs_pay late : forall (m : list Z) (v : runs A) x en before start,
  pay_of (trav_objs late x en before start m v) = trav x en before m v.
Proof.
  induction m as [|juska m IH]; intros [|[n c] v] x en before start; try reflexivity.
  cbn [trav_objs trav]. unfold pay_of in *. rewrite map_app, map_map. cbn [snd]. rewrite map_const_seq. f_equal. apply IH.
Qed.
Lemma trav_objs_xs late : forall (m : list Z) (v : runs A) x en before start,
  xs_of (trav_objs late x en before start m v) = zrange x (length (trav_objs late x en before start m v)).
Proof.
  induction m as [|juska m IH]; intros [|[n c] v] x en before start; try reflexivity.
  cbn [trav_objs]. unfold xs_of in *. rewrite map_app, map_map, app_length, map_length, seq_length. cbn [fst].
  rewrite zrange_app. f_equal. apply IH.
Qed.

(* a list of triples is determined by its three projections *)
Lemma triples_ext (l : list triple) : Forall (fun p => snd (fst p) = 1%nat) l ->
  l = map (fun p : Z * A => (fst p, 1%nat, snd p)) (combine (xs_of l) (pay_of l)).
Proof.
  induction 1 as [|[[x r] a] l Hr Hl IH]; [reflexivity|]. cbn [xs_of pay_of map combine fst snd] in *. subst r. f_equal. exact IH.
Qed.

(* the slice of the expansion a bounded traversal covers *)
Definition vt_lo (s : option Z) : Z := Z.max 0 (match s with Some s0 => s0 | None => 0 end).
Definition vt_hi (e : option Z) (v : runs A) : Z := match e with Some e0 => e0 | None => Z.of_nat (width v) - 1 end.
Definition vt_slice (s e : option Z) (v : runs A) : list A :=
  firstn (Z.to_nat (vt_hi e v + 1 - vt_lo s)) (skipn (Z.to_nat (vt_lo s)) (expand v)).

Theorem vault_traverse_spec (v : runs A) s e : wf v ->
  vault_traverse false s e v =
  map (fun p : Z * A => (fst p, 1%nat, snd p)) (combine (zrange (vt_lo s) (length (vt_slice s e v))) (vt_slice s e v)).
Proof.
  intros Hwf.
  assert (Hpay : pay_of (vault_traverse false s e v) = vt_slice s e v).
  { unfold vault_traverse, vt_slice. fold (vt_lo s). rewrite hmap_cmap.
    change (match e with Some e0 => e0 | None => Z.of_nat (width v) - 1 end) with (vt_hi e v).
    rewrite <- (traverse_range_spec v (vt_lo s) (vt_hi e v) Hwf) by (unfold vt_lo; lia).
    unfold traverse_range. destruct (find_idx (cmap v) (vt_lo s)); [apply trav_objs_pay|reflexivity]. }
  assert (Hxs : xs_of (vault_traverse false s e v) = zrange (vt_lo s) (length (vault_traverse false s e v))).
  { unfold vault_traverse. fold (vt_lo s). destruct (find_idx (cmap v) (vt_lo s)); [apply trav_objs_xs|reflexivity]. }
  rewrite (triples_ext _ (vault_traverse_reps v s e Hwf)) at 1. rewrite Hxs, Hpay.
  replace (length (vault_traverse false s e v)) with (length (vt_slice s e v)); [reflexivity|].
  rewrite <- Hpay. unfold pay_of. now rewrite map_length.
Qed.

Lemma vt_slice_length s e (v : runs A) :
  length (vt_slice s e v) = Z.to_nat (Z.min (vt_hi e v) (Z.of_nat (width v) - 1) - vt_lo s + 1).
Proof.
  unfold vt_slice. rewrite firstn_length, skipn_length. fold (width v). unfold vt_lo. lia.
Qed.
Lemma vt_slice_nth s e (v : runs A) d dflt : (d < length (vt_slice s e v))%nat ->
  nth d (vt_slice s e v) dflt = nth (Z.to_nat (vt_lo s) + d) (expand v) dflt.
Proof.
  intros Hd. unfold vt_slice in *. rewrite firstn_length in Hd.
  rewrite Tableproof8.nth_firstn_lt by lia. apply Tableproof8.nth_skipn'.
Qed.
End TO.
Arguments xs_of {A}. Arguments pay_of {A}. Arguments vt_lo : clear implicits. Arguments vt_hi {A}. Arguments vt_slice {A}.
Arguments vault_traverse_spec {A}. Arguments vt_slice_length {A}. Arguments vt_slice_nth {A}.
