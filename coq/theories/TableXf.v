(* TableXf.v — whole-table transformations as steps of the C01 / C07 histories (definitions only): rstrip(aggressive),
   optimize_width(), transpose() with the model of C17 (Transform.v, on the same state type), Row.rstrip through a live
   row handle, mixed with the first alphabet. *)
From Coq Require Import List ZArith Bool Arith.
Import ListNotations.
Require Import Vault Row Table Transform.
Local Open Scope Z_scope.

Inductive fop :=
| F1 (o : top)
| FRstrip (aggr : bool)                (* Table.rstrip(aggressive) *)
| FOptimize                            (* Table.optimize_width() *)
| FTranspose                           (* Table.transpose() *)
| FRowRstrip (y : Z) (aggr : bool).    (* table.get_row(y, clone=False).rstrip(aggressive): the stored run loses its trailing empty cells *)

Definition t_row_rstrip (a : calg) (y : Z) (aggr : bool) (t : tstate) : option tstate :=
  let y := ny y t in
  if theight t <=? y then Some t
  else match find_idx (cmap (rows t)) y with
       | None => None
       | Some i => match nth_error (rows t) i with
                   | None => None
                   | Some (rep, (st, cs)) =>
                       Some {| cols := cols t; rows := firstn i (rows t) ++ (rep, (st, row_rstrip a aggr cs)) :: skipn (S i) (rows t) |}
                   end
       end.
Definition f_step (a : calg) (t : tstate) (o : fop) : option tstate :=
  match o with
  | F1 o' => t_step t o'
  | FRstrip aggr => Some (t_rstrip a aggr t)
  | FOptimize => t_optimize_width a true t
  | FTranspose => Some (t_transpose t)
  | FRowRstrip y aggr => t_row_rstrip a y aggr t
  end.
