(* Transformchk.v — the checker evaluated by vm_compute on every correspondence step of property C17.
   One observation = the raw lxml abstraction of the implementation's table before and after ONE call of the
   transformation alphabet, what the call returned / whether it raised, the private maps after it, the matrix
   get_values() answered after it, and the (interned) attributes of the table element before and after.  No proofs. *)
From Coq Require Import List ZArith NArith Bool Arith.
Import ListNotations.
Require Import Vault Row Table Grid Tableabs Tablexml Tablechk Transform Transformspec.
Local Open Scope Z_scope.

Inductive xobs := XO (o : xop) (post : xtable) (raised ret : bool) (tm cm : list Z) (rmaps : list (nat * list Z))
                     (vals : option (list (list Z))) (ta_pre ta_post : Z).

Definition row_styles (t : tstate) : list Z := map (fun r : rowx => fst r) (expand (rows t)).

Section Chk.
Variable a : calg.
Variable vcl : Z -> Z.

(* the property's law for one call, on the grids before and after *)
Definition law (o : xop) (ret : bool) (pre post : gridT) : bool :=
  match o with
  | XTranspose => transpose_law pre post
  | XTransposeArea x y z t => transpose_area_law x y z t pre post
  | XRstrip aggr => strip_law a aggr aggr pre post && rstrip_maximal a aggr post && nonempty_kept a aggr pre post
  | XOptimize => strip_law a false true pre post && optimize_rows_ok a pre post && nonempty_kept a true pre post
  | XSetSpan x y z t m _ => if m then set_span_merge_law a x y z t ret pre post else set_span_law a x y z t ret pre post
  | XDelSpan x y => del_span_law a x y ret pre post
  | XCore _ => true
  end.
(* span calls rewrite cells only: the style of every row that existed stays (rows may be added below) *)
Definition rowstyles_ok (o : xop) (pre post : tstate) : bool :=
  match o with
  | XSetSpan _ _ _ _ _ _ | XDelSpan _ _ =>
      zl_eqb (firstn (length (row_styles pre)) (row_styles post)) (row_styles pre)
  | _ => true
  end.
(* the algebra tables of the harness are consistent on the cells the call touches *)
Definition alg_ok_for (o : xop) (g : gridT) : bool :=
  match o with
  | XSetSpan x y z t m _ =>
      forallb (forallb (fun c : cell => alg_cell_ok a (z - x + 1) (t - y + 1) (fst c))) (g_area_cells x y z t g) &&
      (if m then
         let mid := merge_mid a (g_area_cells x y z t g) in
         alg_cell_ok a (z - x + 1) (t - y + 1) 0 && negb (ca_cov a 0) &&
         (if existsb (existsb (contributes a)) (g_area_cells x y z t g)
          then alg_cell_ok a (z - x + 1) (t - y + 1) mid && negb (ca_cov a mid) else true)
       else true)
  | XDelSpan x y =>
      match ca_cs a (fst (gcell x y g)), ca_rs a (fst (gcell x y g)) with
      | Some nc, Some nr => forallb (forallb (fun c : cell => alg_tag_ok a (fst c))) (g_area_read x y (x + nc - 1) (y + nr - 1) g)
      | _, _ => true end
  | _ => true
  end.

(* 0 agree | 6 the property's law is false on (before, after) | 12 the attributes of the table element changed
   | 13 a span call changed a row style | 5 a private map is not the map of the XML | 4 get_values() is not the grid
   | 10 the call raised | 2 the grid after the call / the returned boolean is not the model's | 11 outside the fragment
   | 3 the model fails | 8 the model's grid is not the grid meaning of the call (a theorem instance)
   | 14 the harness's cell algebra tables are inconsistent | 9 only the exact run-length shape differs *)
Definition chk_x (pre : xtable) (ob : xobs) : nat :=
  let '(XO o post raised ret tm cm rmaps vals ta tb) := ob in
  if negb (in_fragment pre && in_fragment post) then 11%nat
  else if raised then 10%nat
  else
    let tpre := to_tstate pre in let tpost := to_tstate post in
    let gpre := abs_t tpre in let gpost := abs_t tpost in
    if negb (alg_ok_for o gpre) then 14%nat
    else if negb (law o ret gpre gpost) then 6%nat
    else if negb (ta =? tb) then 12%nat
    else if negb (maps_ok tpost tm cm rmaps) then 5%nat
    else if negb (match vals with Some m => ans_eqb vcl (g_read gpost QValues) (AMatrix m) | None => true end) then 4%nat
    else match x_step a true tpre o with
         | None => 3%nat
         | Some (tm', r') =>
           if negb (ggrid_eqb (abs_t tm') gpost && Bool.eqb r' ret) then 2%nat
           else if (match gx_step a gpre o with
                    | Some (g', r'') => negb (ggrid_eqb g' (abs_t tm') && Bool.eqb r'' r')
                    | None => false end) then 8%nat
           else if tstate_eqb tm' tpost then 0%nat else 9%nat
         end.

(* 13: a span call changed a row style.  Judged beside chk_x and without stopping the history (the known finding F120
   must not hide what follows it) *)
Definition rowstyle_bad (pre : xtable) (ob : xobs) : bool :=
  let '(XO o post raised ret tm cm rmaps vals ta tb) := ob in
  in_fragment pre && in_fragment post && negb raised && negb (rowstyles_ok o (to_tstate pre) (to_tstate post)).

(* laws that relate two consecutive calls: 7 = false
   rstrip(a); rstrip(a) and optimize_width; optimize_width: the second call changes nothing (idempotence);
   set_span(area) answered true; del_span(its first cell) answered true: the table reads as before the pair;
   transpose; transpose: the rectangular closure of the matrix before the pair *)
Definition pair_law (o1 : xop) (r1 : bool) (pre1 : xtable) (o2 : xop) (r2 : bool) (pre2 post2 : xtable) : bool :=
  match o1, o2 with
  | XRstrip a1, XRstrip a2 => if Bool.eqb a1 a2 then tstate_eqb (to_tstate pre2) (to_tstate post2) else true
  | XOptimize, XOptimize => tstate_eqb (to_tstate pre2) (to_tstate post2)
  | XSetSpan x y _ _ false _, XDelSpan x' y' =>
      if r1 && r2 && (x =? x') && (y =? y') then padded_eqb (abs_t (to_tstate pre1)) (abs_t (to_tstate post2)) else true
  | XTranspose, XTranspose => ggrid_eqb (abs_t (to_tstate post2)) (rect_closure (abs_t (to_tstate pre1)))
  | _, _ => true
  end.
Definition ob_op (ob : xobs) : xop := let '(XO o _ _ _ _ _ _ _ _ _) := ob in o.
Definition ob_post (ob : xobs) : xtable := let '(XO _ p _ _ _ _ _ _ _ _) := ob in p.
Definition ob_ret (ob : xobs) : bool := let '(XO _ _ _ r _ _ _ _ _ _) := ob in r.
Definition ob_raised (ob : xobs) : bool := let '(XO _ _ ra _ _ _ _ _ _ _) := ob in ra.

(* first hard code of a history as 100*(step+1)+code; otherwise the first row-style change as 100*(step+1)+13;
   otherwise 9 if only the exact shape differed somewhere; 0 otherwise *)
Definition weaker (w k : nat) : nat := match w with O | 9%nat => k | _ => w end.
Fixpoint chk_xhist (pre : xtable) (prev : option (xop * bool * xtable)) (i weak : nat) (l : list xobs) : nat :=
  match l with
  | [] => weak
  | ob :: r =>
    let post := ob_post ob in
    let pl := match prev with
              | Some (o1, r1, pre1) =>
                  if ob_raised ob then true
                  else if in_fragment pre1 && in_fragment pre && in_fragment post
                  then pair_law o1 r1 pre1 (ob_op ob) (ob_ret ob) pre post else true
              | None => true end in
    let weak1 := if rowstyle_bad pre ob then weaker weak (100 * (S i) + 13)%nat else weak in
    match chk_x pre ob with
    | O => if pl then chk_xhist post (Some (ob_op ob, ob_ret ob, pre)) (S i) weak1 r else (100 * (S i) + 7)%nat
    | 9%nat => if pl then chk_xhist post (Some (ob_op ob, ob_ret ob, pre)) (S i) (match weak1 with O => 9%nat | w => w end) r
               else (100 * (S i) + 7)%nat
    | k => (100 * (S i) + k)%nat
    end
  end.
End Chk.

Definition xcase := (list (Z * cinfo) * list (Z * Z * Z * Z) * list (list Z * Z) * list (Z * Z) * xtable * list xobs)%type.
Definition chk17 (c : xcase) : nat :=
  let '(ctab, stab, jtab, vtab, init, l) := c in
  chk_xhist (alg_of ctab stab jtab) (vcl_of vtab) init None 0 0 l.

(* CSV round trip, at value level: the matrix get_values() would answer (value classes of the abstracted XML, rows
   completed to the declared width) before to_csv and after import_from_csv.  CSV has no null: an empty cell inside a
   row comes back as the empty string; the two are identified (blank = the value class of "").
   0 agree | 10 raised | 6 a value changed or the number of rows changed *)
Definition value_matrix (vcl : Z -> Z) (x : xtable) : list (list Z) :=
  match g_read (abs_t (to_tstate x)) QValues with AMatrix m => map (map vcl) m | _ => [] end.
Definition csv_case := (list (Z * Z) * Z * xtable * xtable * bool)%type.
Definition chk_csv (c : csv_case) : nat :=
  let '(vt, blank, pre, post, raised) := c in
  if raised then 10%nat else
  let norm v := if v =? blank then 0 else v in
  let m := value_matrix (vcl_of vt) pre in let m' := value_matrix (vcl_of vt) post in
  let w := Nat.max (fold_left (fun acc r => Nat.max acc (length r)) m 0%nat) (fold_left (fun acc r => Nat.max acc (length r)) m' 0%nat) in
  if (length m =? length m')%nat &&
     forallb (fun y => forallb (fun x => norm (nth x (nth y m []) 0) =? norm (nth x (nth y m' []) 0)) (seq 0 w)) (seq 0 (length m))
  then 0%nat else 6%nat.
