(* Transformproof14.v — the decidable laws that the correspondence checker evaluates (Transformspec.transpose_law,
   set_span_law) are theorems of the grid meaning: the predicate checked on the implementation is the one proved. *)
From Coq Require Import List ZArith Lia Bool Arith.
Import ListNotations.
Require Import Vault Vaultproof Row Table Grid Tableabs Tableproof Transform Transformspec Transformproof4 Transformproof7
               Transformproof8 Transformchk.
Open Scope Z_scope.

Lemma cell_eqb_refl c : cell_eqb c c = true.
Proof. unfold cell_eqb. rewrite !Z.eqb_refl. reflexivity. Qed.
Lemma forallb_zrange (f : Z -> bool) s n : (forall v, s <= v < s + Z.of_nat n -> f v = true) -> forallb f (zrange s n) = true.
Proof. intros H. apply forallb_forall. intros v Hv. apply H. apply in_zrange. exact Hv. Qed.
Lemma padded_eqb_refl g : padded_eqb g g = true.
Proof. unfold padded_eqb. apply forallb_zrange. intros y _. apply forallb_zrange. intros x _. apply cell_eqb_refl. Qed.

Theorem g_transpose_law g : transpose_law g (g_transpose g) = true.
Proof.
  unfold transpose_law. destruct (max_length (grows g)) as [|L] eqn:EL.
  - unfold g_transpose. rewrite EL. reflexivity.
  - destruct (g_transpose_shape g ltac:(lia)) as (H1 & H2 & H3). rewrite H1, H2, EL. unfold gheight. rewrite Z.eqb_refl, Nat.eqb_refl. cbn [andb].
    assert (Hr : forallb (fun r : list cell => (length r =? length (grows g))%nat) (grows (g_transpose g)) = true).
    { apply forallb_forall. intros r Hr. rewrite Forall_forall in H3. rewrite (H3 r Hr). apply Nat.eqb_refl. }
    rewrite Hr. cbn [andb]. apply forallb_zrange. intros y Hy. apply forallb_zrange. intros x Hx.
    rewrite g_transpose_swaps by (rewrite ?EL; lia). apply cell_eqb_refl.
Qed.

Section SpanLaw.
Variable a : calg.

Lemma area_cell_in x y z t g i j : x <= i <= z -> y <= j <= t ->
  exists r, In r (g_area_cells x y z t g) /\ In (gcell i j g) r.
Proof.
  intros Hi Hj. exists (nth (Z.to_nat (j - y)) (g_area_cells x y z t g) []).
  assert (Hj' : (Z.to_nat (j - y) < Z.to_nat (t + 1 - y))%nat) by lia.
  assert (Hi' : (Z.to_nat (i - x) < Z.to_nat (z + 1 - x))%nat) by lia.
  split; [apply nth_In; rewrite area_cells_length; exact Hj'|].
  rewrite <- (area_cells_nth x y z t g (Z.to_nat (i - x)) (Z.to_nat (j - y)) Hj' Hi') at 1 || idtac.
  replace (gcell i j g) with (nth (Z.to_nat (i - x)) (nth (Z.to_nat (j - y)) (g_area_cells x y z t g) []) empty_cell).
  2:{ rewrite area_cells_nth by assumption. f_equal; lia. }
  apply nth_In. rewrite area_cells_row_length by exact Hj'. exact Hi'.
Qed.

Theorem g_set_span_law x y z t mid g g' r : 0 <= x <= z -> 0 <= y <= t ->
  alg_ok_for a (XSetSpan x y z t false mid) g = true ->
  g_set_span a x y z t false mid g = (g', r) -> set_span_law a x y z t r g g' = true.
Proof.
  intros Hx Hy Halg H. unfold set_span_law.
  destruct (((x =? z) && (y =? t)) || any_spanned a (g_area_cells x y z t g)) eqn:Eref.
  - rewrite (g_set_span_refuses a x y z t false mid g Eref) in H. injection H as <- <-. cbn [negb andb]. apply padded_eqb_refl.
  - pose proof (g_set_span_accepts a x y z t false mid g Eref) as Hacc. rewrite H in Hacc. cbn [snd] in Hacc. subst r. cbn [andb].
    pose proof (g_set_span_explicit a x y z t mid g g' Hx Hy H) as Hex.
    apply orb_false_elim in Eref. destruct Eref as [_ Hns].
    unfold window. apply forallb_zrange. intros j Hj. apply forallb_zrange. intros i Hi.
    rewrite Hex by lia. cbv zeta. unfold in_area.
    destruct (Z.leb_spec x i); destruct (Z.leb_spec i z); destruct (Z.leb_spec y j); destruct (Z.leb_spec j t); cbn [andb]; try apply cell_eqb_refl.
    destruct (area_cell_in x y z t g i j ltac:(lia) ltac:(lia)) as (row & Hrow & Hc).
    set (c := gcell i j g) in *.
    (* the cell is not spanned, and the algebra is consistent on it *)
    assert (Hsp : is_spanned a (fst c) = false).
    { unfold any_spanned in Hns. destruct (is_spanned a (fst c)) eqn:Es; [|reflexivity].
      assert (existsb (existsb (fun c0 : cell => is_spanned a (fst c0))) (g_area_cells x y z t g) = true).
      { apply existsb_exists. exists row. split; [exact Hrow|]. apply existsb_exists. exists c. split; [exact Hc|exact Es]. }
      congruence. }
    unfold is_spanned in Hsp. apply orb_false_elim in Hsp. destruct Hsp as [Hcov Hspan].
    assert (Hok : alg_cell_ok a (z - x + 1) (t - y + 1) (fst c) = true).
    { cbn [alg_ok_for] in Halg. rewrite Bool.andb_true_r in Halg. rewrite forallb_forall in Halg. specialize (Halg row Hrow). rewrite forallb_forall in Halg. exact (Halg c Hc). }
    unfold alg_cell_ok, alg_tag_ok in Hok. rewrite Hcov, Hspan in Hok.
    repeat (apply andb_prop in Hok; let H' := fresh "K" in destruct Hok as [Hok H']).
    destruct (Z.eqb_spec i x); destruct (Z.eqb_spec j y); cbn [andb]; unfold cov; cbn [fst snd]; rewrite Z.eqb_refl.
    + (* the first cell *)
      rewrite K1. apply Bool.eqb_prop in K2. rewrite K2. cbn [negb andb]. exact K0.
    + rewrite K14, Hok. apply Bool.eqb_prop in K13. rewrite K13. reflexivity.
    + rewrite K14, Hok. apply Bool.eqb_prop in K13. rewrite K13. reflexivity.
    + rewrite K14, Hok. apply Bool.eqb_prop in K13. rewrite K13. reflexivity.
Qed.
End SpanLaw.
