(* Tablexml.v — the RAW abstraction of a table:table element (what an lxml walk sees: child order, attribute
   strings), the structural validity predicate XmlOK of property C07 on it, the reading of it as a model state
   (the way odfdo itself reads repeats: absent / not a number / < 1  ->  1), and the canonical writer.
   Definitions only. *)
From Coq Require Import List ZArith NArith Bool Arith Decimal DecimalN.
Import ListNotations.
Require Import Vault Row Table.

Definition xattr := option (list N).                         (* attribute absent | its characters (code points) *)
Inductive xcell := XC (foreign : bool) (rep : xattr) (v st : Z).   (* foreign = the child of the row is not a (covered) cell *)
Inductive xnode :=
| XCol (rep : xattr) (st : Z)
| XRow (rep : xattr) (st : Z) (kids : list xcell)
| XOther.                                                    (* any other child of table:table *)
Definition xtable := list xnode.

(* decimal digits *)
Definition digit_of_code (c : N) : option (uint -> uint) :=
  match c with
  | 48%N => Some D0 | 49%N => Some D1 | 50%N => Some D2 | 51%N => Some D3 | 52%N => Some D4
  | 53%N => Some D5 | 54%N => Some D6 | 55%N => Some D7 | 56%N => Some D8 | 57%N => Some D9
  | _ => None end.
Fixpoint uint_of_codes (s : list N) : option uint :=
  match s with
  | [] => Some Nil
  | c :: r => match digit_of_code c, uint_of_codes r with Some d, Some u => Some (d u) | _, _ => None end
  end.
Definition dec_of_codes (s : list N) : option N :=           (* [0-9]+ *)
  match s with [] => None | _ => option_map N.of_uint (uint_of_codes s) end.
Fixpoint codes_of_uint (u : uint) : list N :=
  match u with
  | Nil => [] | D0 u => 48%N :: codes_of_uint u | D1 u => 49%N :: codes_of_uint u | D2 u => 50%N :: codes_of_uint u
  | D3 u => 51%N :: codes_of_uint u | D4 u => 52%N :: codes_of_uint u | D5 u => 53%N :: codes_of_uint u
  | D6 u => 54%N :: codes_of_uint u | D7 u => 55%N :: codes_of_uint u | D8 u => 56%N :: codes_of_uint u
  | D9 u => 57%N :: codes_of_uint u end.
Definition codes_of_N (n : N) : list N := codes_of_uint (N.to_uint n).     (* str(int) *)

(* C07: a repeat attribute is absent or an integer of at least 2 *)
Definition rep_ok (a : xattr) : bool :=
  match a with None => true | Some s => match dec_of_codes s with Some n => (2 <=? n)%N | None => false end end.
(* odfdo's own reading (elements_repeated_sequence): absent -> 1, not a number -> 1, max(value, 1) *)
Definition rep_val (a : xattr) : nat :=
  match a with None => 1 | Some s => match dec_of_codes s with Some n => Nat.max 1 (N.to_nat n) | None => 1 end end.

Definition cell_run (c : xcell) : nat * cell := let '(XC _ rep v st) := c in (rep_val rep, (v, st)).
Definition xcols (x : xtable) : list (nat * Z) :=
  flat_map (fun n => match n with XCol rep st => [(rep_val rep, st)] | _ => [] end) x.
Definition xrows (x : xtable) : list (nat * rowx) :=
  flat_map (fun n => match n with XRow rep st kids => [(rep_val rep, (st, map cell_run kids))] | _ => [] end) x.
Definition to_tstate (x : xtable) : tstate := {| cols := xcols x; rows := xrows x |}.
(* the fragment the model speaks about: column declarations, then rows, nothing else *)
Definition in_fragment (x : xtable) : bool := forallb (fun n => match n with XOther => false | _ => true end) x.

Fixpoint cols_first (seen_row : bool) (x : xtable) : bool :=
  match x with
  | [] => true
  | XCol _ _ :: r => negb seen_row && cols_first seen_row r
  | XRow _ _ _ :: r => cols_first true r
  | XOther :: r => cols_first seen_row r
  end.
Definition node_reps_ok (n : xnode) : bool :=
  match n with
  | XCol rep _ => rep_ok rep
  | XRow rep _ kids => rep_ok rep && forallb (fun c => let '(XC _ r _ _) := c in rep_ok r) kids
  | XOther => true end.
Definition row_only_cells (n : xnode) : bool :=
  match n with XRow _ _ kids => forallb (fun c => let '(XC f _ _ _) := c in negb f) kids | _ => true end.
Definition rows_fit (x : xtable) : bool :=
  let w := twidth (to_tstate x) in forallb (fun r : nat * rowx => (roww (snd r) <=? w)%Z) (xrows x).

(* the structural invariant of C07 *)
Definition XmlOK (x : xtable) : bool :=
  forallb node_reps_ok x && forallb row_only_cells x && cols_first false x && rows_fit x.
(* "adding the first row to a table declares its columns": a step from a table without rows to one with rows *)
Definition first_row_declares (pre post : xtable) : bool :=
  match xrows pre, xrows post with [], _ :: _ => (1 <=? twidth (to_tstate post))%Z | _, _ => true end.

(* the canonical writer: the attribute is written only for repeats > 1, as str(int) *)
Definition attr_of (n : nat) : xattr := if n <=? 1 then None else Some (codes_of_N (N.of_nat n)).
Definition render (t : tstate) : xtable :=
  map (fun c : nat * Z => XCol (attr_of (fst c)) (snd c)) (cols t) ++
  map (fun r : nat * rowx => XRow (attr_of (fst r)) (fst (snd r))
         (map (fun c : nat * cell => XC false (attr_of (fst c)) (fst (snd c)) (snd (snd c))) (snd (snd r)))) (rows t).
