(* Tableproof3.v — column mutators (the same list edit on every row longer than x) and insert_row. *)
From Coq Require Import List ZArith Lia Bool Arith.
Import ListNotations.
Require Import Vault Vaultproof Row Table Grid Tableabs Tableproof Tableproof2.
Open Scope Z_scope.

Lemma expand_map_runs {A B} (f : A -> B) (v : list (nat * A)) :
  expand (map (fun r => (fst r, f (snd r))) v) = map f (expand v).
Proof.
  induction v as [|[n a] v IH]; [reflexivity|]. cbn [map expand fst snd]. rewrite IH, map_app, map_repeat'. reflexivity.
Qed.
Lemma wf_map_runs {A B} (f : A -> B) (v : list (nat * A)) : wf v -> wf (map (fun r => (fst r, f (snd r))) v).
Proof. unfold wf. rewrite Forall_map. apply Forall_impl. intros [n a]; auto. Qed.

Lemma grow_ins_row x rep r : wf (snd r) -> 0 <= x -> (1 <= rep)%nat ->
  grow_of (ins_row x rep r) = (if x <? Z.of_nat (length (grow_of r)) then l_insert empty_cell (Z.to_nat x) rep empty_cell (grow_of r) else grow_of r).
Proof.
  intros Hw Hx Hrep. destruct r as [st cells]. unfold ins_row, grow_of, rwidth, width. cbn [snd] in *.
  destruct (x <? Z.of_nat (length (expand cells))); [|reflexivity].
  destruct (row_insert_cell_refines x (rep, empty_cell) cells Hw Hx Hrep) as (cs' & Hs & He & _).
  rewrite Hs. cbn [snd]. exact He.
Qed.
Lemma grow_del_row x r : wf (snd r) -> 0 <= x ->
  grow_of (del_row x r) = (if x <? Z.of_nat (length (grow_of r)) then l_delete (Z.to_nat x) (grow_of r) else grow_of r).
Proof.
  intros Hw Hx. destruct r as [st cells]. unfold del_row, grow_of, rwidth, width. cbn [snd] in *.
  destruct (x <? Z.of_nat (length (expand cells))); [|reflexivity].
  destruct (row_delete_cell_refines x cells Hw Hx) as (cs' & Hs & He & _).
  rewrite Hs. cbn [snd]. exact He.
Qed.
Lemma rwf_ins_row x rep r : wf (snd r) -> 0 <= x -> (1 <= rep)%nat -> wf (snd (ins_row x rep r)).
Proof.
  intros Hw Hx Hrep. destruct r as [st cells]. unfold ins_row. cbn [snd] in *.
  destruct (x <? rwidth cells); [|exact Hw].
  destruct (row_insert_cell_refines x (rep, empty_cell) cells Hw Hx Hrep) as (cs' & Hs & _ & Hw').
  rewrite Hs. exact Hw'.
Qed.
Lemma rwf_del_row x r : wf (snd r) -> 0 <= x -> wf (snd (del_row x r)).
Proof.
  intros Hw Hx. destruct r as [st cells]. unfold del_row. cbn [snd] in *.
  destruct (x <? rwidth cells); [|exact Hw].
  destruct (row_delete_cell_refines x cells Hw Hx) as (cs' & Hs & _ & Hw').
  rewrite Hs. exact Hw'.
Qed.

Lemma map_ext_in_expand {B} (f g : rowx -> B) (v : list (nat * rowx)) :
  Forall (fun r : nat * rowx => f (snd r) = g (snd r)) v -> map f (expand v) = map g (expand v).
Proof.
  induction 1 as [|[n a] v Ha Hv IH]; [reflexivity|]. cbn [expand]. rewrite !map_app, IH, !map_repeat'. cbn [snd] in Ha. now rewrite Ha.
Qed.
Lemma cwf_map_rows f t cs : cwf t -> (forall r, wf (snd r) -> wf (snd (f r))) -> cwf {| cols := cs; rows := map_rows f (rows t) |}.
Proof.
  unfold cwf, map_rows. cbn [rows]. intros H Hf. rewrite Forall_map. eapply Forall_impl; [|exact H].
  intros [n r] Hr. cbn [fst snd] in *. apply Hf, Hr.
Qed.

Theorem delete_column_refines x t :
  twf t -> cwf t -> 0 <= x ->
  exists t', t_delete_column x t = Some t' /\ abs_t t' = g_delete_column x (abs_t t) /\ twf t' /\ cwf t'.
Proof.
  intros [Hr Hc] Hcw Hx. unfold t_delete_column, g_delete_column. cbn [abs_t ncols grows].
  destruct (Z.leb_spec (twidth t) x) as [Hout|Hin].
  - exists t. repeat split; auto.
  - unfold twidth in Hin.
    destruct (delete_item_refines x (cols t) Hc ltac:(lia)) as (cs & Hd & He & Hw).
    rewrite Hd. eexists; split; [reflexivity|]. split; [|split].
    + unfold abs_t, twidth. cbn [cols rows]. f_equal.
      * unfold width. rewrite He, app_length, firstn_length, skipn_length. unfold width in Hin. lia.
      * unfold map_rows. rewrite expand_map_runs, !map_map.
        apply map_ext_in_expand. unfold cwf in Hcw. eapply Forall_impl; [|exact Hcw].
        intros [n r] Hwr. cbn [snd] in *. apply grow_del_row; auto.
    + split; [|exact Hw]. cbn [rows]. apply wf_map_runs. exact Hr.
    + apply cwf_map_rows; [exact Hcw|]. intros r Hwr. apply rwf_del_row; auto.
Qed.

Theorem insert_column_refines x rep st t :
  twf t -> cwf t -> 0 <= x -> (1 <= rep)%nat ->
  exists t', t_insert_column x rep st t = Some t' /\ abs_t t' = g_insert_column x rep (abs_t t) /\ twf t' /\ cwf t'.
Proof.
  intros [Hr Hc] Hcw Hx Hrep. unfold t_insert_column, g_insert_column. cbn [abs_t ncols grows].
  assert (Hcols : exists cs, (if x - twidth t <? 0 then insert_item x (rep, st) (cols t) (cmap (cols t))
                   else if x - twidth t =? 0 then Some (cols t ++ [(rep, st)])
                   else Some (cols t ++ [(Z.to_nat (x - twidth t), 0); (rep, st)])) = Some cs
                  /\ Z.of_nat (width cs) = Z.max (twidth t) x + Z.of_nat rep /\ wf cs).
  { unfold twidth. destruct (Z.ltb_spec (x - Z.of_nat (width (cols t))) 0) as [Ein|Eout].
    - destruct (insert_item_refines x (rep, st) (cols t) Hc ltac:(lia)) as (cs & Hs & He & Hw).
      exists cs. split; [exact Hs|]. split; [|apply Hw; exact Hrep].
      unfold width. rewrite He, !app_length, firstn_length, skipn_length, repeat_length. cbn [fst]. unfold width in Ein. lia.
    - destruct (Z.eqb_spec (x - Z.of_nat (width (cols t))) 0) as [E0|E0].
      + eexists; split; [reflexivity|]. split.
        * rewrite width_app. unfold width at 2. cbn [expand]. rewrite app_nil_r, repeat_length. lia.
        * apply Forall_app; split; [exact Hc|]. constructor; [cbv beta; cbn [fst]; lia|constructor].
      + eexists; split; [reflexivity|]. split.
        * rewrite width_app. unfold width at 2. cbn [expand]. rewrite app_nil_r, app_length, !repeat_length. lia.
        * apply Forall_app; split; [exact Hc|]. constructor; [cbv beta; cbn [fst]; lia|].
          constructor; [cbv beta; cbn [fst]; lia|constructor]. }
  destruct Hcols as (cs & Hs & Hwd & Hw). rewrite Hs.
  eexists; split; [reflexivity|]. split; [|split].
  - unfold abs_t, twidth. cbn [cols rows]. f_equal; [exact Hwd|].
    unfold map_rows. rewrite expand_map_runs, !map_map.
    apply map_ext_in_expand. unfold cwf in Hcw. eapply Forall_impl; [|exact Hcw].
    intros [n r] Hwr. cbn [snd] in *. apply grow_ins_row; auto.
  - split; [|exact Hw]. cbn [rows]. apply wf_map_runs. exact Hr.
  - apply cwf_map_rows; [exact Hcw|]. intros r Hwr. apply rwf_ins_row; auto.
Qed.

Theorem insert_row_refines y rep r t :
  twf t -> 0 <= y -> (1 <= rep)%nat ->
  exists t', insert_row y rep r t = Some t' /\ abs_t t' = g_insert_row y rep (grow_of r) (abs_t t) /\ twf t'.
Proof.
  intros [Hr Hc] Hy Hrep. unfold insert_row.
  destruct (Z.ltb_spec (y - theight t) 0) as [Ein|Eout].
  - assert (Hin : 0 <= y < Z.of_nat (width (rows t))) by (unfold theight in *; lia).
    destruct (insert_item_refines y (rep, r) (rows t) Hr Hin) as (v' & Hs & He & Hw).
    rewrite Hs. eexists; split; [reflexivity|]. split.
    + rewrite abs_update_width. unfold g_insert_row.
      replace (y <? gheight (abs_t t)) with true
        by (symmetry; apply Z.ltb_lt; rewrite gheight_abs; unfold theight, width in *; lia).
      unfold g_grow, abs_t, twidth. cbn [ncols grows cols rows fst snd]. f_equal.
      rewrite He, !map_app, map_firstn, map_skipn, map_repeat'. cbn [fst snd].
      unfold g_insert_rows, g_pad_rows. f_equal.
      assert (Hyl : (Z.to_nat y <= length (map grow_of (expand (rows t))))%nat) by (rewrite map_length; unfold width in Hin; lia).
      replace (Z.to_nat y - length (map grow_of (expand (rows t))))%nat with 0%nat by lia.
      cbn [repeat]. now rewrite app_nil_r.
    + destruct (update_width_spec (roww r) {| cols := cols t; rows := v' |}) as (_ & H2 & H3).
      split; [rewrite H2; apply Hw; exact Hrep | apply H3; exact Hc].
  - (* at or beyond the end: identical to set_row there *)
    destruct (set_row_refines y rep r t (conj Hr Hc) Hy Hrep) as (t' & Hsr & Ha & Hwt).
    unfold set_row in Hsr.
    destruct (Z.eqb_spec (y - theight t) 0) as [E0|E0].
    + exists t'. split; [exact Hsr|]. split; [|exact Hwt]. rewrite Ha. unfold g_set_row, g_insert_row.
      replace (y <? gheight (abs_t t)) with false
        by (symmetry; apply Z.ltb_ge; rewrite gheight_abs; unfold theight, width in *; lia).
      f_equal. f_equal. unfold g_set_rows, g_insert_rows. f_equal. f_equal.
      rewrite !skipn_all2; [reflexivity| |]; cbn [abs_t grows]; rewrite map_length; unfold theight, width in *; lia.
    + destruct (Z.ltb_spec 0 (y - theight t)); [|lia].
      exists t'. split; [exact Hsr|]. split; [|exact Hwt]. rewrite Ha. unfold g_set_row, g_insert_row.
      replace (y <? gheight (abs_t t)) with false
        by (symmetry; apply Z.ltb_ge; rewrite gheight_abs; unfold theight, width in *; lia).
      f_equal. f_equal. unfold g_set_rows, g_insert_rows. f_equal. f_equal.
      rewrite !skipn_all2; [reflexivity| |]; cbn [abs_t grows]; rewrite map_length; unfold theight, width in *; lia.
Qed.
