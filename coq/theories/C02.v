(* Property C02 — what a table answers in memory is what its own XML says when parsed afresh.
   Statements only; each is closed by [exact] of a lemma proved in TableBproof*.v.
   Model: TableB.v (layer B: the XML runs of Table.v + _tmap/_cmap + the cached Row wrappers of _indexes['_tmap'], each
   with the position of its element, its own _rmap and its cell cache + _indexes['_cmap']); every operation reads
   positions from the STORED maps and cached wrappers.  The code modelled is the repaired one (F01..F04, F07, F08, F31).
   a_read = the answer computed from the XML alone; gb_read = the answer of the grid specification (Grid.v);
   reparse = Element.from_tag(table.serialize()) / Document.save + reload: maps recomputed, caches empty. *)
From Coq Require Import List ZArith Lia Bool Arith.
Import ListNotations.
Require Import Vault Row Table Grid Tableabs Transform TableB TableBabs TableBproof TableBproof2 TableBproof3 TableBproof4 TableBproof5 TableBproof6 TableBspan TableBx.
Open Scope Z_scope.

(* ---- the full statement: along EVERY history of mutators, cache-filling reads and `repeated` setters on live handles,
        started from any coherent state (in particular any freshly parsed table), the state stays coherent and EVERY read
        answers what a fresh parse of the current XML answers and what the expansion of that XML (the grid) answers ---- *)
Definition C02_full : Prop :=
  forall (b : bstate) (os : list bop) (q : bread), Coh b -> Forall bop_ok os ->
    let b' := tB_run b os in
    Coh b' /\ snd (b_read b' q) = snd (b_read (reparse b') q) /\ proj (snd (b_read b' q)) = gb_read (abs_t (ax b')) q.

Theorem C02_reads_after_every_history : C02_full.
Proof. exact reads_after_history. Qed.
Print Assumptions C02_reads_after_every_history.

(* a freshly parsed table is coherent (the initial states), and so is every reparse *)
Theorem C02_fresh_is_coherent : forall t : tstate, WF t -> Coh (fresh t).
Proof. exact Coh_fresh. Qed.
Print Assumptions C02_fresh_is_coherent.

(* ---- coherence is kept by every step, reads included (reads fill the caches) ---- *)
Theorem C02_coh_step : forall (b : bstate) (o : bop), Coh b -> bop_ok o -> Coh (fst (tB_step b o)).
Proof. exact coh_step. Qed.
Print Assumptions C02_coh_step.

Theorem C02_coh_history : forall (os : list bop) (b : bstate), Coh b -> Forall bop_ok os -> Coh (tB_run b os).
Proof. exact coh_history. Qed.
Print Assumptions C02_coh_history.

(* ---- live answer = fresh answer = grid answer, for every read of the alphabet ---- *)
Theorem C02_live_eq_fresh : forall (b : bstate) (q : bread), Coh b ->
  snd (b_read b q) = snd (b_read (reparse b) q) /\ proj (snd (b_read b q)) = gb_read (abs_t (ax b)) q.
Proof. exact live_eq_fresh. Qed.
Print Assumptions C02_live_eq_fresh.

(* a read never touches the XML, keeps Coh, and its answer is the one computed from the XML alone *)
Theorem C02_read : forall (b : bstate) (q : bread), Coh b ->
  Coh (fst (b_read b q)) /\ ax (fst (b_read b q)) = ax b /\ snd (b_read b q) = a_read (ax b) q.
Proof. exact b_read_spec. Qed.
Print Assumptions C02_read.

(* ---- the live object and a fresh parse of its XML stay the same table under the next call ---- *)
Theorem C02_step_eq_fresh : forall (b : bstate) (o : bop), Coh b -> bop_ok o ->
  ax (fst (tB_step b o)) = ax (fst (tB_step (reparse b) o)).
Proof. exact step_eq_fresh. Qed.
Print Assumptions C02_step_eq_fresh.

(* ---- layer B refines layer A: on a coherent state every mutator, reading positions from the stored maps and cached
        wrappers, leaves exactly the XML of the layer-A model of C01 (which recomputes every map) ---- *)
Theorem C02_mutator_refines_layer_A : forall (b : bstate) (o : top), Coh b -> op_ok o ->
  exists b', b_mut true b o = Some b' /\ t_step (ax b) o = Some (ax b') /\ Coh b'.
Proof. exact b_mut_spec. Qed.
Print Assumptions C02_mutator_refines_layer_A.

(* hence the table the caller is looking at after a history is the grid history of C01 (what a saved document reloads to) *)
Theorem C02_grid_after_history : forall (os : list bop) (b : bstate), Coh b -> Forall (fun o => bop_ok o /\ no_live o) os ->
  abs_t (ax (tB_run b os)) = fold_left gB_step os (abs_t (ax b)).
Proof. exact grid_after_history. Qed.
Print Assumptions C02_grid_after_history.

(* the repaired `repeated` setters of live rows / cells and the Row API (set / insert / delete / append cell) through a live row
   handle: same XML as on a fresh parse, coherence kept *)
Theorem C02_live_setters : forall (b : bstate) (l : lop), Coh b -> lop_ok l ->
  exists b', b_live true b l = Some b' /\ a_live (ax b) l = Some (ax b') /\ Coh b'.
Proof. exact b_live_spec. Qed.
Print Assumptions C02_live_setters.

(* rstrip / optimize_width / transpose (layer-A models: Transform.v of C17): whatever the caches held, the state afterwards is
   the state of a fresh parse of the new XML — coherent, caches empty *)
Theorem C02_transformations_end_fresh : forall (a : calg) (b : bstate) (o : xop) (t' : tstate) (r : bool), Coh b ->
  match o with XTranspose | XRstrip _ | XOptimize => True | _ => False end -> x_step a true (ax b) o = Some (t', r) ->
  exists b', b_xstep a b o = Some (b', r) /\ ax b' = t' /\ Coh b' /\ tcache b' = [] /\ ccache b' = [] /\ b' = reparse b'.
Proof. exact xform_coh. Qed.
Print Assumptions C02_transformations_end_fresh.
(* set_span / del_span (and the three above): the cache-filling get_cell reads of the call, then its write through set_cells:
   the XML is Transform's, coherence is kept (WF of the new XML is C17's theorem set_span_model_grid / del_span_law_model) *)
Theorem C02_span_operations_keep_coh : forall (a : calg) (b : bstate) (o : xop) (t' : tstate) (r : bool), Coh b -> in_alphabet o ->
  x_step a true (ax b) o = Some (t', r) -> WF t' -> exists b', b_xstep a b o = Some (b', r) /\ ax b' = t' /\ Coh b'.
Proof. exact xstep_coh. Qed.
Print Assumptions C02_span_operations_keep_coh.
(* the span steps of the statement above are the steps the correspondence checker evaluates on every set_span / del_span of a
   history (TableBspan: for a given written content), at the content C17's model writes *)
Theorem C02_set_span_is_the_checked_step : forall (a : calg) (b : bstate) (x y z t : Z) (m : bool) (mid : Z) (b' : bstate) (r : bool),
  b_xstep a b (XSetSpan x y z t m mid) = Some (b', r) -> exists cells, b_set_span_given x y z t r cells b = Some b'.
Proof. exact xstep_set_span_given. Qed.
Print Assumptions C02_set_span_is_the_checked_step.
Theorem C02_del_span_is_the_checked_step : forall (a : calg) (b : bstate) (x y : Z) (b' : bstate) (r : bool),
  b_xstep a b (XDelSpan x y) = Some (b', r) -> exists cells, b_del_span_given x y r cells b = Some b'.
Proof. exact xstep_del_span_given. Qed.
Print Assumptions C02_del_span_is_the_checked_step.
(* any call made of cache-filling reads followed by one write of the C01 alphabet *)
Theorem C02_reads_then_write : forall (b : bstate) (rs : list bop) (o : top) (t' : tstate), Coh b -> Forall is_read rs -> op_ok o ->
  t_step (ax b) o = Some t' -> exists b', b_mut true (tB_run b rs) o = Some b' /\ ax b' = t' /\ Coh b'.
Proof. exact reads_then_write. Qed.
Print Assumptions C02_reads_then_write.
(* get_row(y, clone=False).rstrip(aggressive): the cached wrapper recomputes its map and drops its cell cache *)
Theorem C02_live_row_rstrip : forall (a : calg) (aggr : bool) (y : Z) (b : bstate), Coh b -> exists b', b_live_rstrip a aggr y b = Some b' /\ Coh b'.
Proof. exact live_rstrip_coh. Qed.
Print Assumptions C02_live_row_rstrip.
(* c = table.append_column(column); c.repeated = n : the owning table recomputes its maps (F8 repair for columns) *)
Theorem C02_live_column_setter : forall (rep : nat) (st : Z) (n : nat) (b : bstate), Coh b ->
  Coh (b_live_column rep st n b) /\ ax (b_live_column rep st n b) = t_append_column n st (ax b).
Proof. exact live_column_coh. Qed.
Print Assumptions C02_live_column_setter.

(* the boolean that the correspondence evaluates on the dumped implementation state IS the invariant *)
Theorem C02_cohb_is_Coh : forall b : bstate, cohb b = true <-> CohM b.
Proof. exact cohb_iff. Qed.
Print Assumptions C02_cohb_is_Coh.

(* the incremental map primitive of append_row / append_column / Row.append_cell (insert_map_once at the end, in place) *)
Theorem C02_append_map_coherent : forall (A : Type) (v : runs A) (rep : nat) (a : A), app_map (cmap v) rep = cmap (v ++ [(rep, a)]).
Proof. exact (@app_map_cmap). Qed.
Print Assumptions C02_append_map_coherent.

(* ---- refuted: the model of the code WITHOUT the repairs ---- *)
(* F7: insert_column / delete_column without `_indexes['_tmap'] = {}` after a cache-filling get_row *)
Theorem C02_without_cache_reset_refuted : exists b o, Coh b /\ bop_ok o /\ ~ Coh (fst (tB_step_gen false true b o)) /\
  exists q, snd (b_read (fst (tB_step_gen false true b o)) q) <> snd (b_read (reparse (fst (tB_step_gen false true b o))) q).
Proof. exact no_reset_refuted_w. Qed.
Print Assumptions C02_without_cache_reset_refuted.

(* F8: the pinned `repeated` setters of a live row / cell update a throw-away wrapper of the XML parent *)
Theorem C02_live_row_setter_pinned_refuted : exists b o, Coh b /\ bop_ok o /\ ~ Coh (fst (tB_step_gen true false b o)) /\
  exists q, snd (b_read (fst (tB_step_gen true false b o)) q) <> snd (b_read (reparse (fst (tB_step_gen true false b o))) q).
Proof. exact live_setter_pinned_refuted_w. Qed.
Print Assumptions C02_live_row_setter_pinned_refuted.

Theorem C02_live_cell_setter_pinned_refuted : exists b o, Coh b /\ bop_ok o /\ ~ Coh (fst (tB_step_gen true false b o)).
Proof. exact live_cell_setter_pinned_refuted_w. Qed.
Print Assumptions C02_live_cell_setter_pinned_refuted.

(* ---- the hypotheses are inhabited: a table with a cached row wrapper (after get_row(0, clone=False)) ---- *)
Example Coh_nontrivial : Coh b_cached.
Proof. exact Coh_b_cached. Qed.
Example b_cached_has_a_wrapper : tcache b_cached = [(0%nat, {| w_pos := 0; w_rmap := [0]; w_cells := [] |})].
Proof. reflexivity. Qed.
(* set_cell on the unrepeated cached row edits it in place: the wrapper stays cached with its map rewritten *)
Example in_place_edit_keeps_wrapper :
  tcache (fst (tB_step b_cached (BMut (OSetCell 2 0 (2%nat, (7, 0)))))) = [(0%nat, {| w_pos := 0; w_rmap := [0; 1; 3]; w_cells := [] |})].
Proof. reflexivity. Qed.
