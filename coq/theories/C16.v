(* Property C16 — search and replace act on the text exactly as the regular expression says.
   Statements only; each is closed by [exact] of a lemma proved in TreeProof*.v.  Model: Tree.v / TreeNF.v.
   [re.subn(pattern, new, ·)] is ANY function [subn : str -> str * nat]: every pattern, every replacement. *)
From Coq Require Import List ZArith Bool Lia. Import ListNotations.
Require Import WS WSnfproof Tree TreeNF TreeProof TreeProof2 TreeProof3 TreeProof4 TreeProof8 TreeProof10.

(* replace(pattern, new): every text node becomes re.subn of itself, the markup stays where it is *)
Theorem C16_replace : forall subn evs,
  texts (replace_ev subn evs) = map (fun s => fst (subn s)) (texts evs) /\ skeleton (replace_ev subn evs) = skeleton evs.
Proof. intros; split; [apply replace_texts|apply replace_skeleton]. Qed.
Print Assumptions C16_replace.
(* the same on the tree view (the algorithm that walks text and tails) *)
Theorem C16_replace_tree : forall subn n, content (fst (repl subn false n)) = replace_ev subn (content n).
Proof. intros. apply repl_plain_flat. Qed.
Print Assumptions C16_replace_tree.

(* the number returned = the sum, over the individual text nodes, of the number of replacements — formatted or not *)
Theorem C16_count : forall subn fmt n,
  snd (repl subn fmt n) = list_sum (map (fun s => snd (subn s)) (texts (content n))).
Proof. exact repl_count. Qed.
Print Assumptions C16_count.
(* replace(pattern) with new=None only counts: len(findall) per text node, no state change in the model;
   it equals the replacing count whenever findall and subn agree on the number of matches *)
Theorem C16_count_only : forall subn nfind evs, (forall s, nfind s = snd (subn s)) ->
  count_only nfind evs = replace_count subn evs.
Proof. intros subn nfind evs H. unfold count_only, replace_count. f_equal. apply map_ext. exact H. Qed.
Print Assumptions C16_count_only.

(* replace(pattern, new, formatted=True), repaired code (fixes/F27): on a tree whose white-space elements are leaves
   ([wsl]: what every parser and odfdo itself produce)
   - the element reads exactly as after the plain replacement: text:s / tab / line-break re-encoding changes no character;
   - every p / h / span one of whose OWN text nodes (text, tails of its children) was changed is, afterwards, in the
     white-space normal form of C05 ([NFb], which C05_nf_is_what_consumers_need shows to be what an ODF consumer needs) —
     "as in a freshly created paragraph" *)
Theorem C16_formatted_reads : forall subn n, wsl n = true ->
  readable_ev (content (fst (repl subn true n))) = readable_ev (replace_ev subn (content n)).
Proof. exact repl_fmt_reads. Qed.
Print Assumptions C16_formatted_reads.
Theorem C16_formatted_nf : forall subn n, wsl n = true ->
  implied (own_flags subn n) (nf_flags (fst (repl subn true n))) = true.
Proof. exact repl_fmt_nf. Qed.
Print Assumptions C16_formatted_nf.
(* the hypothesis [wsl] cannot be dropped: append_plain_text replaces a text:s by its count of spaces and drops what it
   contains, so a text:s carrying character data (never produced by odfdo or a conforming producer) loses it *)
Theorem C16_formatted_needs_leaf_spacers : exists subn n,
  readable_ev (content (fst (repl subn true n))) <> readable_ev (replace_ev subn (content n)).
Proof.
  exists (fun s => match s with [Ch 0] => ([Ch 9], 1) | _ => (s, 0) end),
         (Node KP 1 false (Some [Ch 0]) [Node (KS 1) 0 false (Some [Ch 5]) [] (Some [Ch 1])] None).
  vm_compute. discriminate.
Qed.
Print Assumptions C16_formatted_needs_leaf_spacers.
Example C16_formatted_example :   (* <p><span>xx</span> abc def</p>, "abc" -> "A<tab>B  C": the F27 witness on the repaired algorithm *)
  let subn := fun s : str => match s with [Sp; Ch 0; Ch 1; Ch 2; Sp; Ch 3] => ([Sp; Ch 7; Tb; Ch 8; Sp; Sp; Ch 9; Sp; Ch 3], 1) | _ => (s, 0) end in
  let n := Node KP 1 false None [Node KSpan 2 false (Some [Ch 5; Ch 5]) [] (Some [Sp; Ch 0; Ch 1; Ch 2; Sp; Ch 3])] None in
  wsl n = true /\ own_flags subn n = [true; false] /\ nf_flags (fst (repl subn true n)) = [true; true] /\
  readable_ev (content (fst (repl subn true n))) = [Ch 5; Ch 5; Sp; Ch 7; Tb; Ch 8; Sp; Sp; Ch 9; Sp; Ch 3].
Proof. repeat split; reflexivity. Qed.

(* F27: the same statement about the model of the PINNED loop is false (Tree.repl_pinned; ids in the attribute field).
   Witness: Paragraph("xx abc def") with a span on "xx", replace("abc", "A<tab>B  C", formatted=True) reads
   "xx A<tab>B  C def abc def": the old text is duplicated and the tab stays raw character data. *)
Definition F27_subn (s : str) : str * nat :=
  match s with [Sp; Ch 0; Ch 1; Ch 2; Sp; Ch 3] => ([Sp; Ch 7; Tb; Ch 8; Sp; Sp; Ch 9; Sp; Ch 3], 1) | _ => (s, 0) end.
Definition F27_witness : node :=
  Node KP 1 false (Some []) [Node KSpan 2 false (Some [Ch 5; Ch 5]) [] (Some [Sp; Ch 0; Ch 1; Ch 2; Sp; Ch 3])] None.
Theorem C16_formatted_pinned_refuted : exists subn n, wsl n = true /\
  readable_ev (content (fst (repl_pinned subn n))) <> readable_ev (replace_ev subn (content n)).
Proof. exists F27_subn, F27_witness. split; [reflexivity|vm_compute; discriminate]. Qed.
Print Assumptions C16_formatted_pinned_refuted.
Example F27_pinned_result :   (* <p><span>xx</span> A<TAB>B  C def<text:s/>abc def</p> — what the pinned implementation produces *)
  content (fst (repl_pinned F27_subn F27_witness)) =
  [Txt []; Open KSpan 2; Txt [Ch 5; Ch 5]; Close; Txt [Sp; Ch 7; Tb; Ch 8; Sp; Sp; Ch 9; Sp; Ch 3]; Open (KS 1) 0; Close; Txt [Ch 0; Ch 1; Ch 2; Sp; Ch 3]].
Proof. reflexivity. Qed.

(* search / search_first / search_all / match / text_at, repaired code (fixes/F28 + F103): the positions index the
   element's own readable text — text nodes with text:s / tab / line-break decoded, links as their text, notes and
   annotations skipped, WITHOUT the element's own tail ([wsnt]: white-space elements carry no character data) *)
Theorem C16_search_own_text : forall find n, wsnt n = true -> ws_kind (kind_of n) = false ->
  search_ find n = option_map fst (find (readable_ev (content n))).
Proof. intros find n W K. unfold search_. now rewrite (own_text_readable n W K). Qed.
Print Assumptions C16_search_own_text.
Theorem C16_search_family_own_text : forall find findall n st e, wsnt n = true -> ws_kind (kind_of n) = false ->
  search_first_ find n = find (readable_ev (content n)) /\ search_all_ findall n = findall (readable_ev (content n))
  /\ text_at_ n st e = text_at_ (Node KP 0 false (Some (readable_ev (content n))) [] None) st e.
Proof.
  intros find findall n st e W K. unfold search_first_, search_all_, text_at_. rewrite (own_text_readable n W K).
  repeat split. cbn [own_text flat_map]. now rewrite app_nil_r.
Qed.
Print Assumptions C16_search_family_own_text.
(* the law tying the two halves of the API: search positions index the very string that text_at slices, so
   text_at applied to the pair returned by search_first is the matched text (a search running on a normalised or re-encoded COPY of the text breaks it) *)
Theorem C16_search_text_at_law : forall find n s e, search_first_ find n = Some (s, e) ->
  s <= e <= length (own_text n) ->
  find (own_text n) = Some (s, e) /\
  text_at_ n (Z.of_nat s) (Some (Z.of_nat e)) = firstn (e - s) (skipn s (own_text n)).
Proof.
  intros find n s e H [L1 L2]. split; [exact H|].
  assert (I : forall L k, idx L (Z.of_nat k) = Nat.min k L)
    by (intros L k; unfold idx; destruct (Z.ltb_spec (Z.of_nat k) 0); [lia|now rewrite Nat2Z.id]).
  assert (E1 : (Z.of_nat s <? 0)%Z = false) by (apply Z.ltb_ge; lia).
  assert (E2 : (Z.of_nat e <? Z.of_nat s)%Z = false) by (apply Z.ltb_ge; lia).
  unfold text_at_. rewrite E1, E2. unfold sl. rewrite !I.
  replace (Nat.min s (length (own_text n))) with s by lia. replace (Nat.min e (length (own_text n))) with e by lia. reflexivity.
Qed.
Print Assumptions C16_search_text_at_law.

(* the script level (odfdo-replace: search_replace calls replace ONCE on the body): whatever containers are nested in
   the body — paragraphs inside footnotes, comments, text boxes, list items, table cells — every text run of the result is
   re.subn of the corresponding source run, exactly once, and the markup is untouched *)
Theorem C16_script_body_once : forall subn body,
  texts (content (fst (repl subn false body))) = map (fun s => fst (subn s)) (texts (content body))
  /\ skeleton (content (fst (repl subn false body))) = skeleton (content body)
  /\ snd (repl subn false body) = list_sum (map (fun s => snd (subn s)) (texts (content body))).
Proof.
  intros subn body. rewrite (proj1 (repl_plain_flat subn body)). split; [apply replace_texts|]. split; [apply replace_skeleton|apply repl_count].
Qed.
Print Assumptions C16_script_body_once.
(* a walk that reaches a nested paragraph a second time applies the substitution to its own output: not the same thing
   as soon as the replacement re-creates a match ("a" -> "aa") *)
Theorem C16_walk_twice_differs : exists subn evs, replace_ev subn (replace_ev subn evs) <> replace_ev subn evs.
Proof.
  exists (fun s => match s with [Ch 0] => ([Ch 0; Ch 0], 1) | [Ch 0; Ch 0] => ([Ch 0; Ch 0; Ch 0; Ch 0], 2) | _ => (s, 0) end), [Txt [Ch 0]].
  vm_compute. discriminate.
Qed.
Print Assumptions C16_walk_twice_differs.

(* F28 + F103 on the PINNED code: the search ran over inner_text + tail *)
Definition C16_search_own_text_pinned : Prop :=
  forall find n, plain_tree n = true -> search_pinned_ find n = option_map fst (find (readable_ev (content n))).
(* a toy [re.search] for the literal "d" *)
Fixpoint find_ch (c : nat) (i : nat) (s : str) : option (nat * nat) :=
  match s with [] => None | Ch d :: r => if Nat.eqb c d then Some (i, S i) else find_ch c (S i) r | _ :: r => find_ch c (S i) r end.
Theorem C16_search_own_text_pinned_refuted : ~ C16_search_own_text_pinned.
Proof.
  intros H. specialize (H (find_ch 3 0) (Node KSpan 1 false (Some [Ch 0; Ch 1; Ch 2]) [] (Some [Sp; Ch 3; Ch 4; Ch 5])) eq_refl).
  vm_compute in H. discriminate.
Qed.
Print Assumptions C16_search_own_text_pinned_refuted.
Example C16_search_example :   (* <p>ab <a>cd</a> e<s c=2/>f<note>1|zz</note>g</p> : "g" is at 10 of "ab cd e  fg" *)
  let n := Node KP 1 false (Some [Ch 0; Ch 1; Sp])
             [Node KLink 2 false (Some [Ch 2; Ch 3]) [] (Some [Sp; Ch 4]); Node (KS 2) 0 false None [] (Some [Ch 5]);
              Node KNote 3 false None [Node KOther 4 false (Some [Ch 9]) [] None; Node KOther 5 false None [Node KP 1 false (Some [Ch 8; Ch 8]) [] None] None] (Some [Ch 6])] None in
  wsnt n = true /\ search_ (find_ch 6 0) n = Some 10 /\ search_ (find_ch 8 0) n = None.
Proof. repeat split; reflexivity. Qed.

Example C16_example :   (* <p>ab <span>ab</span>ab</p>, "ab" -> "X": three text nodes, three replacements *)
  let subn := fun s : str => match s with [Ch 0; Ch 1; Sp] => ([Ch 9; Sp], 1) | [Ch 0; Ch 1] => ([Ch 9], 1) | _ => (s, 0) end in
  let n := Node KP 1 false (Some [Ch 0; Ch 1; Sp]) [Node KSpan 2 false (Some [Ch 0; Ch 1]) [] (Some [Ch 0; Ch 1])] None in
  repl subn false n = (Node KP 1 false (Some [Ch 9; Sp]) [Node KSpan 2 false (Some [Ch 9]) [] (Some [Ch 9])] None, 3).
Proof. reflexivity. Qed.
