(* Lemmas about Styles.v (parametric in the tables) *)
From Coq Require Import List ZArith Bool Arith Lia.
Require Import Styles.
Import ListNotations.
Open Scope Z_scope.

Section Proofs.
Variable T : tables.

(* the containers searched by Document.get_style for a family *)
Definition lookup_slots (f : Z) : list nat := part_slots T false f ++ part_slots T true f.
(* does the lookup search the container where insert_style puts a style of family f in mode m ? *)
Definition covers (f : Z) (m : mode) : bool := existsb (Nat.eqb (required_slot T f m)) (lookup_slots f).

End Proofs.
