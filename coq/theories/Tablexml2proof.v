(* Tablexml2proof.v — the validity predicate with wrappers is conservative over C07's XmlOK, and implies it on the
   visible table. *)
From Coq Require Import List ZArith NArith Bool Arith.
Import ListNotations.
Require Import Vault Row Table Tablexml Tablexml2.

Lemma flatten_plain (x : xtable) : flatten (map Y1 x) = x.
Proof. unfold flatten. induction x as [|n x IH]; [reflexivity|]. cbn [map flat_map flatten1 app]. now rewrite IH. Qed.
Lemma cols_first2_plain (x : xtable) : forall b, cols_first2 b (map Y1 x) = cols_first b x.
Proof.
  induction x as [|n x IH]; intros b; [reflexivity|]. destruct n as [r s|r s k|]; cbn [map cols_first2 cols_first colish rowish].
  - now rewrite IH.
  - rewrite orb_true_r. apply IH.
  - rewrite orb_false_r. apply IH.
Qed.
Lemma wrappers_plain (x : xtable) : forallb wrapper_ok (map Y1 x) = true.
Proof. induction x; [reflexivity|]. cbn [map forallb wrapper_ok andb]. assumption. Qed.

Theorem XmlOK2_plain (x : xtable) : XmlOK2 (map Y1 x) = XmlOK x.
Proof.
  unfold XmlOK2. rewrite flatten_plain, wrappers_plain, cols_first2_plain, andb_true_r.
  unfold XmlOK. destruct (forallb node_reps_ok x), (forallb row_only_cells x), (cols_first false x), (rows_fit x); reflexivity.
Qed.
Theorem XmlOK2_visible (x : xtable2) : XmlOK2 x = true -> XmlOK (flatten x) = true.
Proof. unfold XmlOK2. intros H. apply andb_true_iff in H. destruct H as [H _]. apply andb_true_iff in H. apply H. Qed.
