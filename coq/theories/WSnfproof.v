From Coq Require Import List Arith Bool Lia.
Import ListNotations.
Require Import WS.

(* ---------- normal form (consumer-safe), recursive helpers only ---------- *)
Definition no_tl (s : str) := forallb (fun t => match t with Tb | Nl => false | _ => true end) s.
Fixpoint no_dsp (s : str) : bool :=
  match s with Sp :: ((Sp :: _) as r) => false | _ :: r => no_dsp r | [] => true end.
Definition starts_sp (s : str) := match s with Sp :: _ => true | _ => false end.
Fixpoint lastsp (s : str) : bool := match s with [] => false | [t] => is_sp t | _ :: r => lastsp r end.
Definition is_nil {A} (l : list A) := match l with [] => true | _ => false end.
(* items that contribute at least one non-collapsible character *)
Definition solid (it : item) : bool :=
  match it with IS n => 1 <=? n | ITab | ILb => true | IElem _ t => negb (is_nil t) | IStr _ => false end.
Definition hd_solid (r : list item) := match r with x :: _ => solid x | [] => false end.
Definition hd_str (r : list item) := match r with IStr _ :: _ => true | _ => false end.
Fixpoint NFb (first : bool) (its : list item) : bool :=
  match its with
  | [] => true
  | IStr s :: r =>
      negb (is_nil s) && no_tl s && no_dsp s
      && negb (first && starts_sp s)
      && implb (lastsp s) (hd_solid r)
      && negb (hd_str r)
      && NFb false r
  | _ :: r => NFb false r
  end.

(* ---------- what the consumer emits, with the collapsible flag ---------- *)
Definition mark (t : tok) : tok * bool := match t with Sp => (Sp, true) | _ => (t, false) end.
Definition marks_item (it : item) : list (tok * bool) :=
  match it with
  | IStr s => map mark s | IS n => repeat (Sp, false) n | ITab => [(Tb, false)] | ILb => [(Nl, false)]
  | IElem _ t => map (fun x => (x, false)) t end.
Definition marks (its : list item) := flat_map marks_item its.

Lemma chars_nf : forall s ign acc,
  no_tl s = true -> no_dsp s = true -> (ign = true -> starts_sp s = false) ->
  chars ign s acc = ((if is_nil s then ign else lastsp s), rev (map mark s) ++ acc).
Proof.
  induction s as [|t s IH]; intros ign acc Htl Hd Hs; [reflexivity|].
  cbn [no_tl forallb] in Htl. apply andb_true_iff in Htl as [Ht Htl].
  destruct t; try discriminate.
  - (* Sp *)
    assert (ign = false) by (destruct ign; [specialize (Hs eq_refl); discriminate|reflexivity]). subst ign.
    cbn [chars]. 
    assert (Hs' : starts_sp s = false) by (destruct s as [|[| | |] s']; try reflexivity; discriminate).
    assert (Hd' : no_dsp s = true) by (destruct s as [|[| | |] s']; cbn in Hd |- *; try discriminate; auto).
    rewrite (IH true ((Sp, true) :: acc) Htl Hd' (fun _ => Hs')).
    cbn [map rev mark is_nil]. rewrite <- app_assoc. cbn [app].
    destruct s as [|u s']; reflexivity.
  - (* Ch *)
    cbn [chars].
    assert (Hd' : no_dsp s = true) by (cbn in Hd; destruct s; auto).
    rewrite (IH false ((Ch n, false) :: acc) Htl Hd' (fun H => ltac:(discriminate))).
    cbn [map rev mark is_nil]. rewrite <- app_assoc. cbn [app].
    destruct s as [|u s']; reflexivity.
Qed.

Lemma repeat_rev_app {A} (a : A) n acc : repeat a n ++ acc = rev (repeat a n) ++ acc.
Proof. f_equal. induction n; [reflexivity|]. cbn [repeat rev]. rewrite <- IHn. clear. induction n; simpl; congruence. Qed.

Lemma consume_nf : forall its first ign acc,
  NFb first its = true -> (ign = true -> first = true \/ hd_str its = false) ->
  consume_ ign its acc = rev (marks its) ++ acc.
Proof.
  induction its as [|it its IH]; intros first ign acc Hnf Hign; [reflexivity|].
  destruct it as [s|n| | |k t].
  - cbn [NFb] in Hnf. repeat (apply andb_true_iff in Hnf as [Hnf ?]).
    rename H into Hrest, H0 into Hnostr, H1 into Hlast, H2 into Hfirst, H3 into Hd, H4 into Htl.
    cbn [consume_].
    assert (Hs : ign = true -> starts_sp s = false).
    { intros Hi. destruct (Hign Hi) as [Hf|Hf]; [|discriminate].
      subst first. destruct (starts_sp s); [discriminate|reflexivity]. }
    rewrite (chars_nf s ign acc Htl Hd Hs).
    cbn [marks flat_map marks_item]. rewrite rev_app_distr, <- app_assoc.
    apply (IH false). exact Hrest.
    intros _. right. destruct (hd_str its); [discriminate|reflexivity].
  - cbn [NFb consume_ marks flat_map marks_item] in *. rewrite rev_app_distr, <- app_assoc, <- repeat_rev_app.
    apply (IH false); auto.
  - cbn [NFb consume_ marks flat_map marks_item] in *. rewrite rev_app_distr, <- app_assoc. apply (IH false); auto.
  - cbn [NFb consume_ marks flat_map marks_item] in *. rewrite rev_app_distr, <- app_assoc. apply (IH false); auto.
  - cbn [NFb consume_ marks flat_map marks_item] in *. rewrite rev_app_distr, <- app_assoc. apply (IH false); auto.
Qed.

Lemma map_fst_marks its : map fst (marks its) = readable its.
Proof.
  induction its as [|it its IH]; [reflexivity|].
  cbn [marks flat_map]. rewrite map_app. fold (marks its). rewrite IH.
  destruct it; cbn [marks_item readable].
  - f_equal. induction s as [|t s IHs]; [reflexivity|]. destruct t; cbn; now rewrite IHs.
  - f_equal. induction n; cbn; congruence.
  - reflexivity.
  - reflexivity.
  - f_equal. rewrite map_map. cbn. apply map_id.
Qed.

(* the last emitted mark of an NF list is never collapsible *)
Definition last_solid (l : list (tok * bool)) : Prop := match rev l with (_, true) :: _ => False | _ => True end.
Lemma drop_coll_solid l : last_solid l -> drop_coll (rev l) = rev l.
Proof. unfold last_solid. destruct (rev l) as [|[t [|]] r]; simpl; tauto. Qed.

Lemma last_solid_app a b : (b <> [] -> last_solid b) -> (b = [] -> last_solid a) -> last_solid (a ++ b).
Proof.
  unfold last_solid. intros Hb Ha. rewrite rev_app_distr.
  destruct b as [|x b] using rev_ind.
  - cbn [rev app]. apply Ha. reflexivity.
  - clear IHb. rewrite rev_app_distr. cbn [rev app].
    assert (H : x :: rev b = rev (b ++ [x])) by (rewrite rev_app_distr; reflexivity).
    specialize (Hb ltac:(intros E; destruct b; discriminate)).
    rewrite rev_app_distr in Hb. cbn [rev app] in Hb. destruct x as [t [|]]; cbn [app] in *; tauto.
Qed.

Lemma last_solid_str s : s <> [] -> lastsp s = false -> last_solid (map mark s).
Proof.
  induction s as [|t s IH]; intros Hne Hl; [congruence|].
  destruct s as [|u s'].
  - unfold last_solid. destruct t; cbn in *; try discriminate; exact I.
  - change (map mark (t :: u :: s')) with ([mark t] ++ map mark (u :: s')).
    apply last_solid_app; [intros _; apply IH; [discriminate|exact Hl]|discriminate].
Qed.

Lemma solid_marks it : solid it = true -> marks_item it <> [] /\ last_solid (marks_item it).
Proof.
  destruct it as [s|n| | |k t]; cbn [solid marks_item]; try discriminate; intros H.
  - apply Nat.leb_le in H. destruct n; [lia|]. split; [discriminate|].
    unfold last_solid. clear H. induction n; [exact I|].
    cbn [repeat rev] in *. destruct (rev (repeat (Sp, false) n)) as [|[a [|]] r]; cbn [app] in *; tauto.
  - split; [discriminate|exact I].
  - split; [discriminate|exact I].
  - destruct t as [|x t]; [discriminate|]. split; [discriminate|].
    unfold last_solid. rewrite <- map_rev. destruct (rev (x :: t)) as [|y r]; [exact I|exact I].
Qed.

Lemma NF_last_solid : forall its first, NFb first its = true -> last_solid (marks its).
Proof.
  induction its as [|it its IH]; intros first Hnf; [exact I|].
  cbn [marks flat_map]. fold (marks its).
  assert (Hrest : NFb false its = true).
  { destruct it; cbn [NFb] in Hnf; auto. repeat (apply andb_true_iff in Hnf as [Hnf ?]). assumption. }
  apply last_solid_app; [intros _; apply (IH false Hrest)|].
  intros Hem. destruct it as [s|n| | |k t]; cbn [marks_item].
  - cbn [NFb] in Hnf. repeat (apply andb_true_iff in Hnf as [Hnf ?]).
    rename H1 into Hlast. 
    destruct (lastsp s) eqn:El.
    + (* then the next item is solid, so marks its is not empty: contradiction *)
      cbn [implb] in Hlast. destruct its as [|x its']; [discriminate|].
      cbn [hd_solid] in Hlast. destruct (solid_marks x Hlast) as [Hne _].
      cbn [marks flat_map] in Hem. apply app_eq_nil in Hem as [Hem _]. contradiction.
    + apply last_solid_str; [destruct s; [discriminate|discriminate]|exact El].
  - unfold last_solid. clear. induction n; [exact I|].
    cbn [repeat rev] in *. destruct (rev (repeat (Sp, false) n)) as [|[a [|]] r]; cbn [app] in *; tauto.
  - exact I.
  - exact I.
  - unfold last_solid. rewrite <- map_rev. destruct (rev t); exact I.
Qed.

Theorem NF_consume its : NFb true its = true -> consume its = readable its.
Proof.
  intros Hnf. unfold consume.
  rewrite (consume_nf its true true [] Hnf (fun _ => or_introl eq_refl)), app_nil_r.
  rewrite drop_coll_solid by (apply (NF_last_solid its true Hnf)).
  rewrite map_rev, rev_involutive. apply map_fst_marks.
Qed.
Print Assumptions NF_consume.
