(* Readers.v -- the two small state machines behind the proved part of C15.  Definitions only.

   (1) paragraph content (WS.v item lists) with the reads that ARE modelled in this development:
       inner_text (WS.readable), the ODF consumer (WS.consume), the normal-form test (WSnfproof.NFb is a proof-side
       predicate, not used here), length; and one write (append_plain_text) so that the machine is not trivially pure.
   (2) a table as the exporters see it: run-length rows of run-length cells with their emptiness flags, and
       Table.optimize_width / rstrip as the Markdown / RST exporters call them:
         pinned  mixin_md.MDTable._md_format      self.optimize_width(); ... render(self)          (F20)
         fixed   (fixes/F20-...diff)               table = self.clone; table.optimize_width(); ... render(table)
         rst     Table._get_formatted_text_rst     table = self.clone; table.rstrip(aggressive=True); ... render(table)
       The text produced (render) is abstract: a Section variable. *)
From Coq Require Import List Arith Bool. Import ListNotations.
Require Import WS.

(* ------------------------------------------------------------------ (1) paragraph reads *)

Inductive pop := RInnerText | RConsume | RLength | WAppend (s : str).
Inductive pout := OStr (s : str) | ONat (n : nat) | OUnit.

Definition pstep (st : list item) (o : pop) : list item * pout :=
  match o with
  | RInnerText => (st, OStr (readable st))
  | RConsume => (st, OStr (consume st))
  | RLength => (st, ONat (length (readable st)))
  | WAppend s => (append_plain_text st s, OUnit)
  end.

Definition is_read (o : pop) : bool := match o with WAppend _ => false | _ => true end.

(* run a history, collecting the answers *)
Fixpoint prun (st : list item) (os : list pop) : list item * list pout :=
  match os with
  | [] => (st, [])
  | o :: r => let (st1, a) := pstep st o in let (st2, l) := prun st1 r in (st2, a :: l)
  end.

(* ------------------------------------------------------------------ (2) tables under the exporters *)

(* a cell run: repeat count (1 = no attribute), empty for is_empty(aggressive=False), empty for is_empty(aggressive=True) *)
Record ccell := mkCell { c_rep : nat; c_soft : bool; c_hard : bool }.
Record crow := mkRow { r_rep : nat; r_cells : list ccell }.
Definition ctable := list crow.

Definition row_soft_empty (r : crow) : bool := forallb c_soft (r_cells r).
Definition row_hard_empty (r : crow) : bool := forallb c_hard (r_cells r).

(* number of trailing row ELEMENTS that are soft-empty *)
Fixpoint trailing_empty (rows_rev : list crow) : nat :=
  match rows_rev with r :: rest => if row_soft_empty r then S (trailing_empty rest) else 0 | [] => 0 end.

Definition set_last_rep1 (t : ctable) : ctable :=
  match rev t with [] => [] | r :: rest => rev (mkRow 1 (r_cells r) :: rest) end.

(* _optimize_width_trim_rows: keep one empty row element, delete the other trailing empty ones, un-repeat the last row *)
Definition trim_rows (t : ctable) : ctable :=
  let count := trailing_empty (rev t) - 1 in
  set_last_rep1 (rev (skipn count (rev t))).

Definition sum_reps (cs : list ccell) : nat := fold_right (fun c n => c_rep c + n) 0 cs.

(* Row.minimized_width *)
Definition minimized_width (r : crow) : nat :=
  match rev (r_cells r) with
  | [] => 1
  | last :: before => if c_hard last then sum_reps before + 1 else sum_reps (r_cells r)
  end.

(* Row.force_width: only an empty (aggressive) last cell WITH a repeat attribute is shortened *)
Definition force_width (w : nat) (r : crow) : crow :=
  match rev (r_cells r) with
  | [] => r
  | last :: before =>
      if c_hard last && (1 <? c_rep last) then
        let delta := sum_reps (r_cells r) - w in
        if 0 <? delta then mkRow (r_rep r) (rev (mkCell (c_rep last - delta) (c_soft last) (c_hard last) :: before)) else r
      else r
  end.

Definition optimize_rows (t : ctable) : ctable :=
  let t1 := trim_rows t in
  let w := fold_right (fun r m => Nat.max (minimized_width r) m) 0 t1 in
  map (force_width w) t1.

(* Table.rstrip(aggressive=True) on the rows: trailing hard-empty row elements go, then every row loses its trailing
   hard-empty cells down to the common width (abstracted here to what the purity argument needs: it is SOME function) *)

Section Export.
  Variable A : Type.
  Variable render : ctable -> A.          (* the text produced from the (shrunk) table *)
  Variable rstrip : ctable -> ctable.     (* Table.rstrip(aggressive=True), not modelled further *)

  (* state = the live table; the step returns the new live table and the answer *)
  Definition md_export_pinned (t : ctable) : ctable * A := let t' := optimize_rows t in (t', render t').
  Definition md_export_fixed (t : ctable) : ctable * A := (t, render (optimize_rows t)).
  Definition rst_export (t : ctable) : ctable * A := (t, render (rstrip t)).
End Export.

Definition ccell_eqb (a b : ccell) := Nat.eqb (c_rep a) (c_rep b) && Bool.eqb (c_soft a) (c_soft b) && Bool.eqb (c_hard a) (c_hard b).
Fixpoint list_eqb {X} (e : X -> X -> bool) (a b : list X) : bool :=
  match a, b with [], [] => true | x :: r, y :: s => e x y && list_eqb e r s | _, _ => false end.
Definition crow_eqb (a b : crow) := Nat.eqb (r_rep a) (r_rep b) && list_eqb ccell_eqb (r_cells a) (r_cells b).
Definition ctable_eqb (a b : ctable) := list_eqb crow_eqb a b.

(* ---- a small scope of tables for the exhaustive sweep of C15_md_pinned_repeatable_small:
   cells: repeat 1 or 3 x {non-empty, empty, empty-but-styled}; rows: 0, 1 or 2 cell runs, row repeat 1 or 2;
   tables: every sequence of <= 2 such rows (7 568), and every sequence of 3 unrepeated rows (79 507) *)
Definition small_cells : list ccell := flat_map (fun r => [mkCell r false false; mkCell r true true; mkCell r false true]) [1; 3].
Definition small_cell_runs : list (list ccell) :=
  [[]] ++ map (fun c => [c]) small_cells ++ flat_map (fun c => map (fun d => [c; d]) small_cells) small_cells.
Definition small_rows : list crow := flat_map (fun cs => [mkRow 1 cs; mkRow 2 cs]) small_cell_runs.
Definition small_rows1 : list crow := map (mkRow 1) small_cell_runs.
Definition small_tables : list ctable :=
  map (fun r => [r]) small_rows ++ flat_map (fun r => map (fun q => [r; q]) small_rows) small_rows
  ++ flat_map (fun r => flat_map (fun q => map (fun s => [r; q; s]) small_rows1) small_rows1) small_rows1.
Definition optimize_idempotent_on (t : ctable) : bool := ctable_eqb (optimize_rows (optimize_rows t)) (optimize_rows t).
