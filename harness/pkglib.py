"""Shared machinery of the package-level checks (C03, C04, C10 document half, C11 save half).

* independent readers of what odfdo writes: zipfile / os.walk / bare lxml, C14N, generator stamp masked
* abstraction of the implementation state (private fields by name, never through the getters under test) into
  terms of coq/theories/Package.v (instance cxml / cbytes)
* a driver that runs one history (list of op dicts) on the real objects, one op at a time under a time limit, and
  records (pre-state, op, post-state, result) as Coq terms
"""
import sys, os, io, zipfile, hashlib, signal, shutil, posixpath, mimetypes, copy, json, time, re
from pathlib import Path
from lxml import etree
sys.path.insert(0, str(Path(__file__).resolve().parent))
import common

NS = dict(
    office="urn:oasis:names:tc:opendocument:xmlns:office:1.0", text="urn:oasis:names:tc:opendocument:xmlns:text:1.0",
    manifest="urn:oasis:names:tc:opendocument:xmlns:manifest:1.0", meta="urn:oasis:names:tc:opendocument:xmlns:meta:1.0",
    draw="urn:oasis:names:tc:opendocument:xmlns:drawing:1.0", xlink="http://www.w3.org/1999/xlink")
T = "{%s}" % NS["text"]; MN = "{%s}" % NS["manifest"]; ME = "{%s}" % NS["meta"]; DR = "{%s}" % NS["draw"]; OF = "{%s}" % NS["office"]
XML_BASENAMES = {"content.xml", "meta.xml", "settings.xml", "styles.xml", "manifest.xml"}
FIXED_NAMES = {"mimetype": 0, "META-INF/manifest.xml": 1, "content.xml": 2, "meta.xml": 3, "settings.xml": 4, "styles.xml": 5,
               "manifest.rdf": 6, "/": -1, "Pictures/": -2}
WS = " \t\n\r"
INLINE = {T + "span", T + "a", T + "meta", T + "meta-field"}
CALL_LIMIT = 20       # seconds per implementation call


class Timeout(Exception):
    pass


def _alarm(signum, frame):
    raise Timeout()


def limited(fn, *a, **k):
    """run one implementation call under a time limit"""
    old = signal.signal(signal.SIGALRM, _alarm)
    signal.setitimer(signal.ITIMER_REAL, CALL_LIMIT)
    try:
        return fn(*a, **k)
    finally:
        signal.setitimer(signal.ITIMER_REAL, 0)
        signal.signal(signal.SIGALRM, old)


def is_xml_name(n):
    return posixpath.basename(n) in XML_BASENAMES


# ------------------------------------------------------------------ ODF white-space consumer (mirrors WS.consume)
def consume(items):
    ign, acc = True, []
    for it in items:
        k = it[0]
        if k == "S":
            for ch in it[1]:
                if ch in WS:
                    if not ign:
                        acc.append((" ", True))
                    ign = True
                else:
                    acc.append((ch, False)); ign = False
        elif k == "s":
            acc.extend([(" ", False)] * it[1]); ign = False
        elif k == "t":
            acc.append(("\t", False)); ign = False
        elif k == "n":
            acc.append(("\n", False)); ign = False
        else:
            acc.append(("￼", False)); ign = False
    while acc and acc[-1][1]:
        acc.pop()
    return "".join(c for c, _ in acc)


def par_items(e, on_opaque=None, on_inline=None):
    """flatten a text:p / text:h (or inline container) into consumer items"""
    items = []

    def flow(x):
        if x.text:
            items.append(("S", x.text))
        for c in x:
            if isinstance(c.tag, str):
                if c.tag == T + "s":
                    items.append(("s", int(c.get(T + "c") or 1)))
                elif c.tag == T + "tab":
                    items.append(("t",))
                elif c.tag == T + "line-break":
                    items.append(("n",))
                elif c.tag in INLINE:
                    if on_inline: on_inline(c, True)
                    flow(c)
                    if on_inline: on_inline(c, False)
                else:
                    items.append(("E",))
                    if on_opaque: on_opaque(c)
            if c.tail:
                items.append(("S", c.tail))
    flow(e)
    return items


def loose_digest(root, mask_images=False):
    """layout-insensitive projection (C11): element skeleton, every attribute, the ODF reading of each paragraph /
    heading, real (non white-space) character data elsewhere; generator stamp masked"""
    h = hashlib.md5()

    def emit(*a):
        h.update(repr(a).encode("utf8", "surrogatepass"))

    def walk(e):
        if not isinstance(e.tag, str):
            # comments and processing instructions are not layout: they must survive
            if isinstance(e, etree._ProcessingInstruction):
                emit("PI", e.target, e.text)
            elif isinstance(e, etree._Comment):
                emit("C", e.text)
            return
        if mask_images and e.tag == DR + "image":
            emit("IMG"); return
        emit("<", e.tag, sorted(e.attrib.items()))
        if e.tag in (T + "p", T + "h"):
            items = par_items(e, walk, lambda c, o: emit("<", c.tag, sorted(c.attrib.items())) if o else emit(">"))
            emit("T", consume(items))
        else:
            t = None if e.tag == ME + "generator" else e.text
            if t and t.strip(WS):
                emit("t", t)
            for c in e:
                walk(c)
                if c.tail and c.tail.strip(WS):
                    emit("t", c.tail)
        emit(">")
    walk(root)
    return h.hexdigest()


_GEN = re.compile(rb"(<(?:[\w.-]+:)?generator(?:\s[^>]*)?>)[^<]*(</)")


def doc_level(root):
    """comments and processing instructions that stand outside the root element (the DOCTYPE is not compared: canonical XML has
    none, and lxml cannot write one for a prefixed root name)"""
    before = [x for x in root.itersiblings(preceding=True)][::-1]
    after = [x for x in root.itersiblings()]
    f = lambda x: ("PI", x.target, x.text) if isinstance(x, etree._ProcessingInstruction) else ("C", x.text)
    return [f(x) for x in before], [f(x) for x in after]


def dress_xml(b, k=0, doctype=False):
    """the same document with items standing OUTSIDE the root element: a comment and a processing instruction before it, a comment
    after it, optionally a DOCTYPE (as OpenOffice.org 1.x wrote)"""
    root = etree.fromstring(b)
    out = etree.tostring(root, xml_declaration=True, encoding="UTF-8")
    head, sep, rest = out.partition(b"?>")
    q = etree.QName(root)
    pref = root.prefix + ":" if root.prefix else ""
    dt = b'\n<!DOCTYPE %s%s PUBLIC "-//OpenOffice.org//DTD OfficeDocument 1.0//EN" "office.dtd">' % (pref.encode(), q.localname.encode()) if doctype else b""
    return head + sep + dt + b"\n<!--before the root %d--><?verif-pi data=\"%d\"?>" % (k, k) + rest + b"<!--after the root-->"


def strict_digest(root, mask=True):
    """C14N (with comments) of the whole document: the root element and the comments / PIs around it, plus the DOCTYPE;
    the generator stamp is masked unless mask=False"""
    c = etree.tostring(root, method="c14n")
    if mask and root.tag == OF + "document-meta":
        c = _GEN.sub(rb"\1\2", c)
    return hashlib.md5(c + repr(doc_level(root)).encode("utf8", "surrogatepass")).hexdigest()


def paragraphs_text(root):
    """ODF reading of every paragraph / heading, in document order (direct oracle for C11)"""
    return [consume(par_items(e)) for e in root.iter(T + "p", T + "h")]


# ------------------------------------------------------------------ interning
class Intern:
    def __init__(self, rdf0):
        self.c = {b"": 0, rdf0: 1}
        self.names = dict(FIXED_NAMES)
        self.ndir, self.nxml, self.nfile = -3, 100, 1000
        self.paths = {}
        self.rev_names = {}

    def content(self, key):
        if isinstance(key, str):
            key = key.encode("utf8", "surrogatepass")
        v = self.c.get(key)
        if v is None:
            v = self.c[key] = len(self.c)
        return v

    def name(self, s):
        v = self.names.get(s)
        if v is None:
            if s.endswith("/"):
                v = self.ndir; self.ndir -= 1
            elif is_xml_name(s):
                v = self.nxml; self.nxml += 1
            else:
                v = self.nfile; self.nfile += 1
            self.names[s] = v
        return v

    def mt(self, s):
        return -1 if s is None else self.content(s)

    def path(self, key):
        v = self.paths.get(key)
        if v is None:
            v = self.paths[key] = len(self.paths) + 1
        return v


SHORTCUTS = {"content.xml": "content", "meta.xml": "meta", "settings.xml": "settings", "styles.xml": "styles", "META-INF/manifest.xml": "manifest"}


def spelled(name, spell):
    """the spelling of a part name handed to the API: as is, with the leading "./" that hrefs carry, or the shortcut of a main part"""
    if spell == "dotslash":
        return "./" + name
    if spell == "shortcut" and name in SHORTCUTS:
        return SHORTCUTS[name]
    if spell == "dotshortcut" and name in SHORTCUTS:
        return "./" + SHORTCUTS[name]
    return name


def z(n):
    return "(%d)" % n if n < 0 else str(n)


def zl(l):
    return "[" + ";".join(z(x) for x in l) + "]"


# ------------------------------------------------------------------ XML abstraction
_xcache = {}


def xinfo_root(root):
    """(strict digest, loose digest, manifest entries or None, loose digests of the root's children)"""
    es = None
    if root.tag == MN + "manifest":
        es = [(e.get(MN + "full-path"), e.get(MN + "media-type")) for e in root.iter(MN + "file-entry")]
    ks = []
    if root.tag in (OF + "document-content", OF + "document-meta", OF + "document-settings", OF + "document-styles"):
        ks = [loose_digest(c, mask_images=True) for c in root if isinstance(c.tag, str)]
    return strict_digest(root), loose_digest(root), es, ks


def xinfo_bytes(data):
    k = hashlib.md5(data).digest()
    v = _xcache.get(k)
    if v is None:
        try:
            v = xinfo_root(etree.fromstring(data))
        except etree.XMLSyntaxError:
            v = False
        _xcache[k] = v
    return v


def cx_term(info, it):
    s, l, es, ks = info
    est = "[" + ";".join("(%s,%s)" % (z(it.name(p if p is not None else "\0none")), z(it.mt(m))) for p, m in (es or [])) + "]"
    if es is not None:
        # the entry list is the identity of a manifest tree (other manifest attributes are not touched by any op)
        return "CX 0 0 %s []" % est
    return "CX %d %d [] %s" % (it.content("S" + s), it.content("L" + l), zl([it.content("L" + k) for k in ks]))


def bytes_term(name, data, it):
    if data is None:
        return None
    if not isinstance(data, (bytes, bytearray)):
        data = repr(data).encode()
    if is_xml_name(name):
        info = xinfo_bytes(bytes(data))
        if info:
            return "CS (%s)" % cx_term(info, it)
    return "CB %d" % it.content(bytes(data))


def opt(t):
    return "None" if t is None else "Some (%s)" % t


# ------------------------------------------------------------------ independent readers of files on disk / in buffers
def read_zip(src):
    """[(name, stored?, bytes)] in archive order"""
    if isinstance(src, (bytes, bytearray)):
        src = io.BytesIO(src)
    with zipfile.ZipFile(src) as zf:
        return [(i.filename, i.compress_type == zipfile.ZIP_STORED, zf.read(i)) for i in zf.infolist()]


def read_dir(path):
    """files (and leaf directories, "/"-terminated) below path, in the operating system's enumeration order"""
    out = []

    def rec(d, rel):
        n = 0
        for name in os.listdir(d):
            n += 1
            if name.startswith("."):
                continue
            full = os.path.join(d, name); r = name if not rel else rel + "/" + name
            if os.path.isfile(full):
                out.append((r, open(full, "rb").read()))
            elif os.path.isdir(full):
                before = len(out)
                rec(full, r)
                if len(out) == before:
                    out.append((r + "/", b""))
    rec(path, "")
    return out


def read_flat(data):
    root = etree.fromstring(data)
    m = root.get(OF + "mimetype")
    return m, [loose_digest(c, mask_images=True) for c in root if isinstance(c.tag, str)]


def file_term(kind, payload, it):
    if kind == "zip":
        return "FZip [%s]" % ";".join("(%s,%s,%s)" % (z(it.name(n)), "true" if st else "false", bytes_term(n, b, it)) for n, st, b in payload)
    if kind == "dir":
        return "FDir [%s]" % ";".join("(%s,%s)" % (z(it.name(n)), bytes_term(n, b, it)) for n, b in payload)
    if kind == "flat":
        m, ks = payload
        return "FFlat %s %s" % (z(it.mt(m)), zl([it.content("L" + k) for k in ks]))
    raise ValueError(kind)


def read_target(t):
    """t: path string or BytesIO -> (kind, payload) or None when nothing readable is there"""
    try:
        if isinstance(t, io.BytesIO):
            data = t.getvalue()
            if data[:2] == b"PK":
                return "zip", read_zip(data)
            if data.lstrip()[:1] == b"<":
                return "flat", read_flat(data)
            return None
        if os.path.isdir(t):
            return "dir", read_dir(t)
        if os.path.isfile(t):
            with open(t, "rb") as f:
                head = f.read(2)
            if head == b"PK":
                return "zip", read_zip(t)
            return "flat", read_flat(open(t, "rb").read())
    except (zipfile.BadZipFile, etree.XMLSyntaxError, OSError):
        return None
    return None


# ------------------------------------------------------------------ abstraction of the implementation state
def abs_container(c, it, fsreg):
    parts = c._Container__parts
    ts = c._Container__parts_ts
    pk = {"zip": "PZip", "folder": "PFolder", "xml": "PXml"}.get(c._Container__packaging, "PZip")
    path = c.path
    pid = None
    if path is not None:
        pid = fsreg.id_of(str(path))
    tsl = []
    for n, t in ts.items():
        try:
            cur = int(os.stat(os.path.join(str(path), n)).st_mtime) if path is not None else -1
        except OSError:
            cur = -1
        if t == cur or path is None:      # without a path the time stamps are never consulted again
            tsl.append(it.name(n))
    pl = ";".join("(%s,%s)" % (z(it.name(n)), opt(bytes_term(n, b, it))) for n, b in parts.items())
    return "mkC [%s] %s (%s) %s" % (pl, zl(tsl), opt(str(pid) if pid is not None else None), pk), pid


def abs_document(d, it, fsreg):
    ct, pid = abs_container(d.container, it, fsreg)
    xl = []
    for n, part in d._Document__xmlparts.items():
        tree = part._XmlPart__tree
        if tree is None:
            xl.append("(%s,None)" % z(it.name(n)))
        else:
            xl.append("(%s,Some (%s))" % (z(it.name(n)), cx_term(xinfo_root(tree.getroot()), it)))
    return "mkD (%s) [%s]" % (ct, ";".join(xl)), pid


class FsReg:
    """path / buffer registry: ids of Package.v's fs; files are re-read independently whenever a term is needed"""
    def __init__(self, it):
        self.it = it; self.targets = {}

    def id_of(self, key, obj=None):
        i = self.it.path(key)
        self.targets.setdefault(i, obj if obj is not None else key)
        return i

    def term(self, ids):
        out = []
        for i in sorted(set(x for x in ids if x is not None)):
            r = read_target(self.targets[i])
            if r is not None:
                out.append("(%d,%s)" % (i, file_term(r[0], r[1], self.it)))
        return "[" + ";".join(out) + "]"


# ------------------------------------------------------------------ the driver
EDIT_NS = "urn:verif:k"


class Driver:
    """runs op dicts on the real objects; after every op: (pre fs, pre doc, op term, post fs, post doc, result)"""

    def __init__(self, workdir, rdf0=None):
        self.odfdo = common.use_repo()
        from odfdo import Document
        from odfdo.container import Container
        self.Document = Document
        self.rdf0 = Container().default_manifest_rdf.encode("utf8") if rdf0 is None else rdf0
        self.work = Path(workdir); self.work.mkdir(parents=True, exist_ok=True)
        self.reset()

    def reset(self):
        self.it = Intern(self.rdf0); self.fs = FsReg(self.it); self.doc = None; self.twin = None; self.twin_term = self.EMPTY_DOC
        self.nfile = 0; self.saved = []     # (target object, kind)
        self.held = None; self.twin_held = None

    def fresh(self, suffix=""):
        self.nfile += 1
        return str(self.work / ("f%d_%d%s" % (os.getpid(), self.nfile, suffix)))

    # -- abstraction
    EMPTY_DOC = "mkD (mkC [] [] None PZip) []"

    def state(self, extra_ids=()):
        ids = list(extra_ids)
        self.twin_term = self.EMPTY_DOC
        if self.twin is not None:
            self.twin_term, tpid = abs_document(self.twin, self.it, self.fs)
            ids.append(tpid)
        if self.doc is None or self.doc.container is None:
            return self.fs.term(ids), self.EMPTY_DOC
        dt, pid = abs_document(self.doc, self.it, self.fs)
        return self.fs.term([pid] + ids), dt

    def part_bytes_now(self, name):
        """current bytes of a part, read from private state / disk (not through get_part)"""
        c = self.doc.container
        parts = c._Container__parts
        if name in parts:
            return parts[name]
        if c.path is not None:
            r = read_target(str(c.path))
            if r and r[0] in ("zip",):
                for n, _, b in r[1]:
                    if n == name: return b
            if r and r[0] == "dir":
                for n, b in r[1]:
                    if n == name: return b
        return None

    def doc_levels(self):
        """name -> comments / processing instructions standing outside the root element, for every XML part held in memory"""
        out = {}
        parts = self.doc.container._Container__parts
        for n in set(parts) | set(self.doc._Document__xmlparts):
            if not is_xml_name(n):
                continue
            xp = self.doc._Document__xmlparts.get(n)
            try:
                if xp is not None and xp._XmlPart__tree is not None:
                    out[n] = doc_level(xp._XmlPart__tree.getroot())
                elif parts.get(n) is not None:
                    out[n] = doc_level(etree.fromstring(parts[n]))
            except etree.XMLSyntaxError:
                pass
        return out

    def raw_view(self, doc):
        """name -> digest of what the document holds, nothing masked (parsed tree first, then memory, then the file)"""
        c = doc.container
        out = {}
        if c.path is not None:
            r = read_target(str(c.path))
            if r and r[0] == "zip":
                for n, _, b in r[1]: out[n] = b
            if r and r[0] == "dir":
                for n, b in r[1]: out[n] = b
        for n, b in c._Container__parts.items():
            if b is None:
                out.pop(n, None)
            else:
                out[n] = b
        dig = {}
        for n, b in out.items():
            if n.endswith("/"):
                continue
            d = None
            if is_xml_name(n):
                try:
                    d = "x" + strict_digest(etree.fromstring(b), mask=False)
                except Exception:
                    d = None
            dig[n] = d or hashlib.md5(bytes(b)).hexdigest()
        for n, part in doc._Document__xmlparts.items():
            tree = part._XmlPart__tree
            if tree is not None and n in dig:
                dig[n] = "x" + strict_digest(tree.getroot(), mask=False)
        return dig

    def content_images(self):
        """(href, bytes) of every draw:image of the content part that names a packaged part, in document order"""
        xp = self.doc._Document__xmlparts.get("content.xml")
        if xp is not None and xp._XmlPart__tree is not None:
            root = xp._XmlPart__tree.getroot()
        else:
            b = self.part_bytes_now("content.xml")
            if b is None:
                return []
            root = etree.fromstring(b)
        XL = "{%s}href" % NS["xlink"]
        out = []
        for e in root.iter(DR + "image"):
            href = e.get(XL)
            if not href or "://" in href:
                continue
            name = posixpath.normpath(href)
            data = self.part_bytes_now(name)
            if data:
                out.append((href, bytes(data)))
        return out

    def live_names(self):
        c = self.doc.container
        names = {}
        if c.path is not None:
            r = read_target(str(c.path))
            if r and r[0] == "zip":
                for n, _, b in r[1]: names[n] = True
            if r and r[0] == "dir":
                for n, b in r[1]: names[n] = True
        for n, b in c._Container__parts.items():
            names[n] = b is not None
        return [n for n, ok in names.items() if ok]

    # -- one op
    def apply(self, o):
        """returns dict(pre_fs, pre, op, post_fs, post, out, err)"""
        k = o["op"]; it = self.it; D = self.Document
        ids = []
        # ids of files the op reads must be in the pre fs
        if k in ("open", "new"):
            src = o["src"]
            if isinstance(src, int):       # index into self.saved
                tgt = self.saved[src][0]
                key = ("buf", id(tgt)) if isinstance(tgt, io.BytesIO) else tgt
                sid = self.fs.id_of(key, tgt)
            else:
                sid = self.fs.id_of(src)
            ids.append(sid)
        if k == "rmsource":
            # environment action: the file a path-opened document came from disappears
            for dd in (self.doc, self.twin):
                if dd is not None and dd.container.path is not None and str(dd.container.path).startswith(str(self.work)):
                    pth = str(dd.container.path)
                    shutil.rmtree(pth) if os.path.isdir(pth) else os.unlink(pth)
            return None
        if k == "swap":
            if self.twin is not None:
                self.doc, self.twin = self.twin, self.doc
                self.held, self.twin_held = self.twin_held, self.held      # an element handle belongs to one of the twins
            return None
        if k == "buildopen":
            # a package assembled with zipfile from a template: extra members in special directories, listed in its manifest
            dst = self.fresh(".odt")
            base = fix_src(o["base"])
            members = read_zip(base)
            have = set(n for n, _, _ in members)
            extra = [(n, expand(v)) for n, v in o["extra"] if n not in have]
            out = []
            for n, st, b in members:
                if n == "META-INF/manifest.xml":
                    root = etree.fromstring(b)
                    for en, _ in extra:
                        if not en.endswith("/"):
                            e = etree.SubElement(root, MN + "file-entry"); e.set(MN + "full-path", en); e.set(MN + "media-type", "application/octet-stream")
                    b = etree.tostring(root, xml_declaration=True, encoding="UTF-8")
                if n in (o.get("dress") or ()):
                    b = dress_xml(b, len(n), doctype=bool(o.get("doctype")))
                out.append((n, st, b))
            with zipfile.ZipFile(dst, "w", zipfile.ZIP_DEFLATED) as zf:
                for n, st, b in out[:-1] if out[-1][0] == "META-INF/manifest.xml" else out:
                    zf.writestr(n, b, zipfile.ZIP_STORED if st else zipfile.ZIP_DEFLATED)
                for n, b in extra:
                    zf.writestr(n, b)
                if out[-1][0] == "META-INF/manifest.xml":
                    zf.writestr(out[-1][0], out[-1][2])
            o = dict(o, op="open", src=dst, buf=bool(o.get("buf"))); k = "open"
            sid = self.fs.id_of(dst); ids.append(sid)
        if k == "copyopen":
            # open a private copy of a sample by path (so that the source can be removed / overwritten later)
            dst = self.fresh(os.path.splitext(o["src"])[1]); shutil.copy(o["src"], dst)
            o = dict(o, op="open", src=dst, buf=False); k = "open"
            sid = self.fs.id_of(dst); ids.append(sid)
        pre_fs, pre = self.state(ids)
        twin_pre = self.twin_term
        out, err, opt_term = "Done", None, None
        extra_v = []
        if k in ("open", "new"):
            self.held = None
        try:
            if k == "open":
                tgt = self.fs.targets[sid]
                buf = isinstance(tgt, io.BytesIO) or bool(o.get("buf") and os.path.isfile(tgt))
                opt_term = "OOpen %d %s" % (sid, "true" if buf else "false")
                if isinstance(tgt, io.BytesIO):
                    self.doc = limited(D, io.BytesIO(tgt.getvalue()))
                elif buf:
                    self.doc = limited(D, io.BytesIO(open(tgt, "rb").read()))
                else:
                    self.doc = limited(D, tgt)
            elif k == "new":
                tgt = self.fs.targets[sid]
                raw = dict((n, b) for n, _, b in read_zip(tgt))["mimetype"].decode()
                m2 = raw.replace("-template", "")
                if o.get("template"):
                    self.doc = limited(D, o["template"])
                else:
                    self.doc = limited(D.new, tgt)
                opt_term = "ONew %d %s" % (sid, z(it.mt(m2)))
            elif k == "get":
                n = o["name"]
                opt_term = "OGetPart %s" % z(it.name(n))
                r = limited(self.doc.get_part, spelled(n, o.get("spell")))
                if not is_xml_name(n):
                    out = "Got (%s)" % bytes_term(n, r, it) if r is not None else "Err"
            elif k == "touch":
                n = o["name"]
                opt_term = "OTouch %s" % z(it.name(n))
                limited(lambda: self.doc.get_part(spelled(n, o.get("spell"))).root)
            elif k == "edit":
                n = o["name"]
                edited = limited(self.do_edit, n, o["how"], o.get("arg"))
                xp = self.doc._Document__xmlparts.get(n)
                if xp is not None and xp._XmlPart__tree is not None:
                    root = xp._XmlPart__tree.getroot()
                else:       # the wrapper that was edited is not (any more) the cached part: abstract the tree the edit went to
                    root = edited._Element__element.getroottree().getroot()
                opt_term = "OEdit %s (%s)" % (z(it.name(n)), cx_term(xinfo_root(root), it))
            elif k == "set":
                n = o["name"]; data = self.make_data(n, o.get("variant", 0), o.get("data"))
                opt_term = "OSetPart %s (%s)" % (z(it.name(n)), bytes_term(n, data, it))
                limited(self.doc.set_part, spelled(n, o.get("spell")), data)
            elif k == "del":
                n = o["name"]
                opt_term = "ODelPart %s" % z(it.name(n))
                limited(self.doc.del_part, spelled(n, o.get("spell")))
            elif k == "addfile":
                content = o["content"]; ext = o.get("ext", ".png")
                if o.get("filelike"):
                    mt = "application/octet-stream"
                    r = limited(self.doc.add_file, io.BytesIO(content))
                else:
                    p = self.fresh(ext); open(p, "wb").write(content)
                    mt = mimetypes.guess_type("x" + ext.lower())[0] or "application/octet-stream"
                    r = limited(self.doc.add_file, p)
                o["returned"] = r
                opt_term = "OAddFile %s (%s) %s" % (z(it.name(r)), bytes_term(r, content, it), z(it.mt(mt)))
            elif k == "import":
                n = o["name"]; data = o["data"]; mt = o["mt"]
                opt_term = "OImport %s (%s) %s" % (z(it.name(n)), bytes_term(n, data, it), z(it.mt(mt)))

                def imp():
                    manifest = self.doc.manifest
                    self.doc.set_part(n, data)
                    manifest.add_full_path(n, mt)
                limited(imp)
            elif k == "merge":
                src_doc, imgs = limited(self.make_source, o["source"])
                imgs_t = "[" + ";".join("(%s,%s,%s)" % (z(it.name(u)), bytes_term(u, b, it), z(it.mt(m))) for u, b, m in imgs) + "]"
                err_merge = None
                try:
                    limited(self.doc.merge_styles_from, src_doc)
                except Timeout:
                    raise
                except Exception as e:
                    err_merge = e

                def tree_opt(n):
                    xp = self.doc._Document__xmlparts.get(n)
                    if xp is None or xp._XmlPart__tree is None:
                        return "None"
                    return "Some (%s)" % cx_term(xinfo_root(xp._XmlPart__tree.getroot()), it)
                opt_term = "OMerge (%s) (%s) %s" % (tree_opt("content.xml"), tree_opt("styles.xml"), imgs_t)
                if err_merge is not None:
                    raise err_merge
            elif k == "save":
                pk = o.get("packaging", "zip"); pretty = o.get("pretty")
                eff_pretty = (pk in ("folder", "xml")) if pretty is None else bool(pretty)
                reuse = o.get("reuse")
                if reuse is not None and not (0 <= reuse < len(self.saved) and self.saved[reuse][1] == pk):
                    reuse = None
                if reuse is not None and pk == "folder" and self.doc.container.path is not None \
                        and str(self.doc.container.path) == str(self.saved[reuse][0]):
                    reuse = None      # in-place folder save: outcome depends on the clock (one-second time stamps)
                if reuse is not None and self.twin is not None and self.twin.container.path is not None \
                        and str(self.twin.container.path) == str(self.saved[reuse][0]):
                    reuse = None      # saving one twin over the file the other one loads from: excluded by the hypothesis of C10's independence theorems
                if reuse is not None and pk == "xml" and isinstance(self.saved[reuse][0], io.BytesIO):
                    reuse = None      # flat XML is written at the buffer's current position: a reused BytesIO holds two documents (notes/C03.md)
                if reuse is not None:
                    # the same target object / path as an earlier save of this history
                    tgt0, _, arg0 = self.saved[reuse]
                    if isinstance(tgt0, io.BytesIO):
                        sid = self.fs.id_of(("buf", id(tgt0)), tgt0); arg = tgt0; tt = "TBuf %d" % sid
                    else:
                        sid = self.fs.id_of(tgt0); arg = arg0; tt = "TPath %d" % sid
                elif o.get("target") == "buf":
                    tgt = io.BytesIO(); sid = self.fs.id_of(("buf", id(tgt)), tgt); arg = tgt; tt = "TBuf %d" % sid
                    self._keep = getattr(self, "_keep", []) + [tgt]
                elif o.get("target") == "self":
                    arg = None; real = str(self.doc.container.path); sid = self.fs.id_of(real); tt = "TPath %d" % sid
                else:
                    base = self.fresh(); arg = base + {"zip": ".odt", "folder": "", "xml": ""}[pk]
                    real = {"zip": arg, "folder": base + ".folder", "xml": base + ".xml"}[pk]
                    sid = self.fs.id_of(real); tt = "TPath %d" % sid
                opt_term = "OSave (%s) %s %s" % (tt, {"zip": "PZip", "folder": "PFolder", "xml": "PXml"}[pk], "true" if eff_pretty else "false")
                ids.append(sid)
                kw = {} if pretty is None else dict(pretty=pretty)
                want_images = self.content_images() if pk == "xml" else None
                want_levels = self.doc_levels() if pk != "xml" else {}
                limited(self.doc.save, arg, packaging=pk, **kw)
                if any(b or a for b, a in want_levels.values()):
                    # items outside the root element of a part are content: they are in the saved part, plain or pretty
                    tg = self.fs.targets[sid]
                    r = read_target(tg if isinstance(tg, io.BytesIO) else str(tg))
                    got = {}
                    if r and r[0] in ("zip", "dir"):
                        for t in r[1]:
                            if t[0] in want_levels:
                                try: got[t[0]] = doc_level(etree.fromstring(t[-1]))
                                except etree.XMLSyntaxError: got[t[0]] = None
                        lost = sorted(n for n in want_levels if n in got and got[n] != want_levels[n] and n != "META-INF/manifest.xml")
                        if lost:
                            extra_v.append(("save-%s%s/document-level-items-lost" % (pk, "-pretty" if eff_pretty else ""),
                                            "save: comments / processing instructions outside the root element of %s are not in the saved part" % lost[:4]))
                if pk == "xml":
                    # content inclusion: every packaged image the body references is embedded as office:binary-data
                    tgt_obj = self.fs.targets[sid]
                    data = tgt_obj.getvalue() if isinstance(tgt_obj, io.BytesIO) else open(tgt_obj, "rb").read()
                    import base64
                    got = []
                    try:
                        for e in etree.fromstring(data).iter(DR + "image"):
                            bd = e.find(OF + "binary-data")
                            got.append(base64.b64decode("".join((bd.text or "").split())) if bd is not None else None)
                    except etree.XMLSyntaxError:
                        got = None
                    exp = [b for _, b in want_images]
                    if got is None or [g for g in got if g is not None] != exp:
                        missing = len(exp) - (0 if got is None else sum(1 for g in got if g is not None))
                        extra_v.append(("save-xml/image-not-embedded", "flat XML: %d of %d packaged images referenced by the body are not embedded (first href %s)"
                                        % (missing, len(exp), want_images[0][0] if want_images else None)))
                # a later save of this history may reuse the target: remember a real argument (an in-place save passes None)
                self.saved.append((self.fs.targets[sid], pk, arg if arg is not None else self.fs.targets[sid]))
                o["saved_index"] = len(self.saved) - 1
            elif k in ("clone", "clone2"):
                # for a clone nothing is masked: the original byte for byte (C14N) before / after, the clone against it
                opt_term = "OClone"
                orig = self.doc
                before = self.raw_view(orig)
                new = limited(lambda: orig.clone)
                after = self.raw_view(orig); born = self.raw_view(new)
                ch = sorted(n for n in set(before) | set(after) if before.get(n) != after.get(n))
                df = sorted(n for n in set(before) | set(born) if before.get(n) != born.get(n))
                if ch:
                    extra_v.append(("clone/original-changed/%s" % ("meta.xml" if "meta.xml" in ch else ch[0]), "clone-modifies-original (nothing masked): %s" % ch[:4]))
                if df:
                    extra_v.append(("clone/not-equal-at-birth-unmasked/%s" % ("meta.xml" if "meta.xml" in df else df[0]), "equal-at-birth (nothing masked): %s" % df[:4]))
                if k == "clone2":
                    self.twin = orig; self.twin_held = self.held
                self.doc = new; self.held = None
            else:
                raise ValueError("unknown op %r" % (k,))
        except Timeout:
            raise
        except Exception as e:       # the implementation raised: the model must say Err too
            err = "%s: %s" % (type(e).__name__, str(e)[:200]); out = "Err"
            if opt_term is None:
                raise
        post_fs, post = self.state(ids)
        return dict(pre_fs=pre_fs, pre=pre, op=opt_term, post_fs=post_fs, post=post, out=out, err=err, kind=k,
                    twin_pre=twin_pre, twin_post=self.twin_term, extra_violations=extra_v)

    # -- helpers for ops
    def make_source(self, spec):
        """a source document for merge_styles_from whose styles reference images, built from a JSON-able spec:
        base = a template name or a sample path; fill = contents of pictures used by draw:fill-image styles; master = contents of
        pictures used in the header of the first master page.  Returns (document, [(url, bytes, media type)]) where the list is
        read independently from the source package: the images its master-page / fill-image styles reference, in document order"""
        from odfdo import Element
        base = fix_src(spec.get("base", "text"))
        src = self.Document(base)
        n = 0
        for kind in ("fill", "master"):
            for content in spec.get(kind, []):
                data = expand(content)
                pth = self.fresh(spec.get("ext", ".png")); open(pth, "wb").write(data)
                url = src.add_file(pth)
                n += 1
                if kind == "fill":
                    st = src.styles.get_element("//office:styles")
                    st.append(Element.from_tag('<draw:fill-image draw:name="verif_fill_%d" xlink:href="%s" xlink:type="simple" '
                                               'xlink:show="embed" xlink:actuate="onLoad"/>' % (n, url)))
                else:
                    mp = src.styles.get_element("//style:master-page")
                    mp.append(Element.from_tag('<style:header><text:p><draw:frame draw:name="verif_hdr_%d" text:anchor-type="as-char" '
                                               'svg:width="1cm" svg:height="1cm"><draw:image xlink:href="%s" xlink:type="simple"/>'
                                               '</draw:frame></text:p></style:header>' % (n, url)))
        # independent reading of the source: save it and look into the zip
        buf = io.BytesIO(); src.save(buf)
        members = dict((nm, b) for nm, _, b in read_zip(buf.getvalue()))
        man = etree.fromstring(members["META-INF/manifest.xml"])
        mts = dict((e.get(MN + "full-path"), e.get(MN + "media-type")) for e in man.iter(MN + "file-entry"))
        XL = "{%s}href" % NS["xlink"]; ST = "{urn:oasis:names:tc:opendocument:xmlns:style:1.0}"
        imgs = []
        for part in ("content.xml", "styles.xml"):
            root = etree.fromstring(members[part])
            for e in root.iter():
                if not isinstance(e.tag, str):
                    continue
                if e.tag == DR + "fill-image" and e.get(XL):
                    imgs.append(e.get(XL))
                elif e.tag == ST + "master-page":
                    imgs += [i.get(XL) for i in e.iter(DR + "image") if i.get(XL)]
        out = [(u, members.get(u), mts.get(u)) for u in imgs]
        return self.Document(io.BytesIO(buf.getvalue())), out

    def make_data(self, name, variant, data=None):
        if data is not None:
            return data
        if is_xml_name(name):
            cur = self.part_bytes_now(name)
            tr = self.doc._Document__xmlparts.get(name)
            try:
                root = etree.fromstring(cur)
            except Exception:
                root = etree.fromstring(b"<office:document-content xmlns:office='%s'/>" % NS["office"].encode())
            root.set("{%s}k" % EDIT_NS, str(variant))
            out = etree.tostring(root, xml_declaration=True, encoding="UTF-8")
            if variant >= 4:
                # document-level items: comment and processing instruction before the root, comment after it (variant 6: DOCTYPE too)
                out = dress_xml(out, variant, doctype=variant >= 6)
            return out
        return b"DATA-%d-" % variant + name.encode()

    def do_edit(self, n, how, arg):
        from odfdo import Paragraph, Element, Frame, Style
        d = self.doc
        if n == "content.xml":
            body = d.body
            ret = body
            if how == "par":
                self.held = Paragraph(arg or "added  text\twith   spaces")
                body.append(self.held)
            elif how == "heldtext":
                # edit through an element handle obtained earlier (not fetched again)
                if self.held is None:
                    self.held = Paragraph("held")
                    body.append(self.held)
                self.held.append(arg or " more text through the old handle")
                ret = self.held
            elif how == "frame":
                p = Paragraph("")
                p.append(Frame.image_frame(arg or "Pictures/none.png", size=("1cm", "1cm"), anchor_type="as-char"))
                body.append(p)
            elif how == "raw":
                body.append(Element.from_tag(arg))
            elif how == "rawmany":
                for x in arg:
                    body.append(Element.from_tag(x))
            elif how == "clear":
                body.clear()
            else:
                body.append(Element.from_tag('<text:p xmlns:text="%s">%s</text:p>' % (NS["text"], how)))
        elif n == "meta.xml":
            m = d.meta
            if how == "title":
                m.title = arg or "a title"
            elif how == "generator":
                m.generator = arg or "somebody else"
            else:
                m.subject = arg or "subject"
        elif n == "styles.xml":
            root = d.styles.root
            root.set_attribute("office:version", arg or "1.2") if how == "attr" else \
                d.insert_style(Style("paragraph", name=arg or "verifstyle", area="text", bold=True), automatic=False)
        else:
            part = d.get_part(n)
            part.root.set_attribute("office:version", arg or "1.2")
        if n == "content.xml":
            return ret
        return d.get_part(n).root


def step_case10(r):
    return "mk10 (%s) (%s) (%s) (%s) (%s) (%s) (%s) (%s)" % (r["pre_fs"], r["pre"], r["twin_pre"], r["op"], r["post_fs"], r["post"], r["twin_post"], r["out"])


def step_case(r):
    return "mk (%s) (%s) (%s) (%s) (%s) (%s)" % (r["pre_fs"], r["pre"], r["op"], r["post_fs"], r["post"], r["out"])


def probe_fx():
    """which of the two late repairs (F35: Container.parts lists memory; F42: manifest.rdf listed = `is not None`) does the tree under
    test carry?  Decided by behaviour, on two three-line scenarios; the model variant FX mirrors it"""
    common.use_repo()
    from odfdo import Document
    d = Document("text")
    d.del_part("Thumbnails/thumbnail.png")
    f35 = "Thumbnails/thumbnail.png" not in d.container.parts
    d = Document("text")
    d.manifest.add_full_path("manifest.rdf")
    b = io.BytesIO(); d.save(b)
    f42 = "manifest.rdf" in zipfile.ZipFile(b).namelist()
    # F43: does a clone keep what a part class stores beside its tree (Meta: generator set by the user)?
    d = Document("text")
    d.meta.generator = "verif probe"
    b = io.BytesIO(); d.clone.save(b)
    f43 = b"verif probe" in zipfile.ZipFile(b).read("meta.xml")
    return f35, f42, f43


def fx_header():
    f35, f42, f43 = probe_fx()
    tf = lambda v: "true" if v else "false"
    return "Definition FX := mkFx true true true true true true true true %s %s %s.\n" % (tf(f35), tf(f42), tf(f43)), (f35, f42, f43)


PKG_HEADER = """Require Import Package. From Coq Require Import List ZArith Bool Arith. Import ListNotations.
Open Scope Z_scope.
Definition mk (fs : cfs) (d : cdoc) (o : cop) (fs' : cfs) (d' : cdoc) (r : out cbytes) := (fs, d, o, fs', d', r).
Definition mk10 (fs : cfs) (d tw : cdoc) (o : cop) (fs' : cfs) (d' tw' : cdoc) (r : out cbytes) := (fs, d, tw, o, fs', d', tw', r).
"""


def samples(repo):
    s = sorted(p for p in (Path(repo) / "tests" / "samples").iterdir() if p.suffix[1:3] in ("od", "ot") and len(p.suffix) == 4)
    return [str(p) for p in s]


def templates(repo):
    t = Path(repo) / "src" / "odfdo" / "templates"
    return {"text": str(t / "text.ott"), "spreadsheet": str(t / "spreadsheet.ots"), "presentation": str(t / "presentation.otp"),
            "drawing": str(t / "drawing.otg")}


# ------------------------------------------------------------------ history generation (shared by C03 / C04 / C10 / C11)
POOL = ["\x89PNG-one", "GIF89a-two", "third blob \x00\x01\x02", ""]
BIG = "\x00GEN:%d:%d"      # expanded by expand(): incompressible content of the given size (keeps replay files small)


def expand(v):
    """str payload of an op -> bytes"""
    if isinstance(v, str):
        if v.startswith("\x00GEN:"):
            import random
            _, seed, n = v.split(":")
            return random.Random(int(seed)).randbytes(int(n))
        try:
            return v.encode("latin-1")
        except UnicodeEncodeError:
            return v.encode("utf8")
    return v


def gen_history(rng, starts, weights, nsteps):
    """starts: list of start ops.  weights: {kind: weight}.  Names are resolved at run time (see resolve)."""
    h = [dict(rng.choice(starts))]
    kinds = [k for k, w in weights.items() for _ in range(w)]
    for _ in range(nsteps):
        k = rng.choice(kinds)
        o = dict(op=k, r=rng.randrange(1 << 30))
        h.append(o)
    return h


def resolve(drv, o, rng_seed):
    """turn an abstract op (kind + random number) into a concrete op dict, using the current implementation state
    read independently; returns a list of concrete ops (a compound such as 'frame' expands to two)"""
    import random
    rng = random.Random(rng_seed)
    k = o["op"]
    if "r" not in o:
        return [o]
    names = drv.live_names() if drv.doc is not None else []
    free = [n for n in names if n not in ("mimetype", "META-INF/manifest.xml") and not is_xml_name(n) and not n.endswith("/")]
    xmls = [n for n in names if is_xml_name(n) and n != "META-INF/manifest.xml"]
    if k == "addfile":
        content = rng.choice(POOL) if rng.random() < 0.8 else BIG % (rng.randrange(3), rng.choice([3000, 20000]))
        return [dict(op="addfile", content=content, ext=rng.choice([".png", ".png", ".jpg", ".bin", "", ".PNG"]),
                     filelike=rng.random() < 0.35)]
    if k == "frame":
        c = rng.choice(POOL); ext = rng.choice([".png", ".jpg"])
        return [dict(op="addfile", content=c, ext=ext, filelike=False), dict(op="edit", name="content.xml", how="frame", arg=None, use_returned=True)]
    if k == "del":
        cand = free + ["Pictures/nothing-here.png"]
        added = [n for n in names if n.startswith("Pictures/")]
        pick = rng.choice(added) if added and rng.random() < 0.6 else rng.choice(cand)
        return [dict(op="del", name=pick)]
    if k == "delmandatory":
        return [dict(op="del", name=rng.choice(["content.xml", "META-INF/manifest.xml", "styles.xml"]))]
    if k == "import":
        if free and rng.random() < 0.4:
            n = rng.choice(free)
        else:
            n = rng.choice(["Pictures/imported %d.png" % rng.randrange(3), "media/clip.bin", "Pictures/100000.jpg"])
        return [dict(op="import", name=n, data=rng.choice(POOL) + "-imp", mt=rng.choice(["image/png", "image/jpeg", ""]))]
    if k == "set":
        if not free:
            return []
        return [dict(op="set", name=rng.choice(free), variant=rng.randrange(4))]
    if k == "setxml":
        if not xmls:
            return []
        return [dict(op="set", name=rng.choice(xmls), variant=rng.randrange(6))]
    if k == "setnew":
        return [dict(op="set", name=rng.choice(SPECIAL_NAMES), variant=rng.randrange(4))]
    if k == "importnew":
        n = rng.choice([x for x in SPECIAL_NAMES if not x.endswith("/")])
        return [dict(op="import", name=n, data="special-" + n, mt=rng.choice(["application/octet-stream", "text/xml", "image/png"]))]
    if k == "get":
        return [dict(op="get", name=rng.choice(names))] if names else []
    if k == "touch":
        return [dict(op="touch", name=rng.choice(xmls + ["META-INF/manifest.xml"]))] if xmls else []
    if k == "addobject":
        # an embedded object: XML parts in a sub-directory whose base names make Document.get_part treat them as XML parts
        i = rng.randrange(1, 3)
        return [dict(op="import", name="Object %d/%s" % (i, b), data=OBJ_XML[b], mt="text/xml") for b in ("content.xml", "styles.xml", "meta.xml")]
    if k == "editobj":
        sub = [x for x in xmls if "/" in x]
        if not sub:
            return []
        return [dict(op="edit", name=rng.choice(sub), how="attr", arg="1.%d" % rng.randrange(1, 4))]
    if k == "edit":
        # any XML part of the package: the five main ones and those of embedded objects (class chosen by base name)
        sub = [x for x in xmls if "/" in x]
        n = rng.choice(sub) if sub and rng.random() < 0.35 else rng.choice([x for x in xmls if "/" not in x] or ["content.xml"])
        how = {"content.xml": rng.choice(["par", "par", "spaces", "frame", "raw"]), "meta.xml": rng.choice(["title", "subject", "generator"]),
               "styles.xml": "attr", "settings.xml": "attr"}.get(n, "attr")
        arg = None
        if how == "spaces":
            how, arg = "par", rng.choice(["a  b", " lead", "trail  ", "x\ty\nz", "two  spaces  twice"])
        if n == "content.xml" and rng.random() < 0.25:
            how, arg = "heldtext", " held %d" % rng.randrange(9)
        if how == "raw":
            arg = rng.choice(RAW_PARS)
        if how == "attr":
            arg = "1.%d" % rng.randrange(1, 4)
        if how in ("title", "subject", "generator"):
            arg = "%s %d" % (how, rng.randrange(5))
        return [dict(op="edit", name=n, how=how, arg=arg)]
    if k == "save":
        pk = rng.choice(o.get("packagings") or ["zip", "zip", "zip", "folder"])
        tgt = "buf" if (pk != "folder" and rng.random() < 0.5) else "path"
        pretty = rng.choice(o.get("pretties") or [False, False, None, True])
        c = dict(op="save", packaging=pk, target=tgt, pretty=pretty)
        # repeated saves into the same target object / path of an earlier save (buffer, file, folder)
        same = [i for i, sv in enumerate(drv.saved) if sv[1] == pk]
        if same and rng.random() < 0.4:
            c["reuse"] = rng.choice(same)
        return [c]
    if k == "shrink":
        # make the document smaller: drop the biggest removable part, or clear the body
        c = drv.doc.container if drv.doc is not None else None
        if c is None:
            return []
        sizes = [(len(drv.part_bytes_now(n) or b""), n) for n in free]
        if sizes and rng.random() < 0.7:
            return [dict(op="del", name=max(sizes)[1])]
        return [dict(op="edit", name="content.xml", how="clear", arg=None)]
    if k == "grow":
        return [dict(op="addfile", content=BIG % (rng.randrange(5), rng.choice([5000, 40000])), ext=".bin", filelike=rng.random() < 0.5)]
    if k == "saveself":
        c = drv.doc.container if drv.doc is not None else None
        if c is None or c.path is None or c._Container__packaging != "zip" or not str(c.path).startswith(str(drv.work)):
            return [dict(op="save", packaging="zip", target="path", pretty=False)]
        return [dict(op="save", packaging="zip", target="self", pretty=False)]
    if k == "reopen":
        if not drv.saved:
            return []
        idx = len(drv.saved) - 1 if rng.random() < 0.8 else rng.randrange(len(drv.saved))
        if drv.saved[idx][1] == "xml":
            return []
        return [dict(op="open", src=idx, buf=rng.random() < 0.4)]
    if k == "merge":
        # sources whose styles reference images; picture contents from the same pool as add_file (names are content hashes,
        # so the destination may already hold / have deleted the very same names)
        S = samples(common.REPO)
        with_imgs = [x for x in S if x.endswith(("background.odp", "example.odp"))]
        if rng.random() < 0.3 and with_imgs:
            return [dict(op="merge", source=dict(base=rng.choice(with_imgs)))]
        pick = lambda: rng.choice(POOL[:3])
        spec = dict(base=rng.choice(["text", "text", "presentation", "drawing"]), ext=rng.choice([".png", ".png", ".jpg"]),
                    fill=[pick() for _ in range(rng.randint(0, 2))], master=[pick() for _ in range(rng.randint(0, 2))])
        if not spec["fill"] and not spec["master"]:
            spec["master"] = [pick()]
        return [dict(op="merge", source=spec)]
    if k == "delpic":
        pics = [n for n in names if n.startswith("Pictures/")]
        # also names deleted earlier (tombstones) and names only the file on disk still lists
        c = drv.doc.container
        pics += [n for n, b in c._Container__parts.items() if n.startswith("Pictures/") and b is None]
        return [dict(op="del", name=rng.choice(pics))] if pics else []
    if k == "clone":
        return [dict(op="clone")]
    if k in ("clone2", "swap", "rmsource"):
        return [dict(op=k)]
    raise ValueError(k)


def samples_with_body_images(S):
    """samples whose content.xml has a draw:image naming a member of the package"""
    out = []
    XL = "{%s}href" % NS["xlink"]
    for s_ in S:
        try:
            with zipfile.ZipFile(s_) as zf:
                names = set(zf.namelist())
                root = etree.fromstring(zf.read("content.xml"))
        except Exception:
            continue
        if any(posixpath.normpath(e.get(XL) or "//") in names for e in root.iter(DR + "image")):
            out.append(s_)
    return out


def flat_image_histories(S, text_template, tier):
    """flat-XML export of documents whose pictures are NOT in memory: opened lazily from a zip path or from a .folder (directly, after
    partial reads, after a clone); every packaged image the body references must be embedded"""
    hs = []
    img = sorted(samples_with_body_images(S), key=os.path.getsize)
    img = img[: (4 if tier == "quick" else len(img))]
    FX_ = lambda pty: dict(op="save", packaging="xml", target="buf", pretty=pty)
    for s_ in img:
        hs.append([dict(op="open", src=s_, buf=False), FX_(None)])
        hs.append([dict(op="copyopen", src=s_), dict(op="touch", name="content.xml"), FX_(False), dict(op="save", packaging="xml", target="path", pretty=True)])
        hs.append([dict(op="open", src=s_, buf=True), dict(op="save", packaging="folder", target="path", pretty=False), dict(op="reopen", r=1), FX_(None),
                   dict(op="touch", name="styles.xml"), FX_(False)])
        hs.append([dict(op="open", src=s_, buf=False), dict(op="save", packaging="zip", target="path", pretty=False), dict(op="reopen", r=1),
                   dict(op="edit", name="content.xml", how="par", arg="x"), FX_(True), dict(op="clone"), FX_(None)])
    for pk in ("zip", "folder"):
        hs.append([dict(op="new", src=text_template, template="text"), dict(op="frame", r=7), dict(op="frame", r=8),
                   dict(op="save", packaging=pk, target="path", pretty=False), dict(op="reopen", r=1), FX_(None), FX_(False)])
    return hs


def object_pretty_histories(S, starts, rng):
    """an embedded object's XML part (Object N/content.xml ...: outside the main names) fetched with Document.get_part and EDITED in
    memory, then a PRETTY save before any plain save (zip buffer, zip path, folder), a plain save of the same memory, reopen"""
    hs = []
    objs = [s_ for s_ in S if s_.endswith("chart.odt")]
    sts = [(dict(st), True) for st in starts[:2]] + [(dict(op="open", src=s_, buf=b), False) for s_ in objs for b in (False, True)]
    R = lambda: rng.randrange(1 << 30)
    for st, gen in sts:
        pre = [dict(op="addobject", r=1)] if gen else []
        for pk, tg, pty in (("zip", "buf", True), ("zip", "path", True), ("folder", "path", True), ("folder", "path", None)):
            SP = dict(op="save", packaging=pk, target=tg, pretty=pty)
            hs.append([dict(st)] + pre + [dict(op="editobj", r=R()), dict(SP), dict(op="save", packaging="zip", target="buf", pretty=False),
                       dict(op="editobj", r=R()), dict(op="editobj", r=R()), dict(SP), dict(op="reopen", r=3), dict(op="touch", r=R()), dict(op="editobj", r=R()),
                       dict(op="save", packaging="zip", target="buf", pretty=True)])
    return hs


def resave_histories(starts, rng):
    """save sequences with edits in between made through handles obtained BEFORE the earlier save (the cached doc.body, a held
    element, a part object fetched once): every later save - pretty or plain, zip or folder - writes the memory of that moment"""
    hs = []
    E = lambda how, arg: dict(op="edit", name="content.xml", how=how, arg=arg)
    for st in starts:
        for pk, tg in (("zip", "buf"), ("folder", "path"), ("zip", "path")):
            for first, second in ((True, True), (True, False), (False, True), (None, None)):
                S1 = dict(op="save", packaging=pk, target=tg, pretty=first); S2 = dict(op="save", packaging=pk, target=tg, pretty=second)
                hs.append([dict(st), E("par", "first"), dict(S1), E("par", "second, through the cached body"), E("heldtext", " and more through the held paragraph"),
                           dict(S2), dict(op="save", packaging="zip", target="buf", pretty=False), E("heldtext", " third"),
                           dict(op="edit", name="styles.xml", how="attr", arg="r%d" % rng.randrange(99)), dict(S2), dict(op="reopen", r=3), dict(op="touch", name="content.xml")])
    return hs


# names in every directory / spelling the code treats specially, and awkward ones
SPECIAL_NAMES = ["extra/new file.bin", "Pictures/with space.png", "Thumbnails/thumbnail.png", "META-INF/documentsignatures.xml",
                 "META-INF/manifest.xml.bak", "META-INF/sub/key.bin", "mimetype2", "mimetype.bak", "Thumbnails/other view.png",
                 "Configurations2/menubar/menu é.xml", "a/b/c/d.e.f", "Pictures/中文.png", "content.xml.bak", "manifest.rdf.old",
                 "Object 9/extra.bin", "EmptyDir/", "Configurations2/empty/"]
OBJ_XML = {
    "content.xml": '<office:document-content xmlns:office="%s" office:version="1.2"><office:body><office:chart/></office:body></office:document-content>' % NS["office"],
    "styles.xml": '<office:document-styles xmlns:office="%s" office:version="1.2"><office:styles/></office:document-styles>' % NS["office"],
    "meta.xml": '<office:document-meta xmlns:office="%s" office:version="1.2"><office:meta/></office:document-meta>' % NS["office"],
}
RAW_PARS = [
    '<text:p xmlns:text="%(t)s">a<text:s/><text:span>b</text:span></text:p>',
    '<text:p xmlns:text="%(t)s">x <text:s text:c="2"/>y<text:tab/>z<text:line-break/>w</text:p>',
    '<text:p xmlns:text="%(t)s"><text:span>in</text:span><text:s/></text:p>',
    '<text:h xmlns:text="%(t)s" text:outline-level="1">Head<text:tab/><text:span>er</text:span> </text:h>',
    '<text:p xmlns:text="%(t)s">note<text:note text:note-class="footnote"><text:note-citation>1</text:note-citation><text:note-body><text:p>body<text:s/>x</text:p></text:note-body></text:note>after</text:p>',
    '<text:p xmlns:text="%(t)s">l<text:a xmlns:xlink="http://www.w3.org/1999/xlink" xlink:href="http://x/">ink<text:s/></text:a><text:bookmark text:name="b"/>r</text:p>',
]
def samples_with_body_images(S):
    """samples whose content.xml has a draw:image naming a member of the package"""
    out = []
    XL = "{%s}href" % NS["xlink"]
    for s_ in S:
        try:
            with zipfile.ZipFile(s_) as zf:
                names = set(zf.namelist())
                root = etree.fromstring(zf.read("content.xml"))
        except Exception:
            continue
        if any(posixpath.normpath(e.get(XL) or "//") in names for e in root.iter(DR + "image")):
            out.append(s_)
    return out


def flat_image_histories(S, text_template, tier):
    """flat-XML export of documents whose pictures are NOT in memory: opened lazily from a zip path or from a .folder (directly, after
    partial reads, after a clone); every packaged image the body references must be embedded"""
    hs = []
    img = sorted(samples_with_body_images(S), key=os.path.getsize)
    img = img[: (4 if tier == "quick" else len(img))]
    FX_ = lambda pty: dict(op="save", packaging="xml", target="buf", pretty=pty)
    for s_ in img:
        hs.append([dict(op="open", src=s_, buf=False), FX_(None)])
        hs.append([dict(op="copyopen", src=s_), dict(op="touch", name="content.xml"), FX_(False), dict(op="save", packaging="xml", target="path", pretty=True)])
        hs.append([dict(op="open", src=s_, buf=True), dict(op="save", packaging="folder", target="path", pretty=False), dict(op="reopen", r=1), FX_(None),
                   dict(op="touch", name="styles.xml"), FX_(False)])
        hs.append([dict(op="open", src=s_, buf=False), dict(op="save", packaging="zip", target="path", pretty=False), dict(op="reopen", r=1),
                   dict(op="edit", name="content.xml", how="par", arg="x"), FX_(True), dict(op="clone"), FX_(None)])
    for pk in ("zip", "folder"):
        hs.append([dict(op="new", src=text_template, template="text"), dict(op="frame", r=7), dict(op="frame", r=8),
                   dict(op="save", packaging=pk, target="path", pretty=False), dict(op="reopen", r=1), FX_(None), FX_(False)])
    return hs


def object_pretty_histories(S, starts, rng):
    """an embedded object's XML part (Object N/content.xml ...: outside the main names) fetched with Document.get_part and EDITED in
    memory, then a PRETTY save before any plain save (zip buffer, zip path, folder), a plain save of the same memory, reopen"""
    hs = []
    objs = [s_ for s_ in S if s_.endswith("chart.odt")]
    sts = [(dict(st), True) for st in starts[:2]] + [(dict(op="open", src=s_, buf=b), False) for s_ in objs for b in (False, True)]
    R = lambda: rng.randrange(1 << 30)
    for st, gen in sts:
        pre = [dict(op="addobject", r=1)] if gen else []
        for pk, tg, pty in (("zip", "buf", True), ("zip", "path", True), ("folder", "path", True), ("folder", "path", None)):
            SP = dict(op="save", packaging=pk, target=tg, pretty=pty)
            hs.append([dict(st)] + pre + [dict(op="editobj", r=R()), dict(SP), dict(op="save", packaging="zip", target="buf", pretty=False),
                       dict(op="editobj", r=R()), dict(op="editobj", r=R()), dict(SP), dict(op="reopen", r=3), dict(op="touch", r=R()), dict(op="editobj", r=R()),
                       dict(op="save", packaging="zip", target="buf", pretty=True)])
    return hs


def resave_histories(starts, rng):
    """save sequences with edits in between made through handles obtained BEFORE the earlier save (the cached doc.body, a held
    element, a part object fetched once): every later save - pretty or plain, zip or folder - writes the memory of that moment"""
    hs = []
    E = lambda how, arg: dict(op="edit", name="content.xml", how=how, arg=arg)
    for st in starts:
        for pk, tg in (("zip", "buf"), ("folder", "path"), ("zip", "path")):
            for first, second in ((True, True), (True, False), (False, True), (None, None)):
                S1 = dict(op="save", packaging=pk, target=tg, pretty=first); S2 = dict(op="save", packaging=pk, target=tg, pretty=second)
                hs.append([dict(st), E("par", "first"), dict(S1), E("par", "second, through the cached body"), E("heldtext", " and more through the held paragraph"),
                           dict(S2), dict(op="save", packaging="zip", target="buf", pretty=False), E("heldtext", " third"),
                           dict(op="edit", name="styles.xml", how="attr", arg="r%d" % rng.randrange(99)), dict(S2), dict(op="reopen", r=3), dict(op="touch", name="content.xml")])
    return hs


# names in every directory / spelling the code treats specially, and awkward ones
SPECIAL_NAMES = ["extra/new file.bin", "Pictures/with space.png", "Thumbnails/thumbnail.png", "META-INF/documentsignatures.xml",
                 "META-INF/manifest.xml.bak", "META-INF/sub/key.bin", "mimetype2", "mimetype.bak", "Thumbnails/other view.png",
                 "Configurations2/menubar/menu é.xml", "a/b/c/d.e.f", "Pictures/中文.png", "content.xml.bak", "manifest.rdf.old",
                 "Object 9/extra.bin", "EmptyDir/", "Configurations2/empty/"]
OBJ_XML = {
    "content.xml": '<office:document-content xmlns:office="%s" office:version="1.2"><office:body><office:chart/></office:body></office:document-content>' % NS["office"],
    "styles.xml": '<office:document-styles xmlns:office="%s" office:version="1.2"><office:styles/></office:document-styles>' % NS["office"],
    "meta.xml": '<office:document-meta xmlns:office="%s" office:version="1.2"><office:meta/></office:document-meta>' % NS["office"],
}
RAW_PARS = [p % dict(t=NS["text"]) for p in RAW_PARS]


def with_spelling(c, rng):
    """every op that takes a part name is driven with every accepted spelling of the name"""
    if c.get("op") in ("get", "touch", "set", "del") and "spell" not in c and "name" in c:
        r = rng.random()
        if r < 0.25:
            c["spell"] = "dotslash"
        elif r < 0.5 and c["name"] in SHORTCUTS:
            c["spell"] = rng.choice(["shortcut", "shortcut", "dotshortcut"])
    return c


def run_history(drv, hist, seed):
    """execute; returns list of step records (each with 'concrete' = the JSON-able concrete op)"""
    drv.reset()
    recs = []
    last_returned = None
    pending = []
    for i, o in enumerate(hist):
        import random as _random
        srng = _random.Random((seed * 7 + i * 104729 + o.get("r", 0)) & 0x7FFFFFFF)
        for c in resolve(drv, o, (seed * 1000003 + i * 7919 + o.get("r", 0)) & 0x7FFFFFFF):
            c = with_spelling(dict(c), srng) if "r" in o else dict(c)
            if c.get("use_returned") and last_returned:
                c["arg"] = last_returned
            c_run = dict(c)
            if isinstance(c.get("content"), str):
                c_run["content"] = expand(c["content"])
            if isinstance(c.get("data"), str):
                c_run["data"] = expand(c["data"])
            r = drv.apply(c_run)
            if r is None:
                pending.append(c); continue
            if c_run.get("returned"):
                last_returned = c_run["returned"]
            if "saved_index" in c_run:
                c["saved_index"] = c_run["saved_index"]
            r["concrete"] = c; r["env_before"] = pending; pending = []
            recs.append(r)
    return recs


# ------------------------------------------------------------------ generic runner: histories -> cases -> Coq -> verdicts
def _work_one(args):
    """worker: run one history on the implementation; returns (recs or None, error text)"""
    hid, hist, seed, workdir, concrete = args
    global _DRV
    try:
        _DRV
    except NameError:
        _DRV = Driver(workdir)
    try:
        if concrete:
            recs = run_concrete(_DRV, hist)
        else:
            recs = run_history(_DRV, hist, seed + hid)
        keep = ("pre_fs", "pre", "op", "post_fs", "post", "out", "err", "kind", "concrete", "extra", "twin_pre", "twin_post", "env_before", "extra_violations")
        return hid, [dict((k, r.get(k)) for k in keep) for r in recs], None
    except Timeout:
        return hid, None, "timeout"
    except Exception as e:
        import traceback
        return hid, None, "harness: " + traceback.format_exc()[-1500:]


def fix_src(p):
    """source paths stored in corpus / replay files are re-rooted to the implementation under test"""
    if isinstance(p, str):
        for mark in ("/tests/samples/", "/src/odfdo/templates/"):
            if mark in p:
                return str(common.REPO) + mark + p.split(mark, 1)[1]
    return p


def run_concrete(drv, ops):
    """replay: a list of concrete op dicts (as stored in a replay / corpus file)"""
    drv.reset()
    recs = []
    pending = []
    last_returned = None
    for c in ops:
        c_run = dict(c)
        c_run.pop("saved_index", None); c_run.pop("returned", None)
        if "src" in c_run:
            c_run["src"] = fix_src(c_run["src"])
        if c_run.get("use_returned") and last_returned:
            c_run["name" if c_run["op"] == "del" else "arg"] = last_returned
        if isinstance(c_run.get("content"), str):
            c_run["content"] = expand(c_run["content"])
        if isinstance(c_run.get("data"), str):
            c_run["data"] = expand(c_run["data"])
        r = drv.apply(c_run)
        if c_run.get("returned"):
            last_returned = c_run["returned"]
        if r is None:
            pending.append(dict(c)); continue
        r["concrete"] = dict(c); r["env_before"] = pending; pending = []
        recs.append(r)
    return recs


def drive_all(prop, histories, seed, concrete_flags=None, procs=14):
    """run all histories (in parallel); returns (list of (hid, recs), list of (hid, error))"""
    import multiprocessing as mp
    work = common.WORK / ("%s-%d" % (prop.lower(), os.getpid()))
    if work.exists():
        shutil.rmtree(work)
    work.mkdir(parents=True)
    args = [(i, h, seed, str(work / "w"), bool(concrete_flags and concrete_flags[i])) for i, h in enumerate(histories)]
    done, failed = [], []
    if len(args) <= 2:
        res = [_work_one(a) for a in args]
    else:
        with mp.get_context("fork").Pool(procs) as pool:
            res = pool.map(_work_one, args, chunksize=max(1, len(args) // (procs * 6)))
    for hid, recs, err in res:
        if recs is None:
            failed.append((hid, err))
        else:
            done.append((hid, recs))
    return done, failed, work


def cleanup(work):
    shutil.rmtree(work, ignore_errors=True)


def concrete_prefix(recs, upto):
    out = []
    for r in recs[:upto + 1]:
        out += list(r.get("env_before") or []) + [r["concrete"]]
    return out


def run_check(prop, checker, layers, make_histories, key_of, tier, seed, replay, trusted_base, rule, assumptions,
              nontrivial_kinds, extra_targets=("PkgChk",), header_extra="Require Import PkgChk.\n", fidelity_code=9, shard=60,
              post_hook=None, case_fn=None, header=None, proof_file=None, finish=True, extra_prefixes=()):
    """the common decision procedure of the package-level checks (BUILDERS.md contract)"""
    import random
    t0 = time.time(); rng = random.Random(seed)
    proofs = common.build_proofs(proof_file or prop, extra_targets=extra_targets)
    corpus = []
    for f in sorted((common.ROOT / "corpus" / prop).glob("*.json")):
        j = json.load(open(f))
        if "ops" in j:
            corpus.append(j["ops"])
    if replay and "ops" not in json.load(open(replay)):
        hs, flags = [], []
    elif replay:
        hs, flags = [json.load(open(replay))["ops"]], [True]
    else:
        gen = make_histories(tier, rng)
        hs, flags = corpus + gen, [True] * len(corpus) + [False] * len(gen)
    done, failed, work = drive_all(prop, hs, seed, flags)
    cases, where, hist_ops = [], [], {}
    for hid, recs in done:
        for i, r in enumerate(recs):
            cases.append((case_fn or step_case)(r)); where.append((hid, i))
            hist_ops[r["kind"]] = hist_ops.get(r["kind"], 0) + 1
    fxh, fxv = fx_header()
    bad, errors = common.run_shards((header or PKG_HEADER) + header_extra + fxh, cases, checker + " FX", prop.lower(), shard=shard) if cases else ({}, [])
    recmap = dict(done)
    violations, known_seen, seen_keys = [], [], set()
    known = {e["key"]: e for e in common.known_findings(prop)}
    hard = {i: c for i, c in bad.items() if c != fidelity_code}
    fid = {}
    for idx, c in bad.items():
        if c == fidelity_code:
            hid, i = where[idx]; k = recmap[hid][i]["concrete"]["op"]
            fid[k] = fid.get(k, 0) + 1
            if os.environ.get("VERIF_DEBUG"):
                common.write_replay(prop, seed, "fid-%d-%d" % (hid, i), dict(layer="fidelity", key="fidelity", ops=concrete_prefix(recmap[hid], i)))
    for idx in sorted(hard):
        hid, i = where[idx]; rec = recmap[hid][i]
        key = key_of(recmap[hid], i, hard[idx])
        if key in seen_keys:
            continue
        seen_keys.add(key)
        rp = common.write_replay(prop, seed, "%d-%d" % (hid, i), dict(
            layer=layers.get(hard[idx], str(hard[idx])), key=key, ops=concrete_prefix(recmap[hid], i), step=i,
            implementation_error=rec.get("err"), case=cases[idx][:6000]))
        if key in known:
            known_seen.append("%s (%s) replay=%s" % (key, known[key]["description"][:90], rp))
        else:
            violations.append((rp, False))
    # direct observations made by the driver (nothing masked / content inclusion), for the prefixes this property owns
    for hid, recs in done:
        for i, r in enumerate(recs):
            for j, (key, layer) in enumerate(r.get("extra_violations") or []):
                if not key.startswith(tuple(extra_prefixes)) or key in seen_keys:
                    continue
                seen_keys.add(key)
                rp = common.write_replay(prop, seed, "%d-%d-e%d" % (hid, i, j), dict(layer=layer, key=key, ops=concrete_prefix(recs, i), step=i))
                if key in known:
                    known_seen.append("%s (%s) replay=%s" % (key, known[key]["description"][:90], rp))
                else:
                    violations.append((rp, False))
    extra_cov = {}
    if post_hook:
        v2, k2, extra_cov, errs2 = post_hook(done, recmap, seed, known, proofs)
        violations += v2; known_seen += k2; errors = errors + errs2
    harness_failures = [e for _, e in failed if e != "timeout"]
    pv = common.proof_violation(prop, seed, proofs, errors + harness_failures[:3], bool(hard) or bool(violations))
    if pv and proof_file:
        pv = [(common.write_replay(prop, seed, "proof", dict(json.load(open(pv[0][0])), theorem_file="coq/theories/%s.v" % proof_file)), True)]
    violations += pv
    nontriv = set()
    for hid, recs in done:
        for r in recs:
            if r["kind"] in nontrivial_kinds and (r["pre"] != r["post"] or r["kind"] == "save"):
                nontriv.add(common.digest((r["kind"], r["op"], r["pre"][:600])))
    samples = [concrete_prefix(recs, len(recs) - 1) for _, recs in done[len(corpus):len(corpus) + 2]]
    coverage = dict(
        trusted_base=trusted_base, evaluations=len(cases) + extra_cov.pop("evaluations", 0),
        distinct_nontrivial=len(nontriv) + extra_cov.pop("distinct_nontrivial", 0), rule=rule,
        samples=samples, op_histogram=hist_ops, histories=len(done), histories_timed_out=sum(1 for _, e in failed if e == "timeout"),
        harness_failures=len(harness_failures), corpus_cases=len(corpus),
        fidelity_divergences=sum(1 for c in bad.values() if c == fidelity_code), fidelity_by_op=fid,
        violation_keys=sorted(seen_keys), exhaustive=False,
        model_variant="FIXED" + "".join(" without the repair of %s" % n for n, v in zip(("F35", "F42", "F43"), fxv) if not v))
    if extra_cov.get("samples"):
        coverage["samples"] = coverage["samples"] + extra_cov.pop("samples")
    coverage.update(extra_cov)
    cleanup(work)
    if not finish:
        return dict(proofs=proofs, coverage=coverage, violations=violations, known_seen=known_seen, assumptions=assumptions, t0=t0)
    return common.finish(prop, tier, seed, proofs, coverage, violations, known_seen, t0, assumptions=assumptions)


PKG_TRUSTED = [
    "zipfile (infolist order, compress_type, member bytes), os.walk, lxml parse / C14N: the independent readers of what odfdo writes",
    "modelled in Package.v: Container.__parts/__parts_ts/get_part/set_part/del_part/parts/clone/save/_save_zip/_save_folder/_xml_content, Document.__xmlparts/get_part/set_part/del_part/_add_binary_part/_check_manifest_rdf/save/clone, container_from_template, XmlPart lazy parse / serialize / pretty_serialize, Manifest.get/set_media_type/add_full_path/del_full_path",
    "abstract in the model (taken from the run): hash names of add_file, media-type guessing, the '-template' string replacement, the effect of an edit on a tree, lxml parse/serialise (par (ser x) = x)",
]


# ------------------------------------------------------------------ C11: TEXT_CONTENT table and tree abstraction
TAG_FIXED = {"text:p": 1, "text:h": 2, "text:span": 3, "text:a": 4, "text:meta": 5, "text:meta-field": 6, "text:s": 7, "text:tab": 8,
             "text:line-break": 9, "office:binary-data": 10}


def read_text_content(repo=None):
    """the set literal TEXT_CONTENT of src/odfdo/container.py, read with ast; fail closed on any other shape"""
    import ast
    src = (Path(repo or common.REPO) / "src" / "odfdo" / "container.py").read_text()
    found = None
    for node in ast.parse(src).body:
        if isinstance(node, ast.Assign) and len(node.targets) == 1 and isinstance(node.targets[0], ast.Name) and node.targets[0].id == "TEXT_CONTENT":
            v = node.value
            if not isinstance(v, ast.Set) or not all(isinstance(e, ast.Constant) and isinstance(e.value, str) for e in v.elts):
                raise RuntimeError("TEXT_CONTENT is not a set literal of strings: translator stops (fail closed)")
            if found is not None:
                raise RuntimeError("TEXT_CONTENT assigned twice")
            found = sorted(set(e.value for e in v.elts))
    if found is None:
        raise RuntimeError("TEXT_CONTENT not found in container.py")
    # nothing else may touch it
    if re.search(r"TEXT_CONTENT\s*(\.|\[|\|=|-=|\+=)", src) or len(re.findall(r"\bTEXT_CONTENT\b\s*=", src)) != 1:
        raise RuntimeError("TEXT_CONTENT is modified after its definition: translator stops (fail closed)")
    return found


def tag_table(tc):
    """name -> id for the members of TEXT_CONTENT and the fixed tags"""
    tab = dict(TAG_FIXED)
    for i, n in enumerate(x for x in tc if x not in TAG_FIXED):
        tab[n] = 100 + i
    return tab


def write_gen_text_content(repo=None):
    tc = read_text_content(repo)
    tab = tag_table(tc)
    ids = [tab[n] for n in tc]
    txt = ("(* GENERATED on every run by harness/pkglib.py from TEXT_CONTENT in src/odfdo/container.py (%d names). Do not edit. *)\n"
           "From Coq Require Import List ZArith Bool. Import ListNotations.\nOpen Scope Z_scope.\n"
           "Definition text_content : list Z := [%s].\n"
           "Definition textual (t : Z) : bool := existsb (Z.eqb t) text_content.\n" % (len(tc), "; ".join(str(i) for i in ids)))
    p = common.TH / "Gen_TextContent.v"
    if not p.exists() or p.read_text() != txt:
        p.write_text(txt)
    return tc, tab


class TreeAbs:
    def __init__(self, tab):
        self.tab = dict(tab); self.dyn = 10000; self.chars = {}; self.atts = {}

    def tag(self, e):
        q = "%s:%s" % (e.prefix, etree.QName(e).localname)
        v = self.tab.get(q)
        if v is None:
            v = self.tab[q] = self.dyn; self.dyn += 1
        return v

    def s(self, t):
        if not t:
            return "[]"
        out = []
        for ch in t:
            if ch == " ": out.append("Sp")
            elif ch == "\t": out.append("Tb")
            elif ch in "\n\r": out.append("Nl")
            else:
                k = self.chars.get(ch)
                if k is None:
                    k = self.chars[ch] = len(self.chars) + 1
                out.append("Ch %d" % k)
        return "[" + ";".join(out) + "]"

    def node(self, e):
        kids = [c for c in e if isinstance(c.tag, str)]
        if len(kids) != len(e):
            raise ValueError("comment or processing instruction inside the tree")
        a = repr(sorted(e.attrib.items()))
        ai = self.atts.setdefault(a, len(self.atts))
        c = 0
        if e.tag == T + "s":
            try:
                c = int(e.get(T + "c") or 1)
            except ValueError:
                c = 1
        return "Node %d %d %d %s [%s] %s" % (self.tag(e), c, ai, self.s(e.text), ";".join(self.node(k) for k in kids), self.s(e.tail))
