(* TableExt.v — second alphabet of the table API (definitions only): the same operations and reads with the
   coordinates in EVERY form the API accepts — a str ("C4", "A1:B3", "C", "3"), a tuple, an int of either sign —
   resolved by C19's model of the coordinate code (Coord.v: convert_coordinates, translate_from_any,
   _translate_cell/table_coordinates, increment), set_column_cells / set_column_values (negative x translated with
   the table width, repaired in /repo), the area reads with optional bounds (get_values(coord), get_cells(coord),
   cells), and their meaning on the plain grid.

   The code translates a coordinate argument and then runs the integer path, so an extended step is: resolve against
   the current width/height (a Python exception = None), then the step of Table.v on non-negative integers.
   The first alphabet [Table.top] is NOT changed; [xop] is the sum of both. *)
From Coq Require Import List ZArith Bool Arith.
Import ListNotations.
Require Import Vault Row Table Grid Tableabs Coord.
Local Open Scope Z_scope.

(* ---- resolving coordinate arguments against a width and a height ---- *)
(* _translate_cell_coordinates, then "if x is None: raise ValueError" *)
Definition res_cell (w h : Z) (c : coordarg) : option (Z * Z) :=
  match translate_cell w h c with Some (Some x, Some y) => Some (x, y) | _ => None end.
(* set_values / set_cells: "if coord: x, y = _translate_cell_coordinates(coord) else x = y = 0; None -> 0" *)
Definition res_origin (w h : Z) (c : option coordarg) : option (Z * Z) :=
  match opt_coord c with
  | None => Some (0, 0)
  | Some c => match translate_cell w h c with
              | Some (ox, oy) => Some (match ox with Some x => x | None => 0 end, match oy with Some y => y | None => 0 end)
              | None => None end
  end.
Definition res_y (h : Z) (a : anyarg) : option Z := translate_from_any a h 1.     (* _translate_y_from_any *)
Definition res_x (w : Z) (a : anyarg) : option Z := translate_from_any a w 0.     (* _translate_x_from_any *)

(* ---- the second alphabet ---- *)
Inductive top2 :=
| XSetCell (c : coordarg) (cl : nat * cell)
| XInsertCell (c : coordarg) (cl : nat * cell)
| XDeleteCell (c : coordarg)
| XAppendCell (y : anyarg) (cl : nat * cell)
| XSetRow (y : anyarg) (rep : nat) (r : rowx)
| XInsertRow (y : anyarg) (rep : nat) (r : rowx)
| XDeleteRow (y : anyarg)
| XInsertColumn (x : anyarg) (rep : nat) (st : Z)
| XDeleteColumn (x : anyarg)
| XSetColumn (x : anyarg) (rep : nat) (st : Z)
| XSetLines (clone : bool) (c : option coordarg) (lines : list (list (nat * cell)))   (* set_values / set_cells (coord) *)
| XSetColumnCells (x : anyarg) (cells : list (nat * cell)).                         (* set_column_cells / set_column_values *)

(* the operation of the first alphabet (on non-negative integers) that the call runs after translating its arguments;
   None = the call raises *)
Definition lower (w h : Z) (o : top2) : option top :=
  match o with
  | XSetCell c cl => p <- res_cell w h c ;; Some (OSetCell (fst p) (snd p) cl)
  | XInsertCell c cl => p <- res_cell w h c ;; Some (OInsertCell (fst p) (snd p) cl)
  | XDeleteCell c => p <- res_cell w h c ;; Some (ODeleteCell (fst p) (snd p))
  | XAppendCell y cl => y' <- res_y h y ;; Some (OAppendCell y' cl)
  | XSetRow y rep r => y' <- res_y h y ;; Some (OSetRow y' rep r)
  | XInsertRow y rep r => y' <- res_y h y ;; Some (OInsertRow y' rep r)
  | XDeleteRow y => y' <- res_y h y ;; Some (ODeleteRow y')
  | XInsertColumn x rep st => x' <- res_x w x ;; Some (OInsertColumn x' rep st)
  | XDeleteColumn x => x' <- res_x w x ;; Some (ODeleteColumn x')
  | XSetColumn x rep st => x' <- res_x w x ;; Some (OSetColumn x' rep st)
  | XSetLines cl c ls => p <- res_origin w h c ;; Some (OSetLines cl (fst p) (snd p) ls)
  | XSetColumnCells x cells =>
      (* "if len(cells) != height: raise ValueError"; then one row.set_cell(x, cell) + set_row(y, row) per logical row *)
      x' <- res_x w x ;;
      if Z.of_nat (length cells) =? h then Some (OSetLines true x' 0 (map (fun c => [c]) cells)) else None
  end.
Definition t_step2 (t : tstate) (o : top2) : option tstate :=
  match lower (twidth t) (theight t) o with Some o' => t_step t o' | None => None end.
Definition g_step2 (g : gridT) (o : top2) : option gridT :=
  match lower (ncols g) (gheight g) o with Some o' => Some (g_step g o') | None => None end.
Definition op_ok2 (w h : Z) (o : top2) : Prop := exists o', lower w h o = Some o' /\ op_ok o'.

(* both alphabets *)
Definition xop := (top + top2)%type.
Definition x_step (t : tstate) (o : xop) : option tstate := match o with inl a => t_step t a | inr b => t_step2 t b end.
Definition gx_step (g : gridT) (o : xop) : option gridT := match o with inl a => Some (g_step g a) | inr b => g_step2 g b end.
Definition xop_ok (t : tstate) (o : xop) : Prop :=
  match o with inl a => op_ok a | inr b => op_ok2 (twidth t) (theight t) b end.
Fixpoint x_run (t : tstate) (os : list xop) : option tstate :=
  match os with [] => Some t | o :: r => match x_step t o with Some t' => x_run t' r | None => None end end.
Fixpoint gx_run (g : gridT) (os : list xop) : option gridT :=
  match os with [] => Some g | o :: r => match gx_step g o with Some g' => gx_run g' r | None => None end end.
(* admissibility along a history depends on the current size, so it is stated on the grid run *)
Fixpoint xops_ok (g : gridT) (os : list xop) : Prop :=
  match os with
  | [] => True
  | o :: r => (match o with inl a => op_ok a | inr b => op_ok2 (ncols g) (gheight g) b end) /\
              match gx_step g o with Some g' => xops_ok g' r | None => False end
  end.

(* ---- area reads with optional bounds, as the code computes them ---- *)
(* firstn / skipn with a Z counter (Table.traverse uses end = 2**32: no unary number of that size is ever built) *)
Fixpoint firstn_z {A} (n : Z) (l : list A) : list A :=
  match l with [] => [] | a :: r => if 0 <? n then a :: firstn_z (n - 1) r else [] end.
Fixpoint skipn_z {A} (n : Z) (l : list A) : list A :=
  match l with [] => [] | a :: r => if 0 <? n then skipn_z (n - 1) r else l end.
Definition odef (d : Z) (o : option Z) : Z := match o with Some v => v | None => d end.
(* Row.traverse(start, end): both None -> every cell; otherwise start defaults to 0, end to the last position *)
Definition row_trav_o (x z : option Z) (v : rruns) : list cell :=
  match x, z with
  | None, None => expand v
  | _, _ => traverse_range (Z.max 0 (odef 0 x)) (odef (rwidth v - 1) z) v
  end.
(* Table.traverse(start, end): start defaults to 0, end to 2^32 *)
Definition rows_trav_o (y t : option Z) (rs : list (nat * rowx)) : list rowx :=
  let s := Z.max 0 (odef 0 y) in
  let e := odef (2 ^ 32) t in
  if e <? s then [] else firstn_z (e + 1 - s) (skipn_z s (expand rs)).
(* Table.get_values(coord): each row completed to (min(z+1, width) or width) - (x or 0) values *)
Definition t_values_o (q : quad) (st : tstate) : list (list Z) :=
  let '(x, y, z, t) := q in
  let wd := (match z with Some z' => Z.min (z' + 1) (twidth st) | None => twidth st end) - odef 0 x in
  map (fun r : rowx => pad_to wd (map fst (row_trav_o x z (snd r)))) (rows_trav_o y t (rows st)).
(* Table.get_cells(coord): the cells, NOT completed: a row stored narrower than the area yields fewer cells (F30) *)
Definition t_cells_o (q : quad) (st : tstate) : list (list cell) :=
  let '(x, y, z, t) := q in
  map (fun r : rowx => row_trav_o x z (snd r)) (rows_trav_o y t (rows st)).

(* the same on the plain grid *)
Definition l_slice_o {A} (lo hi : option Z) (dhi : Z) (l : list A) : list A :=
  let s := Z.max 0 (odef 0 lo) in let e := odef dhi hi in
  firstn_z (e + 1 - s) (skipn_z s l).
Definition g_row_slice (x z : option Z) (r : list cell) : list cell :=
  match x, z with None, None => r | _, _ => l_slice_o x z (Z.of_nat (length r) - 1) r end.
Definition g_rows_slice (y t : option Z) (l : list (list cell)) : list (list cell) :=
  if odef (2 ^ 32) t <? Z.max 0 (odef 0 y) then [] else l_slice_o y t (2 ^ 32) l.
Definition g_values_o (q : quad) (g : gridT) : list (list Z) :=
  let '(x, y, z, t) := q in
  let wd := (match z with Some z' => Z.min (z' + 1) (ncols g) | None => ncols g end) - odef 0 x in
  map (fun r => gpad wd (map fst (g_row_slice x z r))) (g_rows_slice y t (grows g)).
Definition g_cells_o (q : quad) (g : gridT) : list (list cell) :=
  let '(x, y, z, t) := q in map (g_row_slice x z) (g_rows_slice y t (grows g)).

(* ---- the second read alphabet ---- *)
Inductive tread2 :=
| Q2Value (c : coordarg)                (* get_value(coord) *)
| Q2Cell (c : coordarg)                 (* get_cell(coord) *)
| Q2RowValues (y : anyarg)              (* get_row_values(y) *)
| Q2ColumnValues (x : anyarg)           (* get_column_values(x) *)
| Q2Values (c : option coordarg)        (* get_values(coord) / iter_values(coord) *)
| Q2Cells (c : option coordarg).        (* get_cells(coord); coord None = the [cells] property = every row of traverse() *)
Inductive tans2 := T1 (a : tans) | A2Cells (l : list (list cell)) | A2Raise.

Definition res_quad (w h : Z) (c : option coordarg) : option quad :=
  match opt_coord c with
  | None => Some (None, None, None, None)
  | Some c => translate_table w h c
  end.
Definition t_read2 (t : tstate) (q : tread2) : tans2 :=
  let w := twidth t in let h := theight t in
  match q with
  | Q2Value c => match res_cell w h c with Some (x, y) => T1 (t_read t (QGetValue x y)) | None => A2Raise end
  | Q2Cell c => match res_cell w h c with Some (x, y) => T1 (t_read t (QGetCell x y)) | None => A2Raise end
  | Q2RowValues y => match res_y h y with Some y' => T1 (t_read t (QRowValues y')) | None => A2Raise end
  | Q2ColumnValues x => match res_x w x with Some x' => T1 (t_read t (QColumnValues x')) | None => A2Raise end
  | Q2Values c => match res_quad w h c with Some q' => T1 (AMatrix (t_values_o q' t)) | None => A2Raise end
  | Q2Cells c => match res_quad w h c with Some q' => A2Cells (t_cells_o q' t) | None => A2Raise end
  end.
Definition g_read2 (g : gridT) (q : tread2) : tans2 :=
  let w := ncols g in let h := gheight g in
  match q with
  | Q2Value c => match res_cell w h c with Some (x, y) => T1 (g_read g (QGetValue x y)) | None => A2Raise end
  | Q2Cell c => match res_cell w h c with Some (x, y) => T1 (g_read g (QGetCell x y)) | None => A2Raise end
  | Q2RowValues y => match res_y h y with Some y' => T1 (g_read g (QRowValues y')) | None => A2Raise end
  | Q2ColumnValues x => match res_x w x with Some x' => T1 (g_read g (QColumnValues x')) | None => A2Raise end
  | Q2Values c => match res_quad w h c with Some q' => T1 (AMatrix (g_values_o q' g)) | None => A2Raise end
  | Q2Cells c => match res_quad w h c with Some q' => A2Cells (g_cells_o q' g) | None => A2Raise end
  end.
