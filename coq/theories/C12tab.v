(* C12tab.v -- the finite sweeps over the generated tables (re-run on every check: vm_compute on closed terms).
   A failing sweep names the obligation that the current sources break. *)
From Coq Require Import String List Bool. Import ListNotations. Open Scope string_scope.
Require Import Registry Registryproof Attr Attrproof RegistrySpec Gen_Registry Gen_Ctors C12defs.

(* ---------------------------------------------------------------- the finite sweeps (re-run on every check) *)

Lemma grouped_is_ctors_by_class : grouped = map (fun c => (c, entries_of c)) classes.
Proof. vm_compute. reflexivity. Qed.

Lemma grouped_props_is_propdefs_by_class : grouped_props = map (fun c => (c, props_of c)) classes.
Proof. vm_compute. reflexivity. Qed.

Lemma sweep_entry_class_known : forallb entry_class_known ctors = true.
Proof. vm_compute. reflexivity. Qed.

Lemma sweep_tags_wellformed : tags_wellformed = true.
Proof. vm_compute. reflexivity. Qed.

Lemma sweep_model_is_live : model_is_live = true.
Proof. vm_compute. reflexivity. Qed.
Lemma sweep_model_sub_live : submap model_registry live_registry = true.
Proof. vm_compute. reflexivity. Qed.
Lemma sweep_live_sub_model : submap live_registry model_registry = true.
Proof. vm_compute. reflexivity. Qed.
Lemma sweep_header_known : existsb (String.eqb "Header") classes = true.
Proof. vm_compute. reflexivity. Qed.

Lemma sweep_reachable : forallb reachable class_tags = true.
Proof. vm_compute. reflexivity. Qed.

Lemma sweep_generic_consistent : forallb generic_consistent ctors = true.
Proof. vm_compute. reflexivity. Qed.

Lemma sweep_own_tags : forallb own_tag_ok class_tags = true.
Proof. vm_compute. reflexivity. Qed.

Lemma sweep_calls : forallb call_ok registrations = true.
Proof. vm_compute. reflexivity. Qed.

(* the next four are the obligations that fail on a tree with F17 / F50..F54 (see notes/C12.md) *)
Lemma sweep_not_dropped : forallb not_dropped ctors = true.
Proof. vm_compute. reflexivity. Qed.

Lemma sweep_stores_injective : forallb stores_injective grouped = true.
Proof. vm_compute. reflexivity. Qed.

Lemma sweep_declared_unambiguous : forallb declared_unambiguous declared_propdefs = true.
Proof. vm_compute. reflexivity. Qed.

Lemma sweep_declared_installed : forallb declared_installed declared_propdefs = true.
Proof. vm_compute. reflexivity. Qed.

Lemma sweep_same_name : forallb same_name_ok ctors = true.
Proof. vm_compute. reflexivity. Qed.

Lemma sweep_matches_reference : forallb matches_reference propdefs = true.
Proof. vm_compute. reflexivity. Qed.

(* every wrapper-creation site of the sources is one the access-path model knows (C12-1-like rewrites that construct
   wrappers directly, or call the factory on another class, fail here) *)
Lemma sweep_wrap_sites : forallb site_ok wrap_sites = true.
Proof. vm_compute. reflexivity. Qed.

(* no __init__ writes to the element when it merely wraps an existing node (F55 was such a write; a public setter or a
   property assignment outside `if self._do_init:` fails here) *)
Lemma sweep_wrap_writes : wrap_writes = [].
Proof. vm_compute. reflexivity. Qed.

(* no constructor's guard was weakened (is not None -> truthiness) or otherwise changed against the reference *)
Lemma sweep_guards_match_reference : forallb guard_matches_reference ctors = true.
Proof. vm_compute. reflexivity. Qed.

(* the live registry answers every tag of the reference with the reference's class (a dropped registration fails here) *)
Lemma sweep_registry_reference : forallb reference_ok registry_reference = true.
Proof. vm_compute. reflexivity. Qed.

(* every Element subclass that declares a _tag is what the live registry gives for that tag, or a documented exception *)
Lemma sweep_tagged_classes : forallb tagged_ok tagged_classes = true.
Proof. vm_compute. reflexivity. Qed.
