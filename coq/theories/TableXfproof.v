(* TableXfproof.v — C07's invariant along the whole-table transformations rstrip(aggressive) and transpose() (model of
   C17, Transform.v): the rows still fit the declared columns, hence XmlOK of the XML written; Row.rstrip through a live
   handle likewise.  optimize_width: well-formedness is C17's theorem; that its rows fit the columns is NOT proved here
   (the correspondence evaluates XmlOK on the implementation's XML after every such step). *)
From Coq Require Import List ZArith Lia Bool Arith.
Import ListNotations.
Require Import Vault Vaultproof Vaultproof4 Row Table Grid Tableabs Tablexml Tablexmlproof Transform Transformspec
               Transformproof Transformproof2 Transformproof4 Tableproof Tableproof5 Tableproof6 TableXf.
Open Scope Z_scope.

Lemma strip_end_incl {A} (p : A -> bool) l x : In x (strip_end p l) -> In x l.
Proof.
  destruct (strip_end_decomp p l) as (s & Hl & _). intros H. rewrite Hl. apply in_or_app. now left.
Qed.
Lemma strip_end_length {A} (p : A -> bool) l : (length (strip_end p l) <= length l)%nat.
Proof. destruct (strip_end_decomp p l) as (s & Hl & _). rewrite Hl at 2. rewrite app_length. lia. Qed.

Theorem GOK_rstrip a aggr g : GOK g -> GOK (g_rstrip a aggr g).
Proof.
  intros [H0 Hall]. unfold g_rstrip, GOK. cbv zeta. cbn [ncols grows].
  set (rows2 := map (strip_end (cell_empty a aggr)) (strip_end (lrow_empty a aggr) (grows g))).
  assert (Hm : Forall (fun r : list cell => Z.of_nat (length r) <= max_len rows2) rows2)
    by apply (fold_max_all (fun r : list cell => Z.of_nat (length r)) rows2 0).
  assert (Hge : 0 <= max_len rows2) by apply (fold_max_ge (fun r : list cell => Z.of_nat (length r)) rows2 0).
  split; [lia|]. rewrite Forall_forall in *. intros r Hr. specialize (Hm r Hr).
  unfold rows2 in Hr. apply in_map_iff in Hr. destruct Hr as (r0 & <- & Hr0). apply strip_end_incl in Hr0.
  specialize (Hall r0 Hr0). pose proof (strip_end_length (cell_empty a aggr) r0). lia.
Qed.
Theorem GOK_transpose g : GOK (g_transpose g).
Proof.
  unfold g_transpose. destruct (max_length (grows g)) eqn:E; [split; cbn; [lia|constructor]|].
  unfold GOK. cbn [ncols grows]. split; [unfold gheight; lia|].
  unfold zip_longest. rewrite Forall_map. apply Forall_forall. intros j _. rewrite map_length. unfold gheight. lia.
Qed.

Theorem rstrip_keeps_xmlok a aggr t : WF t -> fits t = true ->
  WF (t_rstrip a aggr t) /\ fits (t_rstrip a aggr t) = true /\ XmlOK (render (t_rstrip a aggr t)) = true.
Proof.
  intros Hwf Hf. destruct (rstrip_refines a aggr t Hwf) as [Ha Hw].
  assert (Hf' : fits (t_rstrip a aggr t) = true).
  { apply (fits_GOK _ Hw). rewrite Ha. apply GOK_rstrip. apply (fits_GOK t Hwf). exact Hf. }
  split; [exact Hw|]. split; [exact Hf'|]. apply XmlOK_render; assumption.
Qed.
Theorem transpose_keeps_xmlok t : WF t ->
  WF (t_transpose t) /\ fits (t_transpose t) = true /\ XmlOK (render (t_transpose t)) = true.
Proof.
  intros Hwf. destruct (transpose_refines t Hwf) as [Ha Hw].
  assert (Hf' : fits (t_transpose t) = true) by (apply (fits_GOK _ Hw); rewrite Ha; apply GOK_transpose).
  split; [exact Hw|]. split; [exact Hf'|]. apply XmlOK_render; assumption.
Qed.
