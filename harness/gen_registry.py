"""Fail-closed translator for C12: $ODFDO_REPO/src  ->  coq/theories/Gen_Registry.v, Gen_Ctors.v  (+ .work/gen_registry.json)

Run on EVERY check (never cached):  python harness/gen_registry.py           (ODFDO_REPO selects the tree)

Gen_Registry.v   namespaces (prefix -> uri) from ODF_NAMESPACES;
                 registrations = the exact sequence of `_register_element_class(cls, qname)` calls made while importing odfdo
                 (recorded with sys.setprofile in a fresh interpreter, so registrations that LOSE against an earlier one
                 are visible); live_registry = the final `_class_registry` ((clark tag, class) in dict order);
                 class_tags = each registered class with its own `_tag`; propdefs = per class the generic attribute
                 properties actually installed on the class (read from the closure cells of the property objects:
                 attribute name + family), in `dir()` order; declared_propdefs = the `_properties` tuples as written.
Gen_Ctors.v      per registered class and per argument of the `__init__` that the class uses (found through the MRO,
                 parsed with `ast`): how the argument is stored.

The translator understands a small set of statement shapes (see classify()).  Anything else makes the ARGUMENT
`Unrecognised` (no theorem speaks about it; the correspondence still exercises it).  A constructor whose overall
structure is not the expected one (no **kwargs, *args, no `super().__init__(**kwargs)`, with/try/while statements,
a non-ASCII identifier ...) makes the translator STOP with exit status 3 and a message: the check then reports a
correspondence failure instead of guessing.
"""
import ast, inspect, json, os, re, subprocess, sys, textwrap
from pathlib import Path

HERE = Path(__file__).resolve().parent
ROOT = HERE.parent
TH = ROOT / "coq" / "theories"
WORK = ROOT / ".work"
REPO = Path(os.environ.get("ODFDO_REPO", "/repo"))
SRC = REPO / "src"


class Unsupported(Exception):
    pass


IDENT = re.compile(r"^[A-Za-z0-9_:.\-{}/#+ <>()\[\]=]*$")


def q(s):
    """Coq string literal for table identifiers (fail closed on anything unusual)"""
    if not isinstance(s, str) or not IDENT.match(s):
        raise Unsupported("identifier not translatable: %r" % (s,))
    return '"%s"' % s


# ------------------------------------------------------------------ 1. trace of the registration calls

TRACE_SNIPPET = r'''
import sys, json
calls = []
def prof(frame, event, arg):
    if event == "call" and frame.f_code.co_name == "_register_element_class" and frame.f_code.co_filename.endswith("element.py"):
        cls = frame.f_locals.get("cls"); qn = frame.f_locals.get("qname")
        calls.append([qn, cls.__name__, cls.__module__])
sys.setprofile(prof)
import odfdo
sys.setprofile(None)
from odfdo.element import _class_registry
print(json.dumps(dict(calls=calls, final=[[t, c.__name__, c.__module__] for t, c in _class_registry.items()], file=odfdo.__file__)))
'''


def trace_registrations():
    env = dict(os.environ, PYTHONPATH=str(SRC), PYTHONHASHSEED="0")
    p = subprocess.run([sys.executable, "-c", TRACE_SNIPPET], env=env, capture_output=True, text=True, timeout=120)
    if p.returncode:
        raise Unsupported("cannot import odfdo under the profiler: " + p.stderr[-800:])
    d = json.loads(p.stdout.strip().splitlines()[-1])
    if not str(Path(d["file"]).resolve()).startswith(str(SRC.resolve())):
        raise Unsupported("odfdo imported from %s, not from %s" % (d["file"], SRC))
    return d


# ------------------------------------------------------------------ 2. constructor analysis

POS_GUARDS = ("GNone", "GTruthy", "GNotNone")


def positive(g):
    return g in POS_GUARDS or g.startswith("GGe:")


def names_loaded(node):
    return {n.id for n in ast.walk(node) if isinstance(n, ast.Name) and isinstance(n.ctx, ast.Load)}


def is_none(n):
    return isinstance(n, ast.Constant) and n.value is None


def conj(test, pol):
    """split a test into (conjunct, polarity) pairs; a negated conjunction is kept whole"""
    if pol and isinstance(test, ast.BoolOp) and isinstance(test.op, ast.And):
        out = []
        for v in test.values:
            out += conj(v, True)
        return out
    if isinstance(test, ast.UnaryOp) and isinstance(test.op, ast.Not):
        inner = test.operand
        if isinstance(inner, ast.BoolOp):
            return [(test, pol)]
        return conj(inner, not pol)
    return [(test, pol)]


def guard_for(arg, guards):
    """(guard kind w.r.t. `arg`, depends on something else than arg and self._do_init)"""
    kinds, other = [], False
    for test, pol in guards:
        if test == "loop":
            other = True
            continue
        for c, p in conj(test, pol):
            if isinstance(c, ast.Attribute) and isinstance(c.value, ast.Name) and c.value.id == "self" and c.attr == "_do_init" and p:
                continue
            mentioned = arg in names_loaded(c)
            if not mentioned:
                other = True
                continue
            if isinstance(c, ast.Name) and c.id == arg:
                kinds.append("GTruthy" if p else "GFalsy")
            elif (isinstance(c, ast.Compare) and isinstance(c.left, ast.Name) and c.left.id == arg and len(c.ops) == 1
                  and is_none(c.comparators[0]) and isinstance(c.ops[0], (ast.Is, ast.IsNot))):
                notnone = isinstance(c.ops[0], ast.IsNot) == p
                kinds.append("GNotNone" if notnone else "GIsNone")
            elif (isinstance(c, ast.Compare) and isinstance(c.left, ast.Name) and c.left.id == arg and len(c.ops) == 1 and p
                  and isinstance(c.ops[0], (ast.Gt, ast.GtE)) and isinstance(c.comparators[0], ast.Constant)
                  and type(c.comparators[0].value) is int):
                kinds.append("GGe:%d" % (c.comparators[0].value + (1 if isinstance(c.ops[0], ast.Gt) else 0)))
            else:
                kinds.append("GOther")
    bounds = [int(k[4:]) for k in kinds if k.startswith("GGe:")]
    if bounds and all(k.startswith("GGe:") or k in ("GTruthy", "GNotNone") for k in kinds):
        # `x and x >= 2`, `x is not None and x >= 0`: an int not below the bound (truthiness adds `!= 0`)
        n = max(bounds)
        if "GTruthy" in kinds and n <= 0:
            return "GOther", other
        return "GGe:%d" % n, other
    kinds = ["GOther" if k.startswith("GGe:") else k for k in kinds]
    ks = set(kinds)
    if not ks:
        g = "GNone"
    elif "GOther" in ks:
        g = "GOther"
    elif ks <= {"GTruthy", "GNotNone"}:
        g = "GTruthy" if "GTruthy" in ks else "GNotNone"
    elif ks <= {"GFalsy", "GIsNone"}:
        g = "GIsNone" if ks == {"GIsNone"} else "GFalsy"
    else:
        g = "GOther"
    return g, other


def rhs_kind(arg, value):
    if isinstance(value, ast.Name) and value.id == arg:
        return ("CId", "")
    if (isinstance(value, ast.Call) and len(value.args) == 1 and not value.keywords
            and isinstance(value.args[0], ast.Name) and value.args[0].id == arg
            and isinstance(value.func, (ast.Name, ast.Attribute))):
        return ("CConv", ast.unparse(value.func))
    if (isinstance(value, ast.BoolOp) and isinstance(value.op, ast.Or) and len(value.values) == 2
            and isinstance(value.values[0], ast.Name) and value.values[0].id == arg and isinstance(value.values[1], ast.Constant)):
        return ("COrDefault", repr(value.values[1].value))
    if isinstance(value, ast.Constant):
        return ("Const", repr(value.value))
    return ("Other", "")


class InitScan:
    def __init__(self, fn, argnames):
        self.args = argnames
        self.stores = []      # (target, value node, guards)
        self.reassign = []    # (name, value node, guards)
        self.other = {a: 0 for a in argnames}   # loads outside if-tests / recognised stores / reassignments
        self.tests = {a: 0 for a in argnames}
        self.super_calls = 0
        self.forwards = {}    # parameter -> keyword under which it is handed to the parent constructor through **kwargs
        self.helpers = {a: [] for a in argnames}   # parameter -> [(method, key, guards)]: handed unchanged to self.method(...) / kwargs[key]
        self.calls = []       # every self.method(...) statement: (method, guards)
        body = fn.body
        if body and isinstance(body[0], ast.Expr) and isinstance(body[0].value, ast.Constant) and isinstance(body[0].value.value, str):
            body = body[1:]
        self.walk(body, [])

    def count_other(self, node):
        for n in names_loaded(node):
            if n in self.other:
                self.other[n] += 1

    def helper_call(self, c, guards):
        """self.method(a, k=b): every argument that is a bare parameter is a hand-over to that method"""
        if not (isinstance(c, ast.Call) and isinstance(c.func, ast.Attribute) and isinstance(c.func.value, ast.Name)
                and c.func.value.id == "self"):
            return False
        self.calls.append((c.func.attr, list(guards)))
        for i, v in enumerate(c.args):
            if isinstance(v, ast.Name) and v.id in self.helpers:
                self.helpers[v.id].append((c.func.attr, "#%d" % i, list(guards)))
            else:
                self.count_other(v)
        for kw in c.keywords:
            if kw.arg is not None and isinstance(kw.value, ast.Name) and kw.value.id in self.helpers:
                self.helpers[kw.value.id].append((c.func.attr, kw.arg, list(guards)))
            else:
                self.count_other(kw.value)
        return True

    def walk(self, stmts, guards):
        for s in stmts:
            if isinstance(s, ast.If):
                for n in names_loaded(s.test):
                    if n in self.tests:
                        self.tests[n] += 1
                self.walk(s.body, guards + [(s.test, True)])
                self.walk(s.orelse, guards + [(s.test, False)])
            elif isinstance(s, ast.For):
                self.count_other(s.iter)
                self.walk(s.body, guards + [("loop", True)])
                if s.orelse:
                    raise Unsupported("for/else in __init__")
            elif isinstance(s, (ast.Assign, ast.AnnAssign)):
                targets = s.targets if isinstance(s, ast.Assign) else [s.target]
                value = s.value
                if value is None:
                    continue
                if len(targets) != 1:
                    raise Unsupported("chained assignment in __init__")
                t = targets[0]
                if isinstance(t, ast.Attribute) and isinstance(t.value, ast.Name) and t.value.id == "self":
                    self.stores.append((t.attr, value, list(guards)))
                elif isinstance(t, ast.Name):
                    if t.id in self.other:
                        self.reassign.append((t.id, value, list(guards)))
                        # loads of OTHER arguments in the new value are uses of those (hand-overs to a method are recorded as such)
                        if not self.helper_call(value, guards):
                            for n in names_loaded(value):
                                if n in self.other and n != t.id:
                                    self.other[n] += 1
                    elif not self.helper_call(value, guards):
                        self.count_other(value)
                elif (isinstance(t, ast.Subscript) and isinstance(t.value, ast.Name) and t.value.id == "kwargs"
                      and isinstance(t.slice, ast.Constant) and isinstance(t.slice.value, str)
                      and isinstance(value, ast.Name) and value.id in self.helpers):
                    self.helpers[value.id].append(("kwargs", t.slice.value, list(guards)))     # kwargs['fo:color'] = color
                elif isinstance(t, ast.Tuple) and all(isinstance(e, ast.Name) for e in t.elts):
                    for e in t.elts:
                        if e.id in self.other:
                            self.reassign.append((e.id, value, list(guards)))
                    self.count_other(value)
                else:   # kwargs['x'] = color, self._indexes['a'] = {} ...
                    self.count_other(value)
                    self.count_other(t)
            elif isinstance(s, ast.Expr):
                c = s.value
                if (isinstance(c, ast.Call) and isinstance(c.func, ast.Attribute) and c.func.attr == "__init__"
                        and isinstance(c.func.value, ast.Call) and isinstance(c.func.value.func, ast.Name) and c.func.value.func.id == "super"):
                    ok = (not c.args and len(c.keywords) == 1 and c.keywords[0].arg is None
                          and isinstance(c.keywords[0].value, ast.Name) and c.keywords[0].value.id == "kwargs")
                    if not ok or guards:
                        raise Unsupported("super().__init__ call of unexpected shape: " + ast.unparse(c))
                    self.super_calls += 1
                elif (isinstance(c, ast.Call) and isinstance(c.func, ast.Attribute) and c.func.attr == "update"
                      and isinstance(c.func.value, ast.Name) and c.func.value.id == "kwargs" and not guards
                      and self.super_calls == 0 and len(c.args) == 1 and not c.keywords and isinstance(c.args[0], ast.Dict)
                      and all(isinstance(k, ast.Constant) and isinstance(k.value, str) for k in c.args[0].keys)):
                    # kwargs.update({"style": style, ...}) before super().__init__(**kwargs): forwarded to the parent constructor
                    for k, v in zip(c.args[0].keys, c.args[0].values):
                        if isinstance(v, ast.Name) and v.id in self.other and v.id not in self.forwards:
                            self.forwards[v.id] = k.value
                        else:
                            self.count_other(v)
                elif not self.helper_call(c, guards):
                    self.count_other(s)
            elif isinstance(s, (ast.Raise, ast.Return, ast.AugAssign, ast.Pass)):
                self.count_other(s)
            else:
                raise Unsupported("statement kind %s in __init__: %s" % (type(s).__name__, ast.unparse(s)[:80]))


def under_do_init(guards):
    """is the statement executed only for a NEW element (`if self._do_init:` somewhere above it)?"""
    for test, pol in guards:
        if test == "loop":
            continue
        for c, p in conj(test, pol):
            if (isinstance(c, ast.Attribute) and isinstance(c.value, ast.Name) and c.value.id == "self" and c.attr == "_do_init" and p):
                return True
    return False


WRITERS = re.compile(r"^(set_|append|insert|delete|clear|extend|del_|add_|strip|replace|fill|remove)")


def writes_on_wrap(cls):
    """statements of the __init__ chain of `cls` that run also when an EXISTING node is wrapped (not under `_do_init`) and that
    write to the element: assignments through a property that has a setter, calls of public mutators (set_*, append, ...).
    Plain Python attributes (self.x = None) and private helpers are not writes to the element as far as this scan knows."""
    from odfdo.element import Element
    out = []
    for k in cls.__mro__:
        if k is Element or k is object or "__init__" not in k.__dict__:
            continue
        fn, _f = find_init(k)
        a = fn.args
        names = [p.arg for p in a.args[1:] + a.kwonlyargs]
        try:
            sc = InitScan(fn, names)
        except Unsupported:
            raise
        for (target, value, guards) in sc.stores:
            d = inspect.getattr_static(cls, target, None)
            if not under_do_init(guards) and isinstance(d, property) and d.fset is not None:
                out.append("%s.__init__: self.%s = ..." % (k.__name__, target))
        for (m, guards) in sc.calls:
            if not under_do_init(guards) and WRITERS.match(m):
                out.append("%s.__init__: self.%s(...)" % (k.__name__, m))
    return out


def find_init(owner):
    f = inspect.getsourcefile(owner)
    tree = ast.parse(Path(f).read_text())
    for node in ast.walk(tree):
        if isinstance(node, ast.ClassDef) and node.name == owner.__name__:
            for b in node.body:
                if isinstance(b, ast.FunctionDef) and b.name == "__init__":
                    return b, f
    raise Unsupported("__init__ of %s not found in %s" % (owner.__name__, f))


def generic_props(cls, rev_ns):
    """generic attribute properties actually installed: name -> (attr qname, family) read from the property closures"""
    out = {}
    for name in dir(cls):
        d = inspect.getattr_static(cls, name, None)
        if isinstance(d, property) and d.fget is not None and d.fget.__qualname__.endswith("_generic_attrib_getter.<locals>.getter"):
            cells = dict(zip(d.fget.__code__.co_freevars, [c.cell_contents for c in d.fget.__closure__]))
            scells = dict(zip(d.fset.__code__.co_freevars, [c.cell_contents for c in d.fset.__closure__]))
            if "name" not in cells or "family" not in cells:
                raise Unsupported("generic getter closure of %s.%s has unexpected cells %s" % (cls.__name__, name, sorted(cells)))
            if scells.get("name") != cells["name"] or scells.get("family") != cells["family"]:
                raise Unsupported("getter and setter of %s.%s close over different attribute/family" % (cls.__name__, name))
            out[name] = (clark_to_qname(cells["name"], rev_ns), cells["family"] or "")
    return out


def clark_to_qname(tag, rev_ns):
    m = re.match(r"^\{(.*)\}(.*)$", tag)
    if not m:
        return tag
    if m.group(1) not in rev_ns:
        raise Unsupported("uri without prefix: " + tag)
    return rev_ns[m.group(1)] + ":" + m.group(2)


_PARENT_CACHE = {}


def parent_entries(cls, owner, gprops):
    """entries of the constructor that `super().__init__(**kwargs)` of `owner` reaches, for the class `cls` under analysis"""
    from odfdo.element import Element
    mro = list(cls.__mro__)
    nxt = None
    for k in mro[mro.index(owner) + 1:]:
        if "__init__" in k.__dict__:
            nxt = k
            break
    if nxt is None or nxt is Element or nxt is object:
        return None
    key = (cls, nxt)
    if key not in _PARENT_CACHE:
        fn, _f = find_init(nxt)
        entries, _pinned = classify(cls, nxt, fn, gprops)
        for e in entries:
            e["_owner"] = nxt.__name__
        _PARENT_CACHE[key] = {e["arg"]: e for e in entries}
    return _PARENT_CACHE[key]


def classify(cls, owner, fn, gprops):
    a = fn.args
    if a.vararg is not None or a.posonlyargs:
        raise Unsupported("%s.__init__: *args / positional-only" % owner.__name__)
    if a.kwarg is None or a.kwarg.arg != "kwargs":
        raise Unsupported("%s.__init__: no **kwargs" % owner.__name__)
    pos = a.args
    if not pos or pos[0].arg != "self":
        raise Unsupported("%s.__init__: first parameter is not self" % owner.__name__)
    params = pos[1:] + a.kwonlyargs
    defaults = [None] * (len(pos) - len(a.defaults)) + list(a.defaults)
    defaults = defaults[1:] + list(a.kw_defaults)
    names = [p.arg for p in params]
    sc = InitScan(fn, names)
    if sc.super_calls != 1:
        raise Unsupported("%s.__init__: %d top-level super().__init__(**kwargs) calls" % (owner.__name__, sc.super_calls))
    pinned = sorted({t for (t, value, guards) in sc.stores if not guards and isinstance(value, ast.Constant)})
    res = []
    for p, dflt in zip(params, defaults):
        arg = p.arg
        ann = ast.unparse(p.annotation) if p.annotation is not None else ""
        dsrc = ast.unparse(dflt) if dflt is not None else None
        # is the value possibly replaced before it is stored?  (allowed: defaulting when None / falsy)
        tainted = False
        defaulted = None      # `if a is None: a = <default>` / `if not a: a = <default>` before the store:
        for (n, value, guards) in sc.reassign:   # the CALLER's value is stored only when it is not None / truthy
            if n != arg:
                continue
            g, other = guard_for(arg, guards)
            if g not in ("GIsNone", "GFalsy") or other:
                tainted = True
            elif defaulted != "GTruthy":
                defaulted = "GNotNone" if g == "GIsNone" else "GTruthy"
        pos_stores, const_stores, neg_stores, other_stores, indexed = [], [], [], 0, []
        for (target, value, guards) in sc.stores:
            mentioned = arg in names_loaded(value)
            g, other = guard_for(arg, guards)
            guard_mentions = g != "GNone"
            if not mentioned and not guard_mentions:
                continue
            kind, extra = rhs_kind(arg, value)
            if (mentioned and isinstance(value, ast.Subscript) and isinstance(value.value, ast.Name) and value.value.id == arg
                    and isinstance(value.slice, ast.Constant) and type(value.slice.value) is int and g == "GTruthy" and not other):
                indexed.append((value.slice.value, target))        # self.x1 = p1[0]
                continue
            if not mentioned:
                if kind == "Const" and g == "GTruthy" and not other:
                    const_stores.append((target, extra))
                elif g in ("GFalsy", "GIsNone"):
                    neg_stores.append(target)
                # a store of something else under a guard on arg: the guard use is already counted in tests
                continue
            if kind in ("CId", "CConv", "COrDefault") and positive(g):
                if defaulted and (g == "GNone" or (g == "GNotNone" and defaulted == "GTruthy")):
                    g = defaulted
                pos_stores.append((target, g, kind, extra, other))
            elif kind in ("CId", "CConv", "COrDefault") and g in ("GFalsy", "GIsNone"):
                # `if not a: self.p = a` stores the falsy value itself (Table.printable) -- a use, unless `a` was
                # replaced by a default under the same guard (Annotation.name), in which case the caller's value never gets there
                if any(n == arg for (n, _v, _g) in sc.reassign):
                    neg_stores.append(target)
                else:
                    other_stores += 1
            else:
                other_stores += 1
        is_prop = lambda t: isinstance(inspect.getattr_static(cls, t, None), property)
        has_same_named_property = is_prop(arg)
        entry = dict(arg=arg, annotation=ann, default=dsrc, kind="Unrecognised", prop="", guard="", conv="", convf="",
                     attr="", family="", note="")
        nother = sc.other[arg] + other_stores
        if pos_stores and not tainted:
            target, g, kind, extra, other = pos_stores[0]
            entry.update(prop=target, guard=g, conv=kind, convf=extra)
            if not is_prop(target):
                entry.update(kind="NonProp", note="stored into a plain attribute (not a property of the class)")
            elif other:
                entry.update(kind="StoredCond", note="store depends on another condition")
            else:
                entry.update(kind="Stored")
            if target in gprops:
                entry.update(attr=gprops[target][0], family=gprops[target][1])
            if len({t for t, *_ in pos_stores}) > 1:
                entry["note"] += " also stored into " + ",".join(sorted({t for t, *_ in pos_stores[1:]}))
        elif const_stores and not tainted and nother == 0 and is_prop(const_stores[0][0]):
            target, c = const_stores[0]
            entry.update(kind="StoredConst", prop=target, guard="GTruthy", conv="Const", convf=c)
            if target in gprops:
                entry.update(attr=gprops[target][0], family=gprops[target][1])
        elif (nother == 0 and not tainted and not sc.helpers.get(arg) and not indexed
              and (sc.tests[arg] == 0 or (has_same_named_property and "bool" not in ann))):
            # (a bool argument that is only tested is a mode switch, e.g. VarSet.display, Header.formatted)
            why = "never read" if sc.tests[arg] == 0 and not neg_stores else \
                  "only tested%s; the class has a property of that name" % (
                      (" and stored when absent (into %s)" % ",".join(neg_stores)) if neg_stores else "")
            entry.update(kind="Dropped", note=why)
        else:
            entry.update(kind="Unrecognised",
                         note=("reassigned before use; " if tainted else "") + "used in %d other expression(s), %d test(s)" % (nother, sc.tests[arg]))
        # `text = self.set_value_and_type(value=value, text=text)`: replaced by the result of a method it was handed to
        def _hands_over(value):
            return (isinstance(value, ast.Call) and isinstance(value.func, ast.Attribute) and isinstance(value.func.value, ast.Name)
                    and value.func.value.id == "self"
                    and any(isinstance(v, ast.Name) and v.id == arg for v in list(value.args) + [k.value for k in value.keywords]))
        taint_by_helper = tainted and all(_hands_over(v) for (n, v, _g) in sc.reassign if n == arg)
        if (entry["kind"] == "Unrecognised" and nother == 0 and not const_stores
                and ((not tainted and not pos_stores) or taint_by_helper)):
            hu = sc.helpers.get(arg, [])
            if indexed and not hu:
                entry.update(kind="StoredIndexed", prop=",".join(t for _, t in sorted(indexed)), guard="GTruthy",
                             note="self.<p> = %s[i] for i in %s" % (arg, sorted(i for i, _ in indexed)))
            elif hu and not indexed:
                m, k, gs = hu[0]
                _g, oth = guard_for(arg, gs)
                entry.update(kind="ViaHelper", prop=m, convf=k, guard=_g,
                             note="handed to %s(%s)%s%s" % (("self." + m) if m != "kwargs" else "kwargs[...] -> set_properties", k,
                                                           " under a condition on something else" if oth else "",
                                                           "; also " + ", ".join("%s(%s)" % (a, b) for a, b, _ in hu[1:]) if len(hu) > 1 else ""))
                entry["cond_other"] = bool(oth)
                names = set()
                for (t_, pol_) in gs:
                    if t_ != "loop":
                        names |= {n for n in names_loaded(t_) if n in sc.other and n != arg}
                entry["cond_names"] = sorted(names)
        if (arg in sc.forwards and not pos_stores and not const_stores and not neg_stores and nother == 0
                and sc.tests[arg] == 0 and not tainted):
            # handed unchanged to the parent constructor: the parent's entry for that keyword applies
            parent = parent_entries(cls, owner, gprops)
            pe = parent.get(sc.forwards[arg]) if parent is not None else None
            if pe is None:
                entry.update(kind="Dropped", note="forwarded as %s= to a parent constructor that has no such parameter" % sc.forwards[arg])
            else:
                keep = dict(arg=arg, annotation=ann, default=dsrc)
                entry.update(pe); entry.update(keep)
                entry["note"] = ("forwarded as %s= to %s.__init__; " % (sc.forwards[arg], pe["_owner"]) + pe.get("note", "")).strip()
        res.append(entry)
    return res, pinned


# ------------------------------------------------------------------ 2b. where wrappers are made

def wrap_sites():
    """every place of the package that turns an lxml node into a wrapper object:
       calls  <receiver>.from_tag(...) / <receiver>.from_tag_for_clone(...)   -> (module, function, receiver, factory)
       calls  <anything>(tag_or_elem=...) that are not such a call            -> (module, function, "<callee>", "direct")
    The model (Registry.v, access paths) assumes the receiver is the base class Element everywhere except in Element.clone
    (self) -- C12_wrap_sites_as_modelled checks this table on every run."""
    out = []
    for f in sorted((SRC / "odfdo").rglob("*.py")):
        if "scripts" in f.parts:
            continue
        tree = ast.parse(f.read_text())
        mod = f.relative_to(SRC / "odfdo").as_posix()

        def visit(node, fn):
            for ch in ast.iter_child_nodes(node):
                name = fn
                if isinstance(ch, (ast.FunctionDef, ast.AsyncFunctionDef)):
                    name = ch.name
                if isinstance(ch, ast.Call):
                    if isinstance(ch.func, ast.Attribute) and ch.func.attr in ("from_tag", "from_tag_for_clone"):
                        out.append((mod, fn, ast.unparse(ch.func.value), ch.func.attr))
                    elif isinstance(ch.func, ast.Name) and ch.func.id in ("from_tag", "from_tag_for_clone"):
                        out.append((mod, fn, "", ch.func.id))
                    elif any(k.arg == "tag_or_elem" for k in ch.keywords):
                        out.append((mod, fn, ast.unparse(ch.func), "direct"))
                visit(ch, name)
        visit(tree, "<module>")
    return out


# ------------------------------------------------------------------ 3. emit

def main():
    WORK.mkdir(exist_ok=True)
    tr = trace_registrations()
    sys.path.insert(0, str(SRC))
    import odfdo
    from odfdo.element import _class_registry, Element, PropDef, ODF_NAMESPACES
    assert str(Path(odfdo.__file__).resolve()).startswith(str(SRC.resolve())), odfdo.__file__
    ns = list(ODF_NAMESPACES.items())
    rev_ns = {}
    for p, u in ns:
        rev_ns.setdefault(u, p)
    final_live = sorted([t, c.__name__, c.__module__] for t, c in _class_registry.items())
    if final_live != sorted(tr["final"]):   # (dict order depends on the hash seed: a set is iterated in style.py)
        raise Unsupported("registry of the traced import differs from this process's registry")
    classes = []
    for c in _class_registry.values():
        if c not in classes:
            classes.append(c)
    registered = list(classes)
    # classes that called the registration function but lost every tag (first registrant wins): kept, flagged
    for qn, cn, mod in tr["calls"]:
        k = getattr(sys.modules[mod], cn, None)
        if not isinstance(k, type) or k.__name__ != cn:
            raise Unsupported("registration call names %s.%s which is not a module-level class" % (mod, cn))
        if k not in classes:
            classes.append(k)
    # every Element subclass that declares a `_tag`, found by walking the package (NOT from the registry and not from the
    # registration calls: a class whose registration was dropped is still a class the library defines): kept, flagged
    def _subs(c):
        for s_ in c.__subclasses__():
            yield s_
            yield from _subs(s_)
    tagged = []
    for k in sorted(set(_subs(Element)), key=lambda k: (k.__module__, k.__name__)):
        if k.__module__.split(".")[0] == "odfdo" and isinstance(k.__dict__.get("_tag"), str) and k.__dict__["_tag"]:
            tagged.append(k)
            if k not in classes and not k.__dict__["_tag"].endswith("-odfdo-notodf"):      # (abstract bases carry a fake tag)
                classes.append(k)
    cnames = [c.__name__ for c in classes]
    if len(set(cnames)) != len(cnames):
        raise Unsupported("two registered classes share a name: %s" % sorted(n for n in cnames if cnames.count(n) > 1))
    if "Element" in cnames:
        raise Unsupported("the base class Element is registered under a tag")
    info = dict(repo=str(REPO), namespaces=ns, registrations=tr["calls"], live=final_live, classes=[])
    reg_lines, tag_lines, prop_lines, decl_lines, ctor_lines, wrap_write_lines = [], [], [], [], [], []
    for qn, cn, mod in tr["calls"]:
        reg_lines.append("  (%s, %s)" % (q(qn), q(cn)))
    for c in classes:
        own = c._tag
        if not isinstance(own, str):
            raise Unsupported("%s._tag is not a string" % c.__name__)
        gp = generic_props(c, rev_ns)
        declared = []
        for k in c.__mro__:
            props = k.__dict__.get("_properties", ())
            for pd in props:
                if not isinstance(pd, PropDef):
                    raise Unsupported("%s._properties holds a non-PropDef" % k.__name__)
                declared.append((k.__name__, pd.name, pd.attr, pd.family or ""))
        owner = None
        for k in c.__mro__:
            if "__init__" in k.__dict__:
                owner = k
                break
        if owner is Element:
            args, pinned = [], []
            init_file = inspect.getsourcefile(Element)
        else:
            fn, init_file = find_init(owner)
            args, pinned = classify(c, owner, fn, gp)
        ww = writes_on_wrap(c)
        for w_ in ww:
            wrap_write_lines.append("  (%s, %s)" % (q(c.__name__), q(w_)))
        all_props = sorted(n for n in dir(c) if isinstance(inspect.getattr_static(c, n, None), property))
        info["classes"].append(dict(name=c.__name__, module=c.__module__, own_tag=own, init_owner=owner.__name__,
                                    init_file=str(Path(init_file).relative_to(REPO)) if str(init_file).startswith(str(REPO)) else init_file,
                                    generic_props={k: list(v) for k, v in gp.items()}, declared=declared,
                                    properties=all_props, args=args, pinned=pinned, writes_on_wrap=ww,
                                    tags=[t for t, k in _class_registry.items() if k is c], loser=c not in registered))
        tag_lines.append("  (%s, %s)" % (q(c.__name__), q(own)))
        for pn in sorted(gp):
            prop_lines.append("  (%s, (%s, (%s, %s)))" % (q(c.__name__), q(pn), q(gp[pn][0]), q(gp[pn][1])))
        for (kn, pn, at, fam) in declared:
            if kn == c.__name__:
                decl_lines.append("  (%s, (%s, (%s, %s)))" % (q(c.__name__), q(pn), q(at), q(fam)))
        for e in args:
            k = e["kind"]
            gen = "(Some (%s, %s))" % (q(e["attr"]), q(e["family"])) if e["attr"] else "None"
            if k == "Stored":
                conv = "(CConv %s)" % q(e["convf"]) if e["conv"] == "CConv" else e["conv"]
                gd = "(GGe %s)" % e["guard"][4:] if e["guard"].startswith("GGe:") else e["guard"]
                kk = "(Stored %s %s %s %s)" % (q(e["prop"]), gd, conv, gen)
            elif k == "StoredConst":
                if e["convf"] not in ("True", "False"):
                    kk = "Unrecognised"
                    e["kind"] = "Unrecognised"; e["note"] = "constant store of a non-boolean"
                else:
                    kk = "(StoredConst %s %s %s)" % (q(e["prop"]), e["convf"].lower(), gen)
            elif k == "StoredCond":
                kk = "(StoredCond %s)" % q(e["prop"])
            elif k == "NonProp":
                kk = "(NonProp %s)" % q(e["prop"])
            elif k == "ViaHelper":
                kk = "(ViaHelper %s %s)" % (q(e["prop"]), q(e["convf"]))
            elif k == "StoredIndexed":
                kk = "(StoredIndexed [%s])" % "; ".join(q(x) for x in e["prop"].split(","))
            elif k == "Dropped":
                kk = "Dropped"
            else:
                kk = "Unrecognised"
            ctor_lines.append("  mkC %s %s %s" % (q(c.__name__), q(e["arg"]), kk))
    hdr = "(* GENERATED by harness/gen_registry.py from %s on every run -- do not edit, not committed *)\n" % SRC
    reg = [hdr, "From Coq Require Import String List. Import ListNotations. Open Scope string_scope.", "",
           "(* ODF_NAMESPACES: prefix -> uri, in dict order *)",
           "Definition namespaces : list (string * string) := [\n" + ";\n".join("  (%s, %s)" % (q(p), q(u)) for p, u in ns) + "\n].", "",
           "(* every call _register_element_class(cls, qname) made while importing odfdo, in order *)",
           "Definition registrations : list (string * string) := [\n" + ";\n".join(reg_lines) + "\n].", "",
           "(* the final _class_registry of the implementation: (lxml tag, class) in dict order *)",
           "Definition live_registry : list (string * string) := [\n" + ";\n".join("  (%s, %s)" % (q(t), q(c)) for t, c, _ in final_live) + "\n].", "",
           "(* each registered class with its own _tag *)",
           "Definition class_tags : list (string * string) := [\n" + ";\n".join(tag_lines) + "\n].", "",
           "(* generic attribute properties installed on each registered class: (class, (property, (attribute, family))) *)",
           "Definition propdefs : list (string * (string * (string * string))) := [\n" + ";\n".join(prop_lines) + "\n].", "",
           "(* the _properties tuples as declared in the class body itself (declaration order; a later duplicate name overrides) *)",
           "Definition declared_propdefs : list (string * (string * (string * string))) := [\n" + ";\n".join(decl_lines) + "\n].", ""]
    info["tagged_classes"] = [[k.__name__, k.__dict__["_tag"]] for k in tagged]
    reg += ["(* every Element subclass of the package that declares a _tag, found by walking the class tree: (class, tag) *)",
            "Definition tagged_classes : list (string * string) := [\n"
            + ";\n".join("  (%s, %s)" % (q(k.__name__), q(k.__dict__["_tag"])) for k in tagged) + "\n].", ""]
    sites = wrap_sites()
    info["wrap_sites"] = sites
    reg += ["(* every place that makes a wrapper from an lxml node: (module, (enclosing function, (receiver / callee, factory))) *)",
            "Definition wrap_sites : list (string * (string * (string * string))) := [\n"
            + ";\n".join("  (%s, (%s, (%s, %s)))" % (q(a), q(b), q(c), q(d)) for a, b, c, d in sites) + "\n].", ""]
    ct = [hdr, "From Coq Require Import String List ZArith. Import ListNotations. Open Scope string_scope.",
          "Require Import Attr.", "",
          "Definition ctors : list centry := [\n" + ";\n".join(ctor_lines) + "\n].", "",
          "(* statements of an __init__ chain that write to the element also when an existing node is merely wrapped: (class, statement) *)",
          "Definition wrap_writes : list (string * string) := [\n" + ";\n".join(wrap_write_lines) + "\n].", ""]
    new_reg, new_ct = "\n".join(reg), "\n".join(ct)
    for f, txt in ((TH / "Gen_Registry.v", new_reg), (TH / "Gen_Ctors.v", new_ct)):
        if not f.exists() or f.read_text() != txt:      # keep the time stamp when nothing changed (make)
            f.write_text(txt)
    (WORK / "gen_registry.json").write_text(json.dumps(info, indent=1))
    return info


if __name__ == "__main__":
    try:
        info = main()
    except Unsupported as e:
        print("TRANSLATOR-STOP: %s" % e)
        sys.exit(3)
    n = sum(len(c["args"]) for c in info["classes"])
    kinds = {}
    for c in info["classes"]:
        for a in c["args"]:
            kinds[a["kind"]] = kinds.get(a["kind"], 0) + 1
    print("gen_registry: %d registration calls, %d tags, %d classes, %d constructor arguments %s"
          % (len(info["registrations"]), len(info["live"]), len(info["classes"]), n, json.dumps(kinds, sort_keys=True)))
    if "-v" in sys.argv:
        for c in info["classes"]:
            for a in c["args"]:
                if a["kind"] not in ("Stored",):
                    print("  %-18s %-22s %-12s %-18s %s" % (c["name"], a["arg"], a["kind"], a["prop"], a["note"]))
