(* C14 — XPath 1.0 string quoting: executable model of the pasting sites of odfdo (pinned and repaired) and the
   specification side (reader of XPath string expressions, predicate reader, whole-query lexer).
   Definitions only; proofs are in XPathLitproof*.v.
   Characters are Unicode code points (N); strings are lists of code points. *)
From Coq Require Import List NArith Bool.
Import ListNotations.
Open Scope N_scope.

Definition chr := N.
Definition str := list chr.
Definition DQ : chr := 34.   (* the double quote *)
Definition SQ : chr := 39.   (* the apostrophe *)
Definition COMMA : chr := 44.
Definition LPAR : chr := 40.
Definition RPAR : chr := 41.
Definition LBRA : chr := 91.
Definition RBRA : chr := 93.
Definition AT : chr := 64.
Definition EQS : chr := 61.
Definition s_concat : str := [99;111;110;99;97;116;40].                    (* concat( *)
Definition s_attribute_axis : str := [97;116;116;114;105;98;117;116;101;58;58].  (* attribute:: *)

Definition has (c : chr) (s : str) : bool := existsb (N.eqb c) s.

Fixpoint str_eqb (a b : str) : bool :=
  match a, b with
  | [], [] => true
  | x :: a', y :: b' => (x =? y) && str_eqb a' b'
  | _, _ => false
  end.

(* ------------------------------------------------------------------ implementation side *)

(* pinned code: the f-string [@{qname}=DQ{value}DQ] (DQ = the double-quote character) and the other sites pasting
   between double quotes *)
Definition quote_pinned (v : str) : str := DQ :: v ++ [DQ].
(* pinned reference.py: [@text:name=SQ{name}SQ] *)
Definition quote_pinned_sq (v : str) : str := SQ :: v ++ [SQ].

(* repaired code: utils/xpath_query.py xpath_string_literal(value):
     no DQ in value         -> DQ value DQ
     else no SQ in value    -> SQ value SQ
     else concat( DQ p0 DQ , SQ DQ SQ , DQ p1 DQ , ... )  for p0, p1, ... = value.split(DQ)      *)
Definition dq_lit (s : str) : str := DQ :: s ++ [DQ].
Definition sq_lit (s : str) : str := SQ :: s ++ [SQ].

(* value.split(DQ) ; cur = the piece being read, reversed *)
Fixpoint split_dq (cur : str) (s : str) : list str :=
  match s with
  | [] => [rev cur]
  | c :: s' => if c =? DQ then rev cur :: split_dq [] s' else split_dq (c :: cur) s'
  end.

(* the separator  , SQ DQ SQ ,  joined between the pieces, each written DQ piece DQ *)
Fixpoint join_pieces (ps : list str) : str :=
  match ps with
  | [] => []
  | [p] => dq_lit p
  | p :: r => dq_lit p ++ [COMMA] ++ sq_lit [DQ] ++ [COMMA] ++ join_pieces r
  end.

Definition quote (v : str) : str :=
  if negb (has DQ v) then dq_lit v
  else if negb (has SQ v) then sq_lit v
  else s_concat ++ join_pieces (split_dq [] v) ++ [RPAR].

(* make_xpath_query: the f-string [@{qname}={xpath_string_literal(value)}] *)
Definition pred (a v : str) : str := [LBRA; AT] ++ a ++ [EQS] ++ quote v ++ [RBRA].
Definition pred_pinned (a v : str) : str := [LBRA; AT] ++ a ++ [EQS] ++ quote_pinned v ++ [RBRA].
(* manifest.py: [attribute::manifest:full-path=...] *)
Definition pred_axis (a v : str) : str := [LBRA] ++ s_attribute_axis ++ a ++ [EQS] ++ quote v ++ [RBRA].
Definition pred_axis_pinned (a v : str) : str := [LBRA] ++ s_attribute_axis ++ a ++ [EQS] ++ quote_pinned v ++ [RBRA].

(* ------------------------------------------------------------------ specification side *)

(* XPath 1.0 rule [29] Literal ::= DQ [^DQ]* DQ | SQ [^SQ]* SQ : content and rest *)
Fixpoint until (q : chr) (s : str) (acc : str) : option (str * str) :=
  match s with
  | [] => None
  | c :: s' => if c =? q then Some (rev acc, s') else until q s' (c :: acc)
  end.

Definition literal (s : str) : option (str * str) :=
  match s with
  | c :: s' => if (c =? DQ) || (c =? SQ) then until c s' [] else None
  | [] => None
  end.

(* arguments of concat( : Literal (',' Literal)* ')' ; XPath requires at least two arguments.
   n = number of arguments already read.  Fuel: one unit per argument. *)
Fixpoint args (fuel : nat) (s : str) (acc : str) (n : nat) : option (str * str) :=
  match fuel with
  | O => None
  | S f =>
    match literal s with
    | None => None
    | Some (l, rest) =>
      match rest with
      | c :: rest' =>
          if c =? COMMA then args f rest' (acc ++ l) (S n)
          else if c =? RPAR then (match n with O => None | _ => Some (acc ++ l, rest') end)
          else None
      | [] => None
      end
    end
  end.

Fixpoint strip_prefix (p s : str) : option str :=
  match p, s with
  | [], _ => Some s
  | a :: p', b :: s' => if a =? b then strip_prefix p' s' else None
  | _, [] => None
  end.

(* a string expression at the head of s: its value and the rest of the input *)
Definition string_expr (s : str) : option (str * str) :=
  match literal s with
  | Some r => Some r
  | None =>
    match strip_prefix s_concat s with
    | Some rest => args (length s) rest [] 0
    | None => None
    end
  end.

(* a complete string expression; None = syntax error or trailing input *)
Definition eval (s : str) : option str :=
  match string_expr s with
  | Some (v, []) => Some v
  | _ => None
  end.

(* name characters of a QName (prefix:local) *)
Definition name_char (c : chr) : bool :=
  ((97 <=? c) && (c <=? 122)) || ((65 <=? c) && (c <=? 90)) || ((48 <=? c) && (c <=? 57))
  || (c =? 58) || (c =? 45) || (c =? 95) || (c =? 46) || (128 <=? c).

Fixpoint span_name (s : str) (acc : str) : str * str :=
  match s with
  | c :: s' => if name_char c then span_name s' (c :: acc) else (rev acc, s)
  | [] => (rev acc, [])
  end.

(* reader of one predicate  '[' ('@' | 'attribute::') QName '=' StringExpr ']'  that must consume its input *)
Definition parse_pred (s : str) : option (str * str) :=
  match s with
  | c :: r =>
    if c =? LBRA then
      let r0 := match r with
                | c1 :: r' => if c1 =? AT then Some r' else strip_prefix s_attribute_axis r
                | [] => None
                end in
      match r0 with
      | None => None
      | Some r1 =>
        match span_name r1 [] with
        | ([], _) => None
        | (name, c2 :: r2) =>
            if c2 =? EQS then
              match string_expr r2 with
              | Some (v, [c3]) => if c3 =? RBRA then Some (name, v) else None
              | _ => None
              end
            else None
        | (_, []) => None
        end
      end
    else None
  | [] => None
  end.

(* whole-query lexer: what an XPath 1.0 tokenizer sees of a query, as far as string literals are concerned *)
Inductive tok := TOther (s : str) | TStr (s : str).
Inductive lexst := LOut | LIn (q : chr).

Definition is_quote (c : chr) : bool := (c =? DQ) || (c =? SQ).
Definition is_ws (c : chr) : bool := (c =? 32) || (c =? 9) || (c =? 10) || (c =? 13).

Definition other (s : str) : list tok := match s with [] => [] | _ => [TOther s] end.

(* cur = characters of the current run, reversed.  A quote opens a literal that ends at the next identical quote;
   white space outside literals is dropped; an unterminated literal is an error. *)
Fixpoint lex (m : lexst) (cur : str) (s : str) : option (list tok) :=
  match s with
  | [] => match m with LOut => Some (other (rev cur)) | LIn _ => None end
  | c :: r =>
    match m with
    | LOut => if is_quote c then option_map (fun ts => other (rev cur) ++ ts) (lex (LIn c) [] r)
             else if is_ws c then lex LOut cur r
             else lex LOut (c :: cur) r
    | LIn q => if c =? q then option_map (cons (TStr (rev cur))) (lex LOut [] r)
              else lex (LIn q) (c :: cur) r
    end
  end.

Definition strip_suffix (p s : str) : option str :=
  match strip_prefix (rev p) (rev s) with Some r => Some (rev r) | None => None end.

(* tokens after  concat( Lit  :  ( , Lit )*  then a run starting with the closing parenthesis;
   many = a comma was seen (at least two arguments) *)
Fixpoint cargs (l : list tok) (acc : str) (many : bool) : option (str * str * list tok) :=
  match l with
  | TOther (c :: r) :: rest =>
      if c =? RPAR then (if many then Some (acc, r, rest) else None)
      else if (c =? COMMA) then
        match r, rest with
        | [], TStr b :: rest' => cargs rest' (acc ++ b) true
        | _, _ => None
        end
      else None
  | _ => None
  end.

(* fold  concat( Lit , Lit ... )  into one string token (from the right) *)
Definition fold_step (t : tok) (acc : list tok) : list tok :=
  match t with
  | TStr _ => t :: acc
  | TOther o =>
    match strip_suffix s_concat o with
    | Some o' =>
      match acc with
      | TStr a :: rest =>
        match cargs rest a false with
        | Some (v, r, rest') => other o' ++ TStr v :: other r ++ rest'
        | None => t :: acc
        end
      | _ => t :: acc
      end
    | None => t :: acc
    end
  end.

Definition skeleton (s : str) : option (list tok) :=
  option_map (fun ts => fold_right fold_step [] ts) (lex LOut [] s).

(* ------------------------------------------------------------------ XML attribute values (Manifest.make_file_entry) *)

Definition s_amp : str := [38;97;109;112;59].       (* &amp; *)
Definition s_lt : str := [38;108;116;59].           (* &lt; *)
Definition s_gt : str := [38;103;116;59].           (* &gt; *)
Definition s_quot : str := [38;113;117;111;116;59]. (* &quot; *)
Definition s_apos : str := [38;97;112;111;115;59].  (* &apos; *)
Definition s_tab : str := [38;35;57;59].            (* &#9; *)
Definition s_nl : str := [38;35;49;48;59].          (* &#10; *)
Definition s_cr : str := [38;35;49;51;59].          (* &#13; *)

Definition xml_escape_char (c : chr) : str :=
  if c =? 38 then s_amp else if c =? 60 then s_lt else if c =? 62 then s_gt else if c =? 34 then s_quot
  else if c =? 9 then s_tab else if c =? 10 then s_nl else if c =? 13 then s_cr else [c].

(* repaired make_file_entry: Element.set_attribute, i.e. what the serializer writes between double quotes
   (as libxml2 does: & < > DQ as entity references, tab / newline / carriage return as character references) *)
Fixpoint xml_attr_escape (v : str) : str :=
  match v with
  | [] => []
  | c :: r => xml_escape_char c ++ xml_attr_escape r
  end.

(* pinned make_file_entry: the raw value between double quotes *)
Definition xml_attr_pinned (v : str) : str := v.

(* digits of a character reference up to the semicolon *)
Fixpoint read_dec (s : str) (acc : N) (seen : bool) : option (N * str) :=
  match s with
  | [] => None
  | c :: r => if c =? 59 then (if seen then Some (acc, r) else None)
              else if (48 <=? c) && (c <=? 57) then read_dec r (acc * 10 + (c - 48)) true
              else None
  end.
Fixpoint read_hex (s : str) (acc : N) (seen : bool) : option (N * str) :=
  match s with
  | [] => None
  | c :: r => if c =? 59 then (if seen then Some (acc, r) else None)
              else if (48 <=? c) && (c <=? 57) then read_hex r (acc * 16 + (c - 48)) true
              else if (97 <=? c) && (c <=? 102) then read_hex r (acc * 16 + (c - 87)) true
              else if (65 <=? c) && (c <=? 70) then read_hex r (acc * 16 + (c - 55)) true
              else None
  end.

(* reader of the content of a double-quoted attribute value up to the closing quote (XML 1.0 AttValue): no raw
   less-than sign; an ampersand only as one of the five predefined entity references or as a character reference;
   returns the value and the rest after the closing quote.  Fuel: one unit per character read. *)
Fixpoint xml_attr_read (fuel : nat) (s : str) (acc : str) : option (str * str) :=
  match fuel with
  | O => None
  | S f =>
    match s with
    | [] => None
    | c :: r =>
      if c =? 34 then Some (rev acc, r)
      else if c =? 60 then None
      else if c =? 38 then
        match strip_prefix s_amp s with Some r' => xml_attr_read f r' (38 :: acc) | None =>
        match strip_prefix s_lt s with Some r' => xml_attr_read f r' (60 :: acc) | None =>
        match strip_prefix s_gt s with Some r' => xml_attr_read f r' (62 :: acc) | None =>
        match strip_prefix s_quot s with Some r' => xml_attr_read f r' (34 :: acc) | None =>
        match strip_prefix s_apos s with Some r' => xml_attr_read f r' (39 :: acc) | None =>
        match r with
        | 35 :: 120 :: r' => match read_hex r' 0 false with Some (n, r'') => xml_attr_read f r'' (n :: acc) | None => None end
        | 35 :: r' => match read_dec r' 0 false with Some (n, r'') => xml_attr_read f r'' (n :: acc) | None => None end
        | _ => None
        end end end end end end
      else xml_attr_read f r (c :: acc)
    end
  end.

(* the value read from  DQ escaped DQ  : must stop exactly at the closing quote we wrote *)
Definition xml_unescape (s : str) : option str :=
  match xml_attr_read (S (length s)) (s ++ [34]) [] with
  | Some (v, []) => Some v
  | _ => None
  end.

(* ------------------------------------------------------------------ statement helpers for the query-level theorem *)

(* lexing of a prefix of a query: tokens completed so far, state reached, pending run (reversed) *)
Fixpoint lexp (m : lexst) (cur : str) (s : str) : list tok * lexst * str :=
  match s with
  | [] => ([], m, cur)
  | c :: r =>
    match m with
    | LOut => if is_quote c then let '(ts, m', cur') := lexp (LIn c) [] r in (other (rev cur) ++ ts, m', cur')
              else if is_ws c then lexp LOut cur r
              else lexp LOut (c :: cur) r
    | LIn q => if c =? q then let '(ts, m', cur') := lexp LOut [] r in (TStr (rev cur) :: ts, m', cur')
               else lexp (LIn q) (c :: cur) r
    end
  end.

Definition noquote (s : str) : bool := forallb (fun c => negb (is_quote c)) s.
Definition nows (s : str) : str := filter (fun c => negb (is_ws c)) s.

(* ------------------------------------------------------------------ unions: does the identifier constrain every branch? *)

(* the token list seen character by character; a string token is one symbol *)
Inductive sym := SChar (c : chr) | SStr (s : str).

Fixpoint flatten (ts : list tok) : list sym :=
  match ts with
  | [] => []
  | TOther o :: r => map SChar o ++ flatten r
  | TStr s :: r => SStr s :: flatten r
  end.

Definition PIPE : chr := 124.

(* One pass over the symbols.  A path is "constrained" when one of its predicates [ ... ] (at the parenthesis
   level of the path) contains the string token v, or when it contains a parenthesised group all of whose union
   branches are constrained.  stack: the (all, cur) of the enclosing parenthesis levels; all = every finished
   branch of this level is constrained; cur = the branch being read is constrained; bd = depth inside [ ].
   Inside a predicate nothing but brackets and string tokens is looked at. *)
Fixpoint cov (v : str) (l : list sym) (stack : list (bool * bool)) (all cur : bool) (bd : nat) : bool :=
  match l with
  | [] => match stack with [] => all && cur | _ => false end
  | SStr s :: r =>
      match bd with
      | O => cov v r stack all cur bd
      | S _ => cov v r stack all (cur || str_eqb s v) bd
      end
  | SChar c :: r =>
      match bd with
      | S k => if c =? LBRA then cov v r stack all cur (S bd)
               else if c =? RBRA then cov v r stack all cur k
               else cov v r stack all cur bd
      | O => if c =? LBRA then cov v r stack all cur 1
             else if c =? LPAR then cov v r ((all, cur) :: stack) true false 0
             else if c =? RPAR then
               match stack with
               | (all', cur') :: st => cov v r st all' (cur' || (all && cur)) 0
               | [] => false
               end
             else if c =? PIPE then cov v r stack (all && cur) false 0
             else cov v r stack all cur 0
      end
  end.

(* every node the query can select is constrained by a predicate on the identifier *)
Definition covered (v : str) (ts : list tok) : bool := cov v (flatten ts) [] true false 0.

(* characters that are neither quotes nor [ ] ( ) | : the text of location steps and attribute names *)
Definition plainc (c : chr) : bool :=
  negb (is_quote c || (c =? LBRA) || (c =? RBRA) || (c =? LPAR) || (c =? RPAR) || (c =? PIPE)).
Definition plainb (s : str) : bool := forallb plainc s.
